"""C09 part 2: the Gauss clause.  spec/GaussOracle.tla enumerates the reference elements (simplices, tensor products,
references with a subset of their children, references trimmed by a half space) and emits for each the exact integrals of
all monomials over the region it denotes; this module builds the real references, exports their own decomposition for
the T binding (spec/GaussTable.tla) and compares the real quadrature rules with the oracle:
  sum_i w_i x_i^a  =  integral of x^a   for every monomial of total degree <= p and every scheme degree p up to the
  documented maximum; all points inside the region; weights summing to its volume (also for 'uniform' and 'bezier').
"""

import functools
import operator
import warnings
from fractions import Fraction

import numpy

ATOL = 2e-13
INSIDE_TOL = 1e-12


def cfg_str(cfg):
    return '{}{}{}'.format('*'.join({1: 'line', 2: 'triangle', 3: 'tet'}[k] for k in cfg['d']), '' if cfg['op'] == 'ref' else '.' + cfg['op'], cfg['a'] or '')


def cfg_key(cfg):
    return (tuple(cfg['d']), cfg['op'], tuple(cfg['a']))


def base_ref(d):
    from nutils import element
    return functools.reduce(operator.mul, [element.getsimplex(k) for k in d])


def level_function(cfg):
    """the half space of a "trim" configuration as a function of the element coordinates: h(x) >= 0 is kept"""
    kind, c, keep, o, L, mr = cfg['a']
    d = cfg['d']
    t = o / 2 ** L
    if kind == 0:
        g = lambda x: x[..., c - 1]
    elif kind == 1:
        start = c - 1
        at = 0
        for k in d:
            if at == start:
                dim = k
            at += k
        g = lambda x: x[..., start:start + dim].sum(-1)
    else:
        g = lambda x: x[..., 0] + x[..., 1]
    return (lambda x: g(x) - t) if keep == 0 else (lambda x: t - g(x))


def make_ref(cfg):
    """the real reference of a configuration"""
    ref = base_ref(cfg['d'])
    if cfg['op'] == 'ref':
        return ref
    if cfg['op'] == 'children':
        keep = set(cfg['a'])
        return ref.with_children([cref if i in keep else cref.empty for i, cref in enumerate(ref.child_refs)])
    mr = cfg['a'][5]
    h = level_function(cfg)
    levels = h(ref.getpoints('vertex', mr).coords)
    return ref.trim(levels, maxrefine=mr, ndivisions=8)


def flat_dims(ref):
    from nutils import element
    if isinstance(ref, element.TensorReference):
        return [r.ndims for r in ref._flat_refs]
    if isinstance(ref, element.SimplexReference):
        return [ref.ndims] if ref.ndims else []
    raise TypeError(type(ref).__name__)


def leaves(ref, lin, off):
    """decomposition of a reference the way getpoints walks it: (flat dims of the leaf, linear, offset)"""
    from nutils import element
    if isinstance(ref, element.WithChildrenReference):
        for ctrans, cref in ref.children:
            if cref:
                yield from leaves(cref, lin @ numpy.asarray(ctrans.linear), lin @ numpy.asarray(ctrans.offset) + off)
    elif isinstance(ref, element.MosaicReference):
        for strans in ref.simplex_transforms:
            yield [ref.ndims], lin @ numpy.asarray(strans.linear), lin @ numpy.asarray(strans.offset) + off
    elif isinstance(ref, element.EmptyLike) or not ref:
        return
    else:
        yield flat_dims(ref), lin, off


def dyadic_map(lin, off, maxe=10):
    n = len(off)
    for e in range(maxe + 1):
        A = lin * 2 ** e
        b = off * 2 ** e
        if numpy.all(A == numpy.round(A)) and numpy.all(b == numpy.round(b)):
            return dict(m=n, n=n, e=e, A=[[int(v) for v in row] for row in A], b=[int(v) for v in b])
    return None


def export_pieces(cfg, ref):
    n = sum(cfg['d'])
    out = []
    for d, lin, off in leaves(ref, numpy.eye(n), numpy.zeros(n)):
        F = dyadic_map(lin, off)
        if F is None:
            return None
        out.append(dict(d=d, F=F))
    return out


def parse_exps(key):
    return tuple(int(x) for x in key.strip('<>').split(',') if x.strip())


def oracle_moments(entry):
    """exact integrals (Fraction) of the monomials, summed from the model's term lists"""
    out = {}
    for key, pieces in entry['moments'].items():
        total = Fraction(0)
        for pc in pieces:
            s = sum((Fraction(t[1]) * Fraction(t[2], t[3]) for t in pc['terms']), Fraction(0))
            total += pc['sg'] * pc['det'] * s / 2 ** pc['shift']
        out[parse_exps(key)] = total
    return out


def inside(cfg, pts):
    """largest violation of the model's description of the region (0 = all points inside)"""
    d = cfg['d']
    worst = 0.
    at = 0
    for k in d:      # the simplex factors of the base reference
        x = pts[:, at:at + k]
        worst = max(worst, float((-x).max(initial=0.)), float((x.sum(1) - 1).max(initial=0.)))
        at += k
    return worst


def inside_region(entry, pts):
    cfg = entry['cfg']
    worst = inside(cfg, pts)
    if cfg['op'] == 'trim':
        worst = max(worst, float((-level_function(cfg)(pts)).max(initial=0.)))
    elif cfg['op'] == 'children':
        # in at least one kept child: invert the model's child maps
        best = numpy.full(len(pts), numpy.inf)
        for pc in entry['pieces']:
            A = numpy.array(pc['F']['A'], dtype=float) / 2 ** pc['F']['e']
            b = numpy.array(pc['F']['b'], dtype=float) / 2 ** pc['F']['e']
            xi = numpy.linalg.solve(A, (pts - b).T).T
            viol = numpy.zeros(len(pts))
            at = 0
            for k in pc['d']:
                x = xi[:, at:at + k]
                viol = numpy.maximum(viol, numpy.maximum((-x).max(1), x.sum(1) - 1))
                at += k
            best = numpy.minimum(best, viol)
        worst = max(worst, float(best.max(initial=0.)))
    return worst


def check_entry(entry, degrees=None):
    """compare the real quadrature rules of one configuration with the oracle; returns dict(fails=[...], rules=n, moments=n)"""
    cfg = entry['cfg']
    label = cfg_str(cfg)
    out = dict(fails=[], rules=0, moments=0, label=label, skipped=None)

    def fail(key, what, **data):
        out['fails'].append((key, '{}: {}'.format(label, what), dict(cfg=cfg, **data)))

    try:
        ref = make_ref(cfg)
    except NotImplementedError as e:
        out['skipped'] = 'reference construction not implemented'
        return out
    except Exception as e:
        out['skipped'] = 'reference construction raised {}'.format(type(e).__name__)
        return out
    kind = type(ref).__name__
    moments = oracle_moments(entry)
    volume = moments[(0,) * sum(cfg['d'])]
    maxp = entry['deg']
    for p in (degrees or range(1, maxp + 1)):
        if p > maxp:
            continue
        try:
            with warnings.catch_warnings():
                warnings.simplefilter('ignore')
                pts = ref.getpoints('gauss', p)
                coords = numpy.asarray(pts.coords)
                weights = numpy.asarray(pts.weights)
        except Exception as e:
            fail('gauss:raises-{}:{}'.format(type(e).__name__, kind), 'getpoints("gauss", {}) raised {!r}'.format(p, e))
            continue
        out['rules'] += 1
        if coords.shape != (pts.npoints, sum(cfg['d'])) or weights.shape != (pts.npoints,):
            fail('gauss:shape:' + kind, 'degree {}: coords {} weights {} npoints {}'.format(p, coords.shape, weights.shape, pts.npoints))
            continue
        w = inside_region(entry, coords)
        if w > INSIDE_TOL:
            fail('gauss:outside:' + kind, 'degree {}: a point lies {} outside the element'.format(p, w), degree=p)
        bad = []
        for a, exact in moments.items():
            if sum(a) > p:
                continue
            out['moments'] += 1
            got = float(numpy.dot(weights, numpy.prod(coords ** numpy.array(a), axis=1))) if len(a) else float(weights.sum())
            if abs(got - float(exact)) > ATOL:
                bad.append((a, got, float(exact)))
        if bad:
            a, got, exact = min(bad, key=lambda t: (sum(t[0]), t[0]))
            what = 'volume' if sum(a) == 0 else 'exactness'
            fail('gauss:{}:{}'.format(what, kind), 'degree {}: sum w x^{} = {!r}, exact integral {!r} ({} monomials of degree <= {} differ)'.format(
                p, list(a), got, exact, len(bad), p), degree=p, monomial=list(a), got=got, exact=exact)
    # other schemes: points inside, weights sum to the volume
    for scheme, args in (('uniform', (1, 2, 3)), ('bezier', (2, 3, 4))):
        for n in args:
            try:
                with warnings.catch_warnings():
                    warnings.simplefilter('ignore')
                    pts = ref.getpoints(scheme, n)
                    coords = numpy.asarray(pts.coords)
                    weights = numpy.asarray(pts.weights)
            except Exception as e:
                out.setdefault('unsupported', []).append((scheme, n, type(e).__name__))
                continue
            out['rules'] += 1
            w = inside_region(entry, coords)
            if w > INSIDE_TOL:
                fail('{}:outside:{}'.format(scheme, kind), '{} {}: a point lies {} outside the element'.format(scheme, n, w))
            if abs(float(weights.sum()) - float(volume)) > ATOL:
                fail('{}:volume:{}'.format(scheme, kind), '{} {}: weights sum to {!r}, volume {!r}'.format(scheme, n, float(weights.sum()), float(volume)))
    return out


# ---------------------------------------------------------------------------
# T binding: the configurations of a GaussOracle cfg, enumerated like the spec does (the harness checks afterwards that TLC
# visited exactly these), and the decomposition of the real reference of each

MC = dict(MCRefs1=[(1,), (2,), (1, 1)],
          MCRefs2=[(1,), (2,), (3,), (1, 1), (1, 2), (2, 1), (1, 1, 1)],
          MCRefsQ=[(1,), (2,), (3,), (1, 1), (1, 2)],
          MCTrim2=[(1,), (2,), (1, 1)],
          MCTrim3=[(1,), (2,), (1, 1), (3,), (1, 2), (1, 1, 1)],
          MCLevels1=[1], MCLevels2=[1, 2], MCRefine0=[0], MCRefine01=[0, 1])


def cfg_constants(text):
    out = {}
    for line in text.splitlines():
        parts = line.split()
        if len(parts) == 3 and parts[1] == '<-':
            out[parts[0]] = MC[parts[2]]
    return out


def child_sets(d):
    nc = 2 ** sum(d)
    if nc <= 4:
        return [[k for k in range(nc) if m >> k & 1] for m in range(1, 2 ** nc - 1)]
    sets = [{0}, {nc - 1}, set(range(nc - 1)), {k for k in range(nc) if k % 2 == 0}, {k for k in range(nc) if k >= nc // 2}, {1, nc - 2}]
    return [sorted(s) for s in {frozenset(s) for s in sets}]


def trim_args(d, levels, refines):
    n = sum(d)
    starts = {}
    at = 1
    for k in d:
        starts[at] = k
        at += k
    out = set()
    for L in levels:
        for mr in refines:
            for keep in (0, 1):
                for o in range(1, 8):
                    for c in range(1, n + 1):
                        if o <= 3:
                            out.add((0, c, keep, o, L, mr))
                            if starts.get(c, 0) >= 2:
                                out.add((1, c, keep, o, L, mr))
                    if tuple(d) == (1, 1):
                        out.add((2, 1, keep, o, L, mr))
    return sorted(a for a in out if a[3] < (2 if a[0] == 2 else 1) * 2 ** a[4] and (a[3] % 2 == 1 or a[4] == 1))


def enumerate_cfgs(consts):
    cfgs = []
    for d in consts['RefTypes']:
        cfgs.append(dict(d=list(d), op='ref', a=[]))
        for s in child_sets(d):
            cfgs.append(dict(d=list(d), op='children', a=list(s)))
        if d in consts['TrimRefs']:
            for a in trim_args(d, consts['TrimLevels'], consts['MaxRefine']):
                cfgs.append(dict(d=list(d), op='trim', a=list(a)))
    return cfgs


def export_row(cfg):
    """[cfg, pieces, skip, kind] for the table: the decomposition of the real reference, or why there is none"""
    try:
        ref = make_ref(cfg)
    except Exception as e:
        return dict(cfg=cfg, pieces=[], skip='construction raised {}'.format(type(e).__name__), kind='')
    pieces = export_pieces(cfg, ref)
    if pieces is None:
        return dict(cfg=cfg, pieces=[], skip='decomposition is not dyadic', kind=type(ref).__name__)
    if not pieces:
        return dict(cfg=cfg, pieces=[], skip='reference is empty', kind=type(ref).__name__)
    return dict(cfg=cfg, pieces=pieces, skip='', kind=type(ref).__name__)
