\* spec mutant / design-level finding: the code as written, with the property demanded of it.
\* TLC is EXPECTED to report a violation of CertifiedAsWritten (or NoSilentAsWritten).
SPECIFICATION Spec
CONSTANTS
  Methods = {"direct", "newton", "reuse", "linesearch", "arnoldi"}
  Vals = {0, 1, 2, 4, 999, 1000}
  Tols = {0, 1}
  MinIters = {0, 1}
  MaxIters = {1, 2, 99}
  LModes = {"none", "abs", "rel"}
  MaxDraw = 4
  Variants = {FALSE}
  Emitting = FALSE
INVARIANT TypeOK
INVARIANT CertifiedAsWritten
INVARIANT NoSilentAsWritten
CHECK_DEADLOCK FALSE
