\* quick, exhaustive: every sequence of <= 2 merge sets of <= 3 indices out of <= 4, condense or not
SPECIFICATION Spec
CONSTANTS
  MaxN = 4
  MaxSets = 2
  MaxLen = 3
  Mutant = "merge-max"
INVARIANT TypeOK
INVARIANT Downwards
INVARIANT RootsAreReps
INVARIANT Result
INVARIANT Docstring

CHECK_DEADLOCK FALSE
