\* random histories of 3 calls for the replay (simulation, seeded); the whole history is emitted with the model's results;
\* the clauses that need the containing elements of every successor are left to the exhaustive runs
SPECIFICATION SimSpec
CONSTANTS
  MaxCalls = 3
  MemoAlways = FALSE
  TopoIds = {"line3", "line4r", "line2s", "line4m", "rect32", "rect32r", "rect33m"}
  NTargetSets = 4
INVARIANT ImageOK
INVARIANT MemoSound
CHECK_DEADLOCK FALSE
