--------------------------- MODULE PointwiseDeriv ---------------------------
(***************************************************************************)
(* C04, transcendental functions (table binding "T").  The exact ArraySem  *)
(* semantics has no model of sin, exp, ...; for these the defining         *)
(* property of a derivative is stated directly and TLC evaluates it on a   *)
(* table exported from the live code (env VF_TABLE):                       *)
(*   rows [cls, arg, x, h, fp, fm, d]  -- all numbers are integers in      *)
(*   units of 10^-6: fp = f(x+h e_arg), fm = f(x-h e_arg) evaluated by     *)
(*   the real evaluable, d = the value of evaluable.derivative(f, x_arg)   *)
(*   at x, h = 10^-3.                                                      *)
(* CentralDifference: | fp - fm - 2 h d | <= Tol, where Tol covers the     *)
(* h^2 f''' / 3 truncation term for the sampled points (|f'''| <= 60) and  *)
(* the 10^-6 quantisation of the table.  A wrong sign, a wrong factor or a *)
(* wrong inner function in a derivative rule violates it at the sampled    *)
(* points.                                                                 *)
(***************************************************************************)
EXTENDS Integers, Sequences, TLC, Json, IOUtils

Table == JsonDeserialize(IOEnv.VF_TABLE)
VARIABLE row
IAbs(a) == IF a < 0 THEN -a ELSE a
\* units: 10^-6.  2*h*d with h = 1000 units = 10^-3:  (2 * 1000 * d) / 10^6 = d / 500
Residual(r) == IAbs((r.fp - r.fm) * 500 - r.d)
Tol == 2000       \* units of 10^-6 on the derivative: quantisation of fp, fm (+-0.5 each, x500) plus truncation h^2 f'''/6
CentralDifference == Residual(Table[row]) <= Tol
Emit(x) == PrintT(<<"VF", ToJson(x)>>)
Report == CentralDifference \/ Emit([row |-> row, cls |-> Table[row].cls, residual |-> Residual(Table[row])])
Init == row \in 1..Len(Table)
Next == FALSE /\ UNCHANGED row
Spec == Init /\ [][Next]_row
=============================================================================
