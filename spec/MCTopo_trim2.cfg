\* thorough, exhaustive: 2-D bases, level sets max / min of two half planes (non-convex trimmed elements), 2 operations
SPECIFICATION Spec
CONSTANTS
  Bases <- Bases_trim2
  MaxOps = 2
  MaxSub = 1
  NPat = 1
  OpSet <- Ops_trim2
  TrimRef <- Ref_2
  Mutant = "none"
VIEW View
INVARIANT TypeOK
INVARIANT Disjoint
INVARIANT WithinHull
INVARIANT BoundaryClosed
INVARIANT InterfacesOnce
INVARIANT FacetPartition
INVARIANT CutShared
INVARIANT EmitHist
PROPERTY StepProp
CHECK_DEADLOCK FALSE
