\* quick, exhaustive: all block layouts of at most 2x2 blocks of size at most 1x1 (empty blocks, rows
\* with a single non-empty block, rows with no non-empty block, all-empty)
SPECIFICATION Spec
CONSTANTS
  Forms = {"block"}
  Shapes <- NoShapes
  MinNnz = 0
  MaxNnz = 3
  WildM = 1
  WildN = 1
  WildCooN = 1
  WildNnz = 1
  BlockHeights = {0, 1}
  BlockWidths = {0, 1}
  MaxBlockRows = 2
  MaxBlockCols = 2
  MaxBlockNnz = 1
  Dtypes = {"f", "c"}
  WildDtypes = {"f"}
  Ops = {}
  OpForms = {"block"}
  MaxSteps = 0
  MaxE = 2
  StrictOrder = TRUE
  LowerBound = TRUE
  CacheCopies = TRUE
INVARIANT TypeOK
INVARIANT AcceptIffValid
INVARIANT ReasonsIffInvalid
INVARIANT BackendGetsValid
INVARIANT Faithful
INVARIANT FaithfulInput
INVARIANT CompressCorrect
INVARIANT BlockFaithful
INVARIANT PickleFaithful
INVARIANT CacheTransparent
INVARIANT StepsFaithful
INVARIANT Algebra
INVARIANT EmitBehaviours
CHECK_DEADLOCK FALSE
