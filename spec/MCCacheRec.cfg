SPECIFICATION Spec
CONSTANTS
  Procs = {p1, p2}
  N = 2
  H = 1
  PLen = 2
  MaxCrash = 1
  MaxRuns = 3
  MaxCorrupt = 1
  CanRaise = TRUE
INVARIANT Transparent
INVARIANT Complete
INVARIANT StoredIsTrue
INVARIANT MutexItem
INVARIANT LockHeld
INVARIANT GenGood
INVARIANT InRange
CHECK_DEADLOCK FALSE
