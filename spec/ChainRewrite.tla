---------------------------- MODULE ChainRewrite ----------------------------
(***************************************************************************)
(* C11, design spec of the chain rewritings of src/nutils/transform.py:    *)
(* canonical (31-45), uppermost (52-66) and promote (69-75), one action    *)
(* per iteration of the while loops, on every chain of child and edge      *)
(* items that can be built from the start references (simplices and their  *)
(* tensor products up to dimension MaxDim), optionally below a root Index  *)
(* item, and optionally on the result of a previous rewriting (which       *)
(* contains ScaledUpdim and Identity items).                               *)
(*                                                                         *)
(* Property clauses (invariants):                                          *)
(*   MapPreserved    the affine map of pre \o items \o post equals the map *)
(*                   of the input chain in EVERY state of every loop       *)
(*   WellFormed      consecutive items keep fitting dimensions             *)
(*   InRange         the loops never index outside the item list           *)
(*   Terminates      the number of iterations stays below Fuel(n)          *)
(*   CanonicalDone   the result of canonical admits no further swapdown    *)
(*   OperatorAgrees  the closed-form operators Canonical / Uppermost /     *)
(*                   Promote of TransformChain (used by TransformSeq)      *)
(*                   equal the result of the stepwise loops                *)
(* Complete behaviours are emitted (EmitDone) for the S->C replay.         *)
(***************************************************************************)
EXTENDS TransformChain, Json

CONSTANTS MaxDim,      \* start references have at most this many dimensions
          MaxLen,      \* number of child / edge items appended to the (optional) root
          LongDim,     \* start references of at most LongDim dimensions get chains of up to LongLen items
          LongLen,
          MaxRounds,   \* 0: rewrite built chains only; 1: also rewrite results once more
          WrongSwap    \* spec mutant: FALSE, or TRUE to corrupt one entry of the swap rule

AllRefs == {<<1>>, <<2>>, <<3>>, <<1, 1>>, <<2, 1>>, <<1, 2>>, <<1, 1, 1>>}
StartRefs == {d \in AllRefs : TcSum(d) <= MaxDim}

VARIABLES ref0, chain, cur, pc, alg, nd, pre, items, post, p, steps, round,
          map0     \* the affine map of the input chain, computed when a rewriting starts
vars == <<ref0, chain, cur, pc, alg, nd, pre, items, post, p, steps, round, map0>>

N0 == TcSum(ref0)
Whole == pre \o items \o post

\* the (possibly mutated) swap used by the loops of this machine
MSwapDown(a, b) == LET sw == SwapDown(a, b)
                   IN IF WrongSwap /\ sw # NoSwap /\ sw[1].t = "SE" /\ sw[1].c[2] = 0 /\ sw[1].c[1] >= 2
                      THEN <<MkSE(sw[1].c[1], 1), sw[2]>> ELSE sw
MCanonStep(its, q) ==
    LET sw == MSwapDown(its[q], its[q + 1])
    IN IF sw # NoSwap THEN <<[[its EXCEPT ![q] = sw[1]] EXCEPT ![q + 1] = sw[2]], IF q > 1 THEN q - 1 ELSE q>>
       ELSE <<its, q + 1>>

Init == /\ ref0 \in StartRefs
        /\ chain \in {<<>>, <<MkX(TcSum(ref0), 0)>>}
        /\ cur = ref0
        /\ pc = "build" /\ alg = "none" /\ nd = 0
        /\ pre = <<>> /\ items = <<>> /\ post = <<>> /\ p = 0 /\ steps = 0 /\ round = 0
        /\ map0 = IdMap(0)

Built == Len(SelectSeq(chain, LAMBDA it : it.t # "X"))
LenBound == IF TcSum(ref0) <= LongDim /\ LongLen > MaxLen THEN LongLen ELSE MaxLen
AddChild == /\ pc = "build" /\ round = 0 /\ Built < LenBound
            /\ \E it \in ChildItems(cur) : chain' = Append(chain, it)
            /\ UNCHANGED <<ref0, cur, pc, alg, nd, pre, items, post, p, steps, round, map0>>
AddEdge == /\ pc = "build" /\ round = 0 /\ Built < LenBound /\ TcSum(cur) >= 1
           /\ \E it \in EdgeItems(cur) : chain' = Append(chain, it) /\ cur' = EdgeFromRef(cur, EdgeFactor(it))
           /\ UNCHANGED <<ref0, pc, alg, nd, pre, items, post, p, steps, round, map0>>

Begin(a, n, pr, its, po, q, state) ==
    /\ alg' = a /\ nd' = n /\ pre' = pr /\ items' = its /\ post' = po /\ p' = q /\ pc' = state /\ steps' = 0
    /\ map0' = ChainMap(chain, N0)
    /\ UNCHANGED <<ref0, chain, cur, round>>
StartCanonical == /\ pc = "build" /\ Len(chain) >= 1
                  /\ Begin("canonical", 0, <<>>, chain, <<>>, 1, IF Len(chain) < 2 THEN "done" ELSE "canon")
StartUppermost == /\ pc = "build" /\ Len(chain) >= 1
                  /\ Begin("uppermost", 0, <<>>, chain, <<>>, Len(chain), IF Len(chain) < 2 THEN "done" ELSE "upper")
StartPromote == /\ pc = "build" /\ Len(chain) >= 1
                /\ \E n \in 0..N0 :
                     LET ks == PromoteSplit(chain, n)
                     IN IF ks = {} THEN Begin("promote", n, <<>>, chain, <<>>, 0, "done")
                        ELSE LET k == CHOOSE x \in ks : \A y \in ks : x <= y
                             IN Begin("promote", n, <<>>, TcPre(chain, k), TcPost(chain, k), 1, "canon")

\* one iteration of canonical's loop: the two branches are separate actions
CanonSwap == /\ pc = "canon" /\ Len(items) >= 2 /\ CanonGo(items, p)
             /\ MSwapDown(items[p], items[p + 1]) # NoSwap
             /\ items' = MCanonStep(items, p)[1] /\ p' = MCanonStep(items, p)[2] /\ steps' = steps + 1
             /\ UNCHANGED <<ref0, chain, cur, pc, alg, nd, pre, post, round, map0>>
CanonSkip == /\ pc = "canon" /\ Len(items) >= 2 /\ CanonGo(items, p)
             /\ MSwapDown(items[p], items[p + 1]) = NoSwap
             /\ p' = p + 1 /\ steps' = steps + 1
             /\ UNCHANGED <<ref0, chain, cur, pc, alg, nd, pre, items, post, round, map0>>
CanonExit == /\ pc = "canon" /\ (Len(items) < 2 \/ ~CanonGo(items, p))
             /\ IF alg = "promote"
                THEN /\ pre' = items /\ items' = post /\ post' = <<>> /\ p' = Len(post)
                     /\ pc' = IF Len(post) < 2 THEN "done" ELSE "upper"
                ELSE /\ pc' = "done" /\ UNCHANGED <<pre, items, post, p>>
             /\ UNCHANGED <<ref0, chain, cur, alg, nd, steps, round, map0>>
UpperSwap == /\ pc = "upper" /\ UpperGo(items, p) /\ SwapUp(items[p - 1], items[p]) # NoSwap
             /\ items' = UpperStep(items, p)[1] /\ p' = UpperStep(items, p)[2] /\ steps' = steps + 1
             /\ UNCHANGED <<ref0, chain, cur, pc, alg, nd, pre, post, round, map0>>
UpperSkip == /\ pc = "upper" /\ UpperGo(items, p) /\ SwapUp(items[p - 1], items[p]) = NoSwap
             /\ p' = p - 1 /\ steps' = steps + 1
             /\ UNCHANGED <<ref0, chain, cur, pc, alg, nd, pre, items, post, round, map0>>
UpperExit == /\ pc = "upper" /\ ~UpperGo(items, p)
             /\ pc' = "done"
             /\ UNCHANGED <<ref0, chain, cur, alg, nd, pre, items, post, p, steps, round, map0>>
\* feed the result to another rewriting; only results with ScaledUpdim / Identity items are new inputs
\* (all other results are chains of child / edge items, which are inputs of this machine anyway)
Refeed == /\ pc = "done" /\ round < MaxRounds /\ Whole # chain
          /\ \E k \in 1..Len(Whole) : Whole[k].t \in {"SU", "I", "T2"} /\ (Whole[k].t = "T2" => Whole[k].s[1].t = "SU")
          /\ chain' = Whole /\ round' = round + 1 /\ pc' = "build"
          /\ alg' = "none" /\ nd' = 0 /\ pre' = <<>> /\ items' = <<>> /\ post' = <<>> /\ p' = 0 /\ steps' = 0
          /\ UNCHANGED <<ref0, cur, map0>>

Next == \/ AddChild \/ AddEdge \/ StartCanonical \/ StartUppermost \/ StartPromote
        \/ CanonSwap \/ CanonSkip \/ CanonExit \/ UpperSwap \/ UpperSkip \/ UpperExit \/ Refeed
Spec == Init /\ [][Next]_vars

\* ------------------------------------------------------------------ property clauses
Running == pc \in {"canon", "upper", "done"}
MapPreserved == Running => ChainMap(Whole, N0) = map0
Map0IsInputMap == Running => map0 = ChainMap(chain, N0)
WellFormed == WellFormedChain(chain) /\ (Running => WellFormedChain(Whole))
InRange == /\ (pc = "canon" /\ Len(items) >= 2) => (p >= 1 /\ p <= Len(items) /\ (CanonGo(items, p) => p < Len(items)))
           /\ pc = "upper" => (p >= 1 /\ p <= Len(items) /\ (UpperGo(items, p) => p >= 2))
Terminates == steps <= Fuel(Len(chain))
CanonicalDone == (pc = "done" /\ alg = "canonical") => IsCanonical(items)
OperatorAgrees == pc = "done" =>
                     Whole = (IF alg = "canonical" THEN Canonical(chain)
                              ELSE IF alg = "uppermost" THEN Uppermost(chain)
                              ELSE Promote(chain, nd))
\* a promoted chain that reaches ndims stays at ndims or above it afterwards, never below it before
DimsKept == (pc = "done") => (ChainToDims(Whole, N0) = ChainToDims(chain, N0) /\ ChainFromDims(Whole, N0) = ChainFromDims(chain, N0))

Emit(x) == PrintT(<<"VF", ToJson(x)>>)
EmitDone == pc = "done" => Emit([chain |-> chain, alg |-> alg, nd |-> nd, out |-> Whole, map |-> map0, steps |-> steps])
=============================================================================
