------------------------------ MODULE MCSubst ------------------------------
(***************************************************************************)
(* C13: vocabularies ("families") of the Subst machine.  The harness may   *)
(* add a generated module MCSubstX that EXTENDS this one and defines       *)
(* VFFamilies for the simulation runs.                                     *)
(***************************************************************************)
EXTENDS Subst

Fam(args, consts, fields, ops, maxops, maxleaves, maxdeg, manips, rkinds, peers, maxman, minman, nbad, asgs) ==
    [args |-> args, consts |-> consts, fields |-> fields, ops |-> ops, maxops |-> maxops, maxleaves |-> maxleaves,
     maxdeg |-> maxdeg, manips |-> manips, rkinds |-> rkinds, peers |-> peers, maxman |-> maxman, minman |-> minman, nbad |-> nbad, asgs |-> asgs]

AllOps == {"Add", "Mul", "Neg", "Pow", "Sum", "Take", "Dot", "Outer"}
AllManips == {"Replace", "Lin", "Lin2", "Deriv", "Factor", "Int"}
AllKinds == {"id", "arg", "const", "scale", "self", "sum2", "sq", "mix", "contract", "swap", "chain", "cross", "bad"}
Renamings == {"id", "arg", "swap", "chain"}
AllArgs == 1..14

\* ---- quick, exhaustive
QuickFamilies == <<
  \* 1: every replacement kind (incl. refused ones) once, on every function with at most one operation over u, v
  Fam({1, 2}, {}, {}, {"Add", "Mul"}, 1, 2, 3, {"Replace"}, AllKinds, {1, 2, 3}, 1, 1, 1, {1, 2}),
  \* 2: two manipulations out of renamings / linearize / derivative / factor on u and u * u (interleaved with the construction)
  Fam({1}, {}, {}, {"Mul"}, 1, 2, 2, {"Replace", "Lin", "Deriv", "Factor"}, {"arg", "swap"}, {1, 2, 3}, 2, 2, 0, {1, 3}),
  \* 3: matrices and scalars: m @ u, sum, take, outer with one manipulation of every kind
  Fam({1, 4, 7}, {6}, {}, {"Mul", "Dot", "Sum", "Take", "Outer"}, 1, 2, 3, {"Replace", "Lin", "Lin2", "Deriv", "Factor"},
      {"arg", "const", "scale", "sq", "contract", "swap", "bad"}, {1, 2, 4, 5, 7, 8}, 1, 1, 1, {1, 2}),
  \* 4: integrands on the mesh: field(X) (times s, squared), two manipulations before / after integration
  Fam({4}, {}, {9}, {"Mul"}, 1, 2, 2, {"Replace", "Lin", "Deriv", "Factor", "Int"},
      {"arg", "const"}, {4, 5, 9, 10}, 2, 2, 0, {1, 2}),
  \* 5: integer arguments
  Fam({11, 4}, {8}, {}, {"Mul", "Add", "Pow"}, 1, 2, 3, {"Replace"}, {"id", "arg", "const", "scale", "self", "swap", "bad"}, {11, 12, 4, 5}, 1, 0, 1, {1, 2}),
  \* 6: linearize in one and in two arguments of the same shape (the two directions may coincide), then renamed
  Fam({1, 2}, {}, {}, {"Mul", "Add"}, 1, 2, 2, {"Lin", "Lin2", "Replace"}, {"swap"}, {1, 2, 3}, 1, 1, 0, {1, 2}),
  \* 7: a rank-3 argument w (2,2,2): w, w * w, sum(w * w); factor followed by linearize (multi-index ravelling in Monomial)
  Fam({13}, {}, {}, {"Mul", "Sum"}, 2, 2, 2, {"Factor", "Lin"}, {}, {13, 14}, 2, 2, 0, {1, 2})
>>

\* ---- compact vocabulary in which EVERY action of the machine is enabled (run with TLC's per-action coverage: vacuity guard)
CovFamilies == <<
  Fam({4}, {}, {9}, {"Mul"}, 1, 2, 2, {"Replace", "Lin", "Deriv", "Factor", "Int"}, {"arg", "swap", "bad"}, {4, 5, 9, 10}, 1, 1, 1, {1})
>>

\* ---- thorough, exhaustive: the quick vocabularies one step deeper / wider
ThoroughFamilies == <<
  \* 1: two replacements of every kind in sequence
  Fam({1, 2}, {4}, {}, {"Add", "Mul", "Pow"}, 1, 2, 3, {"Replace"}, AllKinds, {1, 2, 3}, 2, 1, 0, {1, 2}),
  \* 2: two manipulations of every kind on functions of u, v
  Fam({1, 2}, {}, {}, {"Mul", "Pow", "Add"}, 1, 2, 3, {"Replace", "Lin", "Lin2", "Deriv", "Factor"}, Renamings \cup {"sq", "cross"}, {1, 2, 3}, 2, 1, 0, {1, 3}),
  \* 3: matrices and scalars, two manipulations
  Fam({1, 4, 7}, {6}, {}, {"Mul", "Dot", "Sum", "Take", "Outer"}, 1, 2, 3, {"Replace", "Lin", "Lin2", "Deriv", "Factor"},
      {"arg", "const", "scale", "sq", "contract", "swap", "bad"}, {1, 2, 4, 5, 7, 8}, 2, 1, 1, {1}),
  \* 4: integrands on the mesh, up to three manipulations around the integral
  Fam({4}, {}, {9}, {"Mul", "Add"}, 1, 2, 3, {"Replace", "Lin", "Deriv", "Factor", "Int"},
      {"arg", "const", "swap"}, {4, 5, 9, 10}, 3, 2, 0, {1}),
  \* 5: integer arguments
  Fam({11, 4, 12}, {8}, {}, {"Mul", "Add", "Pow"}, 1, 2, 3, {"Replace", "Lin", "Deriv"}, AllKinds, {11, 12, 4, 5}, 2, 0, 1, {1})
>>

\* ---- small instance for the spec mutants (must violate an invariant)
MutantFamilies == <<
  Fam({1, 2}, {}, {}, {"Mul", "Pow"}, 1, 2, 3, {"Replace", "Lin", "Deriv", "Factor"}, Renamings, {1, 2, 3}, 2, 1, 0, {1, 2, 3})
>>

\* ---- simulation: everything, deeper
SimFamilies == <<
  Fam({1, 2, 4, 7}, {1, 4, 6}, {}, AllOps, 4, 4, 4, AllManips, AllKinds, {1, 2, 3, 4, 5, 6, 7, 8}, 4, 1, 5, {1, 2, 3}),
  Fam({4, 9}, {2, 7}, {9, 10}, {"Add", "Mul", "Pow", "Neg", "Sum", "Take", "Dot"}, 3, 3, 4, AllManips, AllKinds \ {"bad"}, {4, 5, 6, 9, 10}, 4, 1, 3, {1, 2, 3}),
  Fam({1, 2, 3, 4, 5}, {2, 5}, {}, {"Add", "Mul", "Pow", "Neg", "Dot", "Sum"}, 3, 4, 4, {"Replace", "Factor", "Lin", "Deriv"}, AllKinds \ {"bad"}, {1, 2, 3, 4, 5, 6}, 5, 2, 2, {1, 2, 3}),
  Fam({4, 11, 12, 1}, {8, 1, 9}, {}, {"Add", "Mul", "Pow", "Neg"}, 3, 3, 4, {"Replace", "Lin", "Deriv"}, AllKinds, {1, 2, 4, 5, 11, 12}, 3, 1, 2, {1, 2, 3})
>>
=============================================================================
