\* spec mutant "whole-chain": the tip derivative of a function that lives on the topology of the previous level uses the
\* linear part of the whole chain to the root instead of the tail (the defect fixed in nutils 91b7fdf).  TLC must report a
\* violation of CoarseMeasure (at level 2).
SPECIFICATION Spec
CONSTANTS
  MeshNames = {"line"}
  RefineOn = {"line"}
  MaxLevel = 1
  Refine2On = {"line"}
  GeomIds = {3}
  FieldIds = {2}
  Lattice = 2
  Lattice3 = 1
  IntegrateOn = {}
  BFieldOn = {}
  RefineOnB = {}
  ProdGeomIds = {}
  ProdFieldIds = {}
  GmMutant = "whole-chain"
INVARIANT TypeOK
INVARIANT CoarseMeasure
