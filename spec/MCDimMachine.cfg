SPECIFICATION Spec
CONSTANTS
  BaseOrd <- MCBaseOrd3
  Seeds <- MCSeedsQuick
  Pows <- MCPowsQuick
  MaxSteps = 2
  FullSteps = 1
  LeafDedup = TRUE
  MaxVal = 10000
CONSTRAINT Emit
INVARIANT TypeOK
INVARIANT CacheSound
INVARIANT CacheInjective
INVARIANT NoDimensionlessQuantity
INVARIANT Sound
INVARIANT NoSpuriousReject
CHECK_DEADLOCK FALSE
