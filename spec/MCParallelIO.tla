--------------------------- MODULE MCParallelIO ---------------------------
(* Parallel with configurations loaded from a JSON table exported by the   *)
(* harness from the real generated scripts (env VF_TABLE; binding T), and  *)
(* emission of complete behaviours with the predicted state after every    *)
(* step for the replay into the real code (binding S->C).                  *)
EXTENDS MCParallel, Json, IOUtils

Table == JsonDeserialize(IOEnv.VF_TABLE)
ConfigsTable == {Table[i] : i \in 1..Len(Table)}

\* one simulation run covers the correct bodies and the controls that are wrong on purpose
\* (ids >= 40): the memory related invariants are demanded of the former only
GoodCfg == cfg.id < 40
MutexArraysG == GoodCfg => MutexArrays
NoLostUpdateG == GoodCfg => NoLostUpdate
ExactlyOnceG == GoodCfg => ExactlyOnce
ConfigsReplayAll == ConfigsReplay \cup ConfigsReplayBad

Emit(x) == PrintT(<<"VF", ToJson(x)>>)
EmitBehaviours == (Record /\ (Terminal \/ Stuck)) =>
                    Emit([cfg |-> cfg, hist |-> hist,
                          outcome |-> IF Terminal THEN pc[0] ELSE "stuck",
                          result |-> [a \in Arrs |-> Result(a)], index |-> index])
=============================================================================
