\* simulation: random behaviours of the deep families (VFFamilies is SimFamilies or generated by the harness)
SPECIFICATION Spec
CONSTANTS
  Families <- VFFamilies
  Mutant = "none"
INVARIANT ShapeSound
INVARIANT FvSound
INVARIANT ReplaceIdNoop
INVARIANT SubstLemma
INVARIANT ChainTwoStep
INVARIANT SwapTwice
INVARIANT LinLinear
INVARIANT LinIsDerivContracted
INVARIANT FactorIdentity
INVARIANT FactorIdempotent
INVARIANT RejectSound
CONSTRAINT EmitDone
CONSTRAINT EmitTables
CHECK_DEADLOCK FALSE
