---------------------------- MODULE FuncBuilder ----------------------------
(***************************************************************************)
(* "All compositions of NumPy-API calls on function arrays" as a state     *)
(* machine over the vocabulary of NumpySem (property C07).                 *)
(*                                                                         *)
(* A state is a program: a sequence of nodes in post order.  A node is     *)
(*   [op  |-> "leaf" or the name of a NumPy routine,                       *)
(*    d   |-> operand positions,  p |-> the call's parameters,             *)
(*    nu  |-> TRUE when the value is a function array (FALSE for a raw     *)
(*            Python/ndarray operand -- NumPy only dispatches to the code  *)
(*            under test when at least one operand is a function array),   *)
(*    val |-> the value PREDICTED by NumpySem at every point of the chosen *)
(*            sample: a sequence (one entry per point) of arrays, or of    *)
(*            the verdict REJECT / TYPEERR]                                *)
(* One action per call family; the action computes the new node's          *)
(* prediction from the operands' predictions.  A node whose verdict is     *)
(* REJECT / TYPEERR is terminal.  Leaves: literal constants, named         *)
(* arguments (values fixed here, handed to sample.eval by the harness),    *)
(* raw Python / ndarray operands, and POINT-DEPENDENT leaves (coordinate,  *)
(* element index, basis) whose exact per-point values on each sample are   *)
(* the model constants `Samples` below; the harness asserts at start-up    *)
(* that nutils evaluates those leaves to exactly these constants.          *)
(*                                                                         *)
(* Normal form (as ExprBuilder): a new call uses the last node as one of   *)
(* its operands; sharing of earlier nodes is free.  Complete states (every *)
(* node but the last is used) are emitted with the prediction; the harness *)
(* replays them into nutils.                                               *)
(***************************************************************************)
EXTENDS NumpySem, Json

CONSTANTS Families,     \* sequence of [ops, leaves, samples, maxops, maxleaves, maxunused, wide]; one is chosen initially
          EmitMin,      \* emit only programs with at least this many calls
          EmitTables    \* TRUE: the initial states emit the leaf/sample tables (binding of the sample model)

VARIABLES nodes, fam, smp
vars == <<nodes, fam, smp>>

\* ------------------------------------------------------------------ leaves
Z(n) == CInt(n)
Q(n, d) == CQ(n, d)
Glob(name, src, sh, dt, val) == [name |-> name, src |-> src, sh |-> sh, dt |-> dt, val |-> val]
\* named arguments ("arg"), literal constants wrapped as function arrays ("const"), raw operands ("raw")
GlobalLeaves == <<
  Glob("af2", "arg", <<2>>, "f", <<Q(3, 2), Z(-2)>>),
  Glob("af23", "arg", <<2, 3>>, "f", <<Z(1), Z(-2), Z(4), Q(1, 2), Z(3), Z(-1)>>),
  Glob("af22", "arg", <<2, 2>>, "f", <<Z(2), Z(1), Z(1), Z(1)>>),
  Glob("af0", "arg", <<>>, "f", <<Z(2)>>),
  Glob("af3", "arg", <<3>>, "f", <<Z(1), Z(2), Q(-1, 2)>>),
  Glob("af223", "arg", <<2, 2, 3>>, "f", <<Z(-3), Z(-2), Z(-1), Z(0), Z(1), Z(2), Z(3), Z(4), Z(5), Z(6), Z(7), Z(8)>>),
  Glob("ai2", "arg", <<2>>, "i", <<Z(1), Z(0)>>),
  Glob("ai3", "arg", <<3>>, "i", <<Z(2), Z(-1), Z(0)>>),
  Glob("ab2", "arg", <<2>>, "b", <<Z(1), Z(0)>>),
  Glob("ac2", "arg", <<2>>, "c", <<CC(1, 1, 2, 1), CC(0, 1, -1, 1)>>),
  Glob("cf3", "const", <<3>>, "f", <<Q(1, 2), Z(-1), Z(2)>>),
  Glob("cf13", "const", <<1, 3>>, "f", <<Z(1), Z(0), Z(-2)>>),
  Glob("cf21", "const", <<2, 1>>, "f", <<Z(2), Q(-1, 2)>>),
  Glob("ci23", "const", <<2, 3>>, "i", <<Z(0), Z(1), Z(2), Z(2), Z(0), Z(1)>>),
  Glob("cb23", "const", <<2, 3>>, "b", <<Z(1), Z(0), Z(1), Z(0), Z(0), Z(1)>>),
  Glob("ci0", "const", <<>>, "i", <<Z(2)>>),
  Glob("cf33", "const", <<3, 3>>, "f", <<Z(2), Z(0), Z(1), Z(1), Z(1), Z(0), Z(0), Z(1), Z(1)>>),
  Glob("cc22", "const", <<2, 2>>, "c", <<CC(1, 1, 0, 1), CC(0, 1, 1, 1), CC(0, 1, -1, 1), CC(2, 1, 0, 1)>>),
  Glob("cf20", "const", <<2, 0>>, "f", <<>>),
  Glob("cb2", "const", <<2>>, "b", <<Z(0), Z(1)>>),
  Glob("ri", "raw", <<>>, "i", <<Z(2)>>),
  Glob("rf", "raw", <<>>, "f", <<Q(1, 2)>>),
  Glob("rb", "raw", <<>>, "b", <<Z(1)>>),
  Glob("rc", "raw", <<>>, "c", <<CC(0, 1, 1, 1)>>),
  Glob("rn3", "raw", <<3>>, "f", <<Z(1), Z(2), Z(4)>>),
  Glob("rm3", "raw", <<3>>, "f", <<Z(0), Z(1), Z(-1)>>),
  Glob("ri2", "raw", <<2>>, "i", <<Z(1), Z(-1)>>),
  Glob("rin", "raw", <<>>, "i", <<Z(-1)>>),
  Glob("cc0", "const", <<>>, "c", <<CC(1, 1, -1, 1)>>),
  Glob("ci2", "const", <<2>>, "i", <<Z(-3), Z(2)>>),
  \* sorted data for searchsorted / interp
  Glob("cs3", "const", <<3>>, "f", <<Z(-1), Q(1, 2), Z(2)>>),
  Glob("as3", "arg", <<3>>, "f", <<Z(0), Z(1), Z(3)>>),
  \* integer square matrix (det / inv of integers are real)
  Glob("ci22", "const", <<2, 2>>, "i", <<Z(2), Z(1), Z(1), Z(1)>>),
  \* a sorted table that ENDS BELOW the largest coordinate of every sample (searchsorted then returns len = 3 at some points),
  \* and its length as a raw integer (ri = 2 is len - 1)
  Glob("rt3", "raw", <<3>>, "f", <<Z(0), Q(1, 2), Z(1)>>),
  Glob("ri3", "raw", <<>>, "i", <<Z(3)>>)
>>

\* point-dependent leaves: pv = per-point flat values
PtLeaf(name, sh, dt, pv) == [name |-> name, src |-> "pt", sh |-> sh, dt |-> dt, pv |-> pv]
S1(s) == [i \in 1..Len(s) |-> <<s[i]>>]          \* scalar leaf: one value per point
Hat(x0, x1, x2) == <<x0, x1, x2>>
Samples == <<
  \* 1: mesh.line(2, space='X').sample('bezier', 2)
  [name |-> "lineB", np |-> 4, leaves |-> <<
      PtLeaf("X", <<>>, "f", S1(<<Z(0), Z(1), Z(1), Z(2)>>)),
      PtLeaf("EX", <<>>, "i", S1(<<Z(0), Z(0), Z(1), Z(1)>>)),
      PtLeaf("BX", <<3>>, "f", << <<Z(1), Z(0), Z(0)>>, <<Z(0), Z(1), Z(0)>>, <<Z(0), Z(1), Z(0)>>, <<Z(0), Z(0), Z(1)>> >>) >>],
  \* 2: ... .sample('gauss', 1)
  [name |-> "lineG", np |-> 2, leaves |-> <<
      PtLeaf("X", <<>>, "f", S1(<<Q(1, 2), Q(3, 2)>>)),
      PtLeaf("EX", <<>>, "i", S1(<<Z(0), Z(1)>>)),
      PtLeaf("BX", <<3>>, "f", << <<Q(1, 2), Q(1, 2), Z(0)>>, <<Z(0), Q(1, 2), Q(1, 2)>> >>) >>],
  \* 3: ... .sample('uniform', 2)
  [name |-> "lineU", np |-> 4, leaves |-> <<
      PtLeaf("X", <<>>, "f", S1(<<Q(1, 4), Q(3, 4), Q(5, 4), Q(7, 4)>>)),
      PtLeaf("EX", <<>>, "i", S1(<<Z(0), Z(0), Z(1), Z(1)>>)),
      PtLeaf("BX", <<3>>, "f", << <<Q(3, 4), Q(1, 4), Z(0)>>, <<Q(1, 4), Q(3, 4), Z(0)>>, <<Z(0), Q(3, 4), Q(1, 4)>>, <<Z(0), Q(1, 4), Q(3, 4)>> >>) >>],
  \* 4: mesh.rectilinear([2, 1], space='Y').sample('bezier', 2)
  [name |-> "rectB", np |-> 8, leaves |-> <<
      PtLeaf("Y", <<2>>, "f", << <<Z(0), Z(0)>>, <<Z(0), Z(1)>>, <<Z(1), Z(0)>>, <<Z(1), Z(1)>>, <<Z(1), Z(0)>>, <<Z(1), Z(1)>>, <<Z(2), Z(0)>>, <<Z(2), Z(1)>> >>),
      PtLeaf("EY", <<>>, "i", S1(<<Z(0), Z(0), Z(0), Z(0), Z(1), Z(1), Z(1), Z(1)>>)) >>],
  \* 5: product sample  rect('Y').sample('gauss', 1) * line('X').sample('bezier', 2): two point axes (2 x 4)
  [name |-> "prodYX", np |-> 8, leaves |-> <<
      PtLeaf("X", <<>>, "f", S1(<<Z(0), Z(1), Z(1), Z(2), Z(0), Z(1), Z(1), Z(2)>>)),
      PtLeaf("EX", <<>>, "i", S1(<<Z(0), Z(0), Z(1), Z(1), Z(0), Z(0), Z(1), Z(1)>>)),
      PtLeaf("BX", <<3>>, "f", << <<Z(1), Z(0), Z(0)>>, <<Z(0), Z(1), Z(0)>>, <<Z(0), Z(1), Z(0)>>, <<Z(0), Z(0), Z(1)>>,
                                  <<Z(1), Z(0), Z(0)>>, <<Z(0), Z(1), Z(0)>>, <<Z(0), Z(1), Z(0)>>, <<Z(0), Z(0), Z(1)>> >>),
      PtLeaf("Y", <<2>>, "f", << <<Q(1, 2), Q(1, 2)>>, <<Q(1, 2), Q(1, 2)>>, <<Q(1, 2), Q(1, 2)>>, <<Q(1, 2), Q(1, 2)>>,
                                 <<Q(3, 2), Q(1, 2)>>, <<Q(3, 2), Q(1, 2)>>, <<Q(3, 2), Q(1, 2)>>, <<Q(3, 2), Q(1, 2)>> >>),
      PtLeaf("EY", <<>>, "i", S1(<<Z(0), Z(0), Z(0), Z(0), Z(1), Z(1), Z(1), Z(1)>>)) >>],
  \* 6: product sample  line('X').sample('gauss', 1) * rect('Y').sample('gauss', 1): two point axes (2 x 2)
  [name |-> "prodXY", np |-> 4, leaves |-> <<
      PtLeaf("X", <<>>, "f", S1(<<Q(1, 2), Q(1, 2), Q(3, 2), Q(3, 2)>>)),
      PtLeaf("EX", <<>>, "i", S1(<<Z(0), Z(0), Z(1), Z(1)>>)),
      PtLeaf("BX", <<3>>, "f", << <<Q(1, 2), Q(1, 2), Z(0)>>, <<Q(1, 2), Q(1, 2), Z(0)>>, <<Z(0), Q(1, 2), Q(1, 2)>>, <<Z(0), Q(1, 2), Q(1, 2)>> >>),
      PtLeaf("Y", <<2>>, "f", << <<Q(1, 2), Q(1, 2)>>, <<Q(3, 2), Q(1, 2)>>, <<Q(1, 2), Q(1, 2)>>, <<Q(3, 2), Q(1, 2)>> >>),
      PtLeaf("EY", <<>>, "i", S1(<<Z(0), Z(1), Z(0), Z(1)>>)) >>]
>>

NP == Samples[smp].np
GlobalNames == {GlobalLeaves[i].name : i \in 1..Len(GlobalLeaves)}
PtNames == {Samples[smp].leaves[i].name : i \in 1..Len(Samples[smp].leaves)}
GlobalOf(name) == GlobalLeaves[CHOOSE i \in 1..Len(GlobalLeaves) : GlobalLeaves[i].name = name]
PtOf(name) == Samples[smp].leaves[CHOOSE i \in 1..Len(Samples[smp].leaves) : Samples[smp].leaves[i].name = name]
LeafVal(name) ==
    IF name \in GlobalNames
    THEN LET g == GlobalOf(name) IN [pt \in 1..NP |-> [sh |-> g.sh, dt |-> g.dt, v |-> g.val]]
    ELSE LET l == PtOf(name) IN [pt \in 1..NP |-> [sh |-> l.sh, dt |-> l.dt, v |-> l.pv[pt]]]
LeafNu(name) == IF name \in GlobalNames THEN GlobalOf(name).src # "raw" ELSE TRUE

\* ------------------------------------------------------------------ state access
CurFam == Families[fam]
Ops == CurFam.ops
Wide == CurFam.wide = 1
L == Len(nodes)
Nd(k) == nodes[k]
IsLeafNode(k) == Nd(k).op = "leaf"
NOps == Cardinality({k \in 1..L : ~IsLeafNode(k)})
NLeaves == Cardinality({k \in 1..L : IsLeafNode(k)})
Used(k) == \E m \in (k + 1)..L : \E j \in 1..Len(Nd(m).d) : Nd(m).d[j] = k
Unused == {k \in 1..L : ~Used(k)}
T(k) == Nd(k).val[1]                 \* typing representative: shape / kind / verdict do not depend on the point
OkNode(k) == IsVal(T(k))
Rank(k) == NRank(T(k))
Kind(k) == T(k).dt
Nu(k) == Nd(k).nu
Pairs == {ij \in (1..L) \X (1..L) : (ij[1] = L \/ ij[2] = L) /\ (Nu(ij[1]) \/ Nu(ij[2]))}
Triples == {t \in (1..L) \X (1..L) \X (1..L) : (t[1] = L \/ t[2] = L \/ t[3] = L) /\ (Nu(t[1]) \/ Nu(t[2]) \/ Nu(t[3]))}

\* ------------------------------------------------------------------ the calls
ResolveItems(items, A) ==
    [i \in 1..Len(items) |-> IF items[i].k = "node"
                             THEN LET x == A[items[i].a[1]] IN ItArrRT(x.sh, [j \in 1..Len(x.v) |-> NIdx(x.v[j])])
                             ELSE items[i]]
IntsOf(a) == [j \in 1..Len(a.v) |-> NIdx(a.v[j])]
LitArr(sh, vals) == [sh |-> sh, dt |-> "i", v |-> [j \in 1..Len(vals) |-> CInt(vals[j])]]
Apply(op, p, A) ==
    CASE op \in BinaryOps -> NBinary(op, A[1], A[2])
      [] op = "divmod" -> NBinary(IF p[1] = 0 THEN "floor_divide" ELSE "mod", A[1], A[2])
      [] op \in UnaryOps -> NUnary(op, A[1])
      [] op \in ReduceOps -> NReduce(op, A[1], p)
      [] op = "getitem" -> NGetItem(A[1], ResolveItems(p, A))
      [] op = "reshape" -> NReshape(A[1], p)
      [] op = "ravel" -> NRavel(A[1])
      [] op = "transpose" -> IF p.none = 1 THEN NTransposeDefault(A[1]) ELSE NTranspose(A[1], p.ax)
      [] op = "swapaxes" -> NSwapaxes(A[1], p[1], p[2])
      [] op = "moveaxis" -> NMoveaxis(A[1], p[1], p[2])
      [] op = "expand_dims" -> NExpandDims(A[1], p[1])
      [] op = "broadcast_to" -> NBroadcastTo(A[1], p)
      [] op = "repeat" -> NRepeat(A[1], p[1], p[2], p[3])
      [] op = "stack" -> NStack(A, p[1])
      [] op = "concatenate" -> NConcatenate(A, p[1])
      [] op = "take" -> IF p.lit = 1 THEN NTake(A[1], LitArr(p.ish, p.idx), p.axg, p.ax, 1) ELSE NTake(A[1], A[2], p.axg, p.ax, 0)
      [] op = "choose" -> NChoose(A[1], SubSeq(A, 2, Len(A)))
      [] op = "compress" -> NCompress(p.cond, A[1], p.axg, p.ax)
      [] op = "dot" -> NDot(A[1], A[2])
      [] op = "matmul" -> NMatmul(A[1], A[2])
      [] op = "vdot" -> NVdot(A[1], A[2])
      [] op = "cross" -> NCross(A[1], A[2])
      [] op = "einsum" -> NEinsum(p.ins, p.out, p.imp, A)
      [] op = "trace" -> NTrace(A[1], p[1], p[2], p[3])
      [] op = "diagonal" -> NDiagonal(A[1], p[1], p[2], p[3])
      [] op = "det" -> NDet(A[1])
      [] op = "inv" -> NInv(A[1])
      [] op = "norm" -> NNorm(A[1], p[1], p[2])
      [] op = "searchsorted" -> NSearchsorted(A[1], A[2], p[1])
      [] op = "interp" -> NInterp(A[1], A[2], A[3])
      [] OTHER -> Assert(FALSE, <<"FuncBuilder: unknown op", op>>)

\* a call is only made when the nodes it leaves unused can still be consumed by the calls that remain (no dead ends)
Push(op, d, p) ==
    /\ Cardinality(Unused \ {d[i] : i \in 1..Len(d)}) <= 2 * (CurFam.maxops - NOps - 1)
    /\ nodes' = Append(nodes, [op |-> op, d |-> d, p |-> p, nu |-> TRUE,
                               val |-> [pt \in 1..NP |-> Apply(op, p, [i \in 1..Len(d) |-> Nd(d[i]).val[pt]])]])
    /\ UNCHANGED <<fam, smp>>

\* position of a leaf in the pools (symmetry reduction: leaves that are pushed one after the other without a call in between
\* are pushed in pool order -- the calls take their operands in every order anyway)
LeafPos(name) == IF name \in GlobalNames THEN CHOOSE i \in 1..Len(GlobalLeaves) : GlobalLeaves[i].name = name
                 ELSE 100 + CHOOSE i \in 1..Len(Samples[smp].leaves) : Samples[smp].leaves[i].name = name
AddLeaf == /\ NLeaves < CurFam.maxleaves /\ Cardinality(Unused) <= CurFam.maxunused /\ NOps < CurFam.maxops
           /\ \E name \in CurFam.leaves \cap (GlobalNames \cup PtNames) :
                 /\ (L >= 1 /\ IsLeafNode(L) /\ ~Used(L)) => LeafPos(name) >= LeafPos(Nd(L).p)
                 /\ nodes' = Append(nodes, [op |-> "leaf", d |-> <<>>, p |-> name, nu |-> LeafNu(name), val |-> LeafVal(name)])
                 /\ UNCHANGED <<fam, smp>>

\* ---- elementwise
DoBinary == \E op \in (BinaryOps \cap Ops) : \E ij \in Pairs : Push(op, ij, <<>>)
DoDivmod == /\ "divmod" \in Ops /\ \E ij \in Pairs : \E w \in {0, 1} : Push("divmod", ij, <<w>>)
DoUnary == \E op \in (UnaryOps \cap Ops) : Nu(L) /\ Push(op, <<L>>, <<>>)

\* ---- reductions
RSpec(mode, ax, kd) == [mode |-> mode, ax |-> ax, kd |-> kd]
RedSpecs(r) ==
    {RSpec("none", <<>>, 0)} \cup (IF r = 0 THEN {RSpec("int", <<1>>, 0), RSpec("int", <<-2>>, 0)} ELSE {RSpec("int", <<a>>, 0) : a \in (-r - 1)..r})
    \cup (IF Wide THEN {RSpec("tuple", <<0, 1>>, 0), RSpec("tuple", <<1, 0>>, 0), RSpec("tuple", <<0, -1>>, 0), RSpec("tuple", <<-1, -2>>, 0),
                        RSpec("tuple", <<0, 0>>, 0), RSpec("tuple", <<>>, 0), RSpec("tuple", <<0>>, 0), RSpec("tuple", <<0, 1, 2>>, 0),
                        RSpec("tuple", <<2, 0>>, 0), RSpec("tuple", <<0, -2>>, 0),
                        RSpec("none", <<>>, 1), RSpec("tuple", <<0, -1>>, 1)} \cup (IF r = 0 THEN {} ELSE {RSpec("int", <<0>>, 1)})
          ELSE {RSpec("tuple", <<0, -1>>, 0), RSpec("tuple", <<1, 0>>, 0)})
DoReduce == \E op \in (ReduceOps \cap Ops) : Nu(L) /\ \E spec \in RedSpecs(Rank(L)) : Push(op, <<L>>, spec)

\* ---- indexing
NN == 99                                           \* "None" in a slice
SL(s, e, t) == ItSlice(IF s = NN THEN 0 ELSE 1, IF s = NN THEN 0 ELSE s, IF e = NN THEN 0 ELSE 1, IF e = NN THEN 0 ELSE e,
                       IF t = NN THEN 0 ELSE 1, IF t = NN THEN 0 ELSE t)
Rev == SL(NN, NN, -1)
ItemPool == <<
  <<ItInt(0)>>, <<ItInt(-1)>>, <<ItInt(1)>>, <<ItInt(2)>>, <<ItInt(-3)>>,                                             \* 1-5
  <<SL(1, NN, NN)>>, <<SL(NN, -1, NN)>>, <<Rev>>, <<SL(NN, NN, 2)>>, <<SL(1, NN, 2)>>,                                \* 6-10
  <<SL(-1, NN, -2)>>, <<SL(2, 0, -1)>>, <<SL(-1, -4, -2)>>, <<SL(1, 10, NN)>>, <<SL(-5, 2, NN)>>,                     \* 11-15
  <<SL(2, 1, NN)>>, <<SL(NN, NN, -2)>>, <<SL(0, NN, -1)>>, <<SL(5, NN, NN)>>, <<SL(-2, NN, NN)>>,                     \* 16-20
  <<ItFull, ItInt(0)>>, <<ItFull, ItInt(-1)>>, <<ItInt(0), ItInt(1)>>, <<ItEll, ItInt(0)>>, <<ItEll, ItInt(-1)>>,     \* 21-25
  <<ItNew>>, <<ItNew, ItEll>>, <<ItEll, ItNew>>, <<ItFull, ItNew>>, <<ItInt(0), ItNew, ItFull>>,                      \* 26-30
  <<ItNew, ItEll, ItNew, ItInt(1)>>, <<ItEll, Rev>>, <<Rev, SL(1, NN, NN)>>, <<ItFull, Rev>>, <<ItFull, SL(2, 0, -1)>>, \* 31-35
  <<ItFull, ItFull, ItInt(0)>>, <<ItEll, ItEll>>, <<ItInt(0), ItInt(0), ItInt(0)>>, <<ItEll, ItInt(0), ItFull>>, <<ItFull, SL(1, 10, NN)>>, \* 36-40
  <<ItFull, SL(-5, 2, NN)>>, <<ItFull, SL(2, 1, NN)>>, <<ItEll>>, <<ItFull, SL(-1, NN, -2)>>, <<ItInt(-1), Rev>>,      \* 41-45
  <<ItArr(<<2>>, <<1, 0>>)>>, <<ItArr(<<3>>, <<-1, 0, 0>>)>>, <<ItArr(<<2, 2>>, <<0, 1, 1, 0>>)>>, <<ItArr(<<1>>, <<2>>)>>, <<ItFull, ItArr(<<2>>, <<0, 2>>)>>, \* 46-50
  <<ItFull, ItArr(<<2>>, <<-1, 0>>)>>, <<ItArr(<<2>>, <<0, 1>>), ItArr(<<2>>, <<0, 1>>)>>, <<ItArr(<<2>>, <<0, 1>>), ItArr(<<1>>, <<1>>)>>,
  <<ItArr(<<2, 1>>, <<0, 1>>), ItArr(<<2>>, <<0, 2>>)>>, <<ItInt(0), ItArr(<<2>>, <<0, 1>>)>>,                         \* 51-55
  <<ItArr(<<2>>, <<0, 1>>), ItInt(0)>>, <<ItArr(<<2>>, <<0, 1>>), ItFull, ItArr(<<2>>, <<0, 1>>)>>, <<ItInt(0), ItFull, ItArr(<<2>>, <<0, 1>>)>>,
  <<ItFull, ItArr(<<2>>, <<0, 1>>), ItArr(<<2>>, <<1, 0>>)>>, <<ItArr(<<2>>, <<0, 1>>), ItArr(<<3>>, <<0, 1, 0>>)>>,   \* 56-60
  <<ItEll, ItArr(<<2>>, <<1, 0>>)>>, <<ItArr(<<2>>, <<1, 0>>), ItNew>>, <<ItNew, ItArr(<<2>>, <<1, 0>>)>>, <<ItArr(<<2>>, <<1, 0>>), Rev>>,
  <<ItArr(<<0>>, <<>>)>>,                                                                                             \* 61-65
  <<ItMask(<<2>>, <<1, 0>>)>>, <<ItMask(<<3>>, <<1, 0, 1>>)>>, <<ItFull, ItMask(<<3>>, <<1, 0, 1>>)>>, <<ItMask(<<2, 3>>, <<1, 0, 1, 0, 0, 1>>)>>,
  <<ItMask(<<2>>, <<0, 0>>)>>                                                                                         \* 66-70
>>
NarrowItems == {1, 2, 6, 8, 10, 12, 15, 22, 24, 26, 29, 34, 46, 51, 52, 58}
ItemIds == IF Wide THEN 1..Len(ItemPool) ELSE NarrowItems
ConsumedAll(items) == SeqSum([i \in 1..Len(items) |-> Consumed(items[i])])
DoGetItem == /\ "getitem" \in Ops /\ Nu(L)
            /\ \E id \in ItemIds : /\ ConsumedAll(ItemPool[id]) <= Rank(L) + 1
                                   /\ Push("getitem", <<L>>, ItemPool[id])
\* index arrays that are themselves function arrays / run-time values
ItNode == [k |-> "node", a |-> <<2>>, sh |-> <<>>, c |-> 0]
NodeItemPool == << <<ItNode>>, <<ItFull, ItNode>>, <<ItNode, ItInt(0)>>, <<ItEll, ItNode>>, <<ItNode, ItNode>>, <<ItNode, ItFull, ItNode>>, <<ItNode, Rev>> >>
DoGetItemNode == /\ "getitem_node" \in Ops
                /\ \E ij \in Pairs : /\ OkNode(ij[1]) /\ OkNode(ij[2]) /\ Nu(ij[1]) /\ Kind(ij[2]) = "i" /\ Rank(ij[1]) >= 1 /\ ij[1] # ij[2]
                                     /\ \E k \in 1..Len(NodeItemPool) : /\ ConsumedAll(NodeItemPool[k]) + Cardinality({q \in 1..Len(NodeItemPool[k]) : NodeItemPool[k][q].k = "node"}) <= Rank(ij[1]) + 1
                                                                        /\ Push("getitem", ij, NodeItemPool[k])

\* ---- shape manipulation
ShapePool == {<<-1>>, <<6>>, <<3, 2>>, <<2, 3>>, <<3, -1>>, <<-1, 2>>, <<2, -1, 1>>, <<1, 6>>, <<6, 1>>, <<2, 2>>, <<4>>, <<-1, 4>>, <<2, 1, 2>>, <<3>>, <<1, 3>>,
              <<3, 1>>, <<-1, -1>>, <<4, -1>>, <<>>, <<1>>, <<1, 1>>, <<2>>, <<1, 2>>, <<2, 1>>, <<12>>, <<4, 3>>, <<3, 4>>, <<2, 6>>, <<2, 3, 2>>, <<3, 2, 2>>, <<0, -1>>, <<2, 0>>, <<5>>}
ReshapeOk(sh, n) == IF CountNeg(sh) = 0 THEN Prod(sh) = n ELSE CountNeg(sh) = 1 /\ ProdPos(sh) # 0 /\ n % ProdPos(sh) = 0
\* all matching shapes plus a few that must be refused
DoReshape == /\ "reshape" \in Ops /\ Nu(L)
            /\ \E sh \in ShapePool : /\ (ReshapeOk(sh, NSize(T(L))) \/ sh \in {<<4, -1>>, <<-1, -1>>, <<5>>, <<2, 2>>})
                                     /\ (Wide \/ sh \in {<<-1>>, <<3, 2>>, <<2, 3>>, <<-1, 2>>, <<2, 2>>, <<1, -1>>, <<4>>, <<3>>, <<2>>, <<5>>, <<2, 1, -1>>})
                                     /\ Push("reshape", <<L>>, sh)
DoRavel == "ravel" \in Ops /\ Nu(L) /\ Push("ravel", <<L>>, <<>>)
TSpec(none, ax) == [none |-> none, ax |-> ax]
PermPool(r) == CASE r = 0 -> {<<>>, <<0>>}
                 [] r = 1 -> {<<0>>, <<-1>>, <<1>>, <<0, 1>>}
                 [] r = 2 -> {<<1, 0>>, <<0, 1>>, <<-1, 0>>, <<-1, -2>>, <<0, 0>>, <<0, 2>>, <<0>>, <<0, 1, 2>>}
                 [] r = 3 -> {<<0, 2, 1>>, <<1, 0, 2>>, <<1, 2, 0>>, <<2, 0, 1>>, <<2, 1, 0>>, <<-1, 0, 1>>, <<0, -1, -2>>, <<0, 1, 1>>, <<0, 1>>}
                 [] OTHER -> {}
DoTranspose == /\ "transpose" \in Ops /\ Nu(L)
              /\ \/ Push("transpose", <<L>>, TSpec(1, <<>>))
                 \/ \E ax \in PermPool(Rank(L)) : Push("transpose", <<L>>, TSpec(0, ax))
DoSwapaxes == /\ "swapaxes" \in Ops /\ Nu(L)
             /\ \E a1 \in (-Rank(L) - 1)..Rank(L) : \E a2 \in (-Rank(L) - 1)..Rank(L) :
                   (Wide \/ (a1 >= -1 /\ a2 >= -1 /\ a1 # a2)) /\ Push("swapaxes", <<L>>, <<a1, a2>>)
DoMoveaxis == /\ "moveaxis" \in Ops /\ Nu(L)
             /\ \E a1 \in (-Rank(L))..Rank(L) : \E a2 \in (-Rank(L))..Rank(L) : a1 # a2 /\ Push("moveaxis", <<L>>, <<a1, a2>>)
DoExpandDims == /\ "expand_dims" \in Ops /\ Nu(L)
               /\ \E a \in (-Rank(L) - 2)..(Rank(L) + 1) : Push("expand_dims", <<L>>, <<a>>)
BcPool == {<<2>>, <<3>>, <<2, 2>>, <<2, 3>>, <<3, 2>>, <<1, 3>>, <<3, 3>>, <<2, 2, 3>>, <<2, 1, 3>>, <<2, 3, 2>>, <<3, 2, 3>>, <<>>, <<1>>, <<2, 1>>, <<4, 2>>, <<2, 2, 2>>, <<0>>, <<2, 0>>}
DoBroadcastTo == /\ "broadcast_to" \in Ops /\ Nu(L)
                /\ \E sh \in BcPool : /\ (BCompat(T(L).sh, sh) \/ (Wide /\ Len(sh) <= Rank(L) + 1) \/ sh \in {<<3, 3>>, <<2, 2>>})
                                      /\ Push("broadcast_to", <<L>>, sh)
DoRepeat == /\ "repeat" \in Ops /\ Nu(L)
           /\ \/ Push("repeat", <<L>>, <<2, 0, 0>>)
              \/ \E n \in {2, 3} : \E a \in (IF Rank(L) = 0 THEN {1} ELSE (-Rank(L) - 1)..Rank(L)) : (Wide \/ n = 2) /\ Push("repeat", <<L>>, <<n, 1, a>>)

\* ---- joining
DoJoin == \E op \in ({"stack", "concatenate"} \cap Ops) :
            \E a \in IF Wide THEN -4..3 ELSE {0, -1, 1} :
               \/ \E ij \in Pairs : OkNode(ij[1]) /\ OkNode(ij[2]) /\ a >= -Rank(L) - 2 /\ a <= Rank(L) + 1 /\ Push(op, ij, <<a>>)
               \/ /\ CurFam.maxunused >= 2 /\ a \in {0, -1}
                  /\ \E t \in Triples : OkNode(t[1]) /\ OkNode(t[2]) /\ OkNode(t[3]) /\ t[1] # t[2] /\ Push(op, t, <<a>>)

\* ---- take / choose / compress
TakeSpec(axg, ax, lit, ish, idx) == [axg |-> axg, ax |-> ax, lit |-> lit, ish |-> ish, idx |-> idx]
LitIdxPool == {<<<<>>, <<1>>>>, <<<<>>, <<-1>>>>, <<<<2>>, <<1, 0>>>>, <<<<3>>, <<0, -1, 0>>>>, <<<<2, 2>>, <<1, -1, 0, 0>>>>, <<<<1>>, <<3>>>>, <<<<2>>, <<0, -4>>>>, <<<<0>>, <<>>>>, <<<<>>, <<5>>>>}
DoTake == /\ "take" \in Ops
         /\ \/ /\ Nu(L) /\ \E li \in LitIdxPool : \E axs \in {<<0, 0>>} \cup (IF Rank(L) = 0 THEN {<<1, 1>>} ELSE {<<1, a>> : a \in (-Rank(L) - 1)..Rank(L)}) :
                     (Wide \/ (li[1] # <<2, 2>> /\ axs[2] >= -1)) /\ Push("take", <<L>>, TakeSpec(axs[1], axs[2], 1, li[1], li[2]))
            \* numpy.take dispatches on its first argument only: that one must be the function array
            \/ \E ij \in Pairs : /\ OkNode(ij[1]) /\ OkNode(ij[2]) /\ Nu(ij[1]) /\ Kind(ij[2]) \in {"i", "b"} /\ ij[1] # ij[2]
                                 /\ \E axs \in {<<0, 0>>} \cup {<<1, a>> : a \in (-Rank(ij[1]))..(Rank(ij[1]) - 1)} :
                                       Push("take", ij, TakeSpec(axs[1], axs[2], 0, <<>>, <<>>))
DoChoose == /\ "choose" \in Ops
           /\ \/ \E t \in Triples : OkNode(t[1]) /\ OkNode(t[2]) /\ OkNode(t[3]) /\ Kind(t[1]) \in {"i", "b"} /\ Push("choose", t, <<>>)
CSpec(cond, axg, ax) == [cond |-> cond, axg |-> axg, ax |-> ax]
DoCompress == /\ "compress" \in Ops /\ Nu(L) /\ Rank(L) >= 1
             /\ \E cond \in {<<1, 0>>, <<0, 1, 1>>, <<1, 0, 1>>, <<0, 0>>, <<1, 1, 0, 0, 1, 0>>, <<1>>, <<0, 1, 1, 0>>, <<1, 0, 0, 1, 0, 0, 0, 1, 1>>,
                               <<0, 1, 0, 0, 0, 1, 1, 0, 0, 0, 0, 1>>} :
                  \E axs \in {<<0, 0>>} \cup {<<1, a>> : a \in (-Rank(L))..(Rank(L) - 1)} :
                     /\ LET len == (IF axs[1] = 0 THEN NSize(T(L)) ELSE T(L).sh[NormAxis(axs[2], Rank(L)) + 1])
                        IN Len(cond) = len \/ (Wide /\ cond = <<1>> /\ len >= 1)
                     /\ Push("compress", <<L>>, CSpec(cond, axs[1], axs[2]))

\* ---- products and linear algebra
DoProduct == \E op \in ({"dot", "matmul", "vdot", "cross"} \cap Ops) : \E ij \in Pairs : OkNode(ij[1]) /\ OkNode(ij[2]) /\ Push(op, ij, <<>>)
ESpec(ins, out, imp) == [ins |-> ins, out |-> out, imp |-> imp]
Einsum1(r) == CASE r = 0 -> {ESpec(<< <<>> >>, <<>>, 0)}
                [] r = 1 -> {ESpec(<< <<1>> >>, <<>>, 0), ESpec(<< <<1>> >>, <<1>>, 0), ESpec(<< <<1>> >>, <<>>, 1), ESpec(<< <<1, 2>> >>, <<1>>, 0)}
                [] r = 2 -> {ESpec(<< <<1, 2>> >>, <<2, 1>>, 0), ESpec(<< <<1, 1>> >>, <<>>, 0), ESpec(<< <<1, 1>> >>, <<1>>, 0), ESpec(<< <<1, 2>> >>, <<1>>, 0),
                             ESpec(<< <<2, 1>> >>, <<>>, 1), ESpec(<< <<1, 2>> >>, <<>>, 0), ESpec(<< <<1, 2>> >>, <<1, 1>>, 0), ESpec(<< <<1, 2>> >>, <<3>>, 0)}
                [] r = 3 -> {ESpec(<< <<1, 2, 3>> >>, <<3, 1, 2>>, 0), ESpec(<< <<1, 2, 1>> >>, <<2>>, 0), ESpec(<< <<1, 1, 2>> >>, <<2, 1>>, 0), ESpec(<< <<1, 2, 3>> >>, <<2>>, 0)}
                [] OTHER -> {}
Einsum2 == {ESpec(<< <<1>>, <<1>> >>, <<>>, 0), ESpec(<< <<1>>, <<2>> >>, <<1, 2>>, 0), ESpec(<< <<1>>, <<2>> >>, <<2, 1>>, 0), ESpec(<< <<1>>, <<1>> >>, <<1>>, 0),
            ESpec(<< <<1, 2>>, <<2>> >>, <<1>>, 0), ESpec(<< <<1, 2>>, <<1>> >>, <<2>>, 0), ESpec(<< <<1, 2>>, <<2, 3>> >>, <<1, 3>>, 0), ESpec(<< <<1, 2>>, <<2, 3>> >>, <<>>, 1),
            ESpec(<< <<1, 2>>, <<3, 2>> >>, <<1, 3>>, 0), ESpec(<< <<1, 2>>, <<1, 2>> >>, <<>>, 0), ESpec(<< <<1, 2>>, <<1, 2>> >>, <<2>>, 0), ESpec(<< <<2, 1>>, <<1, 2>> >>, <<>>, 1),
            ESpec(<< <<1, 2, 3>>, <<3>> >>, <<1, 2>>, 0), ESpec(<< <<1, 2, 3>>, <<2, 3>> >>, <<1>>, 0), ESpec(<< <<>>, <<1>> >>, <<1>>, 0), ESpec(<< <<1, 1>>, <<1>> >>, <<1>>, 0),
            ESpec(<< <<1, 2, 3>>, <<1, 3, 4>> >>, <<1, 2, 4>>, 0)}
DoEinsum == /\ "einsum" \in Ops
           /\ \/ Nu(L) /\ \E e \in Einsum1(Rank(L)) : Push("einsum", <<L>>, e)
              \/ \E ij \in Pairs : OkNode(ij[1]) /\ OkNode(ij[2]) /\ \E e \in Einsum2 :
                    /\ (Wide \/ (Len(e.ins[1]) = Rank(ij[1]) /\ Len(e.ins[2]) = Rank(ij[2])))
                    /\ IAbs(Len(e.ins[1]) - Rank(ij[1])) + IAbs(Len(e.ins[2]) - Rank(ij[2])) <= 1
                    /\ Push("einsum", ij, e)
DoDiag == \E op \in ({"trace", "diagonal"} \cap Ops) :
            /\ Nu(L)
            /\ \E off \in -2..2 : \E axs \in {<<0, 1>>, <<1, 0>>, <<-1, -2>>, <<0, -1>>, <<0, 2>>, <<1, 2>>, <<0, 0>>, <<-2, 1>>, <<0, 3>>} :
                  /\ (Wide \/ (off \in {0, 1, -1} /\ axs \in {<<0, 1>>, <<-1, -2>>, <<0, 2>>}))
                  /\ (axs[2] <= Rank(L) /\ axs[1] <= Rank(L))
                  /\ Push(op, <<L>>, <<off, axs[1], axs[2]>>)
DoLinalg == \/ \E op \in ({"det", "inv"} \cap Ops) : Nu(L) /\ Push(op, <<L>>, <<>>)
           \/ /\ "norm" \in Ops /\ Nu(L)
              /\ \/ Push("norm", <<L>>, <<0, 0>>)
                 \/ \E a \in (-Rank(L) - 1)..Rank(L) : Push("norm", <<L>>, <<1, a>>)

\* ---- searchsorted / interp
DoSearch == \/ /\ "searchsorted" \in Ops
              /\ \E ij \in Pairs : OkNode(ij[1]) /\ OkNode(ij[2]) /\ Rank(ij[1]) <= 2 /\ \E right \in {0, 1} : Push("searchsorted", ij, <<right>>)
           \/ /\ "interp" \in Ops
              /\ \E t \in Triples : /\ OkNode(t[1]) /\ OkNode(t[2]) /\ OkNode(t[3]) /\ Nu(t[1]) /\ Rank(t[2]) >= 1 /\ Rank(t[3]) >= 1 /\ t[2] # t[3]
                                    /\ Push("interp", t, <<>>)

AddOp == /\ NOps < CurFam.maxops
         /\ L >= 1 /\ OkNode(L)
         /\ \/ DoBinary \/ DoDivmod \/ DoUnary \/ DoReduce \/ DoGetItem \/ DoGetItemNode
            \/ DoReshape \/ DoRavel \/ DoTranspose \/ DoSwapaxes \/ DoMoveaxis \/ DoExpandDims \/ DoBroadcastTo \/ DoRepeat
            \/ DoJoin \/ DoTake \/ DoChoose \/ DoCompress \/ DoProduct \/ DoEinsum \/ DoDiag \/ DoLinalg \/ DoSearch

Init == nodes = <<>> /\ fam \in 1..Len(Families) /\ smp \in Families[fam].samples
Next == /\ (IF L = 0 THEN TRUE ELSE OkNode(L))
        /\ (AddLeaf \/ AddOp)
Spec == Init /\ [][Next]_vars

\* ------------------------------------------------------------------ internal laws of the design model (checked by TLC on every state)
\* every state extends its predecessor by one node, so each law only needs to be evaluated for the newest node
LastOnly == IF L = 0 THEN {} ELSE {L}
\* (1) shape, kind and verdict of a call do not depend on the sample point
VerdictUniform == \A k \in LastOnly : \A pt \in 1..NP : Nd(k).val[pt].dt = T(k).dt /\ (IsVal(T(k)) => Nd(k).val[pt].sh = T(k).sh)
\* (2) the flat data of every value has Prod(shape) entries
SizeLaw == \A k \in LastOnly : OkNode(k) => \A pt \in 1..NP : Len(Nd(k).val[pt].v) = Prod(T(k).sh)
\* (3) broadcasting is commutative, the result shape of an elementwise call is the broadcast of the operand shapes
Operand(k, j) == Nd(Nd(k).d[j])
CommOps == {"add", "multiply", "minimum", "maximum", "equal", "not_equal", "logical_and", "logical_or", "logical_xor", "bitwise_and", "bitwise_or"}
BroadcastLaw == \A k \in LastOnly : Nd(k).op \in BinaryOps =>
                   LET a == T(Nd(k).d[1]) b == T(Nd(k).d[2]) IN
                   /\ BShape(a.sh, b.sh) = BShape(b.sh, a.sh)
                   /\ (IsVal(T(k)) => T(k).sh = BShape(a.sh, b.sh))
                   /\ (IsRej(T(k)) <=> (IsBadShape(BShape(a.sh, b.sh)) /\ BinKind(Nd(k).op, a.dt, b.dt) # "X"))
                   /\ (Nd(k).op \in CommOps => \A pt \in 1..NP : Nd(k).val[pt] = NBinary(Nd(k).op, Operand(k, 2).val[pt], Operand(k, 1).val[pt]))
\* (4) promotion: the result kind of an arithmetic call dominates both operand kinds and the function's minimum
MinKind(op) == CASE op = "true_divide" -> "f" [] op \in {"power", "floor_divide", "mod"} -> "i" [] OTHER -> "b"
KindLaw == \A k \in LastOnly : (Nd(k).op \in ArithOps /\ IsVal(T(k))) =>
              /\ KRank(T(k).dt) >= KRank(T(Nd(k).d[1]).dt) /\ KRank(T(k).dt) >= KRank(T(Nd(k).d[2]).dt)
              /\ KRank(T(k).dt) >= KRank(MinKind(Nd(k).op))
\* (5) structural laws tying independent definitions of the model to each other
SumAll(a) == FoldSeq(CAdd, CZero, a.v, 1)
StructLaw == \A k \in LastOnly : IsVal(T(k)) =>
    \A pt \in 1..NP :
       LET r == Nd(k).val[pt]
           a == IF Len(Nd(k).d) >= 1 THEN Operand(k, 1).val[pt] ELSE r
           op == Nd(k).op
       IN /\ (op \in {"reshape", "ravel", "expand_dims"} => r.v = a.v /\ r.dt = a.dt)
          /\ (op = "transpose" => NTransposeDefault(NTransposeDefault(r)) = r /\ Prod(r.sh) = Prod(a.sh))
          /\ (op = "swapaxes" => NSwapaxes(r, Nd(k).p[1], Nd(k).p[2]) = a)
          /\ (op = "moveaxis" => NMoveaxis(r, Nd(k).p[2], Nd(k).p[1]) = a)
          /\ ((op = "sum" /\ Nd(k).p.mode = "none" /\ a.dt # "b" /\ ~NAnyBad(a)) => r.v[1] = SumAll(a))
          /\ ((op = "getitem" /\ Nd(k).p = <<ItEll>>) => r = a)
          /\ ((op = "getitem" /\ Nd(k).p = <<Rev>> /\ NRank(a) >= 1) => NGetItem(r, <<Rev>>) = a)
          /\ (op = "broadcast_to" => r.sh = Nd(k).p)
          /\ ((op = "matmul" /\ NRank(a) = 2 /\ NRank(Operand(k, 2).val[pt]) = 2) =>
                 r = NEinsum(<< <<1, 2>>, <<2, 3>> >>, <<1, 3>>, 0, <<a, Operand(k, 2).val[pt]>>))
          /\ ((op = "dot" /\ NRank(a) = 2 /\ NRank(Operand(k, 2).val[pt]) = 2) => r = NMatmul(a, Operand(k, 2).val[pt]))
          /\ ((op = "trace" /\ ~NAnyBad(a)) => r = NReduce("sum", NDiagonal(a, Nd(k).p[1], Nd(k).p[2], Nd(k).p[3]), RSpec("int", <<-1>>, 0)))
          /\ ((op = "stack" /\ Nd(k).p = <<0>>) => NGetItem(r, <<ItInt(0)>>) = NCast(a, r.dt))
          /\ ((op = "concatenate" /\ Nd(k).p = <<0>>) => NGetItem(r, <<SL(NN, a.sh[1], NN)>>) = NCast(a, r.dt))

\* ------------------------------------------------------------------ emission
Emit(x) == PrintT(<<"VF", ToJson(x)>>)
Complete == L >= 1 /\ ~IsLeafNode(L) /\ Unused = {L} /\ NOps >= EmitMin
JNode(k) == [op |-> Nd(k).op, d |-> Nd(k).d, p |-> Nd(k).p,
             sh |-> T(k).sh, dt |-> T(k).dt,
             dy |-> IF OkNode(k) THEN (\A pt \in 1..NP : NDyadic(Nd(k).val[pt])) ELSE TRUE,
             bad |-> IF OkNode(k) THEN (\E pt \in 1..NP : NAnyBad(Nd(k).val[pt])) ELSE FALSE]
RootVals == IF OkNode(L) THEN [pt \in 1..NP |-> NProj(Nd(L).val[pt]).v] ELSE <<>>
Why == IF OkNode(L) THEN "" ELSE T(L).v[1]
EmitComplete == Complete => Emit([kind |-> "prog", fam |-> fam, smp |-> smp, nodes |-> [k \in 1..L |-> JNode(k)], root |-> RootVals, why |-> Why])
JLeafG(g) == [name |-> g.name, src |-> g.src, sh |-> g.sh, dt |-> g.dt, v |-> NProj([sh |-> g.sh, dt |-> g.dt, v |-> g.val]).v]
JLeafP(l) == [name |-> l.name, src |-> l.src, sh |-> l.sh, dt |-> l.dt, pv |-> [pt \in 1..Len(l.pv) |-> NProj([sh |-> l.sh, dt |-> l.dt, v |-> l.pv[pt]]).v]]
EmitTable == (EmitTables /\ nodes = <<>> /\ fam = 1) =>
               Emit([kind |-> "table", smp |-> smp, name |-> Samples[smp].name, np |-> NP,
                     globals |-> [i \in 1..Len(GlobalLeaves) |-> JLeafG(GlobalLeaves[i])],
                     leaves |-> [i \in 1..Len(Samples[smp].leaves) |-> JLeafP(Samples[smp].leaves[i])]])
EmitAll == EmitTable /\ EmitComplete
=============================================================================
