---------------------------- MODULE ExprBuilder ----------------------------
(***************************************************************************)
(* "All well-typed array-expression DAGs" as a state machine over the      *)
(* vocabulary of ArraySem.  One action per constructor family, enabled     *)
(* iff the constructor's typing rule (the __post_init__ assertions of      *)
(* src/nutils/evaluable.py) holds for the chosen operands.                 *)
(*                                                                         *)
(* State: nodes -- the program in post order.  A node carries, besides     *)
(* what ArraySem needs (op, d, p, sh, dt), two typing attributes:          *)
(*   ix : n > 0 when the node is integer valued with values certainly in   *)
(*        0..n-1 (usable as index/dofmap), else 0                          *)
(*   lp : set of loop ids the node depends on (free loops)                 *)
(* Normal form: every new non-leaf node uses the last node as an operand   *)
(* (every DAG has such a construction order), sharing of earlier nodes is  *)
(* free.  A state is "complete" when the last node has no free loops and   *)
(* every other node is used.  TLC enumerates (exhaustive configs) or       *)
(* samples (-simulate) the complete states and emits them; the harness     *)
(* replays each into nutils' raw constructors.                             *)
(***************************************************************************)
EXTENDS ArraySem, Json

CONSTANTS Families,     \* sequence of vocabularies [ops, leaves, maxnodes, maxops, maxleaves]; one is chosen initially
          EmitMin       \* emit only programs with at least this many non-leaf nodes

VARIABLES nodes, fam

MaxNodes == Families[fam].maxnodes     \* bound on program length
MaxOps == Families[fam].maxops         \* bound on number of non-leaf nodes
MaxLeaves == Families[fam].maxleaves   \* bound on number of leaf nodes
Ops == Families[fam].ops               \* set of enabled constructor names
LeafSet == Families[fam].leaves        \* enabled subset of 1..Len(LeafPool)

Leaf(op, p, sh, dt, ix, lp) == [op |-> op, d |-> <<>>, p |-> p, sh |-> sh, dt |-> dt, ix |-> ix, lp |-> lp]
Node(op, d, p, sh, dt, ix, lp) == [op |-> op, d |-> d, p |-> p, sh |-> sh, dt |-> dt, ix |-> ix, lp |-> lp]

\* ---- leaves: arguments (id, shape, dtype), constants, ranges, loop indices
LeafPool == <<
  Leaf("Arg", <<1>>, <<2>>, "f", 0, {}),                                  \* 1
  Leaf("Arg", <<2>>, <<2, 2>>, "f", 0, {}),                               \* 2
  Leaf("Arg", <<3>>, <<>>, "f", 0, {}),                                   \* 3
  Leaf("Arg", <<4>>, <<3>>, "f", 0, {}),                                  \* 4
  Leaf("Arg", <<5>>, <<2>>, "i", 0, {}),                                  \* 5
  Leaf("Arg", <<6>>, <<2>>, "b", 0, {}),                                  \* 6
  Leaf("Const", <<1, 1, 2, 1>>, <<2>>, "f", 0, {}),                       \* 7  [1., 2.]
  Leaf("Const", <<2, 1>>, <<>>, "f", 0, {}),                              \* 8  2.
  Leaf("Const", <<1, 2>>, <<>>, "f", 0, {}),                              \* 9  .5
  Leaf("Const", <<4, 1>>, <<>>, "f", 0, {}),                              \* 10 4.
  Leaf("Const", <<2, 1, 2, 1>>, <<2>>, "f", 0, {}),                       \* 11 [2., 2.] (uniform)
  Leaf("Const", <<1, 1, 2, 1, 3, 1, 4, 1>>, <<2, 2>>, "f", 0, {}),        \* 12 [[1,2],[3,4]]
  Leaf("Const", <<1, 1, 0, 1>>, <<2>>, "i", 2, {}),                       \* 13 [1, 0]  (permutation)
  Leaf("Const", <<0, 1, 0, 1>>, <<2>>, "i", 1, {}),                       \* 14 [0, 0]  (repeated)
  Leaf("Const", <<0, 1, 0, 1, 2, 1>>, <<3>>, "i", 3, {}),                 \* 15 [0, 0, 2]
  Leaf("Const", <<2, 1>>, <<>>, "i", 3, {}),                              \* 16 2
  Leaf("Const", <<3, 1, -2, 1>>, <<2>>, "i", 0, {}),                      \* 17 [3, -2]
  Leaf("Const", <<1, 1, 0, 1>>, <<2>>, "b", 0, {}),                       \* 18 [True, False]
  Leaf("Zeros", <<>>, <<2>>, "f", 0, {}),                                 \* 19
  Leaf("Range", <<2>>, <<2>>, "i", 2, {}),                                \* 20
  Leaf("Range", <<3>>, <<3>>, "i", 3, {}),                                \* 21
  Leaf("LoopIndex", <<1, 2>>, <<>>, "i", 2, {1}),                         \* 22 loop 1, length 2
  Leaf("LoopIndex", <<2, 3>>, <<>>, "i", 3, {2}),                         \* 23 loop 2, length 3
  Leaf("Const", <<-1, 1, 0, 1, 2, 1>>, <<3>>, "f", 0, {}),                \* 24 [-1., 0., 2.]
  Leaf("Const", <<1, 1, 0, 1, 0, 1, 1, 1>>, <<2, 2>>, "i", 2, {}),        \* 25 [[1,0],[0,1]] index matrix
  Leaf("Const", <<3, 1>>, <<1>>, "f", 0, {}),                             \* 26 [3.] (singleton axis)
  Leaf("Const", <<4, 1>>, <<>>, "i", 5, {}),                              \* 27 4 (int)
  Leaf("Arg", <<7>>, <<2, 2, 2>>, "f", 0, {}),                            \* 28 rank-3 argument
  Leaf("Const", <<0, 1, 1, 1, 1, 1, 0, 1>>, <<2, 2>>, "i", 2, {}),        \* 29 [[0,1],[1,0]] index matrix
  Leaf("Const", <<1, 1, 2, 1, 3, 1>>, <<3>>, "f", 0, {}),                 \* 30 [1., 2., 3.]
  Leaf("Arg", <<8>>, <<3, 3>>, "f", 0, {}),                               \* 31 3x3 argument
  Leaf("Const", <<1, 4>>, <<>>, "f", 0, {}),                              \* 32 .25
  Leaf("Const", <<3, 1>>, <<>>, "f", 0, {}),                              \* 33 3.
  Leaf("Const", <<-1, 1>>, <<>>, "f", 0, {}),                             \* 34 -1.
  Leaf("Const", <<1, 8>>, <<>>, "f", 0, {}),                              \* 35 .125
  Leaf("Const", <<3, 2>>, <<>>, "f", 0, {}),                              \* 36 1.5
  Leaf("Const", <<0, 1, 1, 1, 1, 1, 3, 1>>, <<4>>, "i", 4, {}),           \* 37 [0, 1, 1, 3] (non-decreasing, repeated)
  Leaf("Const", <<2, 1, 2, 1, 4, 1>>, <<3>>, "i", 5, {}),                 \* 38 [2, 2, 4]
  Leaf("Const", <<2, 1, 0, 1, 1, 1>>, <<3>>, "i", 3, {}),                 \* 39 [2, 0, 1] (permutation of 3)
  Leaf("Arg", <<9>>, <<4>>, "f", 0, {})                                   \* 40 length-4 argument
>>

IsLeaf(n) == Len(n.d) = 0
NOps == Cardinality({k \in 1..Len(nodes) : ~IsLeaf(nodes[k])})
NLeaves == Cardinality({k \in 1..Len(nodes) : IsLeaf(nodes[k])})
Used(k) == \E m \in (k + 1)..Len(nodes) : \E j \in 1..Len(nodes[m].d) : nodes[m].d[j] = k
Unused == {k \in 1..Len(nodes) : ~Used(k)}
L == Len(nodes)
Nd(k) == nodes[k]
Num(dt) == dt \in {"i", "f"}
Rank(k) == Len(Nd(k).sh)
LastLen(k) == Nd(k).sh[Rank(k)]

Push(n) == nodes' = Append(nodes, n) /\ UNCHANGED fam

\* operand choice: i ranges over all nodes, the last node must be among the operands
Pairs == {<<i, j>> \in (1..L) \X (1..L) : i = L \/ j = L}
Same(i, j) == Nd(i).sh = Nd(j).sh /\ Nd(i).dt = Nd(j).dt
Lp2(i, j) == Nd(i).lp \cup Nd(j).lp

AddLeaf == /\ NLeaves < MaxLeaves /\ Cardinality(Unused) <= 1
           /\ \E l \in LeafSet : Push(LeafPool[l])

Unary(op, dts, keepix) ==
    /\ op \in Ops /\ L >= 1 /\ Nd(L).dt \in dts
    /\ Push(Node(op, <<L>>, <<>>, Nd(L).sh, Nd(L).dt, IF keepix THEN Nd(L).ix ELSE 0, Nd(L).lp))

Binary(op, dts, rdt) ==
    /\ op \in Ops
    /\ \E ij \in Pairs : /\ Same(ij[1], ij[2]) /\ Nd(ij[1]).dt \in dts
                         /\ Push(Node(op, <<ij[1], ij[2]>>, <<>>, Nd(ij[1]).sh, IF rdt = "same" THEN Nd(ij[1]).dt ELSE rdt, 0, Lp2(ij[1], ij[2])))

\* Power: float base any float exponent; int base only constant non-negative exponents
APower == /\ "Power" \in Ops
          /\ \E ij \in Pairs : /\ Same(ij[1], ij[2]) /\ Nd(ij[1]).dt \in {"f", "i"}
                               /\ (Nd(ij[1]).dt = "i" => Nd(ij[2]).ix > 0)
                               /\ Push(Node("Power", <<ij[1], ij[2]>>, <<>>, Nd(ij[1]).sh, Nd(ij[1]).dt, 0, Lp2(ij[1], ij[2])))

ACast == \/ /\ "BoolToInt" \in Ops /\ L >= 1 /\ Nd(L).dt = "b"
            /\ Push(Node("BoolToInt", <<L>>, <<>>, Nd(L).sh, "i", 2, Nd(L).lp))
         \/ /\ "IntToFloat" \in Ops /\ L >= 1 /\ Nd(L).dt = "i"
            /\ Push(Node("IntToFloat", <<L>>, <<>>, Nd(L).sh, "f", 0, Nd(L).lp))

AInsert == /\ "InsertAxis" \in Ops /\ L >= 1 /\ Rank(L) <= 2
           /\ \E n \in {1, 2, 3} : Push(Node("InsertAxis", <<L>>, <<n>>, Append(Nd(L).sh, n), Nd(L).dt, Nd(L).ix, Nd(L).lp))

Perms(r) == IF r = 2 THEN {<<1, 0>>} ELSE IF r = 3 THEN {<<0, 2, 1>>, <<1, 0, 2>>, <<1, 2, 0>>, <<2, 0, 1>>, <<2, 1, 0>>} ELSE {}
ATransp == /\ "Transpose" \in Ops /\ L >= 1
           /\ \E axes \in Perms(Rank(L)) :
                Push(Node("Transpose", <<L>>, axes, [i \in 1..Rank(L) |-> Nd(L).sh[axes[i] + 1]], Nd(L).dt, Nd(L).ix, Nd(L).lp))

AReduce == \E op \in {"Sum", "Product"} \cap Ops :
              /\ L >= 1 /\ Rank(L) >= 1
              /\ Push(Node(op, <<L>>, <<>>, SFront(Nd(L).sh), Nd(L).dt, 0, Nd(L).lp))

\* Take(func, indices): along the last axis of func
ATakeOp == /\ "Take" \in Ops
           /\ \E ij \in Pairs : /\ Rank(ij[1]) >= 1 /\ Nd(ij[2]).dt = "i" /\ Nd(ij[2]).ix > 0
                                /\ Nd(ij[2]).ix <= LastLen(ij[1])
                                /\ Rank(ij[1]) - 1 + Rank(ij[2]) <= 3
                                /\ Push(Node("Take", <<ij[1], ij[2]>>, <<>>, SFront(Nd(ij[1]).sh) \o Nd(ij[2]).sh,
                                             Nd(ij[1]).dt, Nd(ij[1]).ix, Lp2(ij[1], ij[2])))

ATakeDiagOp == /\ "TakeDiag" \in Ops /\ L >= 1 /\ Rank(L) >= 2 /\ Nd(L).sh[Rank(L)] = Nd(L).sh[Rank(L) - 1]
               /\ Push(Node("TakeDiag", <<L>>, <<>>, SFront(Nd(L).sh), Nd(L).dt, Nd(L).ix, Nd(L).lp))

ADiagOp == /\ "Diagonalize" \in Ops /\ L >= 1 /\ Rank(L) >= 1 /\ Rank(L) <= 2
           /\ Push(Node("Diagonalize", <<L>>, <<>>, Append(Nd(L).sh, LastLen(L)), Nd(L).dt, 0, Nd(L).lp))

\* Inflate(func, dofmap, length): func.shape ends with dofmap.shape
AInflateOp == /\ "Inflate" \in Ops
              /\ \E ij \in Pairs : \E len \in {2, 3} :
                    /\ Nd(ij[1]).dt \in {"f", "i", "b"} /\ Nd(ij[2]).dt = "i" /\ Nd(ij[2]).ix > 0 /\ Nd(ij[2]).ix <= len
                    /\ Rank(ij[2]) <= Rank(ij[1])
                    /\ SubSeq(Nd(ij[1]).sh, Rank(ij[1]) - Rank(ij[2]) + 1, Rank(ij[1])) = Nd(ij[2]).sh
                    /\ Push(Node("Inflate", <<ij[1], ij[2]>>, <<len>>,
                                 Append(SubSeq(Nd(ij[1]).sh, 1, Rank(ij[1]) - Rank(ij[2])), len), Nd(ij[1]).dt, 0, Lp2(ij[1], ij[2])))

ARavelOp == /\ "Ravel" \in Ops /\ L >= 1 /\ Rank(L) >= 2
            /\ Push(Node("Ravel", <<L>>, <<>>, Append(SubSeq(Nd(L).sh, 1, Rank(L) - 2), Nd(L).sh[Rank(L) - 1] * LastLen(L)),
                         Nd(L).dt, Nd(L).ix, Nd(L).lp))

AUnravelOp == /\ "Unravel" \in Ops /\ L >= 1 /\ Rank(L) >= 1 /\ Rank(L) <= 2
              /\ \E s \in {<<1, 2>>, <<2, 1>>, <<2, 2>>, <<1, 3>>, <<3, 1>>, <<2, 3>>, <<3, 2>>, <<1, 1>>} :
                    /\ s[1] * s[2] = LastLen(L)
                    /\ Push(Node("Unravel", <<L>>, s, SFront(Nd(L).sh) \o s, Nd(L).dt, Nd(L).ix, Nd(L).lp))

ARavelIndexOp == /\ "RavelIndex" \in Ops
                 /\ \E ij \in Pairs : /\ Nd(ij[1]).ix > 0 /\ Nd(ij[2]).ix > 0 /\ Rank(ij[1]) + Rank(ij[2]) <= 3
                                      /\ Push(Node("RavelIndex", <<ij[1], ij[2]>>, <<Nd(ij[1]).ix, Nd(ij[2]).ix>>,
                                                   Nd(ij[1]).sh \o Nd(ij[2]).sh, "i", Nd(ij[1]).ix * Nd(ij[2]).ix, Lp2(ij[1], ij[2])))

\* Choose(index, choices): choices.shape = index.shape ++ <<nchoices>>
AChooseOp == /\ "Choose" \in Ops
             /\ \E ij \in Pairs : /\ Nd(ij[1]).ix > 0 /\ Rank(ij[2]) = Rank(ij[1]) + 1
                                  /\ SFront(Nd(ij[2]).sh) = Nd(ij[1]).sh /\ Nd(ij[1]).ix <= LastLen(ij[2])
                                  /\ Push(Node("Choose", <<ij[1], ij[2]>>, <<>>, Nd(ij[1]).sh, Nd(ij[2]).dt, 0, Lp2(ij[1], ij[2])))

\* InRange(index, length) turns an arbitrary integer node into an index
AInRangeOp == /\ "InRange" \in Ops /\ L >= 1 /\ Nd(L).dt = "i" /\ Nd(L).ix = 0
              /\ \E n \in {2, 3} : Push(Node("InRange", <<L>>, <<n>>, Nd(L).sh, "i", n, Nd(L).lp))

ALinalg == \E op \in {"Determinant", "Inverse"} \cap Ops :
              /\ L >= 1 /\ Nd(L).dt = "f" /\ Rank(L) >= 2 /\ LastLen(L) = Nd(L).sh[Rank(L) - 1] /\ LastLen(L) <= 2
              /\ Push(Node(op, <<L>>, <<>>, IF op = "Inverse" THEN Nd(L).sh ELSE SubSeq(Nd(L).sh, 1, Rank(L) - 2), "f", 0, Nd(L).lp))

\* Polyval(coeffs, points) in one variable: points.shape[-1] = 1
APolyvalOp == /\ "Polyval" \in Ops
              /\ \E ij \in Pairs : /\ Nd(ij[1]).dt = "f" /\ Nd(ij[2]).dt = "f" /\ Rank(ij[1]) >= 1 /\ Rank(ij[2]) >= 1
                                   /\ LastLen(ij[2]) = 1 /\ Rank(ij[1]) + Rank(ij[2]) - 2 <= 3
                                   /\ Push(Node("Polyval", <<ij[1], ij[2]>>, <<>>, SFront(Nd(ij[2]).sh) \o SFront(Nd(ij[1]).sh), "f", 0, Lp2(ij[1], ij[2])))

LoopLen(l) == IF l = 1 THEN 2 ELSE 3
ALoopSumOp == /\ "LoopSum" \in Ops /\ L >= 1 /\ Nd(L).dt \in {"i", "f"}
              /\ \E l \in Nd(L).lp : Push(Node("LoopSum", <<L>>, <<l, LoopLen(l)>>, Nd(L).sh, Nd(L).dt, 0, Nd(L).lp \ {l}))
ALoopConcatOp == /\ "LoopConcat" \in Ops /\ L >= 1 /\ Rank(L) >= 1 /\ LastLen(L) * 3 <= 9
                 /\ \E l \in Nd(L).lp : Push(Node("LoopConcat", <<L>>, <<l, LoopLen(l), LastLen(L)>>,
                                                  Append(SFront(Nd(L).sh), LastLen(L) * LoopLen(l)), Nd(L).dt, 0, Nd(L).lp \ {l}))

AddOp == /\ NOps < MaxOps
         /\ \/ Unary("Negative", {"i", "f"}, FALSE) \/ Unary("Absolute", {"i", "f"}, FALSE) \/ Unary("Sign", {"i", "f"}, FALSE)
            \/ Unary("Reciprocal", {"f"}, FALSE) \/ Unary("LogicalNot", {"b"}, FALSE)
            \/ Binary("Multiply", {"b", "i", "f"}, "same") \/ Binary("Add", {"b", "i", "f"}, "same")
            \/ Binary("Minimum", {"i", "f"}, "same") \/ Binary("Maximum", {"i", "f"}, "same")
            \/ Binary("FloorDivide", {"i", "f"}, "same") \/ Binary("Mod", {"i", "f"}, "same")
            \/ Binary("Equal", {"i", "f"}, "b") \/ Binary("Less", {"i", "f"}, "b") \/ Binary("Greater", {"i", "f"}, "b")
            \/ APower \/ ACast \/ AInsert \/ ATransp \/ AReduce \/ ATakeOp \/ ATakeDiagOp \/ ADiagOp \/ AInflateOp
            \/ ARavelOp \/ AUnravelOp \/ ARavelIndexOp \/ AChooseOp \/ AInRangeOp \/ ALinalg \/ APolyvalOp
            \/ ALoopSumOp \/ ALoopConcatOp

Init == nodes = <<>> /\ fam \in 1..Len(Families)
Next == /\ L < MaxNodes
        /\ (AddLeaf \/ AddOp)
Spec == Init /\ [][Next]_<<nodes, fam>>

\* ------------------------------------------------------------------ well-formedness of what is built
Complete == L >= 1 /\ Nd(L).lp = {} /\ Unused = {L} /\ NOps >= EmitMin
\* the typing attributes are consistent with ArraySem: checked on every complete
\* program at one fixed environment (model-internal sanity of the builder)
TestEnv == << ArgArr(<<2>>, <<1, 2>>, 0), ArgArr(<<2, 2>>, <<1, 2, 3, 5>>, 0), ArgArr(<<>>, <<2>>, 0),
              ArgArr(<<3>>, <<1, 2, 3>>, 0), ArgArr(<<2>>, <<1, 0>>, 0), ArgArr(<<2>>, <<1, 0>>, 0),
              ArgArr(<<2, 2, 2>>, <<1, 2, 3, 4, 5, 6, 7, 9>>, 0), ArgArr(<<3, 3>>, <<2, 1, 0, 1, 3, 1, 0, 1, 2>>, 0),
              ArgArr(<<4>>, <<1, 2, 3, 4>>, 0) >>
ShapeSound == Complete => Ev(nodes, L, TestEnv, <<0, 0>>).sh = Nd(L).sh
IxSound == (Complete /\ Nd(L).ix > 0) =>
              \A x \in {Ev(nodes, L, TestEnv, <<0, 0>>).v[e] : e \in 1..Prod(Nd(L).sh)} :
                  DIsBad(x) \/ (IdxVal(x) >= 0 /\ IdxVal(x) < Nd(L).ix)

Emit(x) == PrintT(<<"VF", ToJson(x)>>)
JNode(n) == [op |-> n.op, d |-> n.d, p |-> n.p, sh |-> n.sh, dt |-> n.dt, ix |-> n.ix, cl |-> (n.lp = {})]
EmitComplete == Complete => Emit([fam |-> fam, nodes |-> [i \in 1..L |-> JNode(nodes[i])]])
=============================================================================
