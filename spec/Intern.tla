------------------------------- MODULE Intern -------------------------------
(***************************************************************************)
(* C17, interning: "values of interned types that are structurally equal   *)
(* are the same object for as long as either is alive", and what a         *)
(* constructor call returns (hence its nutils hash) does not depend on     *)
(* the allocation / garbage collection history.                            *)
(*                                                                         *)
(* Shaped like SingletonMeta._new (types.py 260-265) and                   *)
(* DataClassMeta.__call__ (types.py 309-317): one weak table per class,    *)
(*    Construct(a): canonicalise the call (positional / keyword / default  *)
(*                  routes, source dtype of array data) to the argument    *)
(*                  tuple c, look c up in the table under Key(c); on a hit *)
(*                  return the stored object, else allocate an object      *)
(*                  carrying c and store it;                               *)
(*    Drop(k):      the user drops handle k; CPython frees an object as    *)
(*                  soon as no handle refers to it and the weak table      *)
(*                  entry disappears with it;                              *)
(*    Dump(k):      pickle.dumps(handle k): (class, exact argument tuple); *)
(*    Load(j):      pickle.loads of pickle j: the same lookup as Construct.*)
(*                                                                         *)
(* Key is the model's parameter:                                           *)
(*    KeyMode = "exact": the table distinguishes argument tuples that      *)
(*                  differ in the TYPE of an element (1, True, 1.0): this  *)
(*                  is what the property demands and is the oracle of the  *)
(*                  S->C replay;                                           *)
(*    KeyMode = "pyeq":  the table is a python dict keyed by the tuple     *)
(*                  itself, i.e. by == / hash, under which 1 == True ==    *)
(*                  1.0.  TLC shows that ExactArgs then fails (spec mutant *)
(*                  = the code as written).                                *)
(* Next to the judged table the model steps a SHADOW table that is always  *)
(* keyed by python equality (variables ending in P).  It takes no part in  *)
(* the invariants; its predictions are emitted with every behaviour so     *)
(* that, when the code deviates from the oracle, the replay can tell       *)
(* whether it behaves like the python-equality-key table (root cause).     *)
(*                                                                         *)
(* Objects are numbered in allocation order; hist records, for every step, *)
(* what the model predicts the python side observes: the object returned   *)
(* (obj), the arguments it carries (args) and the number of entries of the *)
(* weak table (nlive); objP / argsP / nliveP are the shadow's.             *)
(***************************************************************************)
EXTENDS Naturals, Sequences, FiniteSets, TLC, Json

CONSTANTS Args,       \* constructor calls (strings "type:value/route")
          CanonOf,    \* call -> canonical typed argument tuple (string): what the object must carry
          PyOf,       \* canonical typed argument tuple -> its class under python == / hash
          KeyMode,    \* "exact" | "pyeq"
          Lossy,      \* calls whose CanonOf is "REJECT" (the data cannot be represented in the canonical dtype, e.g. uint64 values
                      \* >= 2^63, long double precision): "reject" = refused (design), "wrap" = cast silently (design mutant)
          WrapOf,     \* call -> what a silent cast would make of it (only used by the mutant)
          MaxOps,     \* length of a behaviour
          MaxPickles,
          Label       \* name of the configuration (echoed in emitted behaviours)

VARIABLES heap,     \* object number -> canonical arguments it carries (live objects only)
          table,    \* key -> object number (weak: entries of dead objects are gone)
          handles,  \* the user's references: sequence of object numbers, 0 = dropped
          pickles,  \* sequence of canonical argument tuples
          nextid,
          heapP, tableP, handlesP, picklesP, nextidP,     \* shadow: python-equality keys
          hist

vars == <<heap, table, handles, pickles, nextid, heapP, tableP, handlesP, picklesP, nextidP, hist>>

Key(c) == IF KeyMode = "exact" THEN c ELSE PyOf[c]
Live == DOMAIN heap
Referenced(hs) == {hs[k] : k \in DOMAIN hs} \ {0}
Restrict(f, D) == [x \in D |-> f[x]]
EmptyF == [x \in {} |-> 0]

Init == /\ heap = EmptyF /\ table = EmptyF /\ handles = <<>> /\ pickles = <<>> /\ nextid = 1
        /\ heapP = EmptyF /\ tableP = EmptyF /\ handlesP = <<>> /\ picklesP = <<>> /\ nextidP = 1
        /\ hist = <<>>

\* the dictionary lookup of _new / __call__: hit -> stored object, miss -> allocate and store
Lookup(tb, hp, nid, key, c) ==
    LET hit == key \in DOMAIN tb
    IN [obj |-> IF hit THEN tb[key] ELSE nid,
        heap |-> IF hit THEN hp ELSE hp @@ (nid :> c),
        table |-> IF hit THEN tb ELSE tb @@ (key :> nid),
        nextid |-> IF hit THEN nid ELSE nid + 1]

\* shared by a constructor call and unpickling; c / cP: the argument tuple presented to the table / to the shadow
Obtain(opname, a, c, cP) ==
    LET m == Lookup(table, heap, nextid, Key(c), c)
        s == Lookup(tableP, heapP, nextidP, PyOf[cP], cP)
        existing == {o \in Live : heap[o] = c}
    IN /\ Len(hist) < MaxOps
       /\ heap' = m.heap /\ table' = m.table /\ nextid' = m.nextid
       /\ handles' = Append(handles, m.obj)
       /\ heapP' = s.heap /\ tableP' = s.table /\ nextidP' = s.nextid
       /\ handlesP' = Append(handlesP, s.obj)
       /\ hist' = Append(hist, [op |-> opname, a |-> a, k |-> Len(handles) + 1,
                                obj |-> m.obj, want |-> c, args |-> m.heap[m.obj], nlive |-> Cardinality(DOMAIN m.table),
                                existing |-> IF existing = {} THEN 0 ELSE CHOOSE o \in existing : TRUE,
                                objP |-> s.obj, argsP |-> s.heap[s.obj], nliveP |-> Cardinality(DOMAIN s.table)])
       /\ UNCHANGED <<pickles, picklesP>>

\* a constructor call that no object can carry exactly: the only correct behaviour is to raise (no state change)
Refuse(a) == /\ Len(hist) < MaxOps
             /\ hist' = Append(hist, [op |-> "refuse", a |-> a, k |-> 0, obj |-> 0, want |-> "REJECT", args |-> "",
                                      nlive |-> Cardinality(DOMAIN table), existing |-> 0,
                                      objP |-> 0, argsP |-> "", nliveP |-> Cardinality(DOMAIN tableP)])
             /\ UNCHANGED <<heap, table, handles, pickles, nextid, heapP, tableP, handlesP, picklesP, nextidP>>

Construct(a) == /\ a \in Args
                /\ IF CanonOf[a] # "REJECT" THEN Obtain("new", a, CanonOf[a], CanonOf[a])
                   ELSE IF Lossy = "reject" THEN Refuse(a)
                   ELSE Obtain("new", a, WrapOf[a], WrapOf[a])

Load(j) == /\ j \in DOMAIN pickles
           /\ Obtain("load", "", pickles[j], picklesP[j])

Drop(k) == /\ Len(hist) < MaxOps
           /\ k \in DOMAIN handles /\ handles[k] # 0
           /\ handles' = [handles EXCEPT ![k] = 0]
           /\ handlesP' = [handlesP EXCEPT ![k] = 0]
           /\ LET keep == Live \cap Referenced(handles')
                  keepP == DOMAIN heapP \cap Referenced(handlesP')
              IN /\ heap' = Restrict(heap, keep)
                 /\ table' = Restrict(table, {key \in DOMAIN table : table[key] \in keep})
                 /\ heapP' = Restrict(heapP, keepP)
                 /\ tableP' = Restrict(tableP, {key \in DOMAIN tableP : tableP[key] \in keepP})
           /\ hist' = Append(hist, [op |-> "drop", a |-> "", k |-> k, obj |-> handles[k], want |-> "", args |-> "",
                                    nlive |-> Cardinality(DOMAIN table'), existing |-> 0,
                                    objP |-> handlesP[k], argsP |-> "", nliveP |-> Cardinality(DOMAIN tableP')])
           /\ UNCHANGED <<pickles, nextid, picklesP, nextidP>>

Dump(k) == /\ Len(hist) < MaxOps
           /\ Len(pickles) < MaxPickles
           /\ k \in DOMAIN handles /\ handles[k] # 0
           /\ pickles' = Append(pickles, heap[handles[k]])
           /\ picklesP' = Append(picklesP, heapP[handlesP[k]])
           /\ hist' = Append(hist, [op |-> "dump", a |-> "", k |-> k, obj |-> handles[k], want |-> "", args |-> heap[handles[k]],
                                    nlive |-> Cardinality(DOMAIN table), existing |-> 0,
                                    objP |-> handlesP[k], argsP |-> heapP[handlesP[k]], nliveP |-> Cardinality(DOMAIN tableP)])
           /\ UNCHANGED <<heap, table, handles, nextid, heapP, tableP, handlesP, nextidP>>

Next == \/ \E a \in Args : Construct(a)
        \/ \E j \in 1..MaxPickles : Load(j)
        \/ \E k \in 1..MaxOps : Drop(k)
        \/ \E k \in 1..MaxOps : Dump(k)

Spec == Init /\ [][Next]_vars

(* ------------------------------------------------------------------ properties *)
LastOp == hist[Len(hist)]
Obtained == hist # <<>> /\ LastOp.op \in {"new", "load"}

\* two live objects never carry the same argument tuple
UniqueLive == \A o1 \in Live, o2 \in Live : heap[o1] = heap[o2] => o1 = o2

\* the object handed out carries exactly the requested arguments (so its nutils hash,
\* a function of the arguments it carries, is independent of the history)
ExactArgs == Obtained => (LastOp.args = LastOp.want /\ (LastOp.op = "new" => LastOp.args = CanonOf[LastOp.a]))

\* structurally equal to a live object => that very object; otherwise a fresh one
SameWhileAlive == Obtained => IF LastOp.existing # 0 THEN LastOp.obj = LastOp.existing
                                                      ELSE LastOp.obj = nextid - 1

\* the weak table holds exactly the live objects, each under its key
TableSound == /\ \A key \in DOMAIN table : table[key] \in Live /\ Key(heap[table[key]]) = key
              /\ \A o \in Live : Key(heap[o]) \in DOMAIN table
              /\ Live = Referenced(handles)

\* every behaviour of full length is handed to the harness with its predictions
EmitVF(x) == PrintT(<<"VF", ToJson(x)>>)
EmitBehaviour == Len(hist) < MaxOps \/ EmitVF([label |-> Label, mode |-> KeyMode, hist |-> hist])
=============================================================================
