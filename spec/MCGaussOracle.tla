--------------------------- MODULE MCGaussOracle ---------------------------
(***************************************************************************)
(* C09: constants of GaussOracle, and its T binding to                     *)
(* src/nutils/element.py.  For every configuration the harness builds the  *)
(* real reference (with_children / trim on the simplex and tensor          *)
(* references) and exports (env VF_TABLE, JSON: [cfg, pieces, skip]) its   *)
(* own decomposition, the way getpoints walks it: WithChildrenReference -> *)
(* its non-empty children under their child transforms, MosaicReference -> *)
(* its simplices under simplex_transforms, simplex / tensor references ->  *)
(* themselves; every leaf with its exact dyadic affine map to the          *)
(* coordinates of the outermost reference.  TLC decides in every state     *)
(* that the exported pieces tile exactly the region the model assigns to   *)
(* the configuration: no degenerate piece, equal volume, equal integrals   *)
(* of all monomials up to degree InvDeg (exact rational arithmetic).       *)
(***************************************************************************)
EXTENDS GaussOracle, IOUtils
MCRefs1 == {<<1>>, <<2>>, <<1, 1>>}
MCRefs2 == {<<1>>, <<2>>, <<3>>, <<1, 1>>, <<1, 2>>, <<2, 1>>, <<1, 1, 1>>}
MCRefsQ == {<<1>>, <<2>>, <<3>>, <<1, 1>>, <<1, 2>>}
MCTrim2 == {<<1>>, <<2>>, <<1, 1>>}
MCTrim3 == {<<1>>, <<2>>, <<1, 1>>, <<3>>, <<1, 2>>, <<1, 1, 1>>}
MCLevels1 == {1}
MCLevels2 == {1, 2}
MCRefine0 == {0}
MCRefine01 == {0, 1}

Table == JsonDeserialize(IOEnv.VF_TABLE)
Rows == {k \in 1..Len(Table) : Table[k].cfg = cfg}
Exported(k) == [j \in 1..Len(Table[k].pieces) |-> MkPiece(Table[k].pieces[j].d, Table[k].pieces[j].F, 1)]
Zero(n) == [c \in 1..n |-> 0]
Verdict ==
    IF Rows = {} THEN "no-row"
    ELSE LET k == CHOOSE r \in Rows : TRUE
             X == Exported(k)
         IN IF Table[k].skip # "" THEN "skipped"
            ELSE IF \E j \in 1..Len(X) : Det(X[j].F.A, X[j].F.n) = 0 THEN "degenerate-piece"
            ELSE IF RegionValue(X, Zero(NDims(cfg.d))) # RegionValue(Region(cfg), Zero(NDims(cfg.d))) THEN "volume-differs"
            ELSE IF \E e \in LowExps(cfg.d) : RegionValue(X, e) # RegionValue(Region(cfg), e) THEN "moments-differ"
            ELSE "ok"
\* always TRUE; prints the verdict of every configuration
Decomposition == Emit([tab |-> cfg, v |-> Verdict])
=============================================================================
