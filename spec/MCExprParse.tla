---------------------------- MODULE MCExprParse ----------------------------
(* model-checking constants for ExprParse (C19) *)
EXTENDS ExprParse
NoStrings == {}
AllWraps == {"scope", "jump", "mean"}
AllMuts == {"unknown", "index-count", "index-symbol", "number-position", "repeated-power", "repeated-fraction", "misplaced-minus"}
SyntaxMuts == {"number-position", "repeated-power", "repeated-fraction", "misplaced-minus"}
AllCors == {"del-bracket", "swap-close", "del-op-space", "pow-space-before", "pow-space-after", "call-space", "index-space", "trailing-op"}
\* exhaustive, quick
VarsA == {"c", "a", "B"}
NumsA == {"2"}
FuncsA == {"sqr", "g"}
ToksA == {"i", "j", "0"}
GToksA == {"i", "j"}
ExpsA == {"2", "-1"}
=============================================================================
