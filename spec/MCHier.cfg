\* quick, exhaustive: every hierarchical refinement to depth 2 of a line of 2 elements (open and periodic) and to
\* depth 1 of a 2x1 and a 2x2 (periodic in y) grid; classical and truncated, spline and std, degree <= 3
SPECIFICATION Spec
CONSTANTS
  Bases <- Bases_quick
  MaxCells = 16
  BuildSet <- Builds_quick
  Mutant = "none"
INVARIANT TypeOK
INVARIANT InvInverse
INVARIANT InvNoDead
INVARIANT InvPartition
INVARIANT InvMin
INVARIANT InvUnrefined
INVARIANT InvIfc
INVARIANT EmitState
CHECK_DEADLOCK FALSE
