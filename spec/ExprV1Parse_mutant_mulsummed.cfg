\* spec mutant of the version 1 bookkeeping model (C19): __mul__ forgets that the common indices are summed: r_i r_i r_i
\* expected: TLC reports an invariant (VerdictAgree / FreeAgree / GroupsAgree) as violated.  Stand-alone:
\*   java -cp tla2tools.jar:CommunityModules-deps.jar tlc2.TLC -deadlock -config ExprV1Parse_mutant_mulsummed.cfg MCExprV1Parse.tla
SPECIFICATION Spec
CONSTANTS
  Fams <- OnlyT2
  EmitMin = 0
  Bug = "mul-nosummed"
  Lazy = FALSE
INVARIANT VerdictAgree
INVARIANT FreeAgree
INVARIANT GroupsAgree
INVARIANT InferenceSound
CHECK_DEADLOCK FALSE
