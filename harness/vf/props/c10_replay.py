"""C10 S->C replay: behaviours of spec/Topo.tla (operation histories chosen by TLC) are rebuilt with real
nutils topologies; after every step everything the property observes is measured on the real object and
compared with the prediction that spec/TopoEval.tla computed for the same state.

Observation of a real topology (all through the public API):
  elements    hull of every element (vertex sample of the geometry) -> model key (level, index, half);
              measure and first moments from integrate_elementwise (gauss 2, exact)
  boundary    topo.boundary sampled with the 'uniform' scheme at lcm(1..2^L) points per facet piece, so that every point lies strictly inside one facet atom of the model and every atom
              gets its share of the weights; per point position, normal, w*J
  interfaces  same for topo.interfaces, plus the position on the opposite side and f_index /
              opposite(f_index) of the volume topology (the two adjacent elements)
The model decides: the set of element keys, measure and moments of each element, the set of boundary facet
atoms (each covered exactly once, with the predicted outward normal), the closedness integrals, the set of
interior facet atoms (each exactly once, between the predicted two elements), and after a trim the
complement and the shared cut.
"""

import json
import math

import numpy

TOL = 1e-9


class Failure(Exception):
    def __init__(self, key, what, data=None):
        super().__init__(what)
        self.key, self.what, self.data = key, what, data


class Unsupported(Exception):
    """the implementation does not offer this operation / observation on this kind of topology (it says so by raising
    NotImplementedError, 'unsupported operand', or a missing attribute): not judged, counted"""


def exc_failure(e, label, what, sig):
    """classify an exception raised by nutils during an operation or observation.
    -> raises Unsupported, or returns a Failure whose key names the innermost nutils frame (root cause, seed independent)"""
    import traceback
    msg = str(e)
    if isinstance(e, NotImplementedError) or isinstance(e, TypeError) and 'unsupported operand' in msg \
            or isinstance(e, AttributeError) and 'has no attribute' in msg:
        raise Unsupported('{}:{}:{}'.format(label, type(e).__name__, msg[:80]))
    where = '?'
    frames = [fr for fr in traceback.extract_tb(e.__traceback__) if '/nutils/' in fr.filename]
    # root cause = innermost frame in the topology / element layer (the lookup helpers in transformseq, transform, util and
    # numeric only report that the caller asked for something that does not exist), named by function and statement
    pick = [fr for fr in frames if fr.filename.rsplit('/', 1)[-1] in ('topology.py', 'element.py', 'mesh.py')] or frames
    if pick:
        fr = pick[-1]
        where = '{}:{}:{}'.format(fr.filename.rsplit('/', 1)[-1][:-3], fr.name, ''.join((fr.line or '').split())[:44])
    if label == 'boundary' and sig.startswith('HierarchicalTopology/SubsetTopology'):
        # same root cause as the lost facets: HierarchicalTopology.boundary does not know the trimmed edges of its base
        return Failure('boundary:raises:hierarchical-refinement-of-trimmed-element', '{}: {} raised {!r} ({})'.format(what, label, e, sig))
    return Failure('{}:raises-{}@{}'.format(label, type(e).__name__, where), '{}: {} raised {!r} ({})'.format(what, label, e, sig))


# ------------------------------------------------------------------------------------------------ bases

BASES = {
    # name: (kind, shape, periodic dims)
    'line1': ('rect', (1,), ()), 'line2': ('rect', (2,), ()), 'line3': ('rect', (3,), ()), 'line4': ('rect', (4,), ()),
    'line2p': ('rect', (2,), (0,)), 'line3p': ('rect', (3,), (0,)),
    'rect21': ('rect', (2, 1), ()), 'rect22': ('rect', (2, 2), ()), 'rect32': ('rect', (3, 2), ()),
    'rect22p': ('rect', (2, 2), (0,)), 'rect32p': ('rect', (3, 2), (0,)),
    'mul22': ('mul', (2, 2), ()), 'mul21': ('mul', (2, 1), ()), 'mul32p': ('mul', (3, 2), (0,)),
    'mp21': ('mp', (2, 1), ()), 'mp42': ('mp', (4, 2), ()),
    'tri1': ('triangle', (1, 1), ()), 'tri2': ('triangle', (2, 2), ()),
    'mix2': ('mixed', (2, 2), ()), 'mix3': ('mixed', (3, 3), ()),
}


class Ctx:
    """base mesh + scaling facts shared by all observations of one behaviour"""

    def __init__(self, name, L):
        from nutils import mesh, function
        kind, shape, periodic = BASES[name]
        self.name, self.kind, self.shape, self.L = name, kind, shape, L
        self.dim = len(shape)
        self.A = 2 ** L
        self.per = tuple(d in periodic for d in range(self.dim))
        self.natoms = tuple(n * self.A for n in shape)
        self.tri = kind in ('triangle', 'mixed')
        self.periodic2 = any(shape[d] == 2 for d in periodic)
        # points per facet element of the uniform scheme: a multiple of every number of facet atoms that one facet piece can
        # span, so that every point lies strictly inside one atom and every covered atom gets its share of the weight
        # (a piece of a trimmed edge can span any number of atoms up to 2^L)
        self.nuni = math.lcm(*range(1, self.A + 1)) if self.dim > 1 else 1
        assert self.nuni <= 12, '2-D bases are limited to depth 2'
        nodes = [numpy.arange(n + 1, dtype=float) for n in shape]
        if kind == 'rect':
            self.topo, self.geom = mesh.rectilinear(nodes, periodic=periodic)
        elif kind == 'mul':
            self.topo, self.geom = mesh.newrectilinear(nodes, periodic=list(periodic))
        elif kind == 'mp':
            k = shape[1]    # elements per patch per direction; two patches side by side
            self.topo, self.geom = mesh.multipatch(patches=[[0, 1, 2, 3], [2, 3, 4, 5]],
                                                   patchverts=[[0, 0], [0, k], [k, 0], [k, k], [2 * k, 0], [2 * k, k]], nelems=k)
        else:
            topo, geom = mesh.unitsquare(shape[0], kind)
            self.topo, self.geom = topo, geom * shape[0]
        self.function = function

    def diagtype(self, i, j):
        return 0 if (i // self.A) % 2 == (j // self.A) % 2 else 1


def nesting(topo, depth=2):
    try:
        if len(topo) == 0:
            return 'empty-' + type(topo).__name__
    except Exception:
        pass
    names = []
    while topo is not None and len(names) < depth:
        names.append(type(topo).__name__)
        topo = getattr(topo, 'basetopo', None)
    return '/'.join(names)


# ------------------------------------------------------------------------------------------------ observations

def _near_int(x, tol=1e-6):
    r = numpy.round(x)
    return numpy.abs(x - r) <= tol, r.astype(int)


def observe_cells(ctx, topo):
    """-> list over the elements of (key, vol2, mom6) with key = ((lv..), (ix..), hf)"""
    n = len(topo)
    if n == 0:
        return []
    smp = topo.sample('vertex', 0)
    X = numpy.asarray(smp.eval(ctx.geom), dtype=float)
    J = ctx.function.J(ctx.geom)
    try:
        vals = topo.integrate_elementwise([J] + [ctx.geom[d] * J for d in range(ctx.dim)], degree=2)
        vol = numpy.asarray(vals[0], dtype=float)
        mom = numpy.stack([numpy.asarray(v, dtype=float) for v in vals[1:]], axis=1)
    except NotImplementedError:
        # take() of a product topology offers only sample(): its elements are untrimmed products of lines, for which
        # the 2-point Gauss scheme has equal weights (reference measure 1)
        gs = topo.sample('gauss', 2)
        jv, xv = gs.eval([J, ctx.geom])
        vol = numpy.empty(n)
        mom = numpy.empty((n, ctx.dim))
        for i in range(n):
            ind = gs.getindex(i)
            vol[i] = jv[ind].mean()
            mom[i] = (jv[ind, None] * xv[ind]).mean(0)
    out = []
    for i in range(n):
        V = X[smp.getindex(i)] * ctx.A          # hull vertices in atom units
        lo, hi = V.min(0), V.max(0)
        size = hi - lo
        lv, ix = [], []
        for d in range(ctx.dim):
            okl, l = _near_int(math.log2(ctx.A / size[d])) if size[d] > 0 else (False, 0)
            oki, k = _near_int(lo[d] / size[d]) if size[d] > 0 else (False, 0)
            if not (okl and oki and 0 <= l <= ctx.L):
                raise Failure('elements:hull-not-dyadic', 'element {} has hull {}..{} (atom units), not a cell of the refinement tree'.format(i, lo.tolist(), hi.tolist()))
            lv.append(int(l))
            ix.append(int(k))
        hf = 2
        if ctx.tri:
            verts = numpy.unique(numpy.round(V, 6), axis=0)
            if len(verts) == 3:
                c = verts.mean(0) - (lo + hi) / 2
                if ctx.diagtype(int(round(lo[0])), int(round(lo[1]))) == 0:
                    hf = 0 if c[0] + c[1] < 0 else 1
                else:
                    hf = 0 if c[0] - c[1] > 0 else 1
        v2 = vol[i] * 2 * ctx.A ** ctx.dim
        m6 = mom[i] * 6 * ctx.A ** (ctx.dim + 1)
        out.append(((tuple(lv), tuple(ix), hf), float(v2), tuple(float(x) for x in m6)))
    return out


def _facet_ids(ctx, X):
    """facet atom id (doubled centre position) of every point; X in physical units"""
    Q = numpy.round(X * ctx.A * 1024) / 1024
    onint, r = _near_int(Q, 1e-9)
    P = numpy.where(onint, 2 * r, 2 * numpy.floor(Q).astype(int) + 1)
    for d in range(ctx.dim):
        if ctx.per[d]:
            P[:, d] %= 2 * ctx.natoms[d]
    return P, onint


def observe_facets(ctx, ftopo, voltopo=None):
    """sample a boundary / interface topology -> dict facet id -> dict(w, n, [x-mismatch, a, b])"""
    fn = ctx.function
    if len(ftopo) == 0:
        return {}
    smp = ftopo.sample('uniform', ctx.nuni) if ctx.dim > 1 else ftopo.sample('gauss', 1)
    J = fn.J(ctx.geom)
    funcs = [ctx.geom, fn.normal(ctx.geom)]
    if voltopo is not None:
        funcs += [fn.opposite(ctx.geom), voltopo.f_index, fn.opposite(voltopo.f_index)]
    vals = smp.eval(funcs)
    try:
        W = numpy.asarray(smp.integrate(smp.basis() * J), dtype=float)     # per point: quadrature weight * J
    except NotImplementedError:
        # tensorial samples offer no basis(); their elements are untrimmed products of lines (reference measure 1) and
        # the uniform scheme has equal weights
        W = numpy.asarray(smp.eval(J), dtype=float)
        for i in range(smp.nelems):
            ind = smp.getindex(i)
            W[ind] /= len(ind)
    W = W * ctx.A ** (ctx.dim - 1)
    X = numpy.asarray(vals[0], dtype=float).reshape(len(W), ctx.dim)
    N = numpy.asarray(vals[1], dtype=float).reshape(len(W), ctx.dim)
    P, onint = _facet_ids(ctx, X)
    if ctx.dim > 1 and (onint.sum(1) > 1).any():
        raise RuntimeError('harness: a uniform sample point lies on a vertex of the atom grid')
    out = {}
    for q in range(len(W)):
        p = tuple(int(x) for x in P[q])
        e = out.get(p)
        if e is None:
            e = out[p] = dict(w=0., n=N[q], nbad=False, pairs=set(), xbad=False)
        e['w'] += W[q]
        if numpy.abs(N[q] - e['n']).max() > 1e-7:
            e['nbad'] = True
        if voltopo is not None:
            XO = numpy.asarray(vals[2], dtype=float).reshape(len(W), ctx.dim)[q]
            diff = XO - X[q]
            for d in range(ctx.dim):
                if ctx.per[d]:
                    diff[d] = (diff[d] + ctx.shape[d] / 2) % ctx.shape[d] - ctx.shape[d] / 2
            if numpy.abs(diff).max() > 1e-9:
                e['xbad'] = True
            e['pairs'].add((int(vals[3][q]), int(vals[4][q])))
    stats = dict(wn=(W[:, None] * N).sum(0) / ctx.A ** (ctx.dim - 1), flux=float((W * (X * N).sum(1)).sum()) / ctx.A ** (ctx.dim - 1))
    out['_stats'] = stats
    return out


# ------------------------------------------------------------------------------------------------ comparison with the model

def _tkey(k):
    return (tuple(k[0]), tuple(k[1]), int(k[2]))


def compare_cells(ctx, topo, pcells, what):
    """-> dict model key -> real element index"""
    sig = nesting(topo)
    try:
        n = len(topo)
        obs = observe_cells(ctx, topo)
    except Failure:
        raise
    except Exception as e:
        raise exc_failure(e, 'elements', what, sig)
    want = {_tkey(c['key']): (c['v'], tuple(c['m'])) for c in pcells}
    if n != len(want):
        raise Failure('elements:len:' + sig, '{}: topology has {} elements, the model {}'.format(what, n, len(want)), dict(got=[o[0] for o in obs], want=sorted(want)))
    index = {}
    for i, (key, v2, m6) in enumerate(obs):
        if key in index:
            raise Failure('elements:duplicate:' + sig, '{}: elements {} and {} are the same cell {}'.format(what, index[key], i, key))
        index[key] = i
        if key not in want:
            raise Failure('elements:unexpected:' + sig, '{}: element {} = cell {} is not in the model topology'.format(what, i, key), dict(want=sorted(want)))
        wv, wm = want[key]
        if abs(v2 - wv) > 1e-6 or max(abs(a - b) for a, b in zip(m6, wm)) > 1e-6:
            raise Failure('elements:measure:' + sig, '{}: element {} = cell {} has 2*measure {} and 6*moments {} (atom units), the model predicts {} and {}'.format(
                what, i, key, v2, m6, wv, wm))
    return index


def _unit(n):
    n = numpy.asarray(n, dtype=float)
    return n / numpy.sqrt((n * n).sum())


def _inside_trimmed_base_elements(ctx, topo, facets):
    """root-cause classification: topo is hierarchical over a trimmed topology and every given facet atom lies strictly
    inside the hull of a base element with a partial (WithChildren / Mosaic) reference, i.e. on a cut inside an element"""
    if type(topo).__name__ != 'HierarchicalTopology' or type(topo.basetopo).__name__ != 'SubsetTopology':
        return False
    base = topo.basetopo
    try:
        cells = observe_cells(ctx, base)
    except Exception:
        return False
    boxes = []
    for (lv, ix, hf), v2, m6 in [c for c, ref in zip(cells, base.references) if type(ref).__name__ in ('WithChildrenReference', 'MosaicReference')]:
        size = [ctx.A // 2 ** l for l in lv]
        boxes.append([(2 * i * s, 2 * (i + 1) * s) for i, s in zip(ix, size)])
    def inside(p):
        for box in boxes:
            if all(lo <= x <= hi and (x % 2 == 1 or lo < x < hi) for x, (lo, hi) in zip(p, box)):
                return True
        return False
    return bool(boxes) and all(inside(p) for p in facets)


RELABEL_NOTES = []


def compare_boundary(ctx, topo, pB, vol2, what, group=None, allB=None, label=None):
    sig = nesting(topo)
    label = label or ('boundary' if group is None else 'cut')
    try:
        b = topo.boundary
        if group is not None:
            b = b.get_groups(group)
        obs = observe_facets(ctx, b)
    except Failure:
        raise
    except Exception as e:
        raise exc_failure(e, label, what, sig)
    stats = obs.pop('_stats', None)
    want = {tuple(f['p']): f['n'] for f in pB}
    missing = sorted(set(want) - set(obs))
    extra = sorted(set(obs) - set(want))
    if missing:
        cause = sig
        if label == 'boundary' and not extra and _inside_trimmed_base_elements(ctx, topo, missing):
            cause = 'hierarchical-refinement-of-trimmed-element'
        raise Failure('{}:lost-facets:{}'.format(label, cause), '{}: {} lacks {} of {} facet atoms, e.g. at (doubled atom units) {}'.format(what, label, len(missing), len(want), missing[:4]),
                      dict(missing=missing, extra=extra))
    if extra and label == 'cut' and allB is not None and set(extra) <= allB:
        # The named group of this trim also holds facets of the (true) boundary that an earlier operation exposed.  The
        # property speaks of the cut as a set of faces shared by the trimmed part and its complement, not of the label
        # under which nutils files boundary facets, so this is counted and not judged (DESIGN 11.4).
        RELABEL_NOTES.append(dict(what=what, group=group, extra=extra[:4], sig=sig))
        for q in extra:
            del obs[q]
        extra = []
    if extra:
        raise Failure('{}:extra-facets:{}'.format(label, sig), '{}: {} has {} facet atoms that are not on the boundary of the domain, e.g. {}'.format(what, label, len(extra), extra[:4]),
                      dict(extra=extra))
    for p, e in obs.items():
        n = want[p]
        meas = math.sqrt(sum(x * x for x in n)) if ctx.dim > 1 else 1.
        if abs(e['w'] - meas) > 1e-7:
            raise Failure('{}:facet-measure:{}'.format(label, sig), '{}: {} facet atom {} is covered with measure {} instead of {}'.format(what, label, p, e['w'], meas))
        if e['nbad'] or numpy.abs(e['n'] - _unit(n)).max() > 1e-7:
            raise Failure('{}:normal:{}'.format(label, sig), '{}: {} facet atom {} has normal {}, the model predicts {}'.format(what, label, p, numpy.asarray(e['n']).tolist(), n))
    if group is None and stats is not None:
        if numpy.abs(stats['wn']).max() > 1e-9:
            raise Failure('boundary:not-closed:' + sig, '{}: the outward normals integrate to {}'.format(what, stats['wn'].tolist()))
        if not any(ctx.per):
            V = vol2 / 2 / ctx.A ** ctx.dim
            if abs(stats['flux'] - ctx.dim * V) > 1e-9:
                raise Failure('boundary:flux:' + sig, '{}: the flux of the position vector is {}, dimension * volume = {}'.format(what, stats['flux'], ctx.dim * V))
    return len(want)


def compare_interfaces(ctx, topo, pI, index, what):
    sig = nesting(topo)
    try:
        obs = observe_facets(ctx, topo.interfaces, voltopo=topo)
    except Failure:
        raise
    except Exception as e:
        raise exc_failure(e, 'interfaces', what, sig)
    obs.pop('_stats', None)
    want = {tuple(f['p']): f for f in pI}
    missing = sorted(set(want) - set(obs))
    extra = sorted(set(obs) - set(want))
    if missing:
        raise Failure('interfaces:lost-facets:' + sig, '{}: interfaces lack {} of {} interior facet atoms, e.g. {}'.format(what, len(missing), len(want), missing[:4]), dict(missing=missing, extra=extra))
    if extra:
        raise Failure('interfaces:extra-facets:' + sig, '{}: interfaces contain {} facet atoms that do not separate two elements, e.g. {}'.format(what, len(extra), extra[:4]), dict(extra=extra))
    rindex = {i: k for k, i in index.items()}
    for p, e in obs.items():
        f = want[p]
        n = f['n']
        meas = math.sqrt(sum(x * x for x in n)) if ctx.dim > 1 else 1.
        if abs(e['w'] - meas) > 1e-7:
            raise Failure('interfaces:facet-measure:' + sig, '{}: interior facet atom {} occurs with measure {} instead of {} (exactly once)'.format(what, p, e['w'], meas))
        if e['xbad']:
            raise Failure('interfaces:sides-apart:' + sig, '{}: the two sides of the interface at {} are at different positions'.format(what, p))
        a, b = _tkey(f['a']), _tkey(f['b'])
        if len(e['pairs']) != 1:
            raise Failure('interfaces:adjacent:' + sig, '{}: interior facet atom {} is attributed to several element pairs {}'.format(what, p, sorted(e['pairs'])))
        (ia, ib), = e['pairs']
        ka, kb = rindex.get(ia), rindex.get(ib)
        if {ka, kb} != {a, b} or ka == kb:
            raise Failure('interfaces:adjacent:' + sig, '{}: interface at {} lies between elements {} and {}, the model predicts cells {} and {}'.format(what, p, ka, kb, a, b))
        # the normal is the outward normal of the first side
        sgn = 1 if ka == a else -1
        if e['nbad'] or numpy.abs(e['n'] - sgn * _unit(n)).max() > 1e-7:
            raise Failure('interfaces:normal:' + sig, '{}: interface at {} between {} (first side) and {} has normal {}'.format(what, p, ka, kb, numpy.asarray(e['n']).tolist()))
    return len(want)


# ------------------------------------------------------------------------------------------------ operations

def apply_op(ctx, topo, index, o, k):
    """the real counterpart of Topo!Apply; index: model key -> element number of topo; returns (new topo, complement or None)"""
    fn = ctx.function
    op, a = o['op'], o['a']
    sel = lambda K: numpy.array(sorted(index[_tkey(x)] for x in K), dtype=int)
    if op == 'refine':
        return topo.refined, None
    if op == 'refspace':
        return topo.refine_spaces(['XY'[a[0] - 1]]), None
    if op == 'refby':
        return topo.refined_by(sel(o['S'])), None
    if op == 'hierand':
        return topo.refined_by(sel(o['S'])) & topo.refined_by(sel(o['T'])), None
    if op == 'take':
        return topo.take(sel(o['S'])), None
    if op == 'select':
        return topo.subset(topo.take(sel(o['S'])), newboundary='sel{}'.format(k)), None
    if op == 'remove':
        return topo - topo.take(sel(o['S'])), None
    if op == 'union':
        if a[0] == 0:
            return topo.take(sel(o['S'])) | topo.take(sel(o['T'])), None
        return topo.subset(topo.take(sel(o['S'])), newboundary='sel{}'.format(k)) | topo.subset(topo.take(sel(o['T'])), newboundary='sel{}'.format(k)), None
    if op == 'slice':
        d, lo, hi = a
        item = tuple(slice(lo, hi) if e == d - 1 else slice(None) for e in range(ctx.dim))
        return topo[item], None
    if op == 'trim':
        d, c, sgn, m = a
        pos = topo.trim(sgn * (ctx.geom[d - 1] - c / ctx.A), maxrefine=m, name='trim{}'.format(k))
        return pos, topo - pos
    if op == 'trim2':
        c1, s1, c2, s2, m, mode = a
        f1, f2 = s1 * (ctx.geom[0] - c1 / ctx.A), s2 * (ctx.geom[1] - c2 / ctx.A)
        pos = topo.trim(numpy.maximum(f1, f2) if mode == 0 else numpy.minimum(f1, f2), maxrefine=m, name='trim{}'.format(k))
        return pos, topo - pos
    raise ValueError(op)


def op_label(o):
    return o['op'] + (str(o['a']) if o['a'] else '')


def hist_label(hist):
    return ' . '.join(op_label(o) for o in hist) or 'base'


class Replayer:
    """replays behaviours that share prefixes; every distinct prefix is built and observed once"""

    def __init__(self):
        self.ctx = {}
        self.nodes = {}       # (base, L, json(hist prefix)) -> dict(topo, index, fail)
        self.stats = dict(states=0, bstates=0, bfacets=0, ifacets=0, cuts=0, elements=0, groups=0, unions=0, cut_label_not_judged=0, unsupported=0)
        self.unsupported = {}

    def context(self, base, L):
        if (base, L) not in self.ctx:
            self.ctx[base, L] = Ctx(base, L)
        return self.ctx[base, L]

    def node(self, case, preds, k):
        """state after k operations of the case; preds[k] is the model prediction for it"""
        key = (case['base'], case['L'], json.dumps(case['hist'][:k], sort_keys=True))
        if key in self.nodes:
            return self.nodes[key]
        node = dict(topo=None, index=None, fail=None, comp=None)
        self.nodes[key] = node
        try:
            ctx = self.context(case['base'], case['L'])
        except Exception as e:
            node['fail'] = ('base:{}:raises-{}'.format(BASES[case['base']][0], type(e).__name__), 'constructing the base mesh {} raised {!r}'.format(case['base'], e), dict(base=case['base']))
            self.ctx[case['base'], case['L']] = None
            return node
        if ctx is None:
            node['fail'] = 'inherited'
            return node
        what = '{}(L={}): {}'.format(case['base'], case['L'], hist_label(case['hist'][:k]))
        try:
            if k == 0:
                topo, comp = ctx.topo, None
            else:
                parent = self.node(case, preds, k - 1)
                if parent['fail'] is not None:
                    node['fail'] = 'inherited'
                    return node
                o = case['hist'][k - 1]
                try:
                    topo, comp = apply_op(ctx, parent['topo'], parent['index'], o, k)
                except Exception as e:
                    raise exc_failure(e, 'op:' + o['op'], what, nesting(parent['topo']))
            node['topo'] = topo
            self.observe(ctx, topo, comp, preds[k], what, node, k, leaf=(k == len(case['hist'])), before=preds[k - 1] if k else None)
        except Unsupported as u:
            self.stats['unsupported'] += 1
            self.unsupported[str(u)] = self.unsupported.get(str(u), 0) + 1
            node['fail'] = 'inherited'
        except Failure as f:
            key = f.key
            if ctx.periodic2 and key.split(':')[0] in ('boundary', 'interfaces', 'cut', 'group'):
                # two elements in a periodic direction: an element neighbours the same element through two edges, and
                # util.index(connectivity[opposite], element) picks the first of them
                key = 'periodic2:ambiguous-opposite-edge'
            ops = [o['op'] for o in case['hist'][:k]]
            if 'trim2' in ops[:-1] and ops[-1] in ('trim', 'trim2') and key.split(':')[0] in ('boundary', 'interfaces', 'cut', 'group'):
                # trimming again after a trim that left non-convex elements: the reference algebra of nested WithChildrenReference
                # objects with different bases is incomplete (TypeError / ValueError) or silently wrong (facets twice)
                key = 'retrim-after-trim2:' + key.split(':')[0]
            node['fail'] = (key, f.what, dict(base=case['base'], L=case['L'], hist=case['hist'][:k], detail=f.data))
        return node

    def observe(self, ctx, topo, comp, p, what, node, k, leaf=False, before=None):
        self.stats['states'] += 1
        node['index'] = compare_cells(ctx, topo, p['cells'], what)
        self.stats['elements'] += len(node['index'])
        if p['trim']:
            cwhat = what + ' [complement]'
            cindex = compare_cells(ctx, comp, p['ccells'], cwhat)
        if not p['bd']:
            if p['trim'] and p['ccells']:
                self.observe_union(ctx, topo, comp, p, before, what)
            return
        self.stats['bstates'] += 1
        self.stats['bfacets'] += compare_boundary(ctx, topo, p['B'], p['vol2'], what)
        if p.get('hasG') and leaf:
            # named sides of the box: every group is the predicted part of the boundary
            allB = {tuple(f['p']) for f in p['B']}
            for name in (('left', 'right') if ctx.dim == 1 else ('left', 'right', 'bottom', 'top')):
                compare_boundary(ctx, topo, p['G'][name], 0, what + ' [boundary group {}]'.format(name), group=name, allB=allB, label='group')
            self.stats['groups'] += 1
        self.stats['ifacets'] += compare_interfaces(ctx, topo, p['I'], node['index'], what)
        if p['trim']:
            name = 'trim{}'.format(k)
            cvol2 = sum(c['v'] for c in p['ccells'])
            self.stats['bfacets'] += compare_boundary(ctx, comp, p['cB'], cvol2, cwhat)
            self.stats['ifacets'] += compare_interfaces(ctx, comp, p['cI'], cindex, cwhat)
            flipped = [dict(p=f['p'], n=[-x for x in f['n']]) for f in p['cut']]
            compare_boundary(ctx, topo, p['cut'], 0, what + ' [cut]', group=name, allB={tuple(f['p']) for f in p['B']})
            if p['ccells']:
                compare_boundary(ctx, comp, flipped, 0, cwhat + ' [cut]', group=name, allB={tuple(f['p']) for f in p['cB']})
                self.observe_union(ctx, topo, comp, p, before, what)
            self.stats['cuts'] += 1

    def observe_union(self, ctx, topo, comp, p, before, what):
        """trimmed part | complement is the topology before the trim, element by element"""
        uwhat = what + ' [trimmed | complement]'
        try:
            union = topo | comp
        except Exception as e:
            raise exc_failure(e, 'op:or', uwhat, nesting(topo))
        uindex = compare_cells(ctx, union, before['cells'], uwhat)
        if before['bd'] and p['bd']:
            compare_boundary(ctx, union, before['B'], before['vol2'], uwhat)
            compare_interfaces(ctx, union, before['I'], uindex, uwhat)
        # the same through UnionTopology (plain element lists, references of common elements are united)
        uwhat = what + ' [take(trimmed) | take(complement)]'
        try:
            union = topo.take(numpy.arange(len(topo))) | comp.take(numpy.arange(len(comp)))
        except Exception as e:
            raise exc_failure(e, 'op:or', uwhat, 'UnionTopology')
        compare_cells(ctx, union, before['cells'], uwhat)
        self.stats['unions'] += 1

    def run_case(self, case, preds):
        """-> (failure or None, number of steps validated)"""
        ok = 0
        for k in range(len(case['hist']) + 1):
            node = self.node(case, preds, k)
            if node['fail'] is not None:
                fail = node['fail']
                node['fail'] = 'inherited'     # report a failing state once, not once per behaviour through it
                return (None if fail == 'inherited' else fail), ok
            ok += 1
        return None, ok
