"""C07 -- Function arrays follow NumPy semantics at every point.

Design model: spec/NumpySem.tla (NumPy array semantics on tiny exact data: broadcasting, kind promotion, indexing,
reshape/transpose, joins, reductions, products, einsum, small linear algebra, searchsorted/interp; every call returns a
value or a REJECT / TYPEERR verdict) and spec/FuncBuilder.tla (state machine whose behaviours are compositions of NumPy
API calls over constants, arguments, raw operands and POINT-DEPENDENT leaves -- coordinate, element index, basis -- whose
exact per-point values on six samples, two of them product samples with two point axes, are model constants).  TLC
explores the machine (exhaustively per call family, -simulate for deeper mixed compositions), checks the model's internal
laws as invariants and emits every behaviour together with the predicted shape, kind, per-point values or verdict.

S->C binding (vf/props/c07_replay.py): (1) the harness asserts that nutils evaluates the point-dependent leaves on the real
samples to exactly the model constants; (2) every behaviour is replayed by applying the *same NumPy API call* (NEP-13/18
dispatch) to nutils function arrays: `.shape` / `.dtype` (and numpy.shape/ndim/size) are compared with the model before
evaluation, `sample.eval` at every point with the model's per-point values afterwards; REJECT must surface as an exception
when the expression is built.  As a guard of the transcription every behaviour is also executed by real numpy on plain
ndarrays: a disagreement between the TLA+ model and numpy is a MODEL bug and aborts the check (machinery failure), it is
never reported as a violation.
"""

import hashlib
import json
import os
import random
import threading

import numpy

from .. import tlc
from . import c07_ops as ops
from . import c07_pool, c07_replay
from .c07_replay import SAMPLE_NAMES, canon, point_dependent

LEVEL = 'model_checking'
TAG = 'c07' + os.environ.get('VF_C07_TAG', '')      # scratch-directory prefix (lets mutation runs proceed side by side)

CFG = '''SPECIFICATION Spec
CONSTANTS
  Families <- VFFamilies
  EmitMin = {emitmin}
  EmitTables = {tables}
  WrongPromotion = {mutant}
INVARIANT VerdictUniform
INVARIANT SizeLaw
INVARIANT BroadcastLaw
INVARIANT KindLaw
INVARIANT StructLaw
CONSTRAINT EmitAll
CHECK_DEADLOCK FALSE
'''

# sample ids of spec/FuncBuilder.tla
LINEB, LINEG, LINEU, RECTB, PRODYX, PRODXY = 1, 2, 3, 4, 5, 6


def S(*names):
    return '{' + ', '.join(json.dumps(n) for n in names) + '}'


def fam(name, ops_, leaves, samples, maxops=1, maxleaves=2, maxunused=1, wide=1):
    return dict(name=name, ops=ops_, leaves=leaves, samples='{' + ', '.join(map(str, samples)) + '}', maxops=maxops, maxleaves=maxleaves, maxunused=maxunused, wide=wide)


def families(quick):
    """call families explored EXHAUSTIVELY by TLC (breadth first)"""
    A, B = [LINEG, PRODXY], [PRODXY, PRODYX]
    one = [PRODXY]
    d1 = [
        # ---- depth 1, wide parameter pools: every call x every parameter form x one leaf of every kind / shape class
        fam('promotion', 'ElemOps \\cup CompareOps', S('ab2', 'ai2', 'af2', 'ac2', 'X', 'EX', 'ri', 'rf', 'rb', 'rc'), [PRODXY] if quick else A),
        fam('broadcast', '{"add", "multiply", "true_divide", "greater", "minimum", "hypot"}', S('X', 'Y', 'BX', 'af23', 'cf13', 'cf21', 'af223', 'cf20', 'af0', 'cf3', 'af2'), [PRODYX] if quick else B),
        fam('unary', 'UnOps', S('X', 'EX', 'Y', 'BX', 'ab2', 'ai3', 'af23', 'ac2', 'cc22', 'cb23', 'ci0', 'cf20', 'af0'), B, maxleaves=1),
        fam('transcendental', 'TrOps', S('X', 'EX', 'Y', 'BX', 'ab2', 'ai3', 'af23', 'ac2', 'ci0', 'af0'), [PRODYX] if quick else B + [LINEU], maxleaves=1),
        fam('reduce', 'RedOps', S('BX', 'Y', 'af23', 'af223', 'cb23', 'ci23', 'ac2', 'X', 'cf20'), [PRODYX] if quick else B, maxleaves=1),
        fam('getitem', '{"getitem"}', S('BX', 'Y', 'af23', 'af223', 'ci23', 'X', 'cf20'), B, maxleaves=1),
        fam('getitem-node', '{"getitem_node"}', S('BX', 'Y', 'af23', 'af223', 'EX', 'EY', 'ai2', 'ci0', 'ci23'), B),
        fam('shape', 'ShapeOps', S('BX', 'Y', 'af23', 'af223', 'X', 'cf13', 'cf21', 'ab2'), [PRODYX] if quick else B, maxleaves=1),
        fam('join', 'JoinOps', S('X', 'Y', 'af2', 'ab2', 'af23', 'cf13', 'BX', 'ac2', 'EX') if quick else S('X', 'Y', 'af2', 'ab2', 'af23', 'cf13', 'BX', 'cf3', 'rf', 'ac2', 'EX'), one if quick else B),
        fam('join3', 'JoinOps', S('X', 'af2', 'Y', 'ri'), one, maxleaves=3, maxunused=2, wide=0),
        fam('pick', '{"take", "compress"}', S('BX', 'Y', 'af23', 'af223', 'X', 'EX', 'EY', 'ai2', 'ai3', 'ci23', 'ri2', 'rin', 'ab2'), one if quick else B),
        fam('choose', '{"choose"}', S('EX', 'EY', 'ab2', 'ai2', 'X', 'af2', 'Y', 'rf', 'ac2', 'cb23', 'af23'), one, maxleaves=3, maxunused=2),
        fam('product', '{"dot", "matmul", "vdot", "cross"}', S('X', 'Y', 'BX', 'af2', 'af3', 'af23', 'af22', 'af223', 'cf33', 'cf21', 'ai2', 'ab2', 'ac2', 'cc22', 'rf'), one if quick else B),
        fam('einsum', '{"einsum"}', S('X', 'Y', 'BX', 'af2', 'af3', 'af23', 'af22', 'af223', 'cf33', 'ab2', 'cc22'), one if quick else B),
        fam('linalg', 'LinOps', S('af22', 'af23', 'af223', 'cf33', 'cc22', 'ci22', 'BX', 'Y', 'X', 'ci23', 'cb23'), [PRODYX] if quick else B, maxleaves=1),
        fam('lookup', 'LookupOps', S('rn3', 'rm3', 'cs3', 'as3', 'X', 'af23', 'EX', 'ai2') if quick else S('rn3', 'rm3', 'cf3', 'cs3', 'as3', 'X', 'Y', 'BX', 'af23', 'EX', 'ai2'), one, maxleaves=3, maxunused=2),
    ]
    # a table indexed by a position-dependent integer: searchsorted of the coordinate, then take / getitem
    bypos = fam('index-by-position', '{"searchsorted", "take", "getitem_node"}', S('rn3', 'X', 'cf3'), [PRODXY] if quick else B, maxops=2, maxleaves=3, maxunused=2, wide=0)
    # the insertion position returned by searchsorted ranges over 0..len INCLUSIVE: clamping / wrapping / looking it up, with the
    # coordinate beyond the last table entry at some points of the sample (integer-range based rewrites must keep the clamp)
    # (take by the clamped position is not in the vocabulary: a point-dependent index cannot be lowered at all -- known finding)
    clamp = fam('searchsorted-clamp', '{"searchsorted", "minimum", "maximum", "mod"}', S('rt3', 'X', 'ri', 'ri3'), [LINEU] if quick else [LINEU, PRODXY], maxops=2, maxleaves=3, maxunused=1, wide=0)
    if quick:
        d2 = [bypos, clamp,
            # ---- depth 2, exhaustive per family, narrow pools
            fam('elem2', '{"add", "true_divide", "power", "greater"}', S('X', 'af2', 'ai2'), [LINEG], maxops=2, maxleaves=2, wide=0),
            fam('index2', '{"getitem"}', S('af223', 'BX'), [PRODYX], maxops=2, maxleaves=1, wide=0),
            fam('shape2', '{"reshape", "transpose", "swapaxes", "ravel"}', S('af23', 'Y'), [PRODXY], maxops=2, maxleaves=1, wide=0),
            fam('reduce2', '{"sum", "all", "greater"}', S('af223', 'BX', 'af0'), [PRODXY], maxops=2, maxleaves=2, wide=0),
            fam('mixed2', '{"getitem", "sum", "transpose", "multiply"}', S('X', 'af23', 'BX'), [PRODXY], maxops=2, maxleaves=2, wide=0),
            fam('join2', '{"multiply", "stack", "concatenate"}', S('af23', 'BX'), [LINEB], maxops=2, maxleaves=2, wide=0),
            fam('lin2', '{"matmul", "einsum", "inv"}', S('af22', 'Y'), [PRODYX], maxops=2, maxleaves=2, wide=0),
        ]
        return d1 + d2
    everything = [LINEB, LINEG, LINEU, RECTB, PRODYX, PRODXY]
    d2 = [
        bypos, clamp,
        fam('elem2', '{"add", "multiply", "true_divide", "power", "floor_divide", "greater"}', S('X', 'af2', 'ai2'), A, maxops=2, maxleaves=2, wide=0),
        fam('index2', '{"getitem", "take"}', S('af223', 'BX'), B, maxops=2, maxleaves=1, wide=0),
        fam('shape2', '{"reshape", "transpose", "swapaxes", "ravel", "broadcast_to", "repeat"}', S('af23', 'Y'), B, maxops=2, maxleaves=1, wide=0),
        fam('reduce2', '{"sum", "prod", "any", "all", "greater"}', S('af223', 'BX', 'af0'), [PRODXY], maxops=2, maxleaves=2, wide=0),
        fam('mixed2', '{"getitem", "sum", "transpose", "multiply", "stack", "matmul", "equal", "negative"}', S('X', 'af23', 'BX'), [PRODXY, LINEB], maxops=2, maxleaves=2, wide=0),
        fam('lin2', '{"matmul", "dot", "einsum", "trace", "diagonal", "inv", "det", "transpose"}', S('af22', 'Y'), [PRODYX, RECTB], maxops=2, maxleaves=2, wide=0),
        fam('promotion-all', 'ElemOps \\cup CompareOps', S('ab2', 'ai2', 'af2', 'ac2', 'X', 'EX', 'ri', 'rf', 'rb', 'rc', 'ci2', 'cc0', 'cb2', 'af0'), [LINEB, LINEU, PRODYX]),
        fam('getitem-all', 'IndexOps', S('BX', 'af23', 'af223', 'X', 'EX', 'ai2'), [LINEB, LINEG, LINEU]),
        fam('getitem-rect', 'IndexOps', S('Y', 'af23', 'EY', 'ci23'), [RECTB]),
        fam('elem3', '{"add", "multiply", "true_divide", "greater"}', S('X', 'af2'), [PRODXY], maxops=3, maxleaves=2, wide=0),
        fam('index3', '{"getitem"}', S('af223'), [PRODXY], maxops=3, maxleaves=1, wide=0),
        fam('mixed2b', '{"getitem", "sum", "prod", "transpose", "reshape", "multiply", "stack", "concatenate", "dot", "take", "minimum"}', S('Y', 'af23', 'BX'), [PRODYX],
            maxops=2, maxleaves=2, wide=0),
    ]
    return d1 + d2


# model call -> action of spec/FuncBuilder.tla that makes it
ACTION_OF = dict([(o, 'DoBinary') for o in ops.BINARY] + [(o, 'DoUnary') for o in ops.UNARY] + [(o, 'DoReduce') for o in ops.REDUCE] + [
    ('divmod', 'DoDivmod'), ('getitem', 'DoGetItem'), ('reshape', 'DoReshape'), ('ravel', 'DoRavel'), ('transpose', 'DoTranspose'), ('swapaxes', 'DoSwapaxes'),
    ('moveaxis', 'DoMoveaxis'), ('expand_dims', 'DoExpandDims'), ('broadcast_to', 'DoBroadcastTo'), ('repeat', 'DoRepeat'), ('stack', 'DoJoin'), ('concatenate', 'DoJoin'),
    ('take', 'DoTake'), ('choose', 'DoChoose'), ('compress', 'DoCompress'), ('dot', 'DoProduct'), ('matmul', 'DoProduct'), ('vdot', 'DoProduct'), ('cross', 'DoProduct'),
    ('einsum', 'DoEinsum'), ('trace', 'DoDiag'), ('diagonal', 'DoDiag'), ('det', 'DoLinalg'), ('inv', 'DoLinalg'), ('norm', 'DoLinalg'), ('searchsorted', 'DoSearch'),
    ('interp', 'DoSearch'), ('leaf', 'AddLeaf')])
ALL_ACTIONS = sorted(set(ACTION_OF.values()) | {'DoGetItemNode'})
ALL_CALLS = tuple(ACTION_OF) [:-1]
REJECTING_CALLS = ('add', 'greater', 'sum', 'getitem', 'reshape', 'transpose', 'swapaxes', 'broadcast_to', 'stack', 'concatenate', 'take', 'dot', 'matmul', 'vdot', 'cross',
                   'einsum', 'diagonal', 'det', 'inv', 'searchsorted', 'interp')

# vocabulary of the simulated (deep, mixed) compositions: the calls nutils dispatches (the others are exercised -- and counted as
# "not implemented" -- by the depth-1 families only, where they cannot shadow the composition around them)
SIM_OPS = ('(AllOps \\ {"moveaxis", "max", "min", "less_equal", "greater_equal", "not_equal", "logical_xor", "expand_dims"})')
SIM_LEAVES = 'AllLeaves \\ {"cf20"}'
SIM_FAMILY = fam('sim', SIM_OPS, SIM_LEAVES, [LINEB, LINEG, LINEU, RECTB, PRODYX, PRODXY], maxops=4, maxleaves=4, maxunused=2, wide=0)


def module_text(fams):
    defs = ['MkFam({ops}, {leaves}, {samples}, {maxops}, {maxleaves}, {maxunused}, {wide})'.format(**f) for f in fams]
    return '---- MODULE MCFuncBuilderX ----\nEXTENDS MCFuncBuilder\nVFFamilies == << TableFam,\n  ' + ',\n  '.join(defs) + ' >>\n====\n'


def run_builder(tag, fams, *, simulate=None, depth=None, seed=0, mutant=False, emitmin=1, timeout=900, workers=None, coverage=False):
    p = os.path.join(tlc.workdir(tag + '-defs'), 'MCFuncBuilderX.tla')
    with open(p, 'w') as f:
        f.write(module_text(fams))
    kw = {}
    if simulate:
        kw = dict(simulate=dict(num=simulate), depth=depth, seed=seed)
    return tlc.run('MCFuncBuilderX', cfg_text=CFG.format(emitmin=emitmin, tables='FALSE' if simulate else 'TRUE', mutant='TRUE' if mutant else 'FALSE'),
                   tag=tag, workers=1 if simulate else workers, deadlock=False, timeout=timeout, extra_modules=[p], coverage=coverage, heap='6g', **kw)


def collect(res, tables, progs, origin):
    for e in res.emitted:
        if e['kind'] == 'table':
            tables[e['smp']] = e
        else:
            e['nodes'] = ops.seq(e['nodes'])
            e['root'] = ops.seq(e['root'])
            e['origin'] = origin
            progs.setdefault((e['smp'], canon(e)), e)


def spec_mutant(rep):
    """non-vacuity of the model's own laws: the promotion mutant (true_divide keeps the operand kind) must violate KindLaw"""
    fams = [fam('mutant', '{"true_divide", "add"}', S('ai2', 'EX', 'af2'), [LINEG])]
    res = run_builder(TAG + '-mutant', fams, mutant=True, workers=2)
    rep.add_tlc(res)
    if res.violated != 'KindLaw':
        raise RuntimeError('spec mutant (WrongPromotion) is not caught by the KindLaw invariant: TLC reports {}'.format(res.violated))
    rep.extra['spec_mutant'] = 'WrongPromotion violates KindLaw after {} states'.format(res.distinct)


def run(rep):
    rng = random.Random(rep.seed)
    quick = rep.tier == 'quick'
    tables, progs = {}, {}
    fams = families(quick)
    only = os.environ.get('VF_C07_FAMILIES')       # development aid: restrict to some families
    if only:
        fams = [f for f in fams if f['name'] in only.split(',')]
    results = {}
    ncpu = os.cpu_count() or 4

    def bfs():
        results['bfs'] = run_builder(TAG + '-bfs', fams, timeout=1200 if quick else 3600, workers=max(2, ncpu - (2 if quick else 6)))     # unloaded: ~15 s / ~100 s

    def mutant():
        spec_mutant(rep)

    nsim = 2 if quick else 6

    def sim(i):
        results['sim', i] = run_builder(TAG + '-sim{}'.format(i), [SIM_FAMILY], simulate=10 if quick else 150, depth=10, seed=rep.seed * 100 + 7 + i, emitmin=2, timeout=240 if quick else 900)      # unloaded: ~10 s / ~60 s; a timeout ends the (open-ended) simulation early

    errors = []

    def guard(t):
        def f():
            try:
                t()
            except BaseException as ex:
                errors.append(ex)
        return f
    threads = [threading.Thread(target=guard(bfs))] + [threading.Thread(target=guard(lambda i=i: sim(i))) for i in range(nsim)] + [threading.Thread(target=guard(mutant))]
    for t in threads:
        t.start()
    for t in threads:
        t.join()
    if errors:
        raise errors[0]
    res = results['bfs']
    if res.violated:
        raise tlc.TLCError('FuncBuilder/NumpySem internal law {} violated:\n{}'.format(res.violated, '\n'.join(res.error_trace[:60])))
    rep.add_tlc(res, exhaustive=True)
    collect(res, tables, progs, 'bfs')
    nbfs = len(progs)
    for i in range(nsim):
        r = results['sim', i]
        if r.violated:
            raise tlc.TLCError('FuncBuilder/NumpySem internal law {} violated in simulation:\n{}'.format(r.violated, '\n'.join(r.error_trace[:60])))
        rep.add_tlc(r, exhaustive=False)
        collect(r, tables, progs, 'sim')
    rep.lap('TLC: {} exhaustive + {} simulated behaviours'.format(nbfs, len(progs) - nbfs))
    # ---- vacuity guard (TLC's -coverage is pathologically slow on this recursion-heavy spec, so the guard is computed from the
    # behaviours TLC emitted): every action of FuncBuilder was taken, every call of the vocabulary produced a value at least once,
    # every shape-checking call a REJECT
    seen = {}
    actions = dict.fromkeys(ALL_ACTIONS, 0)
    for e in progs.values():
        r = e['nodes'][-1]
        seen.setdefault(r['op'], set()).add('value' if r['dt'] in 'bifc' else r['dt'])
        for n in e['nodes']:
            a = ACTION_OF[n['op']]
            if n['op'] == 'getitem' and any(it['k'] == 'node' for it in ops.seq(n['p'])):
                a = 'DoGetItemNode'
            actions[a] += 1
    rep.actions.update(actions)
    if not only:
        missing = [a for a, c in actions.items() if not c] + [op for op in ALL_CALLS if 'value' not in seen.get(op, ())] + [op + ':REJECT' for op in REJECTING_CALLS if 'REJECT' not in seen.get(op, ())]
        if missing:
            raise RuntimeError('vacuous: actions / calls never generated by the FuncBuilder machine: {}'.format(missing))
    if sorted(tables) != [1, 2, 3, 4, 5, 6]:
        raise RuntimeError('sample tables missing: {}'.format(sorted(tables)))
    world = c07_replay.World(tables)
    c07_replay.set_world(world)
    c07_replay.bind_samples(world, rep)
    # ---- selection: a program without point-dependent leaves has the same model value on every sample; in the quick tier it is
    # replayed on one of its samples (chosen by hash), point-dependent programs on all of theirs
    items = []
    bykey = {}
    for (smp, c), e in sorted(progs.items()):
        bykey.setdefault(c, []).append(e)
    for c, es in sorted(bykey.items()):
        if quick and not point_dependent(es[0]) and len(es) > 1:
            h = int(hashlib.sha1((c + str(rep.seed)).encode()).hexdigest(), 16)
            prod = [e for e in es if e['smp'] in (PRODYX, PRODXY)] or es
            items.append(prod[h % len(prod)] if h % 3 else es[h % len(es)])
        else:
            items.extend(es)
    rng.shuffle(items)
    cap = 29000 if quick else 240000      # bound on the replay work (nutils compiles every expression it evaluates: ~20 ms CPU each)
    if len(items) > cap:
        keep = [e for e in items if e['origin'] == 'bfs']
        sims = [e for e in items if e['origin'] != 'bfs']
        items = (keep + sims[:max(0, cap - len(keep))])
        rng.shuffle(items)
        rep.extra['replay_cap'] = 'replayed {} of the generated behaviours (all exhaustive ones first)'.format(len(items))
    del progs, bykey
    outs = c07_pool.pmap(c07_replay.replay, items)
    rep.lap('replayed {} behaviours'.format(len(items)))
    bugs = []
    nsamples = set()
    judged_calls = {}
    for e, o in zip(items, outs):
        if 'harness_error' in o:
            raise RuntimeError(o['harness_error'])
        if o['status'] == 'modelbug':
            bugs.append((o['expr'], o['what']))
            continue
        nops = sum(1 for n in e['nodes'] if n['op'] != 'leaf')
        sig = (canon(e), e['smp'])
        if o['status'] == 'skip':
            rep.skip(o['why'])
            rep.case(sig, nontrivial=False)
            continue
        rep.case(sig, nontrivial=True)
        if o['status'] == 'violation':
            rep.violation(o['key'], o['what'], dict(expr=o['expr'], sample=o['smp'], program=e['nodes'], model=dict(shape=e['nodes'][-1]['sh'], kind=e['nodes'][-1]['dt'], why=e['why'], root=e['root'])))
            continue
        rep.traces += 1
        nsamples.add(e['smp'])
        if o.get('valued') is False:
            rep.skip('values not judged: ' + o['why'])
        op = e['nodes'][-1]['op']
        judged_calls[op] = judged_calls.get(op, 0) + 1
        if len(rep.samples) < 4 and nops >= 2 and point_dependent(e) and o.get('entries'):
            rep.sample(dict(expr=o['expr'], sample=o['smp'], shape=e['nodes'][-1]['sh'], kind=e['nodes'][-1]['dt'], verdict='REJECT' if o.get('rejected') else 'value'))
    if bugs:
        raise RuntimeError('TLA+ model disagrees with real numpy on {} behaviours (MODEL bug, fix spec/NumpySem.tla), e.g.:\n{}'.format(
            len(bugs), '\n'.join('  {}: {}'.format(*b) for b in bugs[:25])))
    rep.extra['behaviours_exhaustive'] = nbfs
    rep.extra['behaviours_simulated'] = sum(1 for e in items if e['origin'] == 'sim')
    rep.extra['replayed'] = len(items)
    rep.extra['replayed_point_dependent'] = sum(1 for e in items if point_dependent(e))
    rep.extra['replayed_on_product_samples'] = sum(1 for e in items if e['smp'] in (PRODYX, PRODXY))
    rep.extra['rejected_as_predicted'] = sum(1 for o in outs if o.get('rejected'))
    rep.extra['entries_compared'] = sum(o.get('entries', 0) for o in outs)
    rep.extra['entries_compared_with_numpy_where_model_undefined'] = sum(o.get('entries_fallback', 0) for o in outs)
    rep.extra['alt_spellings_checked'] = sum(1 for o in outs if o.get('alt'))
    rep.extra['samples_used'] = sorted(SAMPLE_NAMES[s] for s in nsamples)
    rep.extra['calls_judged'] = dict(sorted(judged_calls.items()))
    rep.extra['calls_never_judged'] = sorted(set(ALL_CALLS) - set(judged_calls))
    rep.constants['families'] = [f['name'] for f in fams] + ['sim']
    rep.rule = ('cases = (behaviour of the FuncBuilder TLA+ machine, sample); non-trivial = the model defines a verdict that is demanded of the code '
                '(value or REJECT) and the call is implemented by nutils')
    rep.assumptions += ['reference = spec/NumpySem.tla, cross-checked against the installed numpy {} on plain ndarrays for every behaviour'.format(numpy.__version__),
                        'only the element kind (bool/int/real/complex) is compared, never the bit width',
                        'points at which plain numpy produces inf/nan anywhere in the program (division by zero ...) are never judged',
                        'entries the rational model leaves undefined (irrational roots, transcendental functions, |n| > 20000) are compared with the installed '
                        'numpy applied to the operand values of that point (rtol 1e-9) instead of with the model; shape, kind and REJECT always come from the model',
                        'discontinuous calls on inexact float data: only shape and kind are judged (rounding)',
                        'refusals nutils declares (TypeError from NEP-13/18 dispatch, NotImplementedError, documented restrictions: complex order, compress condition length, '
                        'diagonal of non-square axes, decreasing basis indices, repeat of non-singleton axes) are skipped and counted, never judged',
                        'legacy NumPy forms for 0-d operands (axis=0 of a 0-d array) and cross of 2-vectors (removed in NumPy 2) are not demanded',
                        'eig / eigh are outside the model']
