#!/bin/sh
# usage: tools/run_mutant.sh <patch.diff> <PROPERTY_ID> [quick|thorough] [-R]
# Applies the patch (-R: in reverse) to a scratch worktree of /repo (never to /repo itself), runs the check
# against it with evidence/replays redirected to the scratch dir, prints the verdict and removes everything.
set -u
patch="$(readlink -f "$1")"; pid="$2"; tier="${3:-quick}"; rev="${4:-}"
here="$(cd "$(dirname "$0")/.." && pwd)"
wt="/tmp/vf_mut_$$"
git -C /repo worktree add --detach "$wt" >/dev/null 2>&1 || { echo "cannot create worktree"; exit 2; }
if ! git -C "$wt" apply $rev "$patch"; then echo "patch does not apply"; git -C /repo worktree remove --force "$wt"; exit 2; fi
mkdir -p "$wt/.vfout"
( cd "$here" && VF_REPO="$wt" VF_OUT="$wt/.vfout" ./check "$pid" --tier "$tier" ) > "$wt/.vfout/log" 2>&1
rc=$?; cp "$wt/.vfout/log" /tmp/vf_mut_last_$pid.log
grep -E "^VIOLATION|^KNOWN-FINDING|^  key=|^$pid:|MACHINERY" "$wt/.vfout/log" | head -20
echo "exit=$rc"
git -C /repo worktree remove --force "$wt" >/dev/null 2>&1
rm -rf "$wt"
exit $rc
