----------------------------- MODULE MCDimLaws -----------------------------
(* C20: the algebraic laws of the level I dimension operations (powers dicts, canonical names)
   against level A (exponent vectors), checked by TLC on a bounded universe as an ASSUME *)
EXTENDS Dimension
CONSTANT ExpSet      \* the exponents of the universe of powers dicts
MCBaseOrd3 == <<"L", "M", "T">>
KSet == {RInt(0), RInt(1), RInt(2), RInt(3), RInt(-1), RInt(-2), Rat(1, 2), Rat(-1, 2), Rat(3, 2)}
MCBases == Bases
ExpThorough == {RInt(-2), RInt(-1), Rat(-1, 2), Zero, Half, RInt(1), RInt(2)}
ExpQuick == {RInt(-2), Rat(-1, 2), Zero, RInt(1)}
Universe == {Strip(f) : f \in [MCBases -> ExpSet]}
MCName(p) == Name(p)
Laws ==
  /\ RulesDisjoint
  /\ \A p \in Universe : NameToPowers(MCName(p)) = p                                  \* name round trip
  /\ Cardinality({MCName(p) : p \in Universe}) = Cardinality(Universe)                \* canonical names are injective
  /\ \A p, r \in Universe : /\ Vec(PMul(p, r)) = VMul(Vec(p), Vec(r))   \* homomorphism
                            /\ Vec(PDiv(p, r)) = VDiv(Vec(p), Vec(r))
                            /\ PMul(p, r) = PMul(r, p)                                  \* abelian group laws
                            /\ PDiv(PMul(p, r), r) = p
                            /\ PMul(p, PDiv(NoPowers, p)) = NoPowers
  /\ \A p \in Universe : \A k \in KSet :
                            /\ Vec(PPow(p, k)) = VPow(Vec(p), k)
                            /\ (k # Zero => PPow(PPow(p, k), RInv(k)) = p)
                            /\ PPow(p, RInt(2)) = PMul(p, p)
                            /\ PPow(PPow(p, Half), RInt(2)) = p
  /\ \A p, r \in {Strip(f) : f \in [MCBases -> (IF Cardinality(ExpSet) <= 4 THEN {RInt(-1), Zero, Half} ELSE {RInt(-1), Zero, Half, RInt(2)})]} : \A s \in {PMul(p, r)} :
                            /\ \A k \in {RInt(2), Half, RInt(-1)} : PPow(s, k) = PMul(PPow(p, k), PPow(r, k))   \* Pow distributes
                            /\ \A t \in {NoPowers, [x \in {"T"} |-> RInt(-2)]} : PMul(PMul(p, r), t) = PMul(p, PMul(r, t))  \* associativity
ASSUME Laws
=============================================================================
