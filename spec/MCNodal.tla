------------------------------ MODULE MCNodal ------------------------------
EXTENDS BasisNodal, Json
Builds_quick == {<<"std", 1>>, <<"std", 2>>, <<"std", 3>>, <<"lagrange", 1>>, <<"lagrange", 3>>, <<"bubble", 0>>, <<"discont", 2>>}
Builds_all == {<<"std", 1>>, <<"std", 2>>, <<"std", 3>>, <<"std", 4>>, <<"lagrange", 1>>, <<"lagrange", 2>>, <<"lagrange", 3>>, <<"bernstein", 1>>, <<"bernstein", 2>>, <<"bernstein", 3>>,
               <<"bubble", 0>>, <<"discont", 0>>, <<"discont", 1>>, <<"discont", 2>>, <<"discont", 3>>}
Builds_3d == {<<"std", 1>>, <<"std", 2>>, <<"std", 3>>, <<"lagrange", 2>>, <<"bernstein", 3>>, <<"bubble", 0>>, <<"discont", 1>>}
Dims_12 == {1, 2}
Dims_1 == {1}
Builds_cov == {<<"std", 1>>, <<"lagrange", 2>>, <<"bubble", 0>>, <<"discont", 1>>}     \* the small run made with TLC's action coverage
Dims_2 == {2}
Dims_3 == {3}
Emit(x) == PrintT(<<"VF", ToJson(x)>>)
EmitState == st = "built" => Emit([hist |-> hist, st |-> st, b |-> b])
=============================================================================
