------------------------------- MODULE Topo -------------------------------
(***************************************************************************)
(* C10 -- topology operations conserve the domain.                         *)
(*                                                                         *)
(* DENOTATION.  The physical domain of a base mesh is tiled by ATOMS: the  *)
(* cells of the dyadic grid at the maximal refinement depth L (unit boxes  *)
(* <<i>> / <<i,j>>; for simplex and mixed meshes the half squares          *)
(* <<i,j,h>> that the level-L sub-triangles are).  A topology denotes a    *)
(* set of CELLS; a cell is one element: its place in the refinement tree   *)
(* (level per direction lv, index ix, half hf: 0/1 the two triangles of a  *)
(* box, 2 the whole box) plus the set `at` of atoms it still covers after  *)
(* trimming.  Facets are facet-atoms: doubled centre position p (always    *)
(* integer), integer normal n scaled with the facet measure.               *)
(*                                                                         *)
(* STATE MACHINE, one action per public topology operation of              *)
(* nutils.topology (shaped like the API: the structure tag `st` mirrors    *)
(* which class the real object has and therefore which operations and      *)
(* observations the implementation offers; `sg` is the bookkeeping of      *)
(* StructuredTopology slicing; c.mz records cuts that left MosaicReference *)
(* leaves, which the implementation can neither refine nor trim again):    *)
(*   refine     .refined                       refspace  .refine_spaces    *)
(*   refby      .refined_by(S)                 hierand   rb(S) & rb(T)     *)
(*   take       .take(S)                       slice     topo[lo:hi]       *)
(*   select     .subset(take(S))               remove    topo - take(S)    *)
(*   union      take|take, subset|subset       trim      .trim(+-(x_d-c))  *)
(*   trim2      .trim(max / min of two such half planes)                   *)
(* and the complement  topo - topo.trim(..)  kept in `comp` after a trim.  *)
(* Boundary, interfaces and the named boundary groups are state functions  *)
(* (observations), see Prediction.                                         *)
(*                                                                         *)
(* PROPERTY (the text of C10) as invariants / an action property:          *)
(*   Disjoint, WithinHull  no overlap, no duplicate, cells inside element  *)
(*   StepConserves         refinement preserves the atom set (= measure)   *)
(*                         of every element; selections only drop whole    *)
(*                         elements; trim and complement partition every   *)
(*                         element                                         *)
(*   CutShared             trimmed part and complement share the cut with  *)
(*                         opposite orientation                            *)
(*   BoundaryClosed        sum of outward normals = 0, flux of x = D * V   *)
(*   InterfacesOnce        every interior facet once, between its two      *)
(*                         adjacent cells                                  *)
(***************************************************************************)
EXTENDS Integers, Sequences, FiniteSets, TLC

CONSTANTS
    Bases,      \* set of base records, see BaseRec
    MaxOps,     \* bound on the length of the operation history
    MaxSub,     \* element subsets of size <= MaxSub (0..3) are enumerated
    NPat,       \* plus NPat pattern subsets (pseudo random, deterministic)
    OpSet,      \* names of the operations that may be taken
    TrimRef,    \* maxrefine arguments of trim
    Mutant      \* "none", or a deliberately wrong model variant that the invariants must reject:
                \* "child-drop" (refinement loses a child), "trim-overlap" (trim and complement overlap),
                \* "nb-skew" (asymmetric neighbour relation)

VARIABLES base, cells, comp, st, sg, hist
vars == <<base, cells, comp, st, sg, hist>>

None == <<>>
TpP2(k) == 2^k

(***************************************************************************)
(* base meshes                                                             *)
(***************************************************************************)
\* structure tags: "S" structured (mesh.rectilinear), "H" hierarchical over structured, "C" unstructured with
\* connectivity (multipatch, simplex, mixed, trimmed or subset of S/C), "HC" hierarchical over C, "X" no
\* connectivity (take, union of takes, trimmed hierarchical): no boundary or interfaces offered, "M" product
\* of two lines with separate spaces (only tensorial operations), "MX" take of M (nothing but take)
BaseRec(name, depth) ==
    LET r == CASE name = "line1"   -> [dim |-> 1, n |-> <<1>>,   per |-> <<FALSE>>, tri |-> FALSE, st |-> "S"]
               [] name = "line2"   -> [dim |-> 1, n |-> <<2>>,   per |-> <<FALSE>>, tri |-> FALSE, st |-> "S"]
               [] name = "line3"   -> [dim |-> 1, n |-> <<3>>,   per |-> <<FALSE>>, tri |-> FALSE, st |-> "S"]
               [] name = "line4"   -> [dim |-> 1, n |-> <<4>>,   per |-> <<FALSE>>, tri |-> FALSE, st |-> "S"]
               [] name = "line2p"  -> [dim |-> 1, n |-> <<2>>,   per |-> <<TRUE>>,  tri |-> FALSE, st |-> "S"]
               [] name = "line3p"  -> [dim |-> 1, n |-> <<3>>,   per |-> <<TRUE>>,  tri |-> FALSE, st |-> "S"]
               [] name = "rect21"  -> [dim |-> 2, n |-> <<2, 1>>, per |-> <<FALSE, FALSE>>, tri |-> FALSE, st |-> "S"]
               [] name = "rect22"  -> [dim |-> 2, n |-> <<2, 2>>, per |-> <<FALSE, FALSE>>, tri |-> FALSE, st |-> "S"]
               [] name = "rect32"  -> [dim |-> 2, n |-> <<3, 2>>, per |-> <<FALSE, FALSE>>, tri |-> FALSE, st |-> "S"]
               [] name = "rect22p" -> [dim |-> 2, n |-> <<2, 2>>, per |-> <<TRUE, FALSE>>,  tri |-> FALSE, st |-> "S"]
               [] name = "rect32p" -> [dim |-> 2, n |-> <<3, 2>>, per |-> <<TRUE, FALSE>>,  tri |-> FALSE, st |-> "S"]
               [] name = "mul22"   -> [dim |-> 2, n |-> <<2, 2>>, per |-> <<FALSE, FALSE>>, tri |-> FALSE, st |-> "M"]
               [] name = "mul21"   -> [dim |-> 2, n |-> <<2, 1>>, per |-> <<FALSE, FALSE>>, tri |-> FALSE, st |-> "M"]
               [] name = "mul32p"  -> [dim |-> 2, n |-> <<3, 2>>, per |-> <<TRUE, FALSE>>,  tri |-> FALSE, st |-> "M"]
               [] name = "mp21"    -> [dim |-> 2, n |-> <<2, 1>>, per |-> <<FALSE, FALSE>>, tri |-> FALSE, st |-> "C"]
               [] name = "mp42"    -> [dim |-> 2, n |-> <<4, 2>>, per |-> <<FALSE, FALSE>>, tri |-> FALSE, st |-> "C"]
               [] name = "tri1"    -> [dim |-> 2, n |-> <<1, 1>>, per |-> <<FALSE, FALSE>>, tri |-> TRUE,  st |-> "C"]
               [] name = "tri2"    -> [dim |-> 2, n |-> <<2, 2>>, per |-> <<FALSE, FALSE>>, tri |-> TRUE,  st |-> "C"]
               [] name = "mix2"    -> [dim |-> 2, n |-> <<2, 2>>, per |-> <<FALSE, FALSE>>, tri |-> TRUE,  st |-> "C"]
               [] name = "mix3"    -> [dim |-> 2, n |-> <<3, 3>>, per |-> <<FALSE, FALSE>>, tri |-> TRUE,  st |-> "C"]
    IN [name |-> name, L |-> depth, dim |-> r.dim, n |-> r.n, per |-> r.per, tri |-> r.tri, st |-> r.st]

Dim == base.dim
L == base.L
Dirs == 1..Dim
NAtoms(d) == base.n[d] * TpP2(L)                  \* atoms per direction
Tup(f) == IF Dim = 1 THEN <<f[1]>> ELSE <<f[1], f[2]>>
Zeros == IF Dim = 1 THEN <<0>> ELSE <<0, 0>>

(***************************************************************************)
(* cells, hulls, children                                                  *)
(***************************************************************************)
Lo(lv, ix, d) == ix[d] * TpP2(L - lv[d])
Hi(lv, ix, d) == (ix[d] + 1) * TpP2(L - lv[d]) - 1
\* type of the diagonal of the base square that contains fine square (i, j), as mesh.unitsquare
\* lays it out: 0 = anti-diagonal (halves: 0 lower left, 1 upper right), 1 = main diagonal (halves: 0
\* lower right, 1 upper left)
DiagType(i, j) == IF ((i \div TpP2(L)) % 2) = ((j \div TpP2(L)) % 2) THEN 0 ELSE 1
InHalf(lv, ix, hf, i, j, h) ==
    IF hf = 2 THEN TRUE
    ELSE LET s == TpP2(L - lv[1])
             u == i - ix[1] * s
             v == j - ix[2] * s
         IN IF DiagType(i, j) = 0
            THEN IF hf = 0 THEN u + v < s - 1 \/ (u + v = s - 1 /\ h = 0)
                           ELSE u + v > s - 1 \/ (u + v = s - 1 /\ h = 1)
            ELSE IF hf = 0 THEN u > v \/ (u = v /\ h = 0)
                           ELSE v > u \/ (u = v /\ h = 1)
Hull(lv, ix, hf) ==
    IF Dim = 1 THEN {<<i>> : i \in Lo(lv, ix, 1)..Hi(lv, ix, 1)}
    ELSE IF ~base.tri THEN {<<i, j>> : i \in Lo(lv, ix, 1)..Hi(lv, ix, 1), j \in Lo(lv, ix, 2)..Hi(lv, ix, 2)}
    ELSE {a \in {<<i, j, h>> : i \in Lo(lv, ix, 1)..Hi(lv, ix, 1), j \in Lo(lv, ix, 2)..Hi(lv, ix, 2), h \in {0, 1}} :
             InHalf(lv, ix, hf, a[1], a[2], a[3])}
HullC(c) == Hull(c.lv, c.ix, c.hf)
Key(c) == <<c.lv, c.ix, c.hf>>
Keys(cs) == {Key(c) : c \in cs}
ByKeys(cs, K) == {c \in cs : Key(c) \in K}
AllAtoms(cs) == UNION {c.at : c \in cs}

\* the level-0 elements of the base mesh
IsSquareOfMixed(i, j) == (i % 2) = (j % 3)              \* mesh.unitsquare(n, 'mixed')
BaseCells ==
    LET idx == IF Dim = 1 THEN {<<i>> : i \in 0..(base.n[1] - 1)}
               ELSE {<<i, j>> : i \in 0..(base.n[1] - 1), j \in 0..(base.n[2] - 1)}
        halves(ix) == IF ~base.tri THEN {2}
                      ELSE IF base.name \in {"mix2", "mix3"} /\ IsSquareOfMixed(ix[1], ix[2]) THEN {2}
                      ELSE {0, 1}
    IN UNION {{[lv |-> Zeros, ix |-> ix, hf |-> h, at |-> Hull(Zeros, ix, h), mz |-> {}] : h \in halves(ix)} : ix \in idx}

\* A cut that is not aligned with the grid of the maxrefine-th descendants leaves MosaicReference leaves,
\* which nutils cannot refine (no child_refs); c.mz holds such cuts <<d, position, levels of children left>>.
\* Every refinement operation of nutils (also refined_by of other elements) derives the uniformly refined
\* topology of all elements, so refinement is offered only while no element has mosaic leaves.
CanRefine(c, ds) == (\A d \in ds : c.lv[d] < L) /\ (\A x \in cells : x.mz = {})
Straddles(lv, ix, d, pos) == pos \in (Lo(lv, ix, d) + 1)..Hi(lv, ix, d)
\* children of cell c when refined in the directions ds (the 2^|ds| sub-boxes; a triangle has four
\* sub-triangles: those half boxes of the next level that lie inside its hull)
Kids(c, ds) ==
    LET cand == {[lv |-> Tup([d \in Dirs |-> IF d \in ds THEN c.lv[d] + 1 ELSE c.lv[d]]),
                  ix |-> Tup([d \in Dirs |-> IF d \in ds THEN 2 * c.ix[d] + k[d] ELSE c.ix[d]]),
                  hf |-> h, drop |-> (\A d \in ds : k[d] = 1)] :
                    k \in [Dirs -> {0, 1}], h \in (IF c.hf = 2 THEN {2} ELSE {0, 1})}
        inside == {k \in cand : c.hf = 2 \/ Hull(k.lv, k.ix, k.hf) \subseteq HullC(c)}
        kept == IF Mutant = "child-drop" THEN {k \in inside : ~k.drop} ELSE inside
        made == {[lv |-> k.lv, ix |-> k.ix, hf |-> k.hf, at |-> c.at \cap Hull(k.lv, k.ix, k.hf),
                  mz |-> {<<z[1], z[2], z[3] - 1>> : z \in {y \in c.mz : Straddles(k.lv, k.ix, y[1], y[2])}}] : k \in kept}
    IN {k \in made : k.at # {}}
RefineCells(cs, K, ds) == (cs \ ByKeys(cs, K)) \cup UNION {Kids(c, ds) : c \in ByKeys(cs, K)}

(***************************************************************************)
(* facets of an atom: position (doubled), outward normal, neighbouring atom *)
(***************************************************************************)
PosW(p, d) == IF base.per[d] THEN p % (2 * NAtoms(d)) ELSE p
IdxW(x, d) == IF base.per[d] THEN (x + NAtoms(d)) % NAtoms(d) ELSE x
Valid(x, d) == IdxW(x, d) \in 0..(NAtoms(d) - 1)
\* half of square (x, y) that owns its side "L","R","B","T"
SideHalf(x, y, side) == IF DiagType(x, y) = 0 THEN (IF side \in {"L", "B"} THEN 0 ELSE 1)
                        ELSE (IF side \in {"R", "B"} THEN 0 ELSE 1)
Atom2(x, y, side) == IF ~(Valid(x, 1) /\ Valid(y, 2)) THEN None
                     ELSE IF base.tri THEN <<IdxW(x, 1), IdxW(y, 2), SideHalf(IdxW(x, 1), IdxW(y, 2), side)>>
                     ELSE <<IdxW(x, 1), IdxW(y, 2)>>
FacetL(i, j) == [p |-> <<PosW(2 * i, 1), 2 * j + 1>>,     n |-> <<-1, 0>>, nb |-> Atom2(i - 1, j, "R")]
FacetR(i, j) == [p |-> <<PosW(2 * i + 2, 1), 2 * j + 1>>, n |-> <<1, 0>>,  nb |-> Atom2(i + 1, IF Mutant = "nb-skew" THEN j + 1 ELSE j, "L")]
FacetB(i, j) == [p |-> <<2 * i + 1, PosW(2 * j, 2)>>,     n |-> <<0, -1>>, nb |-> Atom2(i, j - 1, "T")]
FacetT(i, j) == [p |-> <<2 * i + 1, PosW(2 * j + 2, 2)>>, n |-> <<0, 1>>,  nb |-> Atom2(i, j + 1, "B")]
Facets(a) ==
    IF Dim = 1 THEN
        {[p |-> <<PosW(2 * a[1], 1)>>,     n |-> <<-1>>, nb |-> IF Valid(a[1] - 1, 1) THEN <<IdxW(a[1] - 1, 1)>> ELSE None],
         [p |-> <<PosW(2 * a[1] + 2, 1)>>, n |-> <<1>>,
          nb |-> LET r == IF Mutant = "nb-skew" THEN a[1] + 2 ELSE a[1] + 1 IN IF Valid(r, 1) THEN <<IdxW(r, 1)>> ELSE None]}
    ELSE IF ~base.tri THEN {FacetL(a[1], a[2]), FacetR(a[1], a[2]), FacetB(a[1], a[2]), FacetT(a[1], a[2])}
    ELSE LET i == a[1]
             j == a[2]
             h == a[3]
             t == DiagType(i, j)
             dn == IF t = 0 THEN (IF h = 0 THEN <<1, 1>> ELSE <<-1, -1>>) ELSE (IF h = 0 THEN <<-1, 1>> ELSE <<1, -1>>)
             diag == [p |-> <<2 * i + 1, 2 * j + 1>>, n |-> dn, nb |-> <<i, j, 1 - h>>]
         IN {diag} \cup (IF t = 0 THEN (IF h = 0 THEN {FacetL(i, j), FacetB(i, j)} ELSE {FacetR(i, j), FacetT(i, j)})
                         ELSE (IF h = 0 THEN {FacetR(i, j), FacetB(i, j)} ELSE {FacetL(i, j), FacetT(i, j)}))
AtomFacets(A) == UNION {{[a |-> a, f |-> f] : f \in Facets(a)} : a \in A}

Boundary(cs) == LET A == AllAtoms(cs) IN {[p |-> x.f.p, n |-> x.f.n] : x \in {y \in AtomFacets(A) : y.f.nb \notin A}}
Positive(n) == n[1] > 0 \/ (n[1] = 0 /\ n[2] > 0)
Owner(cs) == [a \in AllAtoms(cs) |-> Key(CHOOSE c \in cs : a \in c.at)]
\* interior facets seen from the side whose outward normal is positive (pos = TRUE) or negative
IfacesSide(cs, pos) ==
    LET A == AllAtoms(cs)
        own == Owner(cs)
    IN {[p |-> x.f.p, n |-> x.f.n, a |-> own[x.a], b |-> own[x.f.nb]] :
           x \in {y \in AtomFacets(A) : /\ (IF Dim = 1 THEN y.f.n[1] > 0 ELSE Positive(y.f.n)) = pos
                                        /\ y.f.nb \in A
                                        /\ own[y.f.nb] # own[y.a]}}
Interfaces(cs) == IfacesSide(cs, TRUE)
\* facets of cs whose neighbour atom lies in other (the cut between a trimmed part and its complement)
CutFacets(cs, other) ==
    LET A == AllAtoms(cs)
        B == AllAtoms(other)
    IN {[p |-> x.f.p, n |-> x.f.n] : x \in {y \in AtomFacets(A) : y.f.nb \in B}}

RECURSIVE TpSumF(_, _)
TpSumF(f, S) == IF S = {} THEN 0 ELSE LET x == CHOOSE y \in S : TRUE IN f[x] + TpSumF(f, S \ {x})
Dot(u, v) == IF Dim = 1 THEN u[1] * v[1] ELSE u[1] * v[1] + u[2] * v[2]
\* twice the volume, in atom units
Vol2(cs) == Cardinality(AllAtoms(cs)) * (IF base.tri THEN 1 ELSE 2)
\* 6 * first moment of an atom in direction d, in atom units
Mom6(a, d) == IF ~base.tri THEN 6 * a[d] + 3
              ELSE LET t == DiagType(a[1], a[2])
                       off == IF t = 0 THEN (IF a[3] = 0 THEN <<1, 1>> ELSE <<2, 2>>)
                              ELSE (IF a[3] = 0 THEN <<2, 1>> ELSE <<1, 2>>)
                   IN 3 * a[d] + off[d]
CellVol2(c) == Cardinality(c.at) * (IF base.tri THEN 1 ELSE 2)
CellMom6(c) == Tup([d \in Dirs |-> TpSumF([a \in c.at |-> Mom6(a, d)], c.at)])

(***************************************************************************)
(* operations                                                              *)
(***************************************************************************)
MkOp(name, a, S, T) == [op |-> name, a |-> a, S |-> S, T |-> T]
StAfterRefBy(s) == CASE s = "S" -> "H" [] s = "H" -> "H" [] s = "C" -> "HC" [] s = "HC" -> "HC" [] OTHER -> "X"
StAfterSub(s) == IF s \in {"S", "C"} THEN "C" ELSE "X"
HasBoundary(s) == s \notin {"X", "MX"}

\* pattern subsets: deterministic pseudo random selections of keys
PatHash(k, s) == LET ix == k[2]
                     lv == k[1]
                 IN (7 * ix[1] + 13 * (IF Dim = 2 THEN ix[2] ELSE 0) + 5 * lv[1] + 3 * k[3] + 11 * s + (ix[1] * (s + 1)) \div 2) % 3
PatSubs(X) == {{k \in X : PatHash(k, s) = 0} : s \in 1..NPat} \ {{}}
Subs(X) == {{x} : x \in X}
           \cup (IF MaxSub >= 2 THEN {{x, y} : x \in X, y \in X} ELSE {})
           \cup (IF MaxSub >= 3 THEN {{x, y, z} : x \in X, y \in X, z \in X} ELSE {})
           \cup PatSubs(X)
\* smaller family for the binary operations
Subs1(X) == {{x} : x \in X} \cup PatSubs(X)

TrimKeep(a, d, c, sgn) == IF Mutant = "trim-overlap" /\ a[d] = c THEN TRUE
                          ELSE IF sgn = 1 THEN a[d] >= c ELSE a[d] < c
\* number of child levels after which the cut at position c is aligned with the grid of a cell of level lvd
AlignDepth(lvd, c) == CHOOSE j \in 0..(L - lvd) : /\ c % TpP2(L - lvd - j) = 0
                                                   /\ \A i \in 0..(j - 1) : c % TpP2(L - lvd - i) # 0
NewMz(x, d, c, m) == IF Straddles(x.lv, x.ix, d, c) /\ AlignDepth(x.lv[d], c) > m THEN {<<d, c, m>>} ELSE x.mz
\* nutils can trim cell x at (d, c) with maxrefine m exactly: an element that already has mosaic leaves is not
\* cut again, and mosaic leaves are only made in untrimmed elements
TrimOK(x, d, c, m) == Straddles(x.lv, x.ix, d, c) => /\ x.mz = {}
                                                     /\ (AlignDepth(x.lv[d], c) <= m \/ x.at = HullC(x))
TrimCells(cs, d, c, sgn, m) ==
    {k \in {[lv |-> x.lv, ix |-> x.ix, hf |-> x.hf, at |-> {a \in x.at : TrimKeep(a, d, c, sgn)}, mz |-> NewMz(x, d, c, m)] : x \in cs} : k.at # {}}
TrimComp(cs, d, c, sgn, m) ==
    {k \in {[lv |-> x.lv, ix |-> x.ix, hf |-> x.hf, at |-> {a \in x.at : ~(IF sgn = 1 THEN a[d] >= c ELSE a[d] < c)}, mz |-> NewMz(x, d, c, m)] : x \in cs} : k.at # {}}

\* trim by the level set max (mode 0: union of two half planes, not convex) or min (mode 1: intersection) of
\* s1 (x - c1) and s2 (y - c2), both cuts aligned with the grid of the maxrefine-th descendants of every element they
\* cross (then no leaf is sliced and the trimmed elements are exact unions of descendants).  Not for triangles: a
\* removed sub-triangle can have all three vertices on the zero set, and trim only samples vertices.
Half(a, d, c, sgn) == IF sgn = 1 THEN a[d] >= c ELSE a[d] < c
Trim2Keep(a, q) == IF q[6] = 0 THEN Half(a, 1, q[1], q[2]) \/ Half(a, 2, q[3], q[4]) ELSE Half(a, 1, q[1], q[2]) /\ Half(a, 2, q[3], q[4])
Trim2OK(x, q) == /\ x.mz = {}
                 /\ Straddles(x.lv, x.ix, 1, q[1]) => AlignDepth(x.lv[1], q[1]) <= q[5]
                 /\ Straddles(x.lv, x.ix, 2, q[3]) => AlignDepth(x.lv[2], q[3]) <= q[5]
Trim2Cells(cs, q) == {k \in {[lv |-> x.lv, ix |-> x.ix, hf |-> x.hf, at |-> {a \in x.at : Trim2Keep(a, q)}, mz |-> {}] : x \in cs} : k.at # {}}
Trim2Comp(cs, q) == {k \in {[lv |-> x.lv, ix |-> x.ix, hf |-> x.hf, at |-> {a \in x.at : ~Trim2Keep(a, q)}, mz |-> {}] : x \in cs} : k.at # {}}

\* slice bookkeeping sg = [lv, o, n] per direction: level of the structured base, origin and length
\* of the current slice in elements of that level
SliceKeeps(c, d, lo, hi) ==
    LET u == TpP2(L - sg.lv[d])
    IN Lo(c.lv, c.ix, d) >= (sg.o[d] + lo) * u /\ Hi(c.lv, c.ix, d) < (sg.o[d] + hi) * u

\* the operations enabled in the current state, per operation name
KeysAll == Keys(cells)
KeysRef == Keys({c \in cells : CanRefine(c, Dirs)})
IsMul == st \in {"M", "MX"}
OpsFor(name) ==
    IF name \notin OpSet THEN {}
    ELSE CASE name = "refine" -> IF KeysRef = KeysAll /\ st # "MX" THEN {MkOp("refine", <<>>, {}, {})} ELSE {}
      [] name = "refspace" ->
           IF st = "M" THEN {MkOp("refspace", <<d>>, {}, {}) : d \in {e \in Dirs : \A c \in cells : CanRefine(c, {e})}} ELSE {}
      [] name = "refby" -> IF ~IsMul THEN {MkOp("refby", <<>>, S, {}) : S \in Subs(KeysRef)} ELSE {}
      [] name = "hierand" ->
           IF ~IsMul THEN {MkOp("hierand", <<>>, x[1], x[2]) : x \in {y \in Subs1(KeysRef) \X PatSubs(KeysRef) : y[1] # y[2]}} ELSE {}
      [] name = "take" -> {MkOp("take", <<>>, S, {}) : S \in Subs(KeysAll) \ {KeysAll}}
      [] name = "select" -> IF ~IsMul THEN {MkOp("select", <<>>, S, {}) : S \in Subs(KeysAll) \ {KeysAll}} ELSE {}
      [] name = "remove" -> IF ~IsMul THEN {MkOp("remove", <<>>, S, {}) : S \in Subs(KeysAll) \ {KeysAll}} ELSE {}
      [] name = "union" ->
           IF ~IsMul
           THEN {MkOp("union", <<m>>, x[1], x[2]) : m \in {0, 1},
                    x \in {y \in Subs1(KeysAll) \X PatSubs(KeysAll) : y[1] # y[2]} \cup {<<S, KeysAll \ S>> : S \in Subs1(KeysAll) \ {KeysAll}}}
           ELSE {}
      [] name = "slice" ->
           IF st \in {"S", "H", "M"}
           THEN {MkOp("slice", <<x[1], x[2], x[3]>>, {}, {}) :
                    x \in {y \in UNION {{<<d, lo, hi>> : lo \in 0..(sg.n[d] - 1), hi \in 1..sg.n[d]} : d \in Dirs} :
                              /\ y[2] < y[3]
                              /\ ~(y[2] = 0 /\ y[3] = sg.n[y[1]])
                              /\ \E c \in cells : SliceKeeps(c, y[1], y[2], y[3])}}
           ELSE {}
      [] name = "trim" ->
           IF ~IsMul
           THEN {MkOp("trim", <<x[1], x[2], x[3], x[4]>>, {}, {}) :
                    x \in {y \in UNION {{<<d, c, sgn, m>> : c \in 1..(NAtoms(d) - 1), sgn \in {1, -1}, m \in TrimRef} : d \in Dirs} :
                              /\ \E z \in cells : \E a \in z.at : TrimKeep(a, y[1], y[2], y[3])
                              /\ \A z \in cells : TrimOK(z, y[1], y[2], y[4])}}
           ELSE {}
      [] name = "trim2" ->
           IF ~IsMul /\ Dim = 2 /\ ~base.tri
           THEN {MkOp("trim2", q, {}, {}) :
                    q \in {y \in {<<c1, s1, c2, s2, m, mode>> : c1 \in 1..(NAtoms(1) - 1), s1 \in {1, -1}, c2 \in 1..(NAtoms(2) - 1), s2 \in {1, -1},
                                                                m \in TrimRef, mode \in {0, 1}} :
                              /\ y[6] = 1 => (y[2] = 1 /\ y[4] = 1)         \* the convex variant only in one orientation
                              /\ \A m \in TrimRef : m <= y[5]               \* with the largest maxrefine
                              /\ \A z \in cells : Trim2OK(z, y)
                              /\ Trim2Cells(cells, y) # {}
                              /\ Trim2Comp(cells, y) # {}}}
           ELSE {}
OpNames == {"refine", "refspace", "refby", "hierand", "take", "select", "remove", "union", "slice", "trim", "trim2"}
OpsOf == UNION {OpsFor(name) : name \in OpNames}

\* the state after operation o: [cells, comp, st, sg]
Apply(o) ==
    CASE o.op = "refine" ->
           [cells |-> RefineCells(cells, Keys(cells), Dirs), comp |-> {}, st |-> st,
            sg |-> IF st \in {"S", "M"} THEN [lv |-> Tup([d \in Dirs |-> sg.lv[d] + 1]), o |-> Tup([d \in Dirs |-> 2 * sg.o[d]]), n |-> Tup([d \in Dirs |-> 2 * sg.n[d]])] ELSE sg]
      [] o.op = "refspace" ->
           LET e == o.a[1]
           IN [cells |-> RefineCells(cells, Keys(cells), {e}), comp |-> {}, st |-> st,
               sg |-> [lv |-> Tup([d \in Dirs |-> IF d = e THEN sg.lv[d] + 1 ELSE sg.lv[d]]),
                       o |-> Tup([d \in Dirs |-> IF d = e THEN 2 * sg.o[d] ELSE sg.o[d]]),
                       n |-> Tup([d \in Dirs |-> IF d = e THEN 2 * sg.n[d] ELSE sg.n[d]])]]
      [] o.op = "refby" -> [cells |-> RefineCells(cells, o.S, Dirs), comp |-> {}, st |-> StAfterRefBy(st), sg |-> sg]
      [] o.op = "hierand" -> [cells |-> RefineCells(cells, o.S \cup o.T, Dirs), comp |-> {}, st |-> StAfterRefBy(st), sg |-> sg]
      [] o.op = "take" -> [cells |-> ByKeys(cells, o.S), comp |-> {}, st |-> IF IsMul THEN "MX" ELSE "X", sg |-> sg]
      [] o.op = "select" -> [cells |-> ByKeys(cells, o.S), comp |-> {}, st |-> StAfterSub(st), sg |-> sg]
      [] o.op = "remove" -> [cells |-> cells \ ByKeys(cells, o.S), comp |-> {}, st |-> StAfterSub(st), sg |-> sg]
      [] o.op = "union" ->
           [cells |-> ByKeys(cells, o.S \cup o.T), comp |-> {},
            st |-> IF o.a[1] = 0 THEN "X" ELSE IF o.S \cup o.T = Keys(cells) THEN st ELSE StAfterSub(st), sg |-> sg]
      [] o.op = "slice" ->
           LET e == o.a[1]
           IN [cells |-> {c \in cells : SliceKeeps(c, e, o.a[2], o.a[3])}, comp |-> {}, st |-> st,
               sg |-> [lv |-> sg.lv, o |-> Tup([d \in Dirs |-> IF d = e THEN sg.o[d] + o.a[2] ELSE sg.o[d]]),
                       n |-> Tup([d \in Dirs |-> IF d = e THEN o.a[3] - o.a[2] ELSE sg.n[d]])]]
      [] o.op = "trim" ->
           [cells |-> TrimCells(cells, o.a[1], o.a[2], o.a[3], o.a[4]), comp |-> TrimComp(cells, o.a[1], o.a[2], o.a[3], o.a[4]),
            st |-> StAfterSub(st), sg |-> sg]
      [] o.op = "trim2" ->
           [cells |-> Trim2Cells(cells, o.a), comp |-> Trim2Comp(cells, o.a), st |-> StAfterSub(st), sg |-> sg]

Init == /\ base \in Bases
        /\ cells = BaseCells
        /\ comp = {}
        /\ st = base.st
        /\ sg = [lv |-> Zeros, o |-> Zeros, n |-> base.n]
        /\ hist = <<>>
Step(o) == LET r == Apply(o)
           IN /\ cells' = r.cells /\ comp' = r.comp /\ st' = r.st /\ sg' = r.sg
              /\ hist' = Append(hist, o)
              /\ UNCHANGED base
\* one action per operation (TLC reports coverage per action)
Refine == Len(hist) < MaxOps /\ \E o \in OpsFor("refine") : Step(o)
RefSpace == Len(hist) < MaxOps /\ \E o \in OpsFor("refspace") : Step(o)
RefBy == Len(hist) < MaxOps /\ \E o \in OpsFor("refby") : Step(o)
HierAnd == Len(hist) < MaxOps /\ \E o \in OpsFor("hierand") : Step(o)
Take == Len(hist) < MaxOps /\ \E o \in OpsFor("take") : Step(o)
Select == Len(hist) < MaxOps /\ \E o \in OpsFor("select") : Step(o)
Remove == Len(hist) < MaxOps /\ \E o \in OpsFor("remove") : Step(o)
Union == Len(hist) < MaxOps /\ \E o \in OpsFor("union") : Step(o)
Slice == Len(hist) < MaxOps /\ \E o \in OpsFor("slice") : Step(o)
Trim == Len(hist) < MaxOps /\ \E o \in OpsFor("trim") : Step(o)
Trim2 == Len(hist) < MaxOps /\ \E o \in OpsFor("trim2") : Step(o)
Next == Refine \/ RefSpace \/ RefBy \/ HierAnd \/ Take \/ Select \/ Remove \/ Union \/ Slice \/ Trim \/ Trim2
Spec == Init /\ [][Next]_vars

(***************************************************************************)
(* what the model predicts of everything the property observes in a state  *)
(* (emitted for the replay against the implementation)                     *)
(***************************************************************************)
CellObs(cs) == {[key |-> Key(c), v |-> CellVol2(c), m |-> CellMom6(c)] : c \in cs}
IsTrim == Len(hist) > 0 /\ hist[Len(hist)].op \in {"trim", "trim2"}
\* named boundary groups of rectilinear and unitsquare meshes: the sides of the (sliced) box
SidePlane(d, s) == PosW(2 * (sg.o[d] + (IF s = 1 THEN sg.n[d] ELSE 0)) * TpP2(L - sg.lv[d]), d)
NowPeriodic(d) == base.per[d] /\ sg.o[d] = 0 /\ sg.n[d] = base.n[d] * TpP2(sg.lv[d])
SideFacets(d, s) == IF d > Dim \/ NowPeriodic(d) THEN {}
                    ELSE {f \in Boundary(cells) : /\ f.p[d] = SidePlane(d, s)
                                                   /\ f.n[d] = (IF s = 1 THEN 1 ELSE -1)
                                                   /\ \A e \in Dirs \ {d} : f.n[e] = 0}
HasGroups == HasBoundary(st) /\ base.st # "M" /\ base.name \notin {"mp21", "mp42"}
Prediction ==
    LET bd == HasBoundary(st)
    IN [st |-> st, bd |-> bd, vol2 |-> Vol2(cells),
        hasG |-> HasGroups,
        G |-> IF HasGroups THEN [left |-> SideFacets(1, 0), right |-> SideFacets(1, 1), bottom |-> SideFacets(2, 0), top |-> SideFacets(2, 1)]
              ELSE [left |-> {}, right |-> {}, bottom |-> {}, top |-> {}],
        cells |-> CellObs(cells),
        B |-> IF bd THEN Boundary(cells) ELSE {},
        I |-> IF bd THEN Interfaces(cells) ELSE {},
        trim |-> IsTrim,
        ccells |-> CellObs(comp),
        cB |-> IF bd /\ IsTrim THEN Boundary(comp) ELSE {},
        cI |-> IF bd /\ IsTrim THEN Interfaces(comp) ELSE {},
        cut |-> IF bd /\ IsTrim THEN CutFacets(cells, comp) ELSE {}]

(***************************************************************************)
(* the property                                                            *)
(***************************************************************************)
TypeOK == /\ cells # {}
          /\ \A c \in cells \cup comp : c.at # {} /\ c.hf \in 0..2 /\ \A d \in Dirs : c.lv[d] \in 0..L
Disjoint == \A c1 \in cells \cup comp : \A c2 \in cells \cup comp : c1 # c2 => c1.at \cap c2.at = {}
WithinHull == \A c \in cells \cup comp : c.at \subseteq HullC(c)

ClosedSet(cs) ==
    LET B == Boundary(cs)
    IN /\ \A d \in Dirs : TpSumF([f \in B |-> f.n[d]], B) = 0
       /\ (\E d \in Dirs : base.per[d]) \/ TpSumF([f \in B |-> Dot(f.p, f.n)], B) = Dim * Vol2(cs)
BoundaryClosed == ClosedSet(cells) /\ ClosedSet(comp)

InterfacesOnceSet(cs) ==
    IfacesSide(cs, TRUE) = {[p |-> r.p, n |-> (IF Dim = 1 THEN <<-r.n[1]>> ELSE <<-r.n[1], -r.n[2]>>), a |-> r.b, b |-> r.a] : r \in IfacesSide(cs, FALSE)}
InterfacesOnce == InterfacesOnceSet(cells) /\ InterfacesOnceSet(comp)
\* every facet of every atom is exactly one of: boundary, interface, interior to one cell
FacetPartition ==
    LET A == AllAtoms(cells)
        own == Owner(cells)
        nbound == Cardinality(Boundary(cells))
        nint == Cardinality(IfacesSide(cells, TRUE)) + Cardinality(IfacesSide(cells, FALSE))
        ninner == Cardinality({y \in AtomFacets(A) : y.f.nb \in A /\ own[y.f.nb] = own[y.a]})
    IN nbound + nint + ninner = Cardinality(AtomFacets(A))

Flip(F) == {[p |-> f.p, n |-> (IF Dim = 1 THEN <<-f.n[1]>> ELSE <<-f.n[1], -f.n[2]>>)] : f \in F}
CutShared == comp # {} => CutFacets(cells, comp) = Flip(CutFacets(comp, cells))

\* action property: what one operation does to the cells
StepConserves ==
    hist' # hist =>
        LET o == hist'[Len(hist')]
        IN CASE o.op \in {"refine", "refspace", "refby", "hierand"} ->
                  /\ AllAtoms(cells') = AllAtoms(cells)
                  /\ \A c \in cells : c.at = UNION {k.at : k \in {x \in cells' : HullC(x) \subseteq HullC(c)}}
             [] o.op \in {"take", "select", "remove", "union", "slice"} ->
                  /\ cells' \subseteq cells
                  /\ cells' # {}
             [] o.op \in {"trim", "trim2"} ->
                  /\ \A c \in cells : LET a == UNION {k.at : k \in {x \in cells' : Key(x) = Key(c)}}
                                          b == UNION {k.at : k \in {x \in comp' : Key(x) = Key(c)}}
                                      IN a \cup b = c.at /\ a \cap b = {}
                  /\ Keys(cells') \cup Keys(comp') = Keys(cells)
StepProp == [][StepConserves]_vars
=============================================================================
