SPECIFICATION TraceSpec
VIEW View
CONSTRAINT Progress
INVARIANT RCertified
INVARIANT IterBounds
INVARIANT ReturnsLast
POSTCONDITION Report
CHECK_DEADLOCK FALSE
