\* spec mutant = the pinned implementation of the submatrix cache (keeps the caller's mask objects): StepsFaithful must be violated
SPECIFICATION Spec
CONSTANTS
  Forms = {"coo"}
  Shapes <- ShapesSub
  MinNnz = 4
  MaxNnz = 4
  WildM = 1
  WildN = 1
  WildCooN = 1
  WildNnz = 1
  BlockHeights = {0, 1}
  BlockWidths = {0, 1}
  MaxBlockRows = 1
  MaxBlockCols = 1
  MaxBlockNnz = 1
  Dtypes = {"f"}
  WildDtypes = {"f"}
  Ops = {"submatrix"}
  OpForms = {"coo"}
  MaxSteps = 2
  MaxE = 2
  StrictOrder = TRUE
  LowerBound = TRUE
  CacheCopies = FALSE
INVARIANT TypeOK
INVARIANT AcceptIffValid
INVARIANT ReasonsIffInvalid
INVARIANT BackendGetsValid
INVARIANT Faithful
INVARIANT FaithfulInput
INVARIANT CompressCorrect
INVARIANT BlockFaithful
INVARIANT PickleFaithful
INVARIANT CacheTransparent
INVARIANT StepsFaithful
INVARIANT Algebra
CHECK_DEADLOCK FALSE
