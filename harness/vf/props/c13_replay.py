"""C13 replay: behaviours of spec/Subst.tla stepped through the real nutils.function API.

A *group* is one program (node list of the Subst machine) with all outcomes TLC predicted for it (one per Eval action /
refused replacement).  The program is rebuilt node by node on nutils.function objects -- once per *variant*; variant v
uses the v-th documented spelling of every argument specification (model operator Spellings) and rotates the equivalent
API spellings of the other nodes -- and every prediction is compared with what the code does.
"""

import contextlib
import warnings
from fractions import Fraction

import numpy

from .. import dag, exprs

DT = {'f': float, 'i': int}
_MESH = {}


def _mesh():
    if not _MESH:
        from nutils import mesh, function
        dom, geom = mesh.line(2)
        _MESH.update(dom=dom, geom=geom, basis=dom.basis('std', degree=1), J=function.J(geom))
    return _MESH


def warm():
    """import nutils and exercise construction, lowering, compilation and evaluation once (in the parent, before the
    worker processes are forked, so that they inherit the imported modules)"""
    import treelog
    from nutils import function, mesh, sample, evaluable
    M = _mesh()
    with treelog.set(treelog.NullLog()), contextlib.suppress(Exception):   # (a failure here is reported by the replay itself)
        x = function.Argument('x', (2,))
        f = function.factor(function.replace_arguments(x * x, {'x': 2 * x}))
        function.eval(function.linearize(f, 'x:y') + numpy.sum(function.derivative(f, 'x'), -1), dict(x=[1., 2.], y=[0., 1.]))
        function.eval(M['dom'].integral(function.field('X', M['basis']) * M['basis'] * M['J'], degree=1), dict(X=[1., 2., 3.]))


class Refused(Exception):
    """nutils raised while the model demands a result"""

    def __init__(self, stage, op, exc, spelling=None):
        self.stage, self.op, self.exc, self.spelling = stage, op, exc, spelling


def _is_argspec_nameerror(exc):
    return isinstance(exc, NameError) and "'arguments'" in str(exc)


class Builder:

    def __init__(self, tables, variant):
        self.t = tables
        self.v = variant
        self.spellings_used = []

    # -- leaves ---------------------------------------------------------
    def argobj(self, a, style=0):
        from nutils import function
        ad = self.t['args'][a - 1]
        sh, dt = tuple(ad['sh']), DT[ad['dt']]
        if style % 3 == 0:
            return function.Argument(ad['name'], sh, dt)
        if style % 3 == 1:
            return function.field(ad['name'], shape=sh, dtype=dt)
        return function.dotarg(ad['name'], shape=sh, dtype=dt)

    def name(self, a):
        return self.t['args'][a - 1]['name']

    def const(self, c):
        cd = self.t['consts'][c - 1]
        p = cd['p']
        vals = [Fraction(p[2 * i], p[2 * i + 1]) for i in range(len(p) // 2)]
        dt = DT[cd['dt']]
        return numpy.array([dt(v) if dt is int else float(v) for v in vals], dtype=dt).reshape(cd['sh'])

    # -- argument specifications ----------------------------------------
    def spec(self, spelling, xs, names, values):
        """the abstract map {xs[i] -> values[i]} in the given documented spelling; names[i] is the name of the value
        when it is a plain argument"""
        xn = [self.name(x) for x in xs]
        xo = [self.argobj(x) for x in xs]
        if spelling == 'dict-str':
            return dict(zip(xn, names))
        if spelling == 'string':
            return ','.join('{}:{}'.format(a, b) for a, b in zip(xn, names))
        if spelling == 'tuple-of-strings':
            return tuple('{}:{}'.format(a, b) for a, b in zip(xn, names))
        if spelling == 'list-of-strings':
            return ['{}:{}'.format(a, b) for a, b in zip(xn, names)]
        if spelling == 'list-of-pairs':
            return [(a, b) for a, b in zip(xn, names)]
        if spelling in ('dict-argument-values', 'dict-array-values'):
            return dict(zip(xn, values))
        if spelling in ('argument-object-pairs', 'argument-object-array-pairs'):
            return [(a, b) for a, b in zip(xo, values)]
        if spelling == 'mixed-pairs-and-strings':   # the docstring's [(Argument('u', ...), Argument('v', ...)), 'p:q']
            if len(xs) == 1:
                return [(xo[0], names[0])]
            return [(xo[0], values[0])] + ['{}:{}'.format(a, b) for a, b in zip(xn[1:], names[1:])]
        if spelling == 'list-of-name-array-pairs':
            return [(a, b) for a, b in zip(xn, values)]
        raise KeyError(spelling)

    # -- nodes ----------------------------------------------------------
    def build(self, prog):
        from nutils import function
        out = []
        v = self.v
        M = _mesh()
        for pos, n in enumerate(prog):
            op, d, p = n['op'], n['d'], n['p']
            A = [out[i - 1] for i in d]
            try:
                if op == 'Arg':
                    r = self.argobj(p[0], v + pos)
                elif op == 'Const':
                    r = function.Array.cast(self.const(p[0])) if (v + pos) % 2 == 0 else function.asarray(self.const(p[0]))
                elif op == 'Field':
                    nm = self.name(p[0])
                    k = (v + pos) % 3
                    r = function.field(nm, M['basis']) if k == 0 else function.dotarg(nm, M['basis']) if k == 1 else M['basis'] @ function.Argument(nm, (3,))
                elif op == 'Add':
                    r = A[0] + A[1] if v % 2 == 0 else numpy.add(A[0], A[1])
                elif op == 'Mul':
                    r = A[0] * A[1] if v % 2 == 0 else numpy.multiply(A[0], A[1])
                elif op == 'Neg':
                    r = -A[0] if v % 2 == 0 else numpy.negative(A[0])
                elif op == 'Pow':
                    r = A[0] ** p[0] if v % 2 == 0 else numpy.power(A[0], p[0])
                elif op == 'Sum':
                    r = numpy.sum(A[0], -1) if v % 2 == 0 else A[0].sum(-1)
                elif op == 'Dot':
                    if v % 3 == 0:
                        r = A[0] @ A[1]
                    elif v % 3 == 1:
                        la = 'ij'[-A[0].ndim:]
                        lb = 'jk'[:A[1].ndim]
                        r = numpy.einsum('{},{}->{}'.format(la, lb, (la + lb).replace('j', '')), A[0], A[1])
                    else:
                        r = numpy.matmul(A[0], A[1])
                elif op == 'Outer':
                    r = A[0][:, numpy.newaxis] * A[1][numpy.newaxis, :] if v % 2 == 0 else numpy.einsum('i,j->ij', A[0], A[1])
                elif op == 'Take':
                    r = A[0][p[0]] if v % 2 == 0 else numpy.take(A[0], p[0], axis=0)
                elif op == 'Int':
                    f = A[0][..., numpy.newaxis] * M['basis'] if p[0] == 1 else A[0]
                    r = M['dom'].integral(f * M['J'], degree=1) if v % 2 == 0 else M['dom'].sample('gauss', 1).integral(f * M['J'])
                elif op == 'Replace':
                    spelling = n['spell'][v % len(n['spell'])]
                    self.spellings_used.append(spelling)
                    names = [self.name(prog[i - 1]['p'][0]) if prog[i - 1]['op'] == 'Arg' else None for i in d[1:]]
                    spec = self.spec(spelling, p, names, A[1:])
                    try:
                        r = function.replace_arguments(A[0], spec) if (v + pos) % 2 == 0 else A[0].replace(spec)
                    except Exception as e:
                        raise Refused('build', op, e, spelling)
                elif op == 'Lin':
                    spelling = n['spell'][v % len(n['spell'])]
                    self.spellings_used.append(spelling)
                    xs, vs = p[0::2], p[1::2]
                    spec = self.spec(spelling, xs, [self.name(a) for a in vs], [self.argobj(a) for a in vs])
                    try:
                        r = function.linearize(A[0], spec)
                    except Exception as e:
                        raise Refused('build', op, e, spelling)
                elif op == 'Deriv':
                    # by NAME only for an argument the operand has (otherwise nutils refuses: 'no such argument'); else by object
                    k = (v + pos) % 3 if p[0] in prog[d[0] - 1]['fv'] else 1
                    r = function.derivative(A[0], self.name(p[0])) if k == 0 else function.derivative(A[0], self.argobj(p[0])) if k == 1 else A[0].derivative(self.name(p[0]))
                elif op == 'Factor':
                    r = function.factor(A[0])
                else:
                    raise KeyError(op)
            except Refused:
                raise
            except Exception as e:
                raise Refused('build', op, e)
            out.append(r)
        return out


def assignment(tables, g, fv, style=0):
    """argument values of model assignment g for the arguments fv, in one of several equivalent python representations"""
    A = {}
    for a in fv:
        ad = tables['args'][a - 1]
        vals, bad, _, _ = dag.arr_value(tables['envs'][g - 1][a - 1])
        assert not bad
        arr = numpy.array([float(x) for x in vals.ravel()], dtype=float).reshape(ad['sh'])
        if ad['dt'] == 'i':
            arr = arr.astype(int)
        k = (style + a) % 3
        if k == 1:
            arr = arr.tolist()                     # nested python lists / scalars
        elif k == 2 and (arr == numpy.round(arr)).all():
            arr = arr.astype(int)                  # integral values given as integers for a float argument
        A[ad['name']] = arr
    return A


def evaluate(f, A, mode, style=0):
    from nutils import function
    M = _mesh()
    with warnings.catch_warnings():
        warnings.simplefilter('ignore')
        with numpy.errstate(all='ignore'):
            if mode == 'integral':
                # the function used inside an integrand over the tiny sample: lowered with points, evaluated by the
                # equivalent entry points function.eval(integral) / sample.integrate / topology.integrate
                g = f[..., numpy.newaxis] * M['basis'] * M['J']
                if style % 3 == 1:
                    return numpy.asarray(M['dom'].sample('gauss', 1).integrate(g, arguments=A))
                if style % 3 == 2:
                    return numpy.asarray(M['dom'].integrate(g, degree=1, arguments=A))
                f = M['dom'].integral(g, degree=1)
            if style % 2 == 0:
                return numpy.asarray(function.eval(f, A))
            return numpy.asarray(f.eval(A))


def bad_value(tables, bad, badsh):
    ad = tables['args'][bad['x'] - 1]
    if bad['kind'] == 'shape':
        return numpy.full(tuple(badsh), 1.0 if ad['dt'] == 'f' else 1)
    if bad['kind'] == 'frac-for-int':
        return numpy.full(tuple(ad['sh']), 1.5)
    if bad['kind'] == 'complex-for-float':
        return numpy.full(tuple(ad['sh']), 1 + 2j)
    raise KeyError(bad['kind'])


def bad_replacement(b, tables, bad, spelling):
    """the refused replacement of argument bad.x in the given spelling"""
    from nutils import function
    x = bad['x']
    kind = bad['kind']
    if kind in ('const-shape', 'const-dtype'):
        val = b.const(bad['id'])
        val = {0: val, 1: function.Array.cast(val), 2: val.tolist()}[spelling % 3]
        return [{b.name(x): val}, [(b.name(x), val)], [(b.argobj(x), val)]][(spelling // 3) % 3], ['dict', 'name-pairs', 'argument-object-pairs'][(spelling // 3) % 3]
    if kind in ('argobj-shape', 'argobj-dtype'):
        val = b.argobj(bad['id'])
        return [{b.name(x): val}, [(b.name(x), val)], [(b.argobj(x), val)]][spelling % 3], ['dict', 'name-pairs', 'argument-object-pairs'][spelling % 3]
    if kind == 'name-clash':
        xn, yn = b.name(x), b.name(bad['id'])
        k = spelling % 4
        return [{xn: yn}, '{}:{}'.format(xn, yn), ('{}:{}'.format(xn, yn),), [(xn, yn)]][k], ['dict-str', 'string', 'tuple-of-strings', 'list-of-pairs'][k]
    raise KeyError(kind)


def _exc(e):
    return '{}: {}'.format(type(e).__name__, str(e)[:160])


def replay_group(item):
    """returns dict(violations=[(key, what, data)], judged=.., skipped={..}, variants=.., spellings=[..])"""
    import treelog
    with treelog.set(treelog.NullLog()):
        return exprs.with_timeout(240, _replay_group, item)


def _replay_group(item):
    tables, prog, outcomes, extra_variants = item
    out = dict(violations=[], judged=0, values=0, rejects=0, skipped={}, variants=0, spellings=set(), late_rejects=0)
    root = prog[-1] if prog else None

    def viol(key, what, **data):
        out['violations'].append((key, what, dict(data, program=[[n['op'], n['d'], n['p'], n['k'], n['sh']] for n in prog])))

    def skip(why):
        out['skipped'][why] = out['skipped'].get(why, 0) + 1

    construct = [o for o in outcomes if o['stage'] == 'construct']
    calls = [o for o in outcomes if o['stage'] == 'call']
    nspell = max([len(n['spell']) for n in prog] + [1])
    # variant 0 (dict spellings) is the baseline; extra_variants: None = every spelling, else the additional ones to exercise
    variants = list(range(nspell)) if extra_variants is None else [0] + sorted({1 + (k % (nspell - 1)) for k in extra_variants} if nspell > 1 else set())
    built = {}
    base_arguments = None
    for v in variants:
        b = Builder(tables, v)
        try:
            f = b.build(prog)[-1]
        except Refused as r:
            if _is_argspec_nameerror(r.exc):
                viol('replace:spelling:argument-object-pairs:NameError',
                     'an argument specification with an Argument OBJECT as key (documented: [(Argument(u), Argument(v)), ...]) raises ' + _exc(r.exc),
                     spelling=r.spelling, op=r.op)
            elif r.spelling is not None and v != 0 and 0 in built and r.op in ('Replace', 'Lin'):
                viol('{}:spelling:{}:{}'.format(r.op.lower(), r.spelling, type(r.exc).__name__),
                     'the {} spelling of a map that is accepted in the {} spelling raises {}'.format(r.spelling, prog_spell0(prog), _exc(r.exc)), spelling=r.spelling)
            else:
                viol('build:{}:{}'.format(r.op, type(r.exc).__name__), 'building {} raised {}'.format(r.op, _exc(r.exc)), spelling=r.spelling, variant=v)
            continue
        out['spellings'].update(b.spellings_used)
        built[v] = f
        out['variants'] += 1
        # static metadata
        if tuple(f.shape) != tuple(root['sh']) or f.dtype != DT[root['dt']]:
            viol('meta:shape-dtype:' + root['op'], 'result has shape {} dtype {} instead of {} {}'.format(f.shape, f.dtype, root['sh'], root['dt']), variant=v)
        args = {k: (tuple(s), d.__name__) for k, (s, d) in f.arguments.items()}
        # the model's free arguments (name -> shape, dtype) are what function.arguments_for must report
        from nutils import function
        want_args = {tables['args'][a - 1]['name']: (tuple(tables['args'][a - 1]['sh']), DT[tables['args'][a - 1]['dt']].__name__) for a in root['fv']}
        try:
            have = {k: (tuple(a.shape), a.dtype.__name__) for k, a in function.arguments_for(f).items()}
        except Exception as e:
            have = None
            viol('meta:arguments_for:raises:' + type(e).__name__, 'arguments_for raised ' + _exc(e), variant=v)
        if have is not None and (have != args or have != want_args):
            # known root cause: _Replace computes the unreplaced arguments with `name not in <raw specification>`
            rawspec = any(n['op'] == 'Replace' and n['spell'][v % len(n['spell'])] not in ('dict-str', 'dict-argument-values', 'dict-array-values') for n in prog)
            viol('replace:arguments-attribute:membership-test-on-raw-spec' if rawspec else 'meta:arguments:' + root['op'],
                 'arguments_for / .arguments of the result are {} but the function has the arguments {} ({} spelling)'.format(sorted(have), sorted(want_args), spell_of(prog, v)),
                 variant=v, have=sorted(have.items()), want=sorted(want_args.items()))
        if base_arguments is None:
            base_arguments = (v, args)
        elif args != base_arguments[1]:
            viol('replace:arguments-attribute:membership-test-on-raw-spec',
                 'the .arguments of the result depend on the spelling of the same map: {} gives {}, {} gives {}'.format(
                     spell_of(prog, base_arguments[0]), sorted(base_arguments[1]), spell_of(prog, v), sorted(args)), spellings=[spell_of(prog, base_arguments[0]), spell_of(prog, v)])
    # ---- calls
    fv = root['fv'] if root else []
    for o in calls:
        if o['verdict'] in ('UNDEF', 'ANY'):
            skip('model value undefined (cap)' if o['verdict'] == 'UNDEF' else 'wrong value for an argument the result does not depend on')
            continue
        if o['verdict'] == 'VALUE':
            want, bad, _, _ = dag.arr_value(o['val'])
            assert not bad
            # every spelling at the first assignment, the baseline variant at the others
            vs = list(built) if o['asg'] == 1 else list(built)[:1]
            for v in vs:
                A = assignment(tables, o['asg'], fv, style=v)
                try:
                    got = evaluate(built[v], A, o['mode'], style=v)
                except Exception as e:
                    viol('eval:{}:{}'.format(root['op'], type(e).__name__), 'evaluation ({}) raised {}'.format(o['mode'], _exc(e)), variant=v, asg=o['asg'])
                    continue
                out['judged'] += 1
                out['values'] += 1
                if not dag.matches(want, got, root['dt']):
                    viol('value:' + signature(prog) + (':in-integral' if o['mode'] == 'integral' else ''),
                         'value differs from the model ({} spelling, assignment {}, {})'.format(spell_of(prog, v), o['asg'], o['mode']),
                         got=numpy.asarray(got).tolist(), want=[str(x) for x in want.ravel()], shape=list(want.shape), variant=v, asg=o['asg'],
                         arguments={k: numpy.asarray(x).tolist() for k, x in A.items()})
        elif o['verdict'] == 'REJECT':
            if 0 not in built:
                continue
            A = assignment(tables, 1, fv)
            name = tables['args'][o['bad']['x'] - 1]['name']
            A[name] = bad_value(tables, o['bad'], o['badsh'])
            for mode in ('direct', 'integral') if len(root['sh']) <= 1 else ('direct',):
                try:
                    got = evaluate(built[0], A, mode)
                except Exception as e:
                    out['judged'] += 1
                    out['rejects'] += 1
                    continue
                out['judged'] += 1
                if o['bad']['kind'] == 'shape':
                    key = 'eval:shape:accepted:{}-for-{}'.format(tuple(o['badsh']), tuple(tables['args'][o['bad']['x'] - 1]['sh'])).replace(' ', '')
                else:   # one root cause: numpy.asarray(value, dtype=...) in the compiled Argument casts unsafely
                    key = 'eval:dtype:accepted:unsafe-cast'
                viol(key, 'a value of the wrong {} for argument {!r} is accepted ({}) and a result returned'.format(
                    'shape {}'.format(tuple(o['badsh'])) if o['bad']['kind'] == 'shape' else 'dtype ({})'.format(o['bad']['kind']), name, mode),
                    got=numpy.asarray(got).tolist(), mode=mode)
    # ---- refused replacements
    for i, o in enumerate(construct):
        b = Builder(tables, 0)
        try:
            f = b.build(prog)[-1]
        except Refused:
            continue
        for sp in range(9 if o['bad']['kind'].startswith('const') else 4 if o['bad']['kind'] == 'name-clash' else 3):
            spec, label = bad_replacement(b, tables, o['bad'], sp)
            try:
                from nutils import function
                g = function.replace_arguments(f, spec)
            except Exception as e:
                out['judged'] += 1
                if _is_argspec_nameerror(e):
                    viol('replace:spelling:argument-object-pairs:NameError',
                         'an argument specification with an Argument OBJECT as key raises ' + _exc(e), spelling=label)
                else:
                    out['rejects'] += 1
                continue
            # accepted at construction: a late refusal (at evaluation) is tolerated, a value is not
            fvg = sorted(set(fv) | ({o['bad']['id']} if o['bad']['kind'] in ('argobj-shape', 'argobj-dtype', 'name-clash') else set()))
            A = assignment(tables, 1, fvg)
            try:
                got = evaluate(g, A, 'direct')
            except Exception as e:
                out['judged'] += 1
                out['late_rejects'] += 1
                continue
            out['judged'] += 1
            key = 'replace:{}:accepted:{}'.format(o['bad']['kind'], label)
            if o['bad']['kind'] == 'name-clash':
                key = 'replace:arguments-attribute:membership-test-on-raw-spec'
            viol(key, 'replacing argument {!r} by a value of the wrong shape or dtype ({}, {} spelling) is accepted and evaluates'.format(
                tables['args'][o['bad']['x'] - 1]['name'], o['bad']['kind'], label), got=numpy.asarray(got).tolist(), bad=o['bad'])
    out['spellings'] = sorted(out['spellings'])
    return out


def spell_of(prog, v):
    s = [n['spell'][v % len(n['spell'])] for n in prog if n['spell']]
    return '/'.join(s) if s else 'plain'


def prog_spell0(prog):
    return spell_of(prog, 0)


def signature(prog):
    """root-cause style signature of a program: its manipulations in order (with replacement kind) over the base operations"""
    man = [n['op'].lower() + ('[' + n['k'] + ']' if n['k'] else '') for n in prog if n['op'] in ('Replace', 'Lin', 'Deriv', 'Factor', 'Int')]
    return '>'.join(man) if man else 'plain'
