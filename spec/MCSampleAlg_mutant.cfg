\* spec mutant: a deliberately wrong transcription (the harness replaces Mutant); an invariant must be violated
SPECIFICATION Spec
CONSTANTS
  Bases <- MCBases
  AtomDefs <- MCAtomDefs
  StartAtoms <- MCStartAtoms
  Operands <- MCOperands
  MaxOps = 2
  MaxPoints = 24
  MaxElems = 12
  TakeAll = TRUE
  Mutant = "mul-index-strides"
INVARIANT ContainerInv
INVARIANT LocatedInv
INVARIANT Sizes
INVARIANT IndexPartition
INVARIANT EvalOrder
INVARIANT EvIndexAgrees
INVARIANT Quadrature
INVARIANT OpLaw
CHECK_DEADLOCK FALSE
