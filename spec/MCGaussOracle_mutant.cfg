\* spec mutant (GoMutant is replaced by the harness): ChildrenTile / RefVolume must be violated
SPECIFICATION Spec
CONSTANTS
  RefTypes <- MCRefs1
  TrimRefs <- MCTrim2
  DegRef = 0
  DegRegion = 0
  DegRegion3 = 0
  InvDeg = 2
  TrimLevels <- MCLevels1
  MaxRefine <- MCRefine0
  GoMutant = "child-map"
INVARIANT RefVolume
INVARIANT ChildrenTile
INVARIANT TrimSplits
INVARIANT RegionInside
CHECK_DEADLOCK FALSE
