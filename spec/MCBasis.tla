------------------------------ MODULE MCBasis ------------------------------
(* model-checking shell of BasisMachine: named parameter sets (a cfg cannot hold records), emission of *)
(* every state (operation history + the basis structure the model predicts) for the S->C replay.       *)
EXTENDS BasisMachine, Json

PFull(P, N, PERS, ENDS) == UNION {UNION {UNION {
    {[p |-> p, n |-> n, per |-> per, form |-> "full", ms |-> ms, k |-> -1] :
        ms \in {x \in [1..n+1 -> 1..p+1] : IF per THEN x[1] = x[n+1] ELSE (x[1] \in ENDS /\ x[n+1] \in ENDS)}}
    : per \in PERS} : n \in N} : p \in P}
PNone(P, N, PERS) == UNION {UNION {UNION {
    {[p |-> p, n |-> n, per |-> per, form |-> "none", ms |-> <<>>, k |-> k] : k \in (-(p+1))..(p-1)}
    : per \in PERS} : n \in N} : p \in P}
PCoarse(P, N, PERS, KS) == UNION {UNION {UNION {
    {[p |-> p, n |-> n, per |-> per, form |-> "coarse", ms |-> ms, k |-> k] :
        ms \in {x \in [1..(n \div 2)+1 -> 1..p+1] : IF per THEN x[1] = x[(n \div 2)+1] ELSE (x[1] = 1 /\ x[(n \div 2)+1] = 1)}, k \in KS}
    : per \in PERS} : n \in {m \in N : m % 2 = 0}} : p \in P}
PDefault(P, N, PERS) == UNION {UNION {{[p |-> p, n |-> n, per |-> per, form |-> "none", ms |-> <<>>, k |-> -1] : per \in PERS} : n \in N} : p \in P}

\* every one-dimensional basis with degree <= 3 on <= 3 elements
Dims_1d == PFull(0..3, 1..3, BOOLEAN, {1}) \cup PNone(0..3, 1..3, BOOLEAN) \cup PCoarse(1..2, {2}, BOOLEAN, {-1, 0})
Dims_1d_big == PFull(0..3, 1..4, BOOLEAN, {1, 2}) \cup PNone(0..4, 1..5, BOOLEAN) \cup PCoarse(1..3, {2, 4}, BOOLEAN, {-1, 0, -2})
\* small factors for products
D(p, n, per, form, ms, k) == [p |-> p, n |-> n, per |-> per, form |-> form, ms |-> ms, k |-> k]
Dims_2a == {D(1, 2, FALSE, "none", <<>>, -1), D(2, 2, TRUE, "none", <<>>, 0), D(2, 1, TRUE, "none", <<>>, -1),
            D(0, 2, FALSE, "none", <<>>, -1), D(3, 2, FALSE, "none", <<>>, -1), D(2, 2, FALSE, "full", <<1, 2, 1>>, -1)}
Dims_2b == {D(1, 2, TRUE, "none", <<>>, -1), D(2, 2, FALSE, "none", <<>>, -3), D(1, 1, FALSE, "none", <<>>, -1),
            D(2, 3, TRUE, "full", <<2, 1, 3, 2>>, -1), D(2, 2, FALSE, "none", <<>>, -1), D(0, 1, FALSE, "none", <<>>, -1)}
Dims_2a_q == {D(1, 2, FALSE, "none", <<>>, -1), D(2, 2, TRUE, "none", <<>>, 0), D(0, 2, FALSE, "none", <<>>, -1), D(2, 2, FALSE, "full", <<1, 2, 1>>, -1)}
Dims_2b_q == {D(1, 2, TRUE, "none", <<>>, -1), D(2, 1, TRUE, "none", <<>>, -1), D(2, 3, TRUE, "full", <<2, 1, 3, 2>>, -1), D(0, 1, FALSE, "none", <<>>, -1)}
Dims_der_q == {D(1, 3, FALSE, "none", <<>>, -1), D(2, 2, TRUE, "none", <<>>, -1), D(2, 3, TRUE, "none", <<>>, 0)}
Dims_cov == {D(1, 2, FALSE, "none", <<>>, -1), D(2, 2, TRUE, "none", <<>>, -1)}
Dims_2c == PNone(1..2, 1..2, BOOLEAN) \cup PDefault({0, 3}, {2}, {FALSE}) \cup PFull({2}, {2}, BOOLEAN, {1})
Dims_2d == PNone(1..2, {2}, BOOLEAN) \cup PDefault({0}, {1}, {FALSE}) \cup PDefault({3}, {3}, {TRUE}) \cup PFull({2}, {3}, {TRUE}, {1})
Dims_tiny == PDefault(1..2, 2..3, BOOLEAN) \cup {D(2, 2, TRUE, "none", <<>>, 0), D(0, 3, FALSE, "none", <<>>, -1), D(3, 1, TRUE, "none", <<>>, -1)}
Dims_sim == PFull(1..3, 1..4, BOOLEAN, {1}) \cup PNone(0..3, 1..4, BOOLEAN) \cup PCoarse(1..2, {2, 4}, BOOLEAN, {-1, 0})
\* directed family "periodic seam": periodic one-dimensional splines of high degree in which at least two knots are wrapped
\* around the seam (p - m[0] >= 2) while knots are repeated: continuity argument 1..p-1 on 3..5 elements and explicit
\* multiplicity vectors with a repeated knot just before / at / after the seam; also the one-element periodic splines.
\* The model (Spline1D) gives the continuity order at every interface including the seam (key <<0>>).
PSeam(P, N) == UNION {UNION {{D(p, n, TRUE, "none", <<>>, k) : k \in 1..p-1} : n \in N} : p \in P}
Dims_seam4 == PSeam({4}, 3..5) \cup PSeam({4}, {1, 2})
              \cup {D(3, 4, TRUE, "full", <<1, 1, 1, 2, 1>>, -1), D(4, 4, TRUE, "full", <<2, 1, 1, 2, 2>>, -1), D(4, 3, TRUE, "full", <<1, 2, 3, 1>>, -1),
                    D(4, 5, TRUE, "full", <<1, 1, 2, 1, 3, 1>>, -1), D(4, 3, TRUE, "full", <<2, 3, 1, 2>>, -1), D(3, 3, TRUE, "full", <<1, 2, 2, 1>>, -1)}
Dims_seam5 == Dims_seam4 \cup PSeam({5}, 1..5) \cup PSeam({6}, {1, 3})
              \cup {D(5, 4, TRUE, "full", <<2, 1, 3, 2, 2>>, -1), D(5, 3, TRUE, "full", <<1, 4, 2, 1>>, -1), D(5, 5, TRUE, "full", <<3, 1, 1, 2, 2, 3>>, -1)}
Dims_mut == PFull({2}, {2, 3}, BOOLEAN, {1}) \cup PNone({2}, {2}, BOOLEAN)

Rem_1 == {<<>>, <<0>>, <<-1>>, <<0, -1>>, <<1>>}
Rem_2 == {<<>>, <<0>>, <<-1>>}
Rem_3 == {<<>>, <<0>>, <<-1>>, <<0, -1>>, <<1>>, <<-2, 0>>, <<1, 2>>}

Kinds_struct == {"spline", "discont", "legendre", "removedofs"}
Kinds_all == {"spline", "discont", "legendre", "removedofs", "mask", "prune", "part"}
Kinds_spline == {"spline"}

Emit(x) == PrintT(<<"VF", ToJson(x)>>)
EmitState == st = "new" \/ Emit([hist |-> hist, st |-> st, b |-> b])
Depth(n) == TLCGet("level") <= n
=============================================================================
