"""C20, S->C replay of DimMachine behaviours on real nutils.SI quantities.

Every transition TLC emits is `{f, args, k, out, step}`: the function, the operand
values as the model sees them (plain number or Quantity with class name and exact
rational value(s) in reference units), a rational parameter and the outcome the
model predicts.  The real operands are the objects the real code produced for
the same model values earlier in the replay (seeds are built with `value * unit`),
so deeper transitions act on genuine compositions.
"""

import fractions
import operator
import warnings

import numpy

TRANS = {'Q': 'θ', 'U': 'μ', 'O': 'Ω'}      # transliteration used by the specs
BASEUNIT = {'L': 'm', 'T': 's', 'M': 'kg', 'I': 'A', 'θ': 'K', 'N': 'mol', 'J': 'cd'}


def py(chars):
    'model character sequence -> python str'
    return ''.join(TRANS.get(c, c) for c in chars)


def frac(r):
    return fractions.Fraction(r[0], r[1])


def powers_of(pw):
    'model powers (JSON object, or [] for the empty function) -> {base: Fraction}'
    if not pw:
        return {}
    return {py(b): frac(r) for b, r in pw.items()}


def si():
    with warnings.catch_warnings():
        warnings.simplefilter('ignore')
        from nutils import SI
    return SI


def resolve(name):
    SI = si()
    from nutils import function, sample, topology
    root, *rest = name.split('.')
    obj = {'numpy': numpy, 'operator': operator, 'function': function, 'Sample': sample.Sample, 'Topology': topology.Topology}[root]
    for a in rest:
        obj = getattr(obj, a)
    return obj


def real_powers(cls):
    return dict(getattr(cls, '_Dimension__powers'))


def unit_of(powers):
    'a Quantity of value 1 (reference units) of the given dimension, built with the public operators'
    SI = si()
    u = 1.
    for base, p in sorted(powers.items()):
        b = getattr(SI.units, BASEUNIT[base])
        u = u * (b ** (int(p) if p.denominator == 1 else p))
    return u


def key(o):
    return (o['q'], tuple(o['dim']), tuple(tuple(v) for v in o['val']))


def plain_value(val):
    'model value -> python float (scalar) or numpy array (2-vector)'
    fl = [r[0] / r[1] for r in val]
    return fl[0] if len(fl) == 1 else numpy.array(fl)


class Replayer:

    def __init__(self, rep, tag):
        self.rep = rep
        self.tag = tag
        self.SI = si()
        self.real = {}
        self.n = 0
        self.nseeds = 0
        self.nbad = 0
        self.blocked = 0
        self.poisoned = set()
        self.funcs = {}

    # -- helpers ---------------------------------------------------------
    def f(self, name):
        if name not in self.funcs:
            self.funcs[name] = resolve(name)
        return self.funcs[name]

    def seed(self, o, pw):
        'build a real object for a model value that no replayed operation produced (a seed)'
        v = plain_value(o['val'])
        if not o['q']:
            return v
        return v * unit_of(powers_of(pw))

    def obj(self, o, pw):
        k = key(o)
        if k not in self.real:
            self.real[k] = self.seed(o, pw)
            self.nseeds += 1
        return self.real[k]

    def bad(self, e, what, detail):
        self.nbad += 1
        # a wrong class name / cache identity is a defect of Dimension.from_powers, not of the function at hand
        where = 'dimension' if what in ('wrong-name', 'class-identity') else e['f']
        self.rep.violation('{}:{}:{}'.format(self.tag, where, what),
                           '{} {}: {}'.format(e['f'], what, detail),
                           dict(transition=e, detail=detail))

    def unwrap(self, x):
        return x.unwrap() if isinstance(x, self.SI.Quantity) else x

    def same_value(self, got, val):
        want = plain_value(val)
        got = numpy.asarray(got)
        if got.dtype == object:
            # ndarray ** Fraction gives an object array, also for plain arrays
            try:
                got = got.astype(float)
            except Exception:
                return False
        if got.shape != numpy.shape(want):
            return False
        return bool(numpy.allclose(got, want, rtol=1e-12, atol=0))

    def check_class(self, e, r, out):
        'r must be a Quantity of exactly the predicted class'
        SI = self.SI
        if not isinstance(r, SI.Quantity):
            self.bad(e, 'wrong-dimension', 'expected a Quantity [{}], got {!r}'.format(py(out['dim']), r))
            return False
        want = powers_of(out['pw'])
        got = real_powers(type(r))
        if got != want:
            self.bad(e, 'wrong-dimension', 'expected powers {}, got {} ({})'.format(want, got, type(r).__name__))
            return False
        if type(r).__name__ != '[' + py(out['dim']) + ']':
            self.bad(e, 'wrong-name', 'expected class name [{}], got {}'.format(py(out['dim']), type(r).__name__))
            return False
        if type(r) is not SI.Dimension.from_powers(want):
            self.bad(e, 'class-identity', 'class {} is not the cached class of its powers'.format(type(r).__name__))
            return False
        return True

    # -- one call ----------------------------------------------------------
    def call(self, e, args, variant=0):
        'returns (callable on the given args, plain callable on unwrapped args)'
        f = self.f(e['f'])
        name = e['f']
        k = frac(e['k'])
        if name == 'operator.getitem':
            return lambda a: f(a[0], int(k))
        if name == 'numpy.take':
            return lambda a: f(a[0], [1, 0])
        if name == 'numpy.reshape':
            return lambda a: f(a[0], numpy.shape(self.unwrap(args[0])))
        if name == 'numpy.broadcast_to':
            return lambda a: f(a[0], (2,))
        if name in ('numpy.power', 'operator.pow'):
            kk = [int(k)] if k.denominator == 1 else []
            kk += [float(k), k, numpy.float64(float(k))]
            if k.denominator & (k.denominator - 1):
                # not a dyadic rational: only the exact spellings denote the exponent the model speaks of (a binary float does not)
                import decimal
                kk = [k, fractions.Fraction(k.numerator * 7, k.denominator * 7)]
            kv = kk[variant % len(kk)]
            return lambda a: f(a[0], kv)
        if name == 'operator.setitem':
            return lambda a: f(a[0], int(k), a[1])
        if name in ('numpy.stack', 'numpy.concatenate'):
            return lambda a: f(list(a))
        return lambda a: f(*a)

    def nvariants(self, e):
        if e['f'] in ('numpy.power', 'operator.pow'):
            return 4 if e['k'][1] == 1 else 3 if not (e['k'][1] & (e['k'][1] - 1)) else 2
        return 1

    def step(self, e):
        SI = self.SI
        self.n += 1
        out = e['out']
        if any(key(o) in self.poisoned for o in e['args']):
            self.blocked += 1      # an operand is a value the code already got wrong (reported there)
            return
        args = [self.obj(o, pw) for o, pw in zip(e['args'], e['apw'])]
        nbad = self.nbad
        if e['f'] == 'operator.setitem':
            tgt = args[0]
            args[0] = type(tgt).wrap(numpy.array(tgt.unwrap(), dtype=float))   # assignments act on a private copy
        first = None
        for variant in range(self.nvariants(e)):
            c = self.call(e, args, variant)
            try:
                with warnings.catch_warnings():
                    warnings.simplefilter('ignore')
                    r = c(args)
                exc = None
            except Exception as ex:
                r, exc = None, ex
            self.judge(e, args, c, r, exc)
            if first is None:
                first = (r, exc)
        r, exc = first
        if out['kind'] in ('q', 'plain'):
            k = key(dict(q=out['kind'] == 'q', dim=out['dim'], val=out['val']))
            if k not in self.real:
                if self.nbad == nbad and exc is None:
                    self.real[k] = r
                    self.poisoned.discard(k)
                else:
                    self.poisoned.add(k)   # no correct real object for this model value (unless another operation yields one)

    def judge(self, e, args, c, r, exc):
        SI = self.SI
        out = e['out']
        kind = out['kind']
        if kind == 'reject':
            if exc is None:
                self.bad(e, 'not-rejected', 'operands of different dimension accepted, result {!r}'.format(r))
            elif not isinstance(exc, TypeError):
                self.bad(e, 'rejected-with-' + type(exc).__name__, 'expected DimensionError/TypeError, got {!r}'.format(exc))
            if e['f'] == 'operator.setitem' and not self.same_value(args[0].unwrap(), e['args'][0]['val']):
                self.bad(e, 'rejected-but-modified', 'target changed by a rejected assignment')
            return
        if kind == 'noteq':
            want = e['f'] == 'operator.ne'
            if exc is None:
                if not (isinstance(r, (bool, numpy.bool_)) and bool(r) == want):
                    self.bad(e, 'not-rejected', 'comparison of different dimensions returned {!r}'.format(r))
            elif not isinstance(exc, TypeError):
                self.bad(e, 'rejected-with-' + type(exc).__name__, 'expected DimensionError/TypeError, got {!r}'.format(exc))
            return
        if exc is not None:
            self.bad(e, 'raised-' + type(exc).__name__, 'model predicts a result of kind {} but the code raised {!r}'.format(kind, exc))
            return
        # the same computation on plain numbers in reference units
        try:
            pargs = [self.unwrap(a) for a in args]
            if e['f'] == 'operator.setitem':
                pargs[0] = numpy.array(plain_value(e['args'][0]['val']), dtype=float)
            with warnings.catch_warnings():
                warnings.simplefilter('ignore')
                shadow = c(pargs)
            if e['f'] == 'operator.setitem':
                shadow = pargs[0]
        except Exception as ex:
            shadow = ex
        if kind in ('q', 'qopaque', 'none'):
            obj = args[0] if kind == 'none' else r
            if not self.check_class(e, obj, out):
                return
            got = obj.unwrap()
        elif kind in ('plain', 'plainopaque'):
            if isinstance(r, SI.Quantity):
                self.bad(e, 'wrong-dimension', 'expected a plain number (dimensionless), got {!r}'.format(r))
                return
            got = r
        elif kind == 'bool':
            if isinstance(r, SI.Quantity) or numpy.asarray(r).dtype != bool or numpy.asarray(r).ravel().tolist() != out['bval']:
                self.bad(e, 'wrong-value', 'expected {}, got {!r}'.format(out['bval'], r))
            return
        elif kind == 'meta':
            want = [v[0] for v in out['val']]
            if e['f'] == 'numpy.shape':
                ok = tuple(r) == tuple(want)
            else:
                ok = isinstance(r, (int, numpy.integer)) and [int(r)] == want
            if not ok:
                self.bad(e, 'wrong-value', 'expected {}, got {!r}'.format(want, r))
            return
        else:
            raise RuntimeError('unknown outcome kind ' + kind)
        if e['f'] == 'operator.mod' and kind in ('q', 'plain'):
            # float modulo is discontinuous: x % y may come out as ~0 or ~y where the exact result is 0 (and vice versa)
            want = numpy.asarray(plain_value(out['val']), dtype=float)
            y = numpy.abs(numpy.asarray(self.unwrap(args[1]), dtype=float))
            d = numpy.abs(numpy.asarray(got, dtype=float) - want)
            if numpy.shape(d) != numpy.shape(want) or not numpy.all(numpy.minimum(d, numpy.abs(d - y)) <= 1e-12 * numpy.maximum(y, 1)):
                self.bad(e, 'wrong-value', 'expected {} (mod {}) in reference units, got {!r}'.format(want, y, got))
                return
        elif kind in ('q', 'plain', 'none') and not self.same_value(got, out['val']):
            self.bad(e, 'wrong-value', 'expected {} in reference units, got {!r}'.format(plain_value(out['val']), got))
            return
        if isinstance(shadow, Exception):
            self.bad(e, 'plain-computation-raised', 'the computation on plain numbers raised {!r} but the quantity version returned {!r}'.format(shadow, r))
        elif not (numpy.shape(shadow) == numpy.shape(got) and numpy.allclose(numpy.asarray(got).astype(float), numpy.asarray(shadow).astype(float), rtol=1e-14, atol=0, equal_nan=True)):
            self.bad(e, 'differs-from-plain', 'value {!r} differs from the same computation on plain numbers {!r}'.format(got, shadow))


def signature(e):
    'case signature: function, operand classes and shapes, outcome kind'
    return (e['f'], tuple((''.join(a['dim']) if a['q'] else '-', len(a['val'])) for a in e['args']), tuple(e['k']), e['out']['kind'], ''.join(e['out']['dim']))
