"""C17 -- Structural identity and hashing are injective and stable.

Deciding method (TLA+ is the oracle):

 1. design level, TLC exhaustive:
      spec/Hash.tla (over spec/HashSem.tla): a value-builder state machine whose
      reachable states are a bounded adversarial universe of values (and of calls of
      functions memoised with cache.function); in every state Injective / Stable
      compare the value with every value of the universe, Enc being nutils_hash (and
      the __nutils_hash__ properties, and the cache.function key) transcribed branch
      by branch and Canon the behavioural identity.  Checked twice:
      TagMode="qualified" (proposed repair) must hold -- vacuity guard on action
      coverage --, TagMode="name" (the code as written) yields the model-level
      collisions TLC predicts for the code.
      spec/Intern.tla: weak intern tables with Construct/Drop/Dump/Load; exact-key
      variant = oracle, python-equality-key variant = spec mutant that must fail; a
      shadow python-equality table is stepped alongside to name the root cause.
 2. binding to the code:
      S->C  every value TLC emitted (plus seed-dependent random nestings of the same
            grammar) is materialised in python by the recorded construction route
            (the classes are built from the model's class table); a route that does
            not yield the value the model describes is a violation;
      T     the digests computed by the live nutils_hash (cache file names for
            memoised calls) -- in this process, in fresh interpreters under other
            PYTHONHASHSEEDs, after pickle round trips (same and other process),
            after rebuilding -- and the exported structure of real nutils objects
            (transform/reference sequences, samples, evaluable expressions, compiled
            functions, solver systems/methods, array data) go back to TLC
            (spec/HashTable.tla) which evaluates RealInjective / RealStable /
            RealRoutes with Canon computed by the model, and ModelMatch (the real
            equality pattern is the pattern of Enc: binds the transcription);
      S->C  every behaviour of Intern (exact keys) is replayed on fresh Singleton /
            DataClass classes and on types.arraydata with del / pickle, comparing
            after every step the object identity, the arguments the object carries,
            the size of the weak table and the nutils hash with the model's prediction.

Root-cause keys: hash:type-tag-name-only, hash:collision:<kind>~<kind>,
hash:unstable:<kind>:<routes|seed|pickle|xpickle|rebuilt>, hash:raises:<kind>,
materialise:<kind>:<route>, intern:<base>:pyeq-key, intern:<base>:<op>-mismatch,
intern:<base>:entry-outlives-object, real-corpus:raises:<exception>.
"""

import collections
import concurrent.futures
import gc
import json
import os
import pickle
import random
import shutil
import subprocess
import sys

from .. import tlc
from . import c17_values as V

LEVEL = 'model_checking'
WORKROOT = os.path.join(tlc.WORK, 'c17')
COLS = ['main', 'seedA', 'seedB', 'seedC', 'pickle', 'xpickle', 'rebuilt']


class Findings:
    """collects violations per root-cause key and reports the smallest witness of each"""

    def __init__(self):
        self.best = {}

    def add(self, key, size, what, data):
        cur = self.best.get(key)
        if cur is None:
            self.best[key] = [1, size, what, data]
        else:
            cur[0] += 1
            if size < cur[1]:
                cur[1:] = [size, what, data]

    def flush(self, rep):
        for key, (count, size, what, data) in sorted(self.best.items()):
            rep.violation(key, what, data)
            for v in rep.violations:
                if v['key'] == key:
                    v['count'] += count - 1


# ---------------------------------------------------------------------------
# root-cause keys

CLASSY = ('type', 'nt', 'dc', 'inst', 'call')
PYEQ = {('int', '1'): 1, ('bool', 'True'): 1, ('float', '1.0'): 1, ('int', '0'): 0, ('bool', 'False'): 0, ('float', '0.0'): 0,
        ('float', '-0.0'): 0, ('complex', '(1+0j)'): 1, ('complex', '0j'): 0, ('int', '2'): 2, ('float', '2.0'): 2}


def _classpart(t):
    return t[1][0] if t[0] in CLASSY else None


def descend(a, b):
    """smallest pair of sub-terms responsible for the difference between a and b"""
    while True:
        if a[0] != b[0] or _classpart(a) != _classpart(b) or len(a[2]) != len(b[2]):
            return a, b
        if a[0] in ('dict', 'set', 'frozenset', 'fdict', 'fms'):
            ka = collections.Counter(json.dumps(x) for x in a[2])
            kb = collections.Counter(json.dumps(x) for x in b[2])
            da, db = list((ka - kb).keys()), list((kb - ka).keys())
            if len(da) != 1 or len(db) != 1:
                return a, b
            a, b = json.loads(da[0]), json.loads(db[0])
            continue
        diff = [i for i in range(len(a[2])) if a[2][i] != b[2][i]]
        if len(diff) != 1:
            return a, b
        a, b = a[2][diff[0]], b[2][diff[0]]


def _pyequal_scalar(a, b):
    if a[0] == 'npscalar':
        a = [a[1][1], [a[1][2]], []]
    if b[0] == 'npscalar':
        b = [b[1][1], [b[1][2]], []]
    ka, kb = (a[0], a[1][0] if a[1] else ''), (b[0], b[1][0] if b[1] else '')
    return ka in PYEQ and kb in PYEQ and PYEQ[ka] == PYEQ[kb] and ka != kb


def _pyequal(a, b):
    if _pyequal_scalar(a, b):
        return True
    return a[0] == b[0] == 'tuple' and len(a[2]) == len(b[2]) and a != b and all(x == y or _pyequal(x, y) for x, y in zip(a[2], b[2]))


def key_injective(a, b, classtab):
    a, b = descend(a, b)
    ca, cb = _classpart(a), _classpart(b)
    na = classtab[ca]['name'] if ca in classtab else None
    nb = classtab[cb]['name'] if cb in classtab else None
    builtin_name = {'tuple': 'tuple', 'list': 'list', 'dict': 'dict', 'set': 'set', 'frozenset': 'frozenset', 'str': 'str', 'bytes': 'bytes', 'method': 'method'}
    if a[0] in ('type', 'nt', 'dc') and b[0] == a[0] and ca != cb and na == nb:
        return 'hash:type-tag-name-only'
    if a[0] in ('nt', 'dc') and builtin_name.get(b[0]) == na or b[0] in ('nt', 'dc') and builtin_name.get(a[0]) == nb:
        return 'hash:type-tag-name-only'
    if a[0] == b[0] == 'inst' and ca == cb and any(_pyequal(x, y) for x, y in zip(a[2], b[2])):
        return 'intern:{}:pyeq-key'.format(classtab[ca]['base'])
    return 'hash:collision:' + '~'.join(sorted([a[0], b[0]]))


def _route(t):
    if t[0] in ('ndarray', 'arraydata'):
        return t[1][2]
    if t[0] in ('inst', 'call'):
        return t[1][1]
    if t[0] == 'npscalar':
        return t[1][0]
    if t[0] in ('dict', 'set', 'frozenset', 'fdict', 'fms'):
        return 'order'
    return t[0]


def key_stable(a, b):
    a, b = descend(a, b)
    if a[0] != b[0]:
        return 'hash:unstable:' + '~'.join(sorted([a[0], b[0]]))
    return 'hash:unstable:{}:{}'.format(a[0], '~'.join(sorted({_route(a), _route(b)})))


def short(t, n=160):
    s = json.dumps(t, separators=(',', ':'))
    return s if len(s) <= n else s[:n] + '...'


# ---------------------------------------------------------------------------
# 1. design level

def design_jobs(tier, seed):
    lvl = '' if tier == 'quick' else '2'
    nworkers = max(2, (os.cpu_count() or 4) // 4)
    jobs = {
        'code': dict(module='MCHash', cfg='MCHash_code{}.cfg'.format(lvl), tag='c17-hash-code', deadlock=False, workers=nworkers, extra=['-continue'], timeout=3000, heap='6g'),
        'fixed': dict(module='MCHash', cfg='MCHash_fixed{}.cfg'.format(lvl), tag='c17-hash-fixed', coverage=True, deadlock=False, workers=nworkers, timeout=3000, heap='6g'),
        'intern_scalar': dict(module='MCIntern', cfg='MCIntern_scalar.cfg' if tier == 'quick' else 'MCIntern_scalar_full.cfg', tag='c17-intern-scalar', coverage=True, deadlock=False, workers=nworkers, timeout=1200),
        'intern_array': dict(module='MCIntern', cfg='MCIntern_array.cfg' if tier == 'quick' else 'MCIntern_array_full.cfg', tag='c17-intern-array', deadlock=False, workers=nworkers, timeout=1200),
        'intern_pyeq': dict(module='MCIntern', cfg='MCIntern_scalar_pyeq.cfg', tag='c17-intern-pyeq', deadlock=False, workers=1, timeout=600),
        # design mutant: data that the canonical dtype cannot represent is cast silently instead of refused
        'intern_lossy': dict(module='MCIntern', cfg='MCIntern_array_lossy.cfg', tag='c17-intern-lossy', deadlock=False, workers=1, timeout=600),
    }
    if tier != 'quick':
        # random deeper histories (8 operations)
        jobs['intern_scalar_sim'] = dict(module='MCIntern', cfg='MCIntern_scalar_sim.cfg', tag='c17-intern-scalar-sim', deadlock=False, workers=nworkers, simulate=dict(num=15000), depth=9, seed=seed, timeout=1200)
        jobs['intern_array_sim'] = dict(module='MCIntern', cfg='MCIntern_array_sim.cfg', tag='c17-intern-array-sim', deadlock=False, workers=nworkers, simulate=dict(num=8000), depth=9, seed=seed, timeout=1200)
    return jobs


def start_design(tier, seed):
    """all design-level TLC runs start at once (each is a JVM subprocess); returns name -> future"""
    jobs = design_jobs(tier, seed)
    ex = concurrent.futures.ThreadPoolExecutor(max_workers=len(jobs))

    def go(name):
        kw = dict(jobs[name])
        return tlc.run(kw.pop('module'), kw.pop('cfg'), **kw)

    return ex, {name: ex.submit(go, name) for name in jobs}


def finish_design(rep, res, tier):
    for name in ('fixed', 'code', 'intern_scalar', 'intern_array'):
        rep.add_tlc(res[name], exhaustive=True)
    rep.add_tlc(res['intern_pyeq'])
    rep.add_tlc(res['intern_lossy'])
    if res['intern_lossy'].violated != 'ExactArgs':
        raise RuntimeError('spec mutant Intern/Lossy=wrap should violate ExactArgs, got {!r}'.format(res['intern_lossy'].violated))
    for name in ('intern_scalar_sim', 'intern_array_sim'):
        if name in res:
            rep.add_tlc(res[name], exhaustive=None)
    # the repaired design and the exact-key intern tables must satisfy every invariant
    for name in ('fixed', 'intern_scalar', 'intern_array', 'intern_scalar_sim', 'intern_array_sim'):
        if name in res and res[name].violated:
            raise RuntimeError('design spec run {!r} violates {} (the model or the universe is wrong)'.format(name, res[name].violated))
    # vacuity guard: every action of Hash and of Intern was taken
    zero = [a for a, n in rep.actions.items() if n == 0]
    if zero:
        raise RuntimeError('vacuity: actions never taken: {}'.format(zero))
    need = {'AScalar', 'ANumpyScalar', 'AClass', 'ATupleOf', 'ADictOf', 'ASetOf', 'ANamedTupleOf', 'ADataclassOf', 'ANdArray', 'AArrayData', 'AInstance',
            'AFrozenDictOf', 'AFrozenMultisetOf', 'AHashableFunctionOf', 'ABoundMethod', 'ABuffer', 'ACachedCall',
            'ATuple', 'ATupleL', 'ATupleR', 'AList', 'ADictVal', 'ANamedTuple', 'ADictKey', 'ASet', 'AFrozenSet', 'AFrozenDict', 'AFrozenMultiset',
            'AImmutableArg', 'ADataClassArg', 'AHashableFunction', 'Construct', 'Load', 'Drop', 'Dump'}
    missing = need - set(rep.actions)
    if missing:
        raise RuntimeError('vacuity: no coverage reported for actions {}'.format(sorted(missing)))
    # spec mutant that is the code as written: python-equality keys must break ExactArgs
    if res['intern_pyeq'].violated != 'ExactArgs':
        raise RuntimeError('spec mutant Intern/KeyMode=pyeq should violate ExactArgs, got {!r}'.format(res['intern_pyeq'].violated))
    rep.constants['Hash'] = dict(Level=1 if tier == 'quick' else 2, TagMode=['qualified', 'name'])
    rep.constants['Intern'] = dict(MaxOps='4 exhaustive' if tier == 'quick' else '4 exhaustive (all calls) + 8 simulated', MaxPickles=1, KeyMode=['exact', 'pyeq'])


def split_emitted(res):
    classtab, values, predicted = None, [], []
    for e in res.emitted:
        if e['inv'] == 'classtab':
            classtab = e['tab']
        elif e['inv'] == 'value':
            values.append(e['t'])
        else:
            predicted.append(e)
    seen = set()
    uniq = []
    for t in values:
        s = json.dumps(t)
        if s not in seen:
            seen.add(s)
            uniq.append(t)
    uniq.sort(key=json.dumps)
    return classtab, uniq, predicted


# ---------------------------------------------------------------------------
# 2. T / S->C: the table of real digests

def _hash_or_error(v):
    return V.nutils_digest(v)


def _has_nonnative(t):
    native = '<' if sys.byteorder == 'little' else '>'
    if t[0] == 'ndarray' and t[1][0][0] in '<>' and t[1][0][0] != native:
        return True
    return any(_has_nonnative(k) for k in t[2])


def real_table(rep, classtab, terms, tier, rng):
    reg = V.Registry(classtab)
    # random nestings of the same grammar (seed dependent), judged by TLC like the emitted universe
    known = {json.dumps(t) for t in terms}
    extra = [t for t in V.random_terms(rng, 400 if tier == 'quick' else 2000, reg) if json.dumps(t) not in known]
    terms = terms + extra
    rep.extra['random_terms'] = len(extra)
    n = len(terms)
    cols = {c: [None] * n for c in COLS}
    blobs = [None] * n
    for i, t in enumerate(terms):
        try:
            v = reg.build(t)
        except V.Mismatch as e:
            # S->C: the construction route does not produce the value the model describes
            rep.violation('materialise:{}:{}'.format(e.kind, e.route), 'construction route yields another value than the model: ' + str(e), dict(term=t, detail=e.detail))
            continue
        except (V.Unsupported, AssertionError):
            raise
        except Exception as e:
            rep.violation('materialise:{}:{}'.format(t[0], type(e).__name__), 'constructing {} raised {!r}'.format(short(t), e), dict(term=t))
            continue
        cols['main'][i] = _hash_or_error(v)
        try:
            blobs[i] = pickle.dumps(v)
        except Exception:
            blobs[i] = None          # not picklable (local function, two classes under one name, ...): column not available
        if blobs[i] is not None and _has_nonnative(t):
            # numpy's own pickling converts non-native byte order: the round trip yields another value
            rep.skip('numpy pickle changes the dtype of a non-native ndarray')
            blobs[i] = None
        if blobs[i] is not None:
            try:
                w = pickle.loads(blobs[i])
                cols['pickle'][i] = _hash_or_error(w)
                del w
            except Exception as e:
                cols['pickle'][i] = 'raise:' + type(e).__name__
        del v
        v2 = reg.build(t)
        cols['rebuilt'][i] = _hash_or_error(v2)
        del v2
    # real nutils objects
    try:
        corpus = V.real_corpus(tier)
    except Exception as e:
        import traceback
        rep.violation('real-corpus:raises:' + type(e).__name__, 'building ordinary nutils objects (meshes, samples, integrals, systems) raised ' + repr(e), dict(trace=traceback.format_exc()[-2000:]))
        corpus = []
    classes = {}
    rterms, rlabels = [], []
    rcols = {c: [] for c in COLS}
    rblobs = []
    for label, obj in corpus:
        try:
            t = V.export(obj, classes)
        except V.Unsupported as e:
            rep.skip('real object outside the vocabulary: ' + str(e))
            t = None
        rterms.append(t)
        rlabels.append(label)
        rcols['main'].append(_hash_or_error(obj))
        try:
            b = pickle.dumps(obj)
        except Exception:
            b = None
        rblobs.append(b)
        if b is not None:
            try:
                rcols['pickle'].append(_hash_or_error(pickle.loads(b)))
            except Exception as e:
                rcols['pickle'].append('raise:' + type(e).__name__)
        else:
            rcols['pickle'].append(None)
    corpus2 = V.real_corpus(tier) if corpus else []
    assert [l for l, _ in corpus2] == rlabels
    rcols['rebuilt'] = [_hash_or_error(o) for _, o in corpus2]
    del corpus2
    # other interpreters, other hash seeds
    os.makedirs(WORKROOT, exist_ok=True)
    ppath = os.path.join(WORKROOT, 'pickles.bin')
    with open(ppath, 'wb') as f:
        pickle.dump(blobs + rblobs, f)
    job = os.path.join(WORKROOT, 'job.json')
    with open(job, 'w') as f:
        json.dump(dict(classtab=classtab, terms=terms, tier=tier, pickles=ppath), f)
    seeds = ['1', '4242', str(rng.randrange(5, 2**31))]
    procs = []
    for k, seed in enumerate(seeds):
        env = dict(os.environ, PYTHONHASHSEED=seed)
        out = os.path.join(WORKROOT, 'worker{}.json'.format(k))
        procs.append((out, subprocess.Popen([sys.executable, '-B', '-m', 'vf.props.c17_values', job, out], env=env, stdout=subprocess.PIPE, stderr=subprocess.STDOUT, text=True)))
    for k, (out, p) in enumerate(procs):
        stdout, _ = p.communicate(timeout=1800)
        if p.returncode != 0:
            raise RuntimeError('hash worker failed:\n' + stdout[-3000:])
        with open(out) as f:
            r = json.load(f)
        assert r['seed'] == seeds[k]
        name = ['seedA', 'seedB', 'seedC'][k]
        cols[name] = r['terms']
        if isinstance(r['real'], str) or len(r['real']) != len(rlabels):
            if corpus:
                rep.violation('real-corpus:raises:other-process', 'building ordinary nutils objects failed in another interpreter (PYTHONHASHSEED={}): {}'.format(seeds[k], r['real'] if isinstance(r['real'], str) else 'different corpus'), dict(seed=seeds[k]))
            r['real'] = [None] * len(rlabels)
            r['unpickled'] = r['unpickled'][:n] + [None] * len(rlabels)
        rcols[name] = r['real']
        if k == 0:
            cols['xpickle'] = r['unpickled'][:n]
            rcols['xpickle'] = r['unpickled'][n:]
    rep.extra['hash_seeds'] = [os.environ.get('PYTHONHASHSEED')] + seeds
    # rows; digest -> small integer
    ids = {}

    def did(h):
        if h is None or h.startswith('raise:') or h.startswith('notbytes:'):
            return 0
        return ids.setdefault(h, len(ids) + 1)

    rows, origin = [], []
    for i, t in enumerate(terms):
        rows.append(dict(t=t, h=[did(cols[c][i]) for c in COLS]))
        origin.append(('model', i))
    for i, t in enumerate(rterms):
        if t is None:
            continue
        rows.append(dict(t=t, h=[did(rcols[c][i]) for c in COLS]))
        origin.append(('real', i))
    # exceptions of nutils_hash on supported values are violations
    for i, t in enumerate(terms):
        for c in COLS:
            h = cols[c][i]
            if h is not None and (h.startswith('raise:') or h.startswith('notbytes:')):
                rep.violation('hash:{}:{}'.format(h.split(':')[0] + 's', t[0]), 'nutils_hash({}) {} (column {})'.format(short(t), h, c), dict(term=t, column=c, result=h))
    for i, l in enumerate(rlabels):
        for c in COLS:
            h = rcols[c][i]
            if h is not None and (h.startswith('raise:') or h.startswith('notbytes:')):
                rep.violation('hash:raises:real:' + c, 'nutils_hash of real object {} {} (column {})'.format(l, h, c), dict(label=l, column=c, result=h))
    table = dict(classes=classes, ncols=len(COLS), rows=rows)
    tpath = os.path.join(WORKROOT, 'table.json')
    with open(tpath, 'w') as f:
        json.dump(table, f)
    rep.extra['table_rows'] = dict(model_values=len(terms), real_objects=len([t for t in rterms if t is not None]), real_classes=len(classes), distinct_digests=len(ids))
    return tpath, rows, origin, rlabels, classes, terms


def judge_table(rep, res, rows, origin, rlabels, classtab, classes, predicted):
    rep.add_tlc(res, exhaustive=True)
    alltab = dict(classtab)
    alltab.update(classes)

    def describe(i):
        kind, k = origin[i - 1]
        return short(rows[i - 1]['t']) if kind == 'model' else 'real:' + rlabels[k]

    real_inj = set()
    mismatch = 0
    grey = []
    fnd = Findings()
    for e in res.emitted:
        i = e['i']
        ti = rows[i - 1]['t']
        if e['inv'] == 'RealInjective':
            for j in e['js']:
                tj = rows[j - 1]['t']
                real_inj.add((json.dumps(ti), json.dumps(tj)))
                real_inj.add((json.dumps(tj), json.dumps(ti)))
                key = key_injective(ti, tj, alltab)
                fnd.add(key, len(json.dumps(ti)) + len(json.dumps(tj)), 'two values that can behave differently share a nutils hash: {}  vs  {}'.format(describe(i), describe(j)), dict(a=ti, b=tj, clause='RealInjective'))
        elif e['inv'] == 'RealStable':
            for j in e['js']:
                tj = rows[j - 1]['t']
                key = key_stable(ti, tj)
                fnd.add(key, len(json.dumps(ti)) + len(json.dumps(tj)), 'the same value built by two routes has two nutils hashes: {}  vs  {}'.format(describe(i), describe(j)), dict(a=ti, b=tj, clause='RealStable'))
        elif e['inv'] == 'RealRoutes':
            for c in e['js']:
                kind = ti[0] if origin[i - 1][0] == 'model' else 'real'
                fnd.add('hash:unstable:{}:{}'.format(kind, COLS[c - 1].rstrip('ABC')), len(json.dumps(ti)), 'nutils hash of {} differs in column {} ({})'.format(describe(i), COLS[c - 1], 'other interpreter / hash seed' if COLS[c - 1].startswith('seed') else COLS[c - 1]), dict(term=ti, column=COLS[c - 1]))
        elif e['inv'] == 'ModelMatch':
            mismatch += len(e['js'])
            if mismatch <= 3 * len(e['js']):
                rep.notes.append('ModelMatch: real digests and Enc disagree on equality of {} vs {}'.format(describe(i), describe(e['js'][0])))
        elif e['inv'] == 'RealGrey':
            for j in e['js']:
                grey.append((describe(i), describe(j)))
    fnd.flush(rep)
    rep.extra['model_code_pattern_mismatches'] = mismatch
    rep.extra['out_of_domain_collisions_observed'] = grey[:10]
    if grey:
        rep.notes.append('observed, not judged (outside the property\'s value domain): {} colliding pairs involving mutable buffers or hashable_function-vs-its-tuple, e.g. {}'.format(len(grey), grey[0]))
    # model-level predictions (TagMode = "name") that the code does not exhibit: stale model, not a defect
    stale = 0
    for e in predicted:
        if e['inv'] != 'Injective':
            continue
        for o in e['others']:
            if (json.dumps(e['t']), json.dumps(o)) not in real_inj:
                stale += 1
    rep.extra['model_predicted_collisions'] = sum(len(e['others']) for e in predicted if e['inv'] == 'Injective') // 2
    rep.extra['model_predicted_collisions_not_in_code'] = stale // 2
    if stale:
        rep.notes.append('{} collisions predicted by Hash.tla (TagMode="name") are not exhibited by the code: the model of the type tag is stale'.format(stale // 2))
    for e in predicted:
        if e['inv'] == 'Stable':
            raise RuntimeError('Hash.tla: Enc is not stable on the universe (model error): ' + short(e['t']))
    return res


# ---------------------------------------------------------------------------
# 3. S->C: intern histories

SCALARS = {'int:1': 1, 'bool:True': True, 'float:1.0': 1.0, 'int:2': 2, 'tuple:(1,)': (1,), 'tuple:(True,)': (True,)}


def _typed(x):
    if isinstance(x, tuple):
        return 'tuple:(' + ''.join(repr(y) + ',' for y in x) + ')'
    return type(x).__name__ + ':' + repr(x)


class ScalarTarget:
    def __init__(self, base):
        from nutils import types
        self.base = base
        if base == 'Singleton':
            def __init__(self, a, b=2):
                self.a = a
                self.b = b
            self.cls = types.SingletonMeta('VfS', (types.Singleton,), dict(__init__=__init__, __module__='vfintern', __qualname__='VfS'))
            self.cache = self.cls._cache
        else:
            self.cls = types.DataClassMeta('VfD', (types.DataClass,), dict(__annotations__=dict(a=object, b=object), b=2, __module__='vfintern', __qualname__='VfD'))
            self.cache = getattr(self.cls, '_DataClassMeta__cache')
        import types as pytypes
        m = sys.modules.setdefault('vfintern', pytypes.ModuleType('vfintern'))
        setattr(m, self.cls.__qualname__, self.cls)

    def call(self, a):
        val, route = a.split('/')
        v = SCALARS[val]
        if route == 'pos':
            return self.cls(v, 2)
        if route == 'kw':
            return self.cls(b=2, a=v)
        if route == 'default':
            return self.cls(v)
        raise ValueError(route)

    def carried(self, o):
        assert type(o.b) is int and o.b == 2
        return _typed(o.a)

    def fresh(self, canon):
        return self.cls(SCALARS[canon], 2)


class ArrayTarget:
    base = 'arraydata'

    def __init__(self):
        from nutils import types
        self.cls = types.arraydata
        self.cache = types.arraydata._cache

    def call(self, a):
        import numpy
        from nutils import types
        src, vals = a.split(':')
        if vals == 'big':        # uint64 values that int64 cannot represent
            return types.arraydata(numpy.array([2**64 - 1, 2**63], dtype='<u8'))
        if vals == 'third':      # long double precision that float64 cannot represent
            return types.arraydata(numpy.array([1, 0], dtype=numpy.longdouble) / numpy.longdouble(3))
        data = [int(x) for x in vals.split(',')]
        dt = dict(i64='<i8', i32='<i4', u8='|u1', bool=bool, f64='<f8', f32='<f4', u64='<u8')
        if src == 'list':
            return types.arraydata(data)
        if src == 'wrap':
            return types.arraydata(types.arraydata(numpy.array(data)))
        return types.arraydata(numpy.array(data, dtype=dt[src]))

    def carried(self, o):
        import numpy
        return o.dtype.__name__ + ':' + ','.join(str(int(x)) for x in numpy.asarray(o).ravel())

    def fresh(self, canon):
        import numpy
        knd, vals = canon.split(':')
        return self.cls(numpy.array([int(x) for x in vals.split(',')], dtype=dict(int=int, bool=bool, float=float)[knd]))


def replay_intern(rep, target, behaviours):
    """step the real class through every behaviour; returns number replayed"""
    from nutils import types
    # reference hashes: each canonical argument tuple constructed alone in an empty table
    ref = {}
    wants = sorted({s['want'] for b in behaviours for s in b['hist'] if s['want'] and s['want'] != 'REJECT'})
    for c in wants:
        gc.collect()
        o = target.fresh(c)
        assert target.carried(o) == c, (target.carried(o), c)
        ref[c] = types.nutils_hash(o)
        del o
    gc.collect()
    base0 = len(target.cache)
    nrep = 0
    fnd = Findings()
    for b in behaviours:
        handles, numbers, blobs = [], {}, []
        nextnum = 1
        obs = []
        bad = None
        for si, s in enumerate(b['hist']):
            op = s['op']
            if op == 'refuse':
                # the model: no object can carry this data exactly, the constructor must raise
                try:
                    o = target.call(s['a'])
                except (ValueError, TypeError, OverflowError):
                    got = dict(obj=0, args='')
                else:
                    bad = (si, 'lossy-accepted: {} was accepted and carries {}'.format(s['a'], target.carried(o)))
                    del o
                    break
            elif op in ('new', 'load'):
                try:
                    o = target.call(s['a']) if op == 'new' else pickle.loads(blobs[0])
                except Exception as e:
                    bad = (si, 'raised ' + repr(e))
                    break
                live = {id(h): num for h, num in zip(handles, [numbers.get(id(h)) for h in handles]) if h is not None}
                if id(o) in live:
                    num = live[id(o)]
                else:
                    num = nextnum
                    nextnum += 1
                numbers[id(o)] = num
                handles.append(o)
                got = dict(obj=num, args=target.carried(o), hash_ok=types.nutils_hash(o) == ref[s['want']])
                del o
            elif op == 'drop':
                h = handles[s['k'] - 1]
                handles[s['k'] - 1] = None
                got = dict(obj=numbers[id(h)], args='')
                del h
            elif op == 'dump':
                blobs.append(pickle.dumps(handles[s['k'] - 1]))
                got = dict(obj=numbers[id(handles[s['k'] - 1])], args=target.carried(handles[s['k'] - 1]))
            got['nlive'] = len(target.cache) - base0
            obs.append(got)
            want = dict(obj=s['obj'], args=s['args'], nlive=s['nlive'])
            if op in ('new', 'load'):
                want['hash_ok'] = True
            if got != want and bad is None:
                bad = (si, 'model predicts {} but the code gives {}'.format(want, got))
        nrep += 1
        ops = tuple((s['op'], s['a'], s['k']) for s in b['hist'])
        rep.case(('intern', target.base, ops), nontrivial=sum(1 for s in b['hist'] if s['op'] != 'new') >= 1 and len(b['hist']) >= 3)
        if bad is not None:
            si, why = bad
            # name the root cause with the model's shadow table: does the code follow the python-equality-key table?
            follows = len(obs) == len(b['hist']) and all(o['obj'] == s['objP'] and o['args'] == s['argsP'] and o['nlive'] == s['nliveP'] for o, s in zip(obs, b['hist']))
            key = 'intern:{}:pyeq-key'.format(target.base) if follows else 'intern:{}:{}-mismatch'.format(target.base, b['hist'][si]['op'])
            prefix = [(s['op'], s['a'] or s['k']) for s in b['hist'][:si + 1]]
            fnd.add(key, si, 'interned {}: after {} {}'.format(target.base, prefix, why) + (' -- the code behaves like Intern with KeyMode="pyeq" (weak table keyed by python ==)' if follows else ''),
                          dict(base=target.base, history=b['hist'][:si + 1], observed=obs[:si + 1], full=None if follows else dict(hist=b['hist'], observed=obs)))
        handles.clear()
        numbers.clear()
        if len(target.cache) != base0:
            gc.collect()
            if len(target.cache) != base0:
                rep.violation('intern:{}:entry-outlives-object'.format(target.base), 'weak table not empty after all references were dropped', dict(base=target.base, history=b['hist']))
                base0 = len(target.cache)
    fnd.flush(rep)
    return nrep


def intern_conformance(rep, res):
    behaviours = {'scalar': [], 'array': []}
    for name in ('intern_scalar', 'intern_scalar_sim', 'intern_array', 'intern_array_sim'):
        if name in res:
            seen = set()
            for e in res[name].emitted:
                sig = tuple((s['op'], s['a'], s['k']) for s in e['hist'])
                if sig not in seen:
                    seen.add(sig)
                    behaviours[e['label']].append(e)
    if not behaviours['scalar'] or not behaviours['array']:
        raise RuntimeError('Intern emitted no behaviours')
    n = 0
    n += replay_intern(rep, ScalarTarget('Singleton'), behaviours['scalar'])
    n += replay_intern(rep, ScalarTarget('DataClass'), behaviours['scalar'])
    n += replay_intern(rep, ArrayTarget(), behaviours['array'])
    rep.traces += n
    rep.extra['intern_behaviours_replayed'] = n
    b = behaviours['scalar'][len(behaviours['scalar']) // 2]
    rep.sample(dict(kind='Intern behaviour', hist=[(s['op'], s['a'] or s['k'], 'obj%d' % s['obj'], s['args']) for s in b['hist']]))


# ---------------------------------------------------------------------------

def run(rep):
    tier = rep.tier
    rng = random.Random(rep.seed)
    shutil.rmtree(WORKROOT, ignore_errors=True)
    os.makedirs(WORKROOT)
    os.environ['VF_C17_TMP'] = WORKROOT      # cache directories of the memoised calls (inherited by the workers)
    ex, fut = start_design(tier, rep.seed)
    try:
        res = {'code': fut['code'].result()}
        classtab, terms, predicted = split_emitted(res['code'])
        if not classtab or len(terms) < 500:
            raise RuntimeError('Hash emitted no universe')
        tpath, rows, origin, rlabels, classes, terms = real_table(rep, classtab, terms, tier, rng)
        tfut = ex.submit(tlc.run, 'HashTable', 'HashTable.cfg', tag='c17-table', env=dict(VF_TABLE=tpath), deadlock=False, extra=['-continue'], timeout=2400, heap='6g',
                         workers=max(2, (os.cpu_count() or 4) // 2))
        for name in fut:
            if name.startswith('intern'):
                res[name] = fut[name].result()
        intern_conformance(rep, res)
        res['fixed'] = fut['fixed'].result()
        finish_design(rep, res, tier)
        judge_table(rep, tfut.result(), rows, origin, rlabels, classtab, classes, predicted)
    finally:
        ex.shutdown(wait=True)
    rep.traces += len(rows)
    for r, (kind, k) in zip(rows, origin):
        t = r['t']
        rep.case((kind, json.dumps(t) if kind == 'model' else rlabels[k]), nontrivial=bool(t[2]))
    for t in terms[::max(1, len(terms) // 4)][:3]:
        rep.sample(dict(kind='value', term=t))
    rep.rule = ('cases = distinct values (model universe materialised in python + exported real nutils objects) whose term has at least one child, '
                'each compared with every other value by TLC, + distinct Intern behaviours with at least one non-constructor step')
    rep.assumptions += [
        'SHA-1 is modelled as an injective constructor (collisions of the digest itself are out of scope)',
        'sorted(..) of two or more fixed-width chunks is modelled as an opaque multiset token',
        'numpy scalars are identified with the python scalar of the same value (documented intent of nutils_hash)',
        'mutable buffers and the pair hashable_function / tuple (\'hashable_function\', id) are outside the property\'s value domain: collisions there are reported as notes',
        'topologies and function.Array objects are not hashable by nutils_hash (TypeError) and therefore not supported values',
        'CPython reference counting: an object dies when its last handle is dropped',
    ]
    shutil.rmtree(WORKROOT, ignore_errors=True)
