\* thorough, exhaustive: every nesting of at most 3 operations on a reduced set of leaves
SPECIFICATION Spec
CONSTANTS
  Bases <- MCBases
  AtomDefs <- MCAtomDefs
  StartAtoms <- MCStartAtoms
  Operands <- MCOperands
  MaxOps = 3
  MaxPoints = 24
  MaxElems = 12
  TakeAll = FALSE
  Mutant = "none"
INVARIANT ContainerInv
INVARIANT LocatedInv
INVARIANT Sizes
INVARIANT IndexPartition
INVARIANT EvalOrder
INVARIANT EvIndexAgrees
INVARIANT Quadrature
INVARIANT OpLaw
INVARIANT EmitAll
CHECK_DEADLOCK FALSE
