SPECIFICATION Spec
CONSTANTS
  Procs = {p1, p2}
  PLen = 3
  MaxCrash = 2
  MaxCalls = 4
  CanRaise = TRUE
  DetPickle = TRUE
  InitFiles <- MCInitFiles
INVARIANT TypeOK
INVARIANT MutexCompute
INVARIANT LockHeld
INVARIANT Transparent
INVARIANT LoadableIsGenuine
INVARIANT RaiseOnlyFromFunc
PROPERTY Terminates
CHECK_DEADLOCK FALSE
