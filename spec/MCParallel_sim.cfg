\* simulation (-simulate, seeded): random schedules with up to two faults, also
\* SIGKILL inside critical sections; every complete behaviour is emitted with the
\* predicted shared state after each step for the replay into the real code.
\* Configurations: correct bodies and controls that are wrong on purpose (ids >= 40)
SPECIFICATION Spec
CONSTANTS
  MaxProcs = 3
  Configs <- ConfigsReplayAll
  MaxFaults = 2
  LockedClaim = TRUE
  CheckExit = TRUE
  KillChildren = TRUE
  KillInCS = TRUE
  Record = TRUE
  FaultPlans <- PlansSim
INVARIANT TypeOK
INVARIANT AtMostOnce
INVARIANT ExactlyOnceG
INVARIANT MutexRange
INVARIANT MutexArraysG
INVARIANT NoLostUpdateG
INVARIANT NoPartialResult
INVARIANT RaiseOnlyOnFault
INVARIANT NoOrphans
INVARIANT EmitBehaviours
CHECK_DEADLOCK FALSE
