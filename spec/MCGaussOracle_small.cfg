\* small configuration without emission, run with -coverage for the vacuity guard (thorough tier)
SPECIFICATION Spec
CONSTANTS
  RefTypes <- MCRefs1
  TrimRefs <- MCTrim2
  DegRef = 0
  DegRegion = 0
  DegRegion3 = 0
  InvDeg = 2
  TrimLevels <- MCLevels1
  MaxRefine <- MCRefine0
  GoMutant = "none"
INVARIANT RefVolume
INVARIANT ChildrenTile
INVARIANT TrimSplits
INVARIANT RegionInside
CHECK_DEADLOCK FALSE
