------------------------------- MODULE Intern -------------------------------
(***************************************************************************)
(* C17, interning: "values of interned types that are structurally equal   *)
(* are the same object for as long as either is alive", and what a         *)
(* constructor call returns (hence its nutils hash) does not depend on     *)
(* the allocation / garbage collection history.                            *)
(*                                                                         *)
(* Shaped like SingletonMeta._new (types.py 260-265) and                   *)
(* DataClassMeta.__call__ (types.py 309-317): one weak table per class,    *)
(*    Construct(a): canonicalise the call (positional / keyword / default  *)
(*                  routes, source dtype of array data) to the argument    *)
(*                  tuple c, look c up in the table under Key(c); on a hit *)
(*                  return the stored object, else allocate an object      *)
(*                  carrying c and store it;                               *)
(*    Drop(k):      the user drops handle k; CPython frees an object as    *)
(*                  soon as no handle refers to it and the weak table      *)
(*                  entry disappears with it;                              *)
(*    Dump(k):      pickle.dumps(handle k): (class, exact argument tuple); *)
(*    Load(j):      pickle.loads of pickle j: the same lookup as Construct.*)
(*                                                                         *)
(* Key is the model's parameter:                                           *)
(*    KeyMode = "exact": the table distinguishes argument tuples that      *)
(*                  differ in the TYPE of an element (1, True, 1.0): this  *)
(*                  is what the property demands and is the oracle of the  *)
(*                  S->C replay;                                           *)
(*    KeyMode = "pyeq":  the table is a python dict keyed by the tuple     *)
(*                  itself, i.e. by == / hash, under which 1 == True ==    *)
(*                  1.0.  TLC shows that ExactArgs then fails; the replay  *)
(*                  uses this variant only to NAME the root cause when the *)
(*                  code deviates from the oracle.                         *)
(*                                                                         *)
(* Objects are numbered in allocation order; hist records, for every step, *)
(* what the model predicts the python side observes: the object returned   *)
(* (obj), the arguments it carries (args) and the number of entries of the *)
(* weak table (nlive).                                                     *)
(***************************************************************************)
EXTENDS Naturals, Sequences, FiniteSets, TLC, Json

CONSTANTS Args,       \* constructor calls (strings "type:value/route")
          CanonOf,    \* call -> canonical typed argument tuple (string): what the object must carry
          PyOf,       \* canonical typed argument tuple -> its class under python == / hash
          KeyMode,    \* "exact" | "pyeq"
          MaxOps,     \* length of a behaviour
          MaxPickles,
          Label       \* name of the configuration (echoed in emitted behaviours)

VARIABLES heap,     \* object number -> canonical arguments it carries (live objects only)
          table,    \* key -> object number (weak: entries of dead objects are gone)
          handles,  \* the user's references: sequence of object numbers, 0 = dropped
          pickles,  \* sequence of canonical argument tuples
          nextid,
          hist

vars == <<heap, table, handles, pickles, nextid, hist>>

Key(c) == IF KeyMode = "exact" THEN c ELSE PyOf[c]
Live == DOMAIN heap
Referenced(hs) == {hs[k] : k \in DOMAIN hs} \ {0}
Restrict(f, D) == [x \in D |-> f[x]]

EmptyF == [x \in {} |-> 0]
Init == /\ heap = EmptyF /\ table = EmptyF /\ handles = <<>> /\ pickles = <<>>
        /\ nextid = 1 /\ hist = <<>>

\* the lookup shared by a constructor call and unpickling
Obtain(opname, a, c) ==
    LET key == Key(c)
        hit == key \in DOMAIN table
        obj == IF hit THEN table[key] ELSE nextid
        existing == {o \in Live : heap[o] = c}
    IN /\ Len(hist) < MaxOps
       /\ heap' = IF hit THEN heap ELSE heap @@ (nextid :> c)
       /\ table' = IF hit THEN table ELSE table @@ (key :> nextid)
       /\ nextid' = IF hit THEN nextid ELSE nextid + 1
       /\ handles' = Append(handles, obj)
       /\ hist' = Append(hist, [op |-> opname, a |-> a, k |-> Len(handles) + 1, obj |-> obj,
                                want |-> c, args |-> heap'[obj], nlive |-> Cardinality(DOMAIN table'),
                                existing |-> IF existing = {} THEN 0 ELSE CHOOSE o \in existing : TRUE])
       /\ UNCHANGED pickles

Construct(a) == a \in Args /\ Obtain("new", a, CanonOf[a])

Load(j) == /\ j \in DOMAIN pickles
           /\ Obtain("load", "", pickles[j])

Drop(k) == /\ Len(hist) < MaxOps
           /\ k \in DOMAIN handles /\ handles[k] # 0
           /\ handles' = [handles EXCEPT ![k] = 0]
           /\ LET keep == Live \cap Referenced(handles')
              IN /\ heap' = Restrict(heap, keep)
                 /\ table' = Restrict(table, {key \in DOMAIN table : table[key] \in keep})
           /\ hist' = Append(hist, [op |-> "drop", a |-> "", k |-> k, obj |-> handles[k], want |-> "", args |-> "",
                                    nlive |-> Cardinality(DOMAIN table'), existing |-> 0])
           /\ UNCHANGED <<pickles, nextid>>

Dump(k) == /\ Len(hist) < MaxOps
           /\ Len(pickles) < MaxPickles
           /\ k \in DOMAIN handles /\ handles[k] # 0
           /\ pickles' = Append(pickles, heap[handles[k]])
           /\ hist' = Append(hist, [op |-> "dump", a |-> "", k |-> k, obj |-> handles[k], want |-> "", args |-> heap[handles[k]],
                                    nlive |-> Cardinality(DOMAIN table), existing |-> 0])
           /\ UNCHANGED <<heap, table, handles, nextid>>

Next == \/ \E a \in Args : Construct(a)
        \/ \E j \in 1..MaxPickles : Load(j)
        \/ \E k \in 1..MaxOps : Drop(k)
        \/ \E k \in 1..MaxOps : Dump(k)

Spec == Init /\ [][Next]_vars

(* ------------------------------------------------------------------ properties *)
LastOp == hist[Len(hist)]
Obtained == hist # <<>> /\ LastOp.op \in {"new", "load"}

\* two live objects never carry the same argument tuple
UniqueLive == \A o1 \in Live, o2 \in Live : heap[o1] = heap[o2] => o1 = o2

\* the object handed out carries exactly the requested arguments (so its nutils hash,
\* a function of the arguments it carries, is independent of the history)
ExactArgs == Obtained => LastOp.args = LastOp.want

\* structurally equal to a live object => that very object; otherwise a fresh one
SameWhileAlive == Obtained => IF LastOp.existing # 0 THEN LastOp.obj = LastOp.existing
                                                      ELSE LastOp.obj = nextid - 1

\* the weak table holds exactly the live objects, each under its key
TableSound == /\ \A key \in DOMAIN table : table[key] \in Live /\ Key(heap[table[key]]) = key
              /\ \A o \in Live : Key(heap[o]) \in DOMAIN table
              /\ Live = Referenced(handles)

\* every behaviour of full length is handed to the harness with its predictions
EmitVF(x) == PrintT(<<"VF", ToJson(x)>>)
EmitBehaviour == Len(hist) < MaxOps \/ EmitVF([label |-> Label, mode |-> KeyMode, hist |-> hist])
=============================================================================
