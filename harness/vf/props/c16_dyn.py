"""C16, binding C->S: real multi-process executions of nutils (integrate, eval,
locate under parallel.maxprocs(n)) recorded as event traces.

Runs as a slim server process (python -m vf.props.c16_dyn) with
NUTILS_VERIF_TRACE pointing to its event file, so that the hook in
src/nutils/parallel.py (hooks/parallel_hook.patch) writes the protocol steps of
fork / range.  The server adds, to the same O_APPEND file,

* ``call`` / ``callend`` around every function that evaluable.compile generated
  (observation point nutils._util.function; the script text is kept for the
  export of the loop body, binding T),
* ``acq`` / ``rel`` of the ``lock<n>`` objects of the generated script (the
  script's ``multiprocessing`` global is a shim whose ``Lock()`` wraps the real
  lock; acq is written after the real acquire, rel before the real release),
* ``scenario`` / ``return`` / ``raise`` / ``hang`` markers.

Schedules are perturbed and faults injected by a ``function.Custom`` leaf in
the integrand / geometry that sleeps pseudo-randomly per element and raises or
SIGKILLs its own process at a chosen (element, parent-or-child).

Reads a JSON list of scenarios on stdin, writes the results as JSON to the file named by argv[1].
"""

import json
import os
import signal
import sys
import time

PLAN = dict(parent=0, sleep=[], fault=None, hits=0)
_state = dict(fd=None, nlocks=0, sid=0, scripts={}, depth=0)


def _emit(ev, **kw):
    rec = dict(ev=ev, pid=os.getpid())
    rec.update(kw)
    os.write(_state['fd'], (json.dumps(rec) + '\n').encode())


class Boom(RuntimeError):
    pass


def _probe_hit(ielem):
    """called by the probe leaf once per evaluation: perturbation and fault injection"""
    sl = PLAN['sleep']
    if sl:
        t = sl[ielem % len(sl)]
        if t:
            time.sleep(t)
    f = PLAN['fault']
    if f and f['elem'] == ielem:
        child = os.getpid() != PLAN['parent']
        if f['who'] == 'any' or (f['who'] == 'child') == child:
            if f['kind'] == 'raise':
                raise Boom('injected failure at element {}'.format(ielem))
            if f['kind'] == 'kill' and child:
                os.kill(os.getpid(), signal.SIGKILL)


class LogLock:
    def __init__(self, real, k):
        self.real, self.k = real, k

    def __enter__(self):
        self.real.acquire()
        _emit('acq', lock=self.k)
        return self

    def __exit__(self, *exc):
        _emit('rel', lock=self.k, exc=exc[0] is not None)
        self.real.release()
        return False

    def acquire(self, *a, **kw):
        r = self.real.acquire(*a, **kw)
        if r:
            _emit('acq', lock=self.k)
        return r

    def release(self):
        _emit('rel', lock=self.k, exc=False)
        self.real.release()


class LogMp:
    def __init__(self):
        import multiprocessing
        self._mp = multiprocessing

    def Lock(self):
        k = _state['nlocks']
        _state['nlocks'] = k + 1
        return LogLock(self._mp.Lock(), k)

    def __getattr__(self, name):
        return getattr(self._mp, name)


def install():
    """wrap nutils._util.function: keep the script, give it the logging multiprocessing shim"""
    from nutils import _util
    orig = _util.function
    if getattr(orig, '_vf', False):
        return

    def function(script, globals={}):
        g = dict(globals)
        if 'multiprocessing' in g:
            g['multiprocessing'] = LogMp()
        func = orig(script, g)
        _state['sid'] += 1
        sid = _state['sid']
        _state['scripts'][sid] = script

        def compiled(a):
            fr = func.__globals__.get('first_run')
            top = _state['depth'] == 0
            if top:
                _state['nlocks'] = 0
                _emit('call', sid=sid, branch='only' if fr is None else 'first' if fr else 'rerun')
            _state['depth'] += 1
            try:
                return func(a)
            finally:
                _state['depth'] -= 1
                if top:
                    _emit('callend', sid=sid)
        compiled.__nutils_hash__ = func.__nutils_hash__
        compiled.__wrapped__ = func
        return compiled
    function._vf = True
    _util.function = function


def make_probe():
    from nutils import function, types

    class Probe(function.Custom):
        """identity on `f` that reports the element index to the fault plan when evaluated"""

        def __init__(self, f, ielem):
            f = function.asarray(f)
            ielem = function.asarray(ielem)
            assert f.ndim <= 1 and ielem.ndim == 0
            super().__init__(args=(f, ielem), shape=f.shape, dtype=float)

        @types.hashable_function
        def evalf(f, ielem):
            _probe_hit(int(ielem.ravel()[0]))
            return f

        @types.hashable_function
        def partial_derivative(iarg, f, ielem):
            if iarg == 0:
                return function.ones(()) if f.ndim == 0 else function.eye(f.shape[0])
            raise NotImplementedError
    return Probe


class Hang(BaseException):
    pass


def _family_cpu():
    """(cpu ticks used by this process and its children, some process is runnable) from /proc"""
    me = os.getpid()
    ticks, running = 0, False
    for name in os.listdir('/proc'):
        if not name.isdigit():
            continue
        try:
            with open('/proc/{}/stat'.format(name)) as f:
                fields = f.read().rsplit(') ', 1)[1].split()
        except OSError:
            continue
        if int(name) == me or int(fields[1]) == me:
            ticks += int(fields[11]) + int(fields[12])
            if int(name) != me and fields[0] == 'R':
                running = True
    return ticks, running


_watch = dict(ticks=0, strikes=0, t0=0.0, limit=600.0)


def _alarm(signum, frame):
    # a deadlock is: nobody computes.  A slow machine is not a deadlock.
    ticks, running = _family_cpu()
    if running or ticks - _watch['ticks'] > 3:
        _watch['strikes'] = 0
    else:
        _watch['strikes'] += 1
    _watch['ticks'] = ticks
    if _watch['strikes'] >= 2 or time.time() - _watch['t0'] > _watch['limit']:
        raise Hang()


def _same(a, b, exact):
    import numpy
    from nutils import matrix
    if isinstance(a, (tuple, list)):
        return isinstance(b, (tuple, list)) and len(a) == len(b) and all(_same(x, y, exact) for x, y in zip(a, b))
    if isinstance(a, matrix.Matrix):
        return isinstance(b, matrix.Matrix) and _same(a.export('dense'), b.export('dense'), exact)
    a = numpy.asarray(a)
    b = numpy.asarray(b)
    if a.shape != b.shape or a.dtype != b.dtype:
        return False
    if exact or a.dtype.kind in 'biu':
        return bool((a == b).all())
    return bool(numpy.allclose(a, b, rtol=1e-10, atol=1e-12))


def build(kind, sc, Probe):
    """-> callable performing the nutils call of the scenario, exact?"""
    import numpy
    from nutils import mesh, function
    nel = sc['nelems']
    if kind in ('integrate', 'eval', 'evalint', 'integral'):
        domain, geom = mesh.rectilinear([numpy.linspace(0, 1, nel + 1), numpy.linspace(0, 1, 3)])
        basis = domain.basis('std', degree=1)
        x = Probe(geom[0], domain.f_index) if sc.get('probe', True) else geom[0]
        J = function.J(geom)
        if kind == 'integrate':
            # a vector, a matrix and a scalar in one call: several accumulators with their own locks
            return (lambda: domain.integrate([basis * x * J, basis[:, None] * basis[None, :] * (1 + x) * J, x * x * J], degree=2)), False
        if kind == 'integral':
            u = function.Argument('u', basis.shape)
            f = domain.integral((basis @ u) ** 2 * (1 + x) * J, degree=2)
            val = numpy.arange(len(basis), dtype=float) / 7
            return (lambda: [f.eval(arguments=dict(u=val)), f.derivative('u').eval(arguments=dict(u=val))]), False
        smp = domain.sample('gauss', 2)
        if kind == 'eval':
            return (lambda: smp.eval([x * geom[1], function.grad(basis, geom)[3] * x])), False
        # integer data: must be bit identical
        return (lambda: smp.eval([domain.f_index * 3 + 1, (domain.f_index % 2) * 7, x * 0 + 1])), True
    if kind == 'locate':
        domain, geom = mesh.rectilinear([numpy.linspace(0, 1, nel + 1), numpy.linspace(0, 2, 3)])
        g = Probe(geom, domain.f_index) if sc.get('probe', True) else geom
        g = g * [1.5, 1.] + [.25, 0.] + numpy.stack([g[1] * g[0], g[0] * 0.]) * .125   # mildly nonlinear map
        rs = numpy.random.RandomState(sc['seed'])
        pts = rs.uniform([0.05, 0.05], [0.95, 1.95], size=(sc['npoints'], 2))
        coords = numpy.stack([pts[:, 0] * 1.5 + .25 + pts[:, 0] * pts[:, 1] * .125, pts[:, 1]], axis=1)
        if sc.get('missing'):
            coords[sc['missing'] % len(coords)] = [9., 9.]

        def call():
            smp = domain.locate(g, coords, eps=1e-10, tol=1e-12, skip_missing=bool(sc.get('skip_missing')))
            return smp.eval([geom, domain.f_index])
        return call, False
    raise ValueError(kind)


def run_scenario(sc, Probe):
    import numpy
    import treelog
    from nutils import parallel
    res = dict(id=sc['id'])
    PLAN.update(parent=os.getpid(), sleep=[], fault=None)
    # reference: the single-process run
    call, exact = build(sc['kind'], sc, Probe)
    ref, ref_exc = None, None
    with parallel.maxprocs(1), treelog.set(treelog.NullLog()):
        try:
            ref = call()
        except Exception as e:
            ref_exc = type(e).__name__
    # the parallel run, freshly built (nothing compiled is shared with the reference)
    call, exact = build(sc['kind'], sc, Probe)
    PLAN.update(sleep=sc.get('sleep', []), fault=sc.get('fault'))
    _emit('scenario', sid=sc['id'])
    old = signal.signal(signal.SIGALRM, _alarm)
    _watch.update(ticks=_family_cpu()[0], strikes=0, t0=time.time())
    signal.setitimer(signal.ITIMER_REAL, sc.get('timeout', 10), sc.get('timeout', 10))
    val = None
    try:
        with parallel.maxprocs(sc['np']), treelog.set(treelog.NullLog()):
            val = call()
    except Hang:
        res['outcome'] = 'hang'
        _emit('hang')
    except BaseException as e:
        signal.setitimer(signal.ITIMER_REAL, 0)
        res['outcome'] = 'raised'
        res['exc'] = type(e).__name__
        res['msg'] = str(e)[:200]
        _emit('raise', exc=type(e).__name__)
    else:
        signal.setitimer(signal.ITIMER_REAL, 0)
        res['outcome'] = 'returned'
        ok = ref_exc is None and _same(ref, val, exact)
        res['ok'] = ok
        _emit('return', ok=ok)
    finally:
        signal.setitimer(signal.ITIMER_REAL, 0)
        signal.signal(signal.SIGALRM, old)
    PLAN.update(sleep=[], fault=None)
    res['ref_exc'] = ref_exc
    _emit('scenario_end', sid=sc['id'])
    # reap whatever the call left behind; the call is over, no worker may be running any more
    left = 0
    while True:
        try:
            pid, st = os.waitpid(-1, os.WNOHANG)
        except ChildProcessError:
            break
        if pid == 0:
            left += 1
            time.sleep(0.05)
            if left > 100:
                break
    if left > 100:
        for name in os.listdir('/proc'):
            if name.isdigit():
                try:
                    with open('/proc/{}/stat'.format(name)) as f:
                        ppid = int(f.read().rsplit(') ', 1)[1].split()[1])
                    if ppid == os.getpid():
                        os.kill(int(name), signal.SIGKILL)
                        os.waitpid(int(name), 0)
                except OSError:
                    pass
    res['left_running'] = left > 100
    return res


def main():
    path = os.environ['NUTILS_VERIF_TRACE']
    import multiprocessing
    import numpy
    import treelog
    from nutils import parallel, mesh, function, evaluable, topology, sample
    jobs = json.load(sys.stdin)
    os.dup2(os.open(os.devnull, os.O_WRONLY), 1)    # failing children print to stdout
    _state['fd'] = os.open(path, os.O_WRONLY | os.O_CREAT | os.O_APPEND, 0o644)
    install()
    Probe = make_probe()
    multiprocessing.Lock()
    out = dict(hook=getattr(parallel, '_verif', None) is not None, results=[])
    if not out['hook']:
        jobs = []       # the tree under test has no hook: nothing to record
    for sc in jobs:
        try:
            out['results'].append(run_scenario(sc, Probe))
        except Exception as e:
            import traceback
            out['results'].append(dict(id=sc['id'], harness_error=traceback.format_exc()))
    out['scripts'] = {str(k): v for k, v in _state['scripts'].items()}
    with open(sys.argv[1], 'w') as f:
        json.dump(out, f)


if __name__ == '__main__':
    main()
