\* binding T: the configurations are the loop bodies exported from the scripts that the
\* real evaluable.compile generated (JSON table in env VF_TABLE), 2 processes x 2 iterations,
\* no faults (the failure protocol does not depend on the loop body; see MCParallel_quick.cfg)
SPECIFICATION SpecT
CONSTANTS
  MaxProcs = 2
  Configs <- ConfigsTable
  MaxFaults = 0
  LockedClaim = TRUE
  CheckExit = TRUE
  KillChildren = TRUE
  KillInCS = FALSE
  Record = FALSE
  FaultPlans <- PlansAny
INVARIANT TypeOK
INVARIANT AtMostOnce
INVARIANT ExactlyOnce
INVARIANT MutexRange
INVARIANT MutexArrays
INVARIANT NoLostUpdate
INVARIANT NoPartialResult
INVARIANT RaiseOnlyOnFault
INVARIANT NoOrphans
CHECK_DEADLOCK TRUE
