------------------------------- MODULE Solver -------------------------------
(***************************************************************************)
(* Design specification of the solve protocol of nutils (property C14):    *)
(*   System.solve            src/nutils/solver.py:442-501                  *)
(*   Direct / Newton / ReuseNewton / LinesearchNewton / Arnoldi            *)
(*                           src/nutils/solver.py:615-892                  *)
(*   Matrix.solve -> Matrix._solver, solve_leniently                       *)
(*                           src/nutils/matrix/_base.py:100-224            *)
(*                                                                         *)
(* One action per step of the code.  All floating point data is reduced   *)
(* to what the code branches on: the residual norm that an assembly        *)
(* produces is drawn by an oracle from Vals (a few exact magnitudes plus   *)
(* NaN and Inf), the result of the backend's linear solver routine is      *)
(* drawn from {exact, noprogress, nonfinite, error}, the verdict of the    *)
(* line search strategy from {reject, accept}.  Comparisons have IEEE      *)
(* semantics: every ordered comparison with NaN is FALSE.                  *)
(*                                                                         *)
(* Every call carries the flag conf.rep.  rep = FALSE is the model of the   *)
(* code as written; rep = TRUE is the design that the property demands     *)
(* (NaN-safe guards, non-finite right hand sides rejected, exhausted       *)
(* method iterator reported as SolverError).  Certified and NoSilent are   *)
(* invariants of the demanded design; on the as-written variant TLC        *)
(* exhibits the violations (CertifiedAsWritten / NoSilentAsWritten fail,   *)
(* see Solver_mutant.cfg), and the harness replays every as-written        *)
(* behaviour (with the model's predictions) on the real System.solve /     *)
(* method classes / Matrix._solver.                                        *)
(*                                                                         *)
(* Units: the nonlinear tolerance is Tol (1) or 0 ("not requested"); an    *)
(* absolute linear tolerance (LMode "abs") is LTol = 1, a relative one     *)
(* (LMode "rel") is some 0 < rtol < 1.                                     *)
(***************************************************************************)
EXTENDS Integers, Sequences, FiniteSets, TLC, Json

CONSTANTS Methods,    \* subset of {"direct","newton","reuse","linesearch","arnoldi"}
          Vals,       \* residual norms the oracle may produce (subset of {0,1,2,4,Inf,NaN})
          Tols,       \* subset of {0, 1}
          MinIters,   \* set of miniter values
          MaxIters,   \* set of maxiter values; NoMax stands for None
          LModes,     \* subset of {"none","abs","rel"}: tolerance handed to the linear solver
          MaxDraw,    \* bound on the number of oracle draws of one behaviour
          Variants,   \* subset of BOOLEAN, values of conf.rep (FALSE: code as written; TRUE: design demanded by the property)
          Emitting    \* TRUE: print every complete behaviour for the S->C replay

VARIABLES conf,      \* [m, tol, miniter, maxiter, lmode, rep] the call
          pc,        \* control location
          iiter,     \* System.solve: iteration counter
          resnorm,   \* System.solve: residual norm last reported by the method
          yres,      \* true residual norm at the arguments last handed to System.solve
          g,         \* method state: res (residual at x), upd (ReuseNewton.update_jacobian),
                     \*   k (LinesearchNewton: relax = 2^-k), resume (pc at which next(m) continues)
          lin,       \* linear solve in flight: rhs, len (lenient), ret (continuation), lhs, res
          linok,     \* no strict linear solve returned short of a requested linear tolerance
          draws,     \* history of oracle draws: the script for the replay
          outcome,   \* "none" | "return" | exception class name
          why        \* guard through which the call returned

vars == <<conf, pc, iiter, resnorm, yres, g, lin, linok, draws, outcome, why>>

NaN == 1000
Inf == 999
NoMax == 99
LTol == 1
FailK == 2          \* LinesearchNewton: relax0 = 1, rejected scale 1/2, failrelax in [1/4, 1/2)

\* ------------------------------------------------------------------ IEEE
Fin(a) == a # NaN /\ a # Inf
Gt(a, b) == a # NaN /\ b # NaN /\ a > b
Le(a, b) == a # NaN /\ b # NaN /\ a <= b
\* newresnorm < require * resnorm with require = 1/2
LtHalf(n, r) == n # NaN /\ r # NaN /\ n # Inf /\ (r = Inf \/ 2 * n < r)

\* "resnorm > tol" as written, "not resnorm <= tol" as repaired
Exceeds(r, t) == IF conf.rep THEN ~Le(r, t) ELSE Gt(r, t)

\* kinds of draws (integers so that draws is homogeneous)
KRes == 1
KLin == 2
KStrat == 3
Draw(k, v) == draws' = Append(draws, <<k, v>>)
Draw2(k1, v1, k2, v2) == draws' = draws \o <<<<k1, v1>>, <<k2, v2>>>>
\* results of the backend solver routine
LExact == 0       \* lhs solves the system
LNoProg == 1      \* finite lhs (zeros), residual = rhs
LNonFin == 2      \* lhs contains nan/inf
LError == 3       \* routine raises (LinAlgError, RuntimeError "singular", status != 0 ..)
LinOuts(rhs) == IF Fin(rhs) THEN {LExact, LNoProg, LNonFin, LError} ELSE {LNoProg, LNonFin, LError}

\* ------------------------------------------------------------------ Matrix._solver
\* atol = max(atol, rtol * rhsnorm); "rhsnorm <= atol"
ShortCut(rhs, mode) == CASE rhs = 0 -> TRUE
                         [] rhs = NaN -> FALSE
                         [] rhs = Inf -> mode = "rel"          \* inf <= rtol * inf
                         [] OTHER -> mode = "abs" /\ rhs <= LTol
\* "atol > 0" after the max
TolPos(rhs, mode) == \/ mode = "abs"
                     \/ mode = "rel" /\ rhs # 0 /\ rhs # NaN   \* max(0., nan) is 0.
\* "resnorm > atol"; res is 0 or NaN or the (nonzero) rhs itself
LinGt(res, rhs, mode) == CASE res = 0 -> FALSE
                           [] res = NaN -> FALSE
                           [] OTHER -> IF mode = "abs" THEN Gt(res, LTol) ELSE res # Inf
LinLe(res, rhs, mode) == CASE res = 0 -> TRUE
                           [] res = NaN -> FALSE
                           [] OTHER -> IF mode = "abs" THEN Le(res, LTol) ELSE res = Inf
LinExceeds(res, rhs, mode) == IF conf.rep THEN ~LinLe(res, rhs, mode) ELSE LinGt(res, rhs, mode)
Requested(mode) == mode # "none"

Raise(e) == outcome' = e /\ pc' = "done"
Done(e, w) == outcome' = e /\ pc' = "done" /\ why' = w

StartLin(rhs, lenient, ret) ==
    /\ lin' = [rhs |-> rhs, len |-> lenient, ret |-> ret, lhs |-> LNoProg, res |-> rhs]
    /\ pc' = "l_short"

\* rhsnorm <= atol: return zeros without calling the solver
LShort == /\ pc = "l_short"
          /\ IF conf.rep /\ ~Fin(lin.rhs)
             THEN Raise("MatrixError") /\ UNCHANGED <<lin, why>>
             ELSE /\ pc' = IF ShortCut(lin.rhs, conf.lmode) THEN lin.ret ELSE "l_call"
                  /\ UNCHANGED <<lin, outcome, why>>
          /\ UNCHANGED <<conf, iiter, resnorm, yres, g, linok, draws>>

\* lhs = solver_method(rhs, atol=atol, ..), exceptions other than MatrixError are wrapped
LCall == /\ pc = "l_call" /\ Len(draws) < MaxDraw
         /\ \E o \in LinOuts(lin.rhs) :
              /\ Draw(KLin, o)
              /\ IF o = LError
                 THEN Raise("MatrixError") /\ UNCHANGED lin
                 ELSE /\ lin' = [lin EXCEPT !.lhs = o, !.res = IF o = LExact THEN 0 ELSE lin.rhs]
                      /\ pc' = "l_finite" /\ UNCHANGED outcome
         /\ UNCHANGED <<conf, iiter, resnorm, yres, g, linok, why>>

\* if not numpy.isfinite(lhs).all(): raise MatrixError
LFinite == /\ pc = "l_finite"
           /\ IF lin.lhs = LNonFin THEN Raise("MatrixError") ELSE pc' = "l_check" /\ UNCHANGED outcome
           /\ UNCHANGED <<conf, iiter, resnorm, yres, g, lin, linok, draws, why>>

\* if resnorm > atol > 0: raise ToleranceNotReached(lhs); solve_leniently returns e.best
LCheck == /\ pc = "l_check"
          /\ IF TolPos(lin.rhs, conf.lmode) /\ LinExceeds(lin.res, lin.rhs, conf.lmode) /\ ~lin.len
             THEN Raise("ToleranceNotReached") /\ UNCHANGED linok
             ELSE /\ pc' = lin.ret /\ UNCHANGED outcome
                  /\ linok' = (linok /\ (lin.len \/ ~Requested(conf.lmode) \/ LinLe(lin.res, lin.rhs, conf.lmode)))
          /\ UNCHANGED <<conf, iiter, resnorm, yres, g, lin, draws, why>>

\* ------------------------------------------------------------------ System.solve
StartPc(m) == CASE m = "direct" -> "d_asm" [] m = "newton" -> "n_asm" [] m = "reuse" -> "r_asm0"
                [] m = "linesearch" -> "s_asm0" [] m = "arnoldi" -> "a_asm"

\* m = method(self, ..): Direct runs to completion, the others are generators
Call == /\ pc = "call"
        /\ IF conf.m # "direct" /\ conf.tol <= 0
           THEN Raise("ValueError")
           ELSE pc' = StartPc(conf.m) /\ UNCHANGED outcome
        /\ UNCHANGED <<conf, iiter, resnorm, yres, g, lin, linok, draws, why>>

\* the method yields (construct(arguments, x), r); tr is the residual at that x
Yield(r, tr, resume) == /\ resnorm' = r /\ yres' = tr
                        /\ pc' = "loop"

Continue == iiter < conf.miniter \/ Exceeds(resnorm, conf.tol)

LoopReturn == /\ pc = "loop" /\ ~Continue
              /\ Done("return", IF resnorm = NaN THEN "System.solve:nan-resnorm" ELSE "loop-guard")
              /\ UNCHANGED <<conf, iiter, resnorm, yres, g, lin, linok, draws>>

\* demanded design only: a non-finite residual norm may also be reported at once (the alternative is to go on
\* iterating until maxiter; both satisfy the property, returning does not)
LoopNonFinite == /\ pc = "loop" /\ conf.rep /\ ~Fin(resnorm)
                 /\ Raise("SolverError")
                 /\ UNCHANGED <<conf, iiter, resnorm, yres, g, lin, linok, draws, why>>

LoopMaxiter == /\ pc = "loop" /\ Continue /\ conf.maxiter # NoMax /\ iiter >= conf.maxiter
               /\ Raise("SolverError")
               /\ UNCHANGED <<conf, iiter, resnorm, yres, g, lin, linok, draws, why>>

LoopNext == /\ pc = "loop" /\ Continue /\ ~(conf.maxiter # NoMax /\ iiter >= conf.maxiter)
            /\ iiter' = iiter + 1
            /\ pc' = g.resume
            /\ UNCHANGED <<conf, resnorm, yres, g, lin, linok, draws, outcome, why>>

\* ------------------------------------------------------------------ Direct
DAsm == /\ pc = "d_asm" /\ Len(draws) < MaxDraw
        /\ \E r \in Vals : Draw(KRes, r) /\ g' = [g EXCEPT !.res = r] /\ StartLin(r, FALSE, "d_ret")
        /\ UNCHANGED <<conf, iiter, resnorm, yres, linok, outcome, why>>

\* return construct(arguments, x - dx), norm(res - jac @ dx); "if resnorm > tol > 0: raise SolverError"
DRet == /\ pc = "d_ret"
        /\ resnorm' = lin.res /\ yres' = lin.res
        /\ IF conf.tol > 0 /\ Exceeds(lin.res, conf.tol)
           THEN Raise("SolverError") /\ UNCHANGED why
           ELSE Done("return", IF lin.res = NaN /\ conf.tol > 0 THEN "System.solve:nan-resnorm"
                               ELSE IF lin.res = NaN THEN "Matrix._solver:nan-resnorm" ELSE "direct-guard")
        /\ UNCHANGED <<conf, iiter, g, lin, linok, draws>>

\* ------------------------------------------------------------------ Newton
NAsm == /\ pc = "n_asm" /\ Len(draws) < MaxDraw
        /\ \E r \in Vals : Draw(KRes, r) /\ g' = [g EXCEPT !.res = r, !.resume = "n_lin"] /\ Yield(r, r, "n_lin")
        /\ UNCHANGED <<conf, iiter, lin, linok, outcome, why>>

NLin == /\ pc = "n_lin" /\ StartLin(g.res, TRUE, "n_asm")
        /\ UNCHANGED <<conf, iiter, resnorm, yres, g, linok, draws, outcome, why>>

\* ------------------------------------------------------------------ ReuseNewton
RAsm0 == /\ pc = "r_asm0" /\ Len(draws) < MaxDraw
         /\ \E r \in Vals : Draw(KRes, r) /\ g' = [g EXCEPT !.res = r, !.upd = TRUE, !.resume = "r_top"] /\ Yield(r, r, "r_top")
         /\ UNCHANGED <<conf, iiter, lin, linok, outcome, why>>

\* (if update_jacobian: assemble_jacobian) ; newx = x - jac.solve_leniently(res)
RTop == /\ pc = "r_top" /\ StartLin(g.res, TRUE, "r_new")
        /\ UNCHANGED <<conf, iiter, resnorm, yres, g, linok, draws, outcome, why>>

\* newres = assemble_residual(newx); accept if the jacobian is fresh or the residual at least halved
RNewAccept == /\ pc = "r_new" /\ Len(draws) < MaxDraw
              /\ \E n \in Vals :
                   /\ g.upd \/ LtHalf(n, g.res)
                   /\ Draw(KRes, n)
                   /\ g' = [g EXCEPT !.res = n, !.upd = FALSE] /\ Yield(n, n, "r_top")
              /\ UNCHANGED <<conf, iiter, lin, linok, outcome, why>>

\* else: keep x, assemble a new jacobian (no yield)
RNewReject == /\ pc = "r_new" /\ Len(draws) < MaxDraw
              /\ \E n \in Vals :
                   /\ ~(g.upd \/ LtHalf(n, g.res))
                   /\ Draw(KRes, n)
                   /\ g' = [g EXCEPT !.upd = TRUE] /\ pc' = "r_top"
              /\ UNCHANGED <<conf, iiter, resnorm, yres, lin, linok, outcome, why>>

RNew == RNewAccept \/ RNewReject

\* ------------------------------------------------------------------ LinesearchNewton
SAsm0 == /\ pc = "s_asm0" /\ Len(draws) < MaxDraw
         /\ \E r \in Vals : Draw(KRes, r) /\ g' = [g EXCEPT !.res = r, !.k = 0, !.resume = "s_lin"] /\ Yield(r, r, "s_lin")
         /\ UNCHANGED <<conf, iiter, lin, linok, outcome, why>>

SLin == /\ pc = "s_lin" /\ StartLin(g.res, TRUE, "s_try")
        /\ UNCHANGED <<conf, iiter, resnorm, yres, g, linok, draws, outcome, why>>

\* newx = x + dx * relax; assemble; scale, accept = strategy(..): accepted, relax = min(relax * scale, 1)
STryAccept == /\ pc = "s_try" /\ Len(draws) + 1 < MaxDraw
              /\ \E n \in Vals :
                   /\ Draw2(KRes, n, KStrat, 1)
                   /\ g' = [g EXCEPT !.res = n, !.k = IF g.k > 0 THEN g.k - 1 ELSE 0]
                   /\ Yield(n, n, "s_lin")
              /\ UNCHANGED <<conf, iiter, lin, linok, outcome, why>>

\* rejected: relax *= scale, try again
STryReject == /\ pc = "s_try" /\ Len(draws) + 1 < MaxDraw /\ g.k + 1 < FailK
              /\ \E n \in Vals : Draw2(KRes, n, KStrat, 0)
              /\ g' = [g EXCEPT !.k = g.k + 1] /\ pc' = "s_try"
              /\ UNCHANGED <<conf, iiter, resnorm, yres, lin, linok, outcome, why>>

\* rejected and relax <= failrelax: SolverError('stuck in local minimum')
STryFail == /\ pc = "s_try" /\ Len(draws) + 1 < MaxDraw /\ g.k + 1 >= FailK
            /\ \E n \in Vals : Draw2(KRes, n, KStrat, 0)
            /\ Raise("SolverError")
            /\ UNCHANGED <<conf, iiter, resnorm, yres, g, lin, linok, why>>

STry == STryAccept \/ STryReject \/ STryFail

\* ------------------------------------------------------------------ Arnoldi (first use: no cached matrix)
AAsm == /\ pc = "a_asm" /\ Len(draws) < MaxDraw
        /\ \E r \in Vals : Draw(KRes, r) /\ g' = [g EXCEPT !.res = r, !.resume = "a_solve"] /\ Yield(r, r, "a_solve")
        /\ UNCHANGED <<conf, iiter, lin, linok, outcome, why>>

ASolve == /\ pc = "a_solve" /\ StartLin(g.res, FALSE, "a_fin")
          /\ UNCHANGED <<conf, iiter, resnorm, yres, g, linok, draws, outcome, why>>

AFin == /\ pc = "a_fin"
        /\ g' = [g EXCEPT !.resume = "a_end"] /\ Yield(lin.res, lin.res, "a_end")
        /\ UNCHANGED <<conf, iiter, lin, linok, draws, outcome, why>>

\* the generator is exhausted: next(m) raises StopIteration inside System.solve
AEnd == /\ pc = "a_end"
        /\ Raise(IF conf.rep THEN "SolverError" ELSE "StopIteration")
        /\ UNCHANGED <<conf, iiter, resnorm, yres, g, lin, linok, draws, why>>

\* ------------------------------------------------------------------ spec
Init == /\ conf \in [m : Methods, tol : Tols, miniter : MinIters, maxiter : MaxIters, lmode : LModes, rep : Variants]
        /\ pc = "call" /\ iiter = 0 /\ resnorm = 0 /\ yres = 0
        /\ g = [res |-> 0, upd |-> TRUE, k |-> 0, resume |-> "none"]
        /\ lin = [rhs |-> 0, len |-> FALSE, ret |-> "none", lhs |-> LNoProg, res |-> 0]
        /\ linok = TRUE /\ draws = <<>> /\ outcome = "none" /\ why = "none"

Next == \/ Call \/ LoopReturn \/ LoopNonFinite \/ LoopMaxiter \/ LoopNext
        \/ LShort \/ LCall \/ LFinite \/ LCheck
        \/ DAsm \/ DRet \/ NAsm \/ NLin \/ RAsm0 \/ RTop \/ RNewAccept \/ RNewReject
        \/ SAsm0 \/ SLin \/ STryAccept \/ STryReject \/ STryFail \/ AAsm \/ ASolve \/ AFin \/ AEnd

Spec == Init /\ [][Next]_vars

\* ------------------------------------------------------------------ properties
Errors == {"SolverError", "MatrixError", "ToleranceNotReached", "ValueError"}

\* what a returned answer must satisfy (constraints are exact by construction of
\* deconstruct/construct; that part is decided by LinSolve.tla and the replay)
CertNow == /\ conf.tol > 0 => Le(yres, conf.tol)
           /\ linok

CertifiedAsWritten == outcome = "return" => CertNow
NoSilentAsWritten == outcome \in {"none", "return"} \cup Errors
\* the property: invariants of the demanded design
Certified == conf.rep => CertifiedAsWritten
NoSilent == conf.rep => NoSilentAsWritten
\* System.solve never does fewer than miniter or more than maxiter iterations
IterBounds == /\ outcome = "return" /\ conf.m # "direct" => iiter >= conf.miniter
              /\ conf.maxiter # NoMax => iiter <= conf.maxiter
\* a returned answer is the last one the method handed over
ReturnsLast == outcome = "return" => resnorm = yres
TypeOK == /\ pc \in {"call", "loop", "done", "l_short", "l_call", "l_finite", "l_check", "d_asm", "d_ret",
                     "n_asm", "n_lin", "r_asm0", "r_top", "r_new", "s_asm0", "s_lin", "s_try",
                     "a_asm", "a_solve", "a_fin", "a_end"}
          /\ outcome \in {"none", "return", "StopIteration"} \cup Errors
          /\ (outcome # "none") = (pc = "done")
          /\ Len(draws) <= MaxDraw

\* S->C: every complete behaviour with the model's predictions
Emit(x) == PrintT(<<"VF", ToJson(x)>>)
EmitTerminal == (Emitting /\ outcome # "none") =>
                   Emit([conf |-> conf, draws |-> draws, outcome |-> outcome, iiter |-> iiter,
                         cert |-> (outcome # "return" \/ CertNow), why |-> why, yres |-> yres])
=============================================================================
