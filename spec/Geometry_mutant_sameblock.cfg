\* spec mutant "same-block": the derivative of the field to the root target of every space of a product topology is the
\* block of the first space (a derivative memo shared between targets).  TLC must report a violation of ProductGradient.
SPECIFICATION Spec
CONSTANTS
  MeshNames = {"prod", "prod3"}
  RefineOn = {}
  MaxLevel = 1
  Refine2On = {}
  GeomIds = {6}
  FieldIds = {7, 13}
  Lattice = 2
  Lattice3 = 1
  IntegrateOn = {}
  BFieldOn = {}
  RefineOnB = {}
  ProdGeomIds = {12}
  ProdFieldIds = {13}
  GmMutant = "same-block"
INVARIANT TypeOK
INVARIANT ProductGradient
