\* design mutant: lossy casts are wrapped silently; ExactArgs must be violated
SPECIFICATION Spec
CONSTANTS
  Args <- ArrayArgsSmall
  CanonOf <- ArrayCanon
  PyOf <- ArrayPy
  KeyMode = "exact"
  Lossy = "wrap"
  WrapOf <- ArrayWrap
  MaxOps = 4
  MaxPickles = 1
  Label = "array"
INVARIANT UniqueLive
INVARIANT ExactArgs
INVARIANT SameWhileAlive
INVARIANT TableSound
CHECK_DEADLOCK FALSE
