"""C07 -- Function arrays follow NumPy semantics at every point.

Design model: spec/NumpySem.tla (NumPy array semantics on tiny exact data: broadcasting, kind promotion, indexing,
reshape/transpose, joins, reductions, products, einsum, small linear algebra, searchsorted/interp; every call returns a
value or a REJECT / TYPEERR verdict) and spec/FuncBuilder.tla (state machine whose behaviours are compositions of NumPy
API calls over constants, arguments, raw operands and POINT-DEPENDENT leaves -- coordinate, element index, basis -- whose
exact per-point values on six samples, two of them product samples with two point axes, are model constants).  TLC
explores the machine (exhaustively per call family, -simulate for deeper mixed compositions), checks the model's internal
laws as invariants and emits every behaviour together with the predicted shape, kind, per-point values or verdict.

S->C binding: (1) the harness asserts that nutils evaluates the point-dependent leaves on the real samples to exactly the
model constants; (2) every behaviour is replayed by applying the *same NumPy API call* (NEP-13/18 dispatch) to nutils
function arrays: `.shape` / `.dtype` are compared with the model before evaluation, `sample.eval` at every point with the
model's per-point values afterwards; REJECT must surface as an exception when the expression is built.  As a guard of
the transcription every behaviour is also executed by real numpy on plain ndarrays: a disagreement between the TLA+
model and numpy is a MODEL bug and aborts the check (machinery failure), it is never reported as a violation.
"""

import hashlib
import json
import os
import random
import threading
import warnings

import numpy

from .. import exprs, tlc
from . import c07_ops as ops

LEVEL = 'model_checking'

CFG = '''SPECIFICATION Spec
CONSTANTS
  Families <- VFFamilies
  EmitMin = {emitmin}
  EmitTables = {tables}
  WrongPromotion = {mutant}
INVARIANT VerdictUniform
INVARIANT SizeLaw
INVARIANT BroadcastLaw
INVARIANT KindLaw
INVARIANT StructLaw
CONSTRAINT EmitAll
CHECK_DEADLOCK FALSE
'''

# sample ids of spec/FuncBuilder.tla
LINEB, LINEG, LINEU, RECTB, PRODYX, PRODXY = 1, 2, 3, 4, 5, 6
SAMPLE_NAMES = {1: 'lineB', 2: 'lineG', 3: 'lineU', 4: 'rectB', 5: 'prodYX', 6: 'prodXY'}


def S(*names):
    return '{' + ', '.join(json.dumps(n) for n in names) + '}'


def fam(name, ops_, leaves, samples, maxops=1, maxleaves=2, maxunused=1, wide=1):
    return dict(name=name, ops=ops_, leaves=leaves, samples='{' + ', '.join(map(str, samples)) + '}', maxops=maxops, maxleaves=maxleaves, maxunused=maxunused, wide=wide)


def quick_families():
    A, B = [LINEG, PRODXY], [PRODXY, PRODYX]
    return [
        # ---- depth 1, wide parameter pools: every call x every parameter form x one leaf of every kind / shape class
        fam('promotion', 'ElemOps \\cup CompareOps', S('ab2', 'ai2', 'af2', 'ac2', 'X', 'EX', 'ri', 'rf', 'rb', 'rc'), A),
        fam('broadcast', '{"add", "multiply", "true_divide", "greater", "minimum"}', S('X', 'Y', 'BX', 'af23', 'cf13', 'cf21', 'af223', 'cf20', 'af0', 'cf3', 'af2'), B),
        fam('unary', 'UnOps', S('X', 'EX', 'Y', 'BX', 'ab2', 'ai3', 'af23', 'ac2', 'cc22', 'cb23', 'ci0', 'cf20', 'af0'), B, maxleaves=1),
        fam('reduce', 'RedOps', S('BX', 'Y', 'af23', 'af223', 'cb23', 'ci23', 'ac2', 'X', 'cf20'), B, maxleaves=1),
        fam('getitem', '{"getitem"}', S('BX', 'Y', 'af23', 'af223', 'ci23', 'X', 'cf20'), B, maxleaves=1),
        fam('getitem-node', '{"getitem_node"}', S('BX', 'Y', 'af23', 'af223', 'EX', 'EY', 'ai2', 'ci0', 'ci23'), B),
        fam('shape', 'ShapeOps', S('BX', 'Y', 'af23', 'af223', 'X', 'cf13', 'cf21', 'ab2'), B, maxleaves=1),
        fam('join', 'JoinOps', S('X', 'Y', 'af2', 'ab2', 'af23', 'cf13', 'BX', 'cf3', 'rf', 'ac2', 'EX'), B),
        fam('join3', 'JoinOps', S('X', 'af2', 'Y', 'ri'), [PRODXY], maxleaves=3, maxunused=2, wide=0),
        fam('pick', '{"take", "compress"}', S('BX', 'Y', 'af23', 'af223', 'X', 'EX', 'EY', 'ai2', 'ai3', 'ci23', 'ri2', 'rin', 'ab2'), B),
        fam('choose', '{"choose"}', S('EX', 'EY', 'ab2', 'ai2', 'X', 'af2', 'Y', 'rf', 'ac2', 'cb23', 'af23'), [PRODXY], maxleaves=3, maxunused=2),
        fam('product', '{"dot", "matmul", "vdot", "cross"}', S('X', 'Y', 'BX', 'af2', 'af3', 'af23', 'af22', 'af223', 'cf33', 'cf21', 'ai2', 'ab2', 'ac2', 'cc22', 'rf'), B),
        fam('einsum', '{"einsum"}', S('X', 'Y', 'BX', 'af2', 'af3', 'af23', 'af22', 'af223', 'cf33', 'ab2', 'cc22'), B),
        fam('linalg', 'LinOps', S('af22', 'af23', 'af223', 'cf33', 'cc22', 'BX', 'Y', 'X', 'ci23', 'cb23'), B, maxleaves=1),
        fam('lookup', 'LookupOps', S('rn3', 'rm3', 'cf3', 'X', 'Y', 'BX', 'af23', 'EX', 'ai2', 'cf13'), [PRODXY], maxleaves=3, maxunused=2),
        # ---- depth 2, exhaustive per family, narrow pools
        fam('elem2', '{"add", "multiply", "true_divide", "power", "floor_divide", "greater"}', S('X', 'af2', 'ai2'), A, maxops=2, maxleaves=2, wide=0),
        fam('index2', '{"getitem", "take"}', S('af223', 'BX'), B, maxops=2, maxleaves=1, wide=0),
        fam('shape2', '{"reshape", "transpose", "swapaxes", "ravel", "broadcast_to", "repeat"}', S('af23', 'Y'), B, maxops=2, maxleaves=1, wide=0),
        fam('reduce2', '{"sum", "prod", "any", "all", "greater"}', S('af223', 'BX', 'af0'), [PRODXY], maxops=2, maxleaves=2, wide=0),
        fam('mixed2', '{"getitem", "sum", "transpose", "multiply", "stack", "matmul", "equal", "negative"}', S('X', 'af23', 'BX'), [PRODXY, LINEB], maxops=2, maxleaves=2, wide=0),
        fam('lin2', '{"matmul", "dot", "einsum", "trace", "diagonal", "inv", "det", "transpose"}', S('af22', 'Y'), [PRODYX, RECTB], maxops=2, maxleaves=2, wide=0),
    ]


def thorough_extra():
    everything = [LINEB, LINEG, LINEU, RECTB, PRODYX, PRODXY]
    return [
        fam('promotion-all', 'ElemOps \\cup CompareOps', S('ab2', 'ai2', 'af2', 'ac2', 'X', 'EX', 'ri', 'rf', 'rb', 'rc', 'ci2', 'cc0', 'cb2', 'af0'), [LINEB, LINEU, PRODYX]),
        fam('getitem-all', 'IndexOps', S('BX', 'af23', 'af223', 'X', 'EX', 'ai2'), [LINEB, LINEG, LINEU]),
        fam('getitem-rect', 'IndexOps', S('Y', 'af23', 'EY', 'ci23'), [RECTB]),
        fam('elem3', '{"add", "multiply", "true_divide", "greater", "power"}', S('X', 'af2'), [LINEU, PRODXY], maxops=3, maxleaves=2, wide=0),
        fam('index3', '{"getitem"}', S('af223'), [PRODXY], maxops=3, maxleaves=1, wide=0),
        fam('mixed2b', '{"getitem", "sum", "prod", "transpose", "reshape", "multiply", "add", "stack", "concatenate", "matmul", "dot", "take", "absolute", "minimum"}', S('X', 'Y', 'af23', 'BX'), [PRODYX],
            maxops=2, maxleaves=2, wide=0),
    ]


ALL_CALLS = ops.BINARY + ops.UNARY + ops.REDUCE + ('divmod', 'getitem', 'reshape', 'ravel', 'transpose', 'swapaxes', 'moveaxis', 'expand_dims', 'broadcast_to', 'repeat',
                                                  'stack', 'concatenate', 'take', 'choose', 'compress', 'dot', 'matmul', 'vdot', 'cross', 'einsum', 'trace', 'diagonal',
                                                  'det', 'inv', 'norm', 'searchsorted', 'interp')
REJECTING_CALLS = ('add', 'greater', 'sum', 'getitem', 'reshape', 'transpose', 'swapaxes', 'broadcast_to', 'stack', 'concatenate', 'take', 'dot', 'matmul', 'vdot', 'cross',
                   'einsum', 'diagonal', 'det', 'inv', 'searchsorted', 'interp')

SIM_FAMILY = fam('sim', 'AllOps', 'AllLeaves', [LINEB, LINEG, LINEU, RECTB, PRODYX, PRODXY], maxops=4, maxleaves=4, maxunused=2, wide=0)


def module_text(fams):
    defs = ['MkFam({ops}, {leaves}, {samples}, {maxops}, {maxleaves}, {maxunused}, {wide})'.format(**f) for f in fams]
    return '---- MODULE MCFuncBuilderX ----\nEXTENDS MCFuncBuilder\nVFFamilies == << TableFam,\n  ' + ',\n  '.join(defs) + ' >>\n====\n'


def run_builder(tag, fams, *, simulate=None, depth=None, seed=0, mutant=False, emitmin=1, timeout=900, workers=None, coverage=False):
    p = os.path.join(tlc.workdir(tag + '-defs'), 'MCFuncBuilderX.tla')
    with open(p, 'w') as f:
        f.write(module_text(fams))
    kw = {}
    if simulate:
        kw = dict(simulate=dict(num=simulate), depth=depth, seed=seed)
    return tlc.run('MCFuncBuilderX', cfg_text=CFG.format(emitmin=emitmin, tables='FALSE' if simulate else 'TRUE', mutant='TRUE' if mutant else 'FALSE'),
                   tag=tag, workers=1 if simulate else workers, deadlock=False, timeout=timeout, extra_modules=[p], coverage=coverage, heap='6g', **kw)


# ---------------------------------------------------------------------------
# the real samples and leaves (binding of the sample model)

_WORLD = None


class World:
    def __init__(self, tables):
        from nutils import mesh, function
        self.function = function
        dX, x = mesh.line(2, space='X')
        dY, y = mesh.rectilinear([2, 1], space='Y')
        self.pt = dict(X=x, EX=dX.f_index, BX=dX.basis('std', degree=1), Y=y, EY=dY.f_index)
        self.samples = {
            'lineB': dX.sample('bezier', 2), 'lineG': dX.sample('gauss', 1), 'lineU': dX.sample('uniform', 2),
            'rectB': dY.sample('bezier', 2),
            'prodYX': dY.sample('gauss', 1) * dX.sample('bezier', 2),
            'prodXY': dX.sample('gauss', 1) * dY.sample('gauss', 1)}
        self.tables = tables                      # sample id -> table emitted by the spec
        g = tables[min(tables)]['globals']
        self.globals = {l['name']: l for l in g}
        self.gval = {}
        self.leafobj = {}
        self.args = {}
        for l in g:
            val, bad = ops.decode(l['sh'], l['dt'], l['v'])
            assert not bad.any()
            self.gval[l['name']] = val
            if l['src'] == 'arg':
                self.leafobj[l['name']] = function.Argument(l['name'], tuple(l['sh']), ops.KINDS[l['dt']])
                self.args[l['name']] = val
            elif l['src'] == 'const':
                self.leafobj[l['name']] = function.Array.cast(val)
            else:
                self.leafobj[l['name']] = ops.raw_value(l)
        self.ptval = {}                           # (sample id, leaf name) -> ndarray (npoints, *shape)
        for sid, t in tables.items():
            for l in t['leaves']:
                vals = [ops.decode(l['sh'], l['dt'], pv)[0] for pv in l['pv']]
                self.ptval[sid, l['name']] = numpy.array(vals)

    def nutils_leaf(self, name):
        return self.pt[name] if name in self.pt else self.leafobj[name]

    def numpy_leaf(self, sid, name, pt):
        if name in self.pt:
            return numpy.array(self.ptval[sid, name][pt])
        l = self.globals[name]
        return ops.raw_value(l) if l['src'] == 'raw' else self.gval[name]


def bind_samples(world, rep):
    """the sample model is itself bound: nutils must evaluate every point-dependent leaf on every real sample to exactly the
    model constants (count, order and value of the points); anything else is a machinery failure, not a finding"""
    n = 0
    for sid, t in sorted(world.tables.items()):
        smp = world.samples[t['name']]
        if smp.npoints != t['np']:
            raise RuntimeError('sample {} has {} points, the model says {}'.format(t['name'], smp.npoints, t['np']))
        for l in t['leaves']:
            f = world.pt[l['name']]
            if tuple(f.shape) != tuple(l['sh']) or ops.kind_of(f.dtype) != l['dt']:
                raise RuntimeError('leaf {} has shape/dtype {} {}, the model says {} {}'.format(l['name'], f.shape, f.dtype, l['sh'], l['dt']))
            got = smp.eval(f)
            want = world.ptval[sid, l['name']]
            if got.shape != want.shape or not (got == want).all():
                raise RuntimeError('sample model not bound: leaf {} on sample {} evaluates to {} but the model constants are {}'.format(l['name'], t['name'], got.tolist(), want.tolist()))
            n += 1
    # arguments and constants evaluate to the model values, too
    for name, obj in world.leafobj.items():
        if hasattr(obj, 'lower'):
            got = world.samples['lineG'].eval(obj, arguments=world.args)
            if not (got == world.gval[name][None]).all():
                raise RuntimeError('global leaf {} not bound'.format(name))
    rep.extra['sample_leaves_bound'] = n
    return n


# ---------------------------------------------------------------------------
# replay of one behaviour

def unsupported(ex):
    """exceptions by which nutils declares that it does not implement a call (never a violation)"""
    s = str(ex)
    if isinstance(ex, NotImplementedError):
        return 'NotImplementedError'
    if isinstance(ex, TypeError) and ('no implementation found' in s or 'NotImplemented' in s or 'unexpected keyword argument' in s):
        return 'no dispatch for this call / keyword'
    if isinstance(ex, ValueError) and ('no total order' in s or 'not defined for complex' in s):
        return 'declared unsupported for complex'
    if isinstance(ex, (ValueError, TypeError)) and ('is not supported' in s or 'Use logical operators to compare booleans' in s):
        return 'declared unsupported: ' + s[:60]
    return None


def numpy_reference(world, e):
    """run the program with real numpy on plain ndarrays, per point. returns list over points of (values list, failing node or None, exception)"""
    out = []
    nodes = e['nodes']
    for pt in range(world.tables[e['smp']]['np']):
        vals = []
        fail = None
        for k, n in enumerate(nodes, 1):
            if n['op'] == 'leaf':
                vals.append(world.numpy_leaf(e['smp'], n['p'], pt))
                continue
            try:
                with numpy.errstate(all='ignore'), warnings.catch_warnings():
                    warnings.simplefilter('ignore')
                    vals.append(ops.apply(n['op'], n['p'], [vals[d - 1] for d in ops.seq(n['d'])]))
            except Exception as ex:
                fail = (k, ex)
                break
        out.append((vals, fail))
    return out


def same_values(want, bad, got, dt):
    got = numpy.asarray(got)
    if got.shape != want.shape:
        return False
    ok = ~bad
    if dt in ('b', 'i'):
        return bool((got[ok].astype(numpy.int64) == want[ok].astype(numpy.int64)).all())
    with numpy.errstate(all='ignore'):
        return bool(numpy.allclose(got[ok], want[ok], rtol=1e-9, atol=1e-12))


def model_vs_numpy(world, e, ref):
    """sanity guard of the transcription. returns None if model and numpy agree, 'undefined' if the comparison is void
    (model value undefined), else a description of the disagreement (= a MODEL bug)"""
    nodes = e['nodes']
    root = nodes[-1]
    anybad = any(n['bad'] for n in nodes)
    for pt, (vals, fail) in enumerate(ref):
        if root['dt'] in ('REJECT', 'TYPEERR'):
            if fail is None:
                return 'model says {} ({}) but numpy returns a value at point {}'.format(root['dt'], e['why'], pt)
            if fail[0] != len(nodes):
                return 'numpy raises at node {} but the model only at the root'.format(fail[0])
            continue
        if fail is not None:
            if anybad:
                return 'undefined'
            return 'model says value but numpy raises {!r} at node {}'.format(fail[1], fail[0])
        for k, (n, v) in enumerate(zip(nodes, vals), 1):
            if n['op'] == 'leaf':
                continue
            v = numpy.asarray(v)
            if list(v.shape) != list(ops.seq(n['sh'])):
                return 'node {} shape: model {} numpy {}'.format(k, n['sh'], v.shape)
            if ops.kind_of(v.dtype) != n['dt']:
                return 'node {} kind: model {} numpy {}'.format(k, n['dt'], v.dtype)
        want, bad = ops.decode(root['sh'], root['dt'], e['root'][pt])
        if not same_values(want, bad, vals[-1], root['dt']):
            return 'root value at point {}: model {} numpy {}'.format(pt, want.tolist(), numpy.asarray(vals[-1]).tolist())
    return None


def unstable(nodes):
    """a discontinuous call consumes a float value that is not exactly representable / exactly rounded: the evaluation may
    legitimately land on the other side of the discontinuity, which the property allows (rounding)"""
    inexact = []
    for n in nodes:
        d = ops.seq(n['d'])
        ix = n['dt'] in ('f', 'c') and (not n['dy'] or n['op'] in ops.INEXACT or any(inexact[j - 1] for j in d))
        sel = ops.DISCONT_OPERANDS.get(n['op'])
        if n['op'] in ops.DISCONT and any(inexact[j - 1] for i, j in enumerate(d) if sel is None or i in sel):
            return True
        inexact.append(ix or (n['dt'] in ('b', 'i') and any(inexact[j - 1] for j in d)))
    return False


def key_for(nodes, k, what):
    op, desc = ops.descriptor(nodes, k)
    n = nodes[k - 1]
    if what.startswith(('eval-', 'value', 'evaluated')) and (0 in ops.seq(n['sh']) or any(0 in ops.seq(nodes[d - 1]['sh']) for d in ops.seq(n['d']))):
        return 'zero-size-array:' + what           # one root cause irrespective of the call
    return '{}:{}:{}'.format(op, desc, what)


def replay(item):
    e, world = item, _WORLD
    function = world.function
    nodes = e['nodes']
    root = nodes[-1]
    smp = world.samples[SAMPLE_NAMES[e['smp']]]
    out = dict(status='ok', expr=ops.pyexpr(nodes), smp=SAMPLE_NAMES[e['smp']])
    # ---- numpy on plain ndarrays: guard of the model
    ref = numpy_reference(world, e)
    dis = model_vs_numpy(world, e, ref)
    if dis == 'undefined':
        out.update(status='skip', why='model value undefined (numpy raises on these data)')
        return out
    if dis is not None:
        out.update(status='modelbug', what=dis)
        return out
    # ---- build the function array with the same calls
    objs = []
    for k, n in enumerate(nodes, 1):
        if n['op'] == 'leaf':
            objs.append(world.nutils_leaf(n['p']))
            continue
        isroot = k == len(nodes)
        try:
            with warnings.catch_warnings():
                warnings.simplefilter('ignore')
                obj = exprs.with_timeout(30, ops.apply, n['op'], n['p'], [objs[d - 1] for d in ops.seq(n['d'])], function.expand_dims)
        except exprs.Timeout:
            out.update(status='violation', key=key_for(nodes, k, 'build-timeout'), what='building {} did not return in 30 s'.format(ops.pyexpr(nodes, k)))
            return out
        except Exception as ex:
            if isroot and root['dt'] == 'REJECT':
                out.update(status='ok', rejected=True)
                return out
            if isroot and root['dt'] == 'TYPEERR':
                out.update(status='skip', why='numpy has no loop for these kinds (nothing demanded)')
                return out
            why = unsupported(ex)
            if why:
                out.update(status='skip', why='not implemented by nutils: {} [{}]'.format(n['op'], why))
                return out
            out.update(status='violation', key=key_for(nodes, k, 'build-exception:' + type(ex).__name__),
                       what='{} raises {}: {} although numpy returns an array of shape {} kind {}'.format(ops.pyexpr(nodes, k), type(ex).__name__, str(ex)[:120], n['sh'], n['dt']))
            return out
        if isroot and root['dt'] == 'TYPEERR':
            out.update(status='skip', why='numpy has no loop for these kinds (nothing demanded)')
            return out
        if isroot and root['dt'] == 'REJECT':
            got = 'shape {}'.format(getattr(obj, 'shape', '?'))
            op, desc = ops.descriptor(nodes, k)
            out.update(status='violation', key='{}:not-rejected:{}'.format(op, e['why']),
                       what='{} is accepted ({}) although numpy rejects the operands ({})'.format(ops.pyexpr(nodes, k), got, e['why']))
            return out
        if not isinstance(obj, function.Array):
            raise RuntimeError('replay of {} did not produce a function array but {!r}'.format(ops.pyexpr(nodes, k), type(obj)))
        if list(obj.shape) != list(ops.seq(n['sh'])):
            out.update(status='violation', key=key_for(nodes, k, 'shape'), what='{} has shape {} but numpy gives {}'.format(ops.pyexpr(nodes, k), obj.shape, tuple(ops.seq(n['sh']))))
            return out
        if ops.kind_of(obj.dtype) != n['dt']:
            out.update(status='violation', key=key_for(nodes, k, 'dtype'), what='{} has dtype {} but numpy gives kind {}'.format(ops.pyexpr(nodes, k), obj.dtype.__name__, n['dt']))
            return out
        objs.append(obj)
    # ---- evaluate at every point
    args = {n['p']: world.args[n['p']] for n in nodes if n['op'] == 'leaf' and n['p'] in world.args}
    anybad = any(n['bad'] for n in nodes)

    def evaluate(obj):
        with numpy.errstate(all='ignore'), warnings.catch_warnings():
            warnings.simplefilter('ignore')
            return exprs.with_timeout(60, smp.eval, obj, arguments=args)

    def first_deviation():
        'first call (post order) whose evaluation deviates from numpy on plain ndarrays: root-cause attribution only'
        for k, n in enumerate(nodes, 1):
            if n['op'] == 'leaf' or not hasattr(objs[k - 1], 'lower'):
                continue
            try:
                got = evaluate(objs[k - 1])
            except Exception as ex:
                return k, 'eval-exception:' + type(ex).__name__, ex
            want = numpy.array([numpy.asarray(vals[k - 1]) for vals, fail in ref])
            if got.shape != want.shape or not same_values(want, numpy.zeros(want.shape, bool) | ~numpy.isfinite(want.astype(complex)), got, n['dt']):
                return k, 'value', None
        return len(nodes), 'value', None

    try:
        got = evaluate(objs[-1])
    except exprs.Timeout:
        out.update(status='violation', key=key_for(nodes, len(nodes), 'eval-timeout'), what='evaluation of {} did not return in 60 s'.format(out['expr']))
        return out
    except Exception as ex:
        if anybad:
            out.update(status='skip', why='model value undefined at some point (evaluation raises)')
            return out
        k, what, ex2 = first_deviation()
        ex2 = ex2 or ex
        if unsupported(ex2):
            out.update(status='skip', why='not implemented by nutils (raised at evaluation): {} [{}]'.format(nodes[k - 1]['op'], unsupported(ex2)))
            return out
        out.update(status='violation', key=key_for(nodes, k, 'eval-exception:' + type(ex2).__name__),
                   what='sample.eval of {} on {} raises {}: {}'.format(out['expr'], out['smp'], type(ex2).__name__, str(ex2)[:120]))
        return out
    want = []
    bad = []
    for pv in e['root']:
        w, b = ops.decode(root['sh'], root['dt'], pv)
        want.append(w)
        bad.append(b)
    want = numpy.array(want).reshape((len(want),) + tuple(ops.seq(root['sh'])))
    bad = numpy.array(bad).reshape(want.shape)
    if got.shape != want.shape:
        out.update(status='violation', key=key_for(nodes, len(nodes), 'evaluated-shape'), what='sample.eval of {} has shape {} instead of {}'.format(out['expr'], got.shape, want.shape))
        return out
    if ops.kind_of(got.dtype) != root['dt']:
        out.update(status='violation', key=key_for(nodes, len(nodes), 'evaluated-dtype'), what='sample.eval of {} has dtype {} instead of kind {}'.format(out['expr'], got.dtype, root['dt']))
        return out
    if bad.all() and bad.size:
        out.update(status='skip', why='model value undefined at every point')
        return out
    if unstable(nodes):
        out.update(status='skip', why='discontinuous call on inexact float data (rounding may legitimately differ)')
        return out
    if not same_values(want, bad, got, root['dt']):
        k, what, ex2 = first_deviation()
        if what != 'value':
            what = 'value'
        pts = [i for i in range(len(want)) if not same_values(want[i], bad[i], got[i], root['dt'])]
        out.update(status='violation', key=key_for(nodes, k, 'value'),
                   what='{} on sample {}: value at point {} is {} but numpy gives {}'.format(out['expr'], out['smp'], pts[0], got[pts[0]].tolist(), want[pts[0]].tolist()))
        return out
    out['points'] = int(len(want))
    out['entries'] = int((~bad).sum())
    # ---- second spelling of the same call (operators, Array methods) must give the same function
    n = root
    try:
        with warnings.catch_warnings():
            warnings.simplefilter('ignore')
            alt = ops.apply_alt(n['op'], n['p'], [objs[d - 1] for d in ops.seq(n['d'])])
    except Exception as ex:
        alt = None
        if not unsupported(ex):
            out.update(status='violation', key=key_for(nodes, len(nodes), 'alt-spelling:build-exception:' + type(ex).__name__),
                       what='operator/method spelling of {} raises {}: {}'.format(out['expr'], type(ex).__name__, str(ex)[:120]))
            return out
    if alt is not None and isinstance(alt, function.Array):
        if tuple(alt.shape) != tuple(objs[-1].shape) or alt.dtype != objs[-1].dtype:
            out.update(status='violation', key=key_for(nodes, len(nodes), 'alt-spelling:shape-dtype'), what='operator/method spelling of {} has shape {} dtype {}'.format(out['expr'], alt.shape, alt.dtype))
            return out
        try:
            got2 = evaluate(alt)
        except Exception as ex:
            out.update(status='violation', key=key_for(nodes, len(nodes), 'alt-spelling:eval-exception:' + type(ex).__name__), what='operator/method spelling of {} fails to evaluate: {!r}'.format(out['expr'], ex))
            return out
        if not same_values(want, bad, got2, root['dt']):
            out.update(status='violation', key=key_for(nodes, len(nodes), 'alt-spelling:value'), what='operator/method spelling of {} evaluates differently'.format(out['expr']))
            return out
        out['alt'] = True
    return out


# ---------------------------------------------------------------------------

def canon(e):
    return json.dumps([[n['op'], n['d'], n['p']] for n in e['nodes']], sort_keys=True, separators=(',', ':'))


def point_dependent(e):
    return any(n['op'] == 'leaf' and n['p'] in ('X', 'EX', 'BX', 'Y', 'EY') for n in e['nodes'])


def collect(res, tables, progs):
    for e in res.emitted:
        if e['kind'] == 'table':
            tables[e['smp']] = e
        else:
            e['nodes'] = ops.seq(e['nodes'])
            e['root'] = ops.seq(e['root'])
            progs.setdefault((e['smp'], canon(e)), e)


def spec_mutant(rep):
    """non-vacuity of the model's own laws: the promotion mutant (true_divide keeps the operand kind) must violate KindLaw"""
    fams = [fam('mutant', '{"true_divide", "add"}', S('ai2', 'EX', 'af2'), [LINEG])]
    res = run_builder('c07-mutant', fams, mutant=True)
    rep.add_tlc(res)
    if res.violated != 'KindLaw':
        raise RuntimeError('spec mutant (WrongPromotion) is not caught by the KindLaw invariant: TLC reports {}'.format(res.violated))
    rep.extra['spec_mutant'] = 'WrongPromotion violates KindLaw after {} states'.format(res.distinct)


def run(rep):
    global _WORLD
    rng = random.Random(rep.seed)
    quick = rep.tier == 'quick'
    tables, progs = {}, {}
    fams = quick_families() + ([] if quick else thorough_extra())
    only = os.environ.get('VF_C07_FAMILIES')       # development aid: restrict to some families
    if only:
        fams = [f for f in fams if f['name'] in only.split(',')]
    results = {}

    def bfs():
        results['bfs'] = run_builder('c07-bfs', fams, timeout=1500)

    def mutant():
        spec_mutant(rep)

    nsim = 3 if quick else 12

    def sim(i):
        results['sim', i] = run_builder('c07-sim{}'.format(i), [SIM_FAMILY], simulate=60 if quick else 1500, depth=10, seed=rep.seed * 100 + 7 + i, emitmin=2, timeout=60 if quick else 500)

    errors = []

    def guard(t):
        def f():
            try:
                t()
            except BaseException as ex:
                errors.append(ex)
        return f
    threads = [threading.Thread(target=guard(bfs))] + [threading.Thread(target=guard(lambda i=i: sim(i))) for i in range(nsim)] + [threading.Thread(target=guard(mutant))]
    for t in threads:
        t.start()
    for t in threads:
        t.join()
    if errors:
        raise errors[0]
    res = results['bfs']
    if res.violated:
        raise tlc.TLCError('FuncBuilder/NumpySem internal law {} violated:\n{}'.format(res.violated, '\n'.join(res.error_trace[:60])))
    rep.add_tlc(res, exhaustive=True)
    collect(res, tables, progs)
    nbfs = len(progs)
    for i in range(nsim):
        r = results['sim', i]
        if r.violated:
            raise tlc.TLCError('FuncBuilder/NumpySem internal law {} violated in simulation:\n{}'.format(r.violated, '\n'.join(r.error_trace[:60])))
        rep.add_tlc(r, exhaustive=False)
        collect(r, tables, progs)
    rep.lap('TLC: {} exhaustive + {} simulated behaviours'.format(nbfs, len(progs) - nbfs))
    # vacuity guard (TLC's -coverage is pathologically slow on this recursion-heavy spec, so the guard is computed from the
    # emitted behaviours): every call of the vocabulary produced a value at least once, every shape-checking call a REJECT
    seen = {}
    for e in progs.values():
        r = e['nodes'][-1]
        seen.setdefault(r['op'], set()).add('value' if r['dt'] in 'bifc' else r['dt'])
    rep.actions.update({op: sum(1 for e in progs.values() if e['nodes'][-1]['op'] == op) for op in seen})
    if not only:
        missing = [op for op in ALL_CALLS if 'value' not in seen.get(op, ())] + [op + ':REJECT' for op in REJECTING_CALLS if 'REJECT' not in seen.get(op, ())]
        if missing:
            raise RuntimeError('vacuous: calls never generated by the FuncBuilder machine: {}'.format(missing))
    if sorted(tables) != [1, 2, 3, 4, 5, 6]:
        raise RuntimeError('sample tables missing: {}'.format(sorted(tables)))
    _WORLD = World(tables)
    bind_samples(_WORLD, rep)
    # ---- selection: a program without point-dependent leaves has the same model value on every sample; in the quick tier it is
    # replayed on one of its samples (chosen by hash), point-dependent programs on all of theirs
    items = []
    bykey = {}
    for (smp, c), e in sorted(progs.items()):
        bykey.setdefault(c, []).append(e)
    for c, es in sorted(bykey.items()):
        if quick and not point_dependent(es[0]) and len(es) > 1:
            h = int(hashlib.sha1((c + str(rep.seed)).encode()).hexdigest(), 16)
            prod = [e for e in es if e['smp'] in (PRODYX, PRODXY)] or es
            items.append(prod[h % len(prod)] if h % 3 else es[h % len(es)])
        else:
            items.extend(es)
    rng.shuffle(items)
    outs = exprs.pmap(replay, items, chunksize=16)
    rep.lap('replayed {} behaviours'.format(len(items)))
    bugs = []
    nsamples = set()
    for e, o in zip(items, outs):
        if 'harness_error' in o:
            raise RuntimeError(o['harness_error'])
        if o['status'] == 'modelbug':
            bugs.append((o['expr'], o['what']))
            continue
        nops = sum(1 for n in e['nodes'] if n['op'] != 'leaf')
        sig = (canon(e), e['smp'])
        if o['status'] == 'skip':
            rep.skip(o['why'])
            rep.case(sig, nontrivial=False)
            continue
        rep.case(sig, nontrivial=True)
        if o['status'] == 'violation':
            rep.violation(o['key'], o['what'], dict(expr=o['expr'], sample=o['smp'], program=e['nodes'], model=dict(shape=e['nodes'][-1]['sh'], kind=e['nodes'][-1]['dt'], why=e['why'], root=e['root'])))
            continue
        rep.traces += 1
        nsamples.add(e['smp'])
        if len(rep.samples) < 4 and nops >= 2 and point_dependent(e):
            rep.sample(dict(expr=o['expr'], sample=o['smp'], shape=e['nodes'][-1]['sh'], kind=e['nodes'][-1]['dt'], verdict='REJECT' if o.get('rejected') else 'value'))
    if bugs:
        raise RuntimeError('TLA+ model disagrees with real numpy on {} behaviours (MODEL bug, fix spec/NumpySem.tla), e.g.:\n{}'.format(
            len(bugs), '\n'.join('  {}: {}'.format(*b) for b in bugs[:25])))
    rep.extra['behaviours_exhaustive'] = nbfs
    rep.extra['behaviours_simulated'] = len(progs) - nbfs
    rep.extra['replayed'] = len(items)
    rep.extra['rejected_as_predicted'] = sum(1 for o in outs if o.get('rejected'))
    rep.extra['entries_compared'] = sum(o.get('entries', 0) for o in outs)
    rep.extra['alt_spellings_checked'] = sum(1 for o in outs if o.get('alt'))
    rep.extra['samples_used'] = sorted(SAMPLE_NAMES[s] for s in nsamples)
    rep.constants['families'] = [f['name'] for f in fams] + ['sim']
    rep.rule = ('cases = (behaviour of the FuncBuilder TLA+ machine, sample); non-trivial = the model defines a verdict that is demanded of the code '
                '(value or REJECT) and the call is implemented by nutils')
    rep.assumptions += ['reference = spec/NumpySem.tla, cross-checked against the installed numpy {} on plain ndarrays for every behaviour'.format(numpy.__version__),
                        'only the element kind (bool/int/real/complex) is compared, never the bit width',
                        'model values undefined (division by zero, irrational roots, out-of-range run-time indices, |n| > 20000) are never judged',
                        'discontinuous calls on inexact float data are not judged (rounding)',
                        'calls nutils does not dispatch (TypeError from NEP-13/18, NotImplementedError, declared complex restrictions) are skipped and counted',
                        'transcendental ufuncs and eig are outside the exact model']
