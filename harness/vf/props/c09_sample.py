"""C09 part 1: the sample algebra.  Real base samples (the leaves of spec/SampleAlg.tla), the table exported from them
for TLC, and the S->C replay of the nestings TLC generates.

Every TLC state is one nesting of sample operations with the model's predictions: number of elements and points,
getindex of every element, and the denotation (the points of every element as references to base points, with the
base points whose weight is a factor of the point's weight).  The nesting is rebuilt from the real base samples through
the public operations (+, *, take_elements, subset, zip) and compared:
  nelems, npoints, getindex(i) for every i (as sets for zipped samples, whose within-element order is unspecified),
  sample.eval([element index, local coordinates] of every space) row by row at the positions the model's index
  advertises, and sample.integrate(f) against the sum over the model's points of (product of the referenced real
  weights) x f(referenced real coordinates), for a polynomial f in all element indices and coordinates and for
  the vector of all of them.
"""

import traceback
import warnings

import numpy

RTOL = 1e-12

KIND_OF_CLASS = {'_DefaultIndex': 'plain', '_CustomIndex': 'custom', '_Empty': 'empty', '_Add': 'add', '_Mul': 'mul',
                 '_TakeElements': 'take', '_Zip': 'zip'}


class World:
    """topologies, base samples and leaves; built once in the parent process"""


W = None


def _points(coords, weights):
    from nutils import points, types
    return points.CoordsWeightsPoints(types.arraydata(numpy.asarray(coords, dtype=float)), types.arraydata(numpy.asarray(weights, dtype=float)))


def build_world():
    """the real leaves.  Synthetic bases carry small integer coordinates and weights (all arithmetic exact), real ones
    are gauss samples of (trimmed) topologies and a located sample with weights."""
    global W
    from nutils import mesh
    from nutils.sample import Sample
    from nutils.pointsseq import PointsSequence
    w = World()
    tX, gX = mesh.line(6, space='X')
    tY, gY = mesh.line(3, space='Y')
    tZ, gZ = mesh.rectilinear([1, 2], space='Z')
    w.topo = dict(X=tX, Y=tY, Z=tZ)
    w.geom = dict(X=gX, Y=gY, Z=gZ)
    w.ndims = dict(X=1, Y=1, Z=2)
    # per space: element index followed by the local coordinates
    w.func = {sp: numpy.stack([t.f_index] + [t.f_coords[d] for d in range(w.ndims[sp])]) for sp, t in w.topo.items()}
    w.bases = []      # dict(sp, sample, np, elem=[topology element], coords=[e][k] -> tuple, weights=[e][k])

    def items_recipe(n):
        return dict(k='items', p=list(range(1, n + 1)), u=[])

    def synthetic(sp, els, nps):
        b = len(w.bases) + 1
        nd = w.ndims[sp]
        coords = [[tuple(float(20 * b + 4 * e + k + 1 + 3 * d) for d in range(nd)) for k in range(n)] for e, n in enumerate(nps)]
        weights = [[float(1 + (b + e + 2 * k) % 4) for k in range(n)] for e, n in enumerate(nps)]
        topo = w.topo[sp]
        seq = PointsSequence.from_iter([_points(numpy.array(c).reshape(len(c), nd), wt) for c, wt in zip(coords, weights)], nd)
        smp = Sample.new(sp, (topo.transforms[numpy.array(els)],), seq)
        w.bases.append(dict(sp=sp, sample=smp, elem=list(els), items=list(zip(coords, weights)), recipe=items_recipe(len(nps)), how='synthetic'))
        return b

    def container(sp, els, itemdims, itemnps, recipe):
        """a synthetic base whose PointsSequence is built by the container operations of pointsseq.py from primitive point sets"""
        b = len(w.bases) + 1
        items = []
        for i, (nd, n) in enumerate(zip(itemdims, itemnps)):
            coords = [tuple(float(20 * b + 5 * i + k + 1 + 3 * d) for d in range(nd)) for k in range(n)]
            weights = [float(1 + (b + i + 2 * k) % 4) for k in range(n)]
            items.append((coords, weights))
        prim = [_points(numpy.array(c).reshape(len(c), nd), wt) for (c, wt), nd in zip(items, itemdims)]

        def mk(r):
            if r['k'] == 'items':
                return PointsSequence.from_iter([prim[i - 1] for i in r['p']], itemdims[r['p'][0] - 1])
            us = [mk(u) for u in r['u']]
            if r['k'] == 'take':
                return us[0].take(numpy.array(r['p'], dtype=int))
            if r['k'] == 'repeat':
                return us[0].repeat(r['p'][0])
            if r['k'] == 'chain':
                return us[0].chain(us[1])
            if r['k'] == 'product':
                return us[0].product(us[1])
            raise ValueError(r['k'])
        seq = mk(recipe)
        topo = w.topo[sp]
        smp = Sample.new(sp, (topo.transforms[numpy.array(els)],), seq)
        w.bases.append(dict(sp=sp, sample=smp, elem=list(els), items=items, recipe=recipe, how='container:' + type(seq).__name__))
        return b

    def real(sp, smp):
        topo = w.topo[sp]
        elem = [int(topo.transforms.index(t)) for t in smp.transforms[0]]
        items = [([tuple(float(x) for x in c) for c in smp.points.get(e).coords], [float(x) for x in smp.points.get(e).weights]) for e in range(smp.nelems)]
        w.bases.append(dict(sp=sp, sample=smp, elem=elem, items=items, recipe=items_recipe(smp.nelems), how='real:' + type(smp.points).__name__))
        return len(w.bases)

    def located(sp, xs, wts):
        # public route: Topology.locate with weights (-> Topology._sample); unit elements, so element = floor(x)
        topo = w.topo[sp]
        geom = w.geom[sp]
        xarr = numpy.array(xs, dtype=float)
        smp = topo.locate(geom, xarr if geom.ndim == 0 else xarr.reshape(len(xs), 1), eps=1e-10, weights=numpy.array(wts, dtype=float))
        ielems = [int(numpy.floor(x)) for x in xs]
        w.bases.append(dict(sp=sp, sample=smp, ielems=ielems, given=[((x - numpy.floor(x)),) for x in xs], givenw=list(map(float, wts)),
                            recipe=items_recipe(len(set(ielems))), how='located'))
        return len(w.bases)

    w.atoms = []

    def atom(name, kind, b=0, p=(), s=()):
        w.atoms.append(dict(name=name, kind=kind, b=b, p=list(p), s=list(s)))

    atom('A', 'plain', synthetic('X', [0, 1], [2, 1]))
    atom('C', 'plain', synthetic('X', [2], [2]))
    atom('B', 'plain', synthetic('Y', [0, 1], [1, 2]))
    atom('G', 'plain', synthetic('Y', [2], [2]))
    atom('D', 'plain', synthetic('Z', [0, 1], [1, 1]))
    atom('H', 'plain', synthetic('X', [3], [1]))
    atom('U', 'plain', synthetic('Y', [0, 1, 2], [1, 1, 1]))
    atom('L', 'located', located('Y', [1.5, 0.25, 1.75], [2, 1, 3]), p=[1, 0, 1])
    atom('M', 'located', located('X', [3.5, 0.125, 0.75, 2.5], [1, 2, 3, 4]), p=[3, 0, 0, 2])
    atom('R', 'plain', real('X', tX[1:3].sample('gauss', 3)))
    atom('T', 'plain', real('Z', tZ.trim(gZ[0] + gZ[1] - 1.25, maxrefine=0).sample('gauss', 1)))
    atom('V', 'plain', real('X', tX.trim(gX - 1.25, maxrefine=2).sample('gauss', 1)))
    atom('W', 'plain', synthetic('Y', [0, 1], [3, 2]))
    atom('AC', 'sum', p=[1, 2])
    atom('BG', 'sum', p=[3, 4])
    I = lambda *p: dict(k='items', p=list(p), u=[])
    atom('P', 'plain', container('X', [0, 1, 2, 3, 4, 5], [1, 1, 1, 1], [2, 1, 2, 3],
                                 dict(k='chain', p=[], u=[dict(k='repeat', p=[2], u=[I(1, 2)]), dict(k='take', p=[2, 0], u=[I(2, 3, 4)])])))
    atom('Q', 'plain', container('Z', [0, 1], [1, 1, 1], [2, 1, 2], dict(k='product', p=[], u=[I(1, 2), I(3)])))
    atom('Ac', 'custom', 1, p=[2, 0, 1])
    atom('Bc', 'custom', 3, p=[1, 2, 0])
    atom('EX', 'empty', s=['X'])
    atom('EY', 'empty', s=['Y'])
    for a in w.atoms:
        if a['kind'] == 'located':
            assert a['p'] == w.bases[a['b'] - 1]['ielems']
    w.atomsample = {}
    for a in w.atoms:
        if a['kind'] in ('plain', 'located'):
            smp = w.bases[a['b'] - 1]['sample']
        elif a['kind'] == 'custom':
            base = w.bases[a['b'] - 1]['sample']
            smp = Sample.new(base.space, base.transforms, base.points, numpy.array(a['p']))
        elif a['kind'] == 'sum':
            smp = w.bases[a['p'][0] - 1]['sample'] + w.bases[a['p'][1] - 1]['sample']
        else:
            smp = Sample.empty(tuple(a['s']), sum(w.ndims[s] for s in a['s']))
        w.atomsample[a['name']] = smp
    W = w
    return w


def table(w, start, operands):
    """what TLC gets: the structure of the live base samples"""
    bases = []
    for b in w.bases:
        smp = b['sample']
        np_ = [int(smp.points.get(e).npoints) for e in range(smp.nelems)]
        items = [len(c) for c, wt in b['items']] if 'items' in b else np_
        bases.append(dict(sp=b['sp'], np=np_, items=items, ps=b['recipe']))
    return dict(bases=bases, atoms=w.atoms, start=list(start), operands=list(operands))


def set_tables(w, atomtable, basetable):
    """the model's naming of the base points: basetable[b][e][k] = the primitive points <<item, k>> base point (b, e, k) is made
    of (container model); for located leaves reference (b, j, t) is the given point number slices[j][t]"""
    for row in atomtable:
        a = next(a for a in w.atoms if a['name'] == row['name'])
        if a['kind'] == 'located':
            b = w.bases[a['b'] - 1]
            uniq = sorted(set(b['ielems']))
            b['elem'] = uniq
            b['items'] = [([b['given'][pos] for pos in sl], [b['givenw'][pos] for pos in sl]) for sl in row['slices']]
            assert [b['ielems'][sl[0]] for sl in row['slices']] == uniq
    for b, tab in zip(w.bases, basetable):
        coords, weights = [], []
        for el in tab:
            cs_, ws_ = [], []
            for pairs in el:
                c, wt = (), 1.
                for item, k in pairs:
                    c = c + tuple(b['items'][item - 1][0][k])
                    wt *= b['items'][item - 1][1][k]
                cs_.append(c)
                ws_.append(wt)
            coords.append(cs_)
            weights.append(ws_)
        b['coords'], b['weights'] = coords, weights


# ---------------------------------------------------------------------------
# replay

def ops_key(o):
    return (o['o'], o['n'], tuple(o['a']), tuple(ops_key(u) for u in o['u']))


def ops_str(o):
    if o['o'] == 'atom':
        return o['n']
    if o['o'] in ('take', 'subset'):
        return '{}({},{})'.format(o['o'], ops_str(o['u'][0]), o['a'])
    return '{}({})'.format(o['o'], ','.join(ops_str(u) for u in o['u']))


def subops(o):
    for u in o['u']:
        yield u
        yield from subops(u)


def build(o):
    from nutils.sample import Sample
    if o['o'] == 'atom':
        return W.atomsample[o['n']]
    us = [build(u) for u in o['u']]
    if o['o'] == 'take':
        return us[0].take_elements(numpy.array(o['a'], dtype=int))
    if o['o'] == 'subset':
        mask = numpy.zeros(us[0].npoints, dtype=bool)
        mask[numpy.array(o['a'], dtype=int)] = True
        return us[0].subset(mask)
    if o['o'] == 'add':
        return us[0] + us[1]
    if o['o'] == 'mul':
        return us[0] * us[1]
    if o['o'] == 'zip':
        return Sample.zip(us[0], us[1])
    raise ValueError(o['o'])


def class_tree(smp):
    name = type(smp).__name__
    k = KIND_OF_CLASS.get(name, name)
    if k == 'custom':
        us = [smp._parent]
    elif k in ('add', 'mul'):
        us = [smp._sample1, smp._sample2]
    elif k == 'take':
        us = [smp._parent]
    elif k == 'zip':
        us = list(smp._samples)
    else:
        us = []
    return dict(k=k, u=[class_tree(u) for u in us])


def has_kind(cls, k):
    return cls['k'] == k or any(has_kind(u, k) for u in cls['u'])


def exc_key(e):
    """root-cause signature of an exception raised by nutils: the innermost frame inside nutils/sample.py"""
    where = None
    tb = e.__traceback__
    while tb is not None:
        fr = tb.tb_frame
        fn = fr.f_code.co_filename
        if fn.endswith('nutils/sample.py') or fn.endswith('nutils/pointsseq.py') or fn.endswith('nutils/points.py'):
            q = getattr(fr.f_code, 'co_qualname', fr.f_code.co_name).split('.<locals>')[0]
            slf = fr.f_locals.get('self')
            where = (q, type(slf).__name__ if slf is not None else '')
        tb = tb.tb_next
    if where is None:
        return 'raises:{}'.format(type(e).__name__)
    q, cls = where
    if isinstance(e, NotImplementedError) and q in ('Sample.get_lower_args', 'Sample.get_evaluable_weights', 'Sample.get_evaluable_indices'):
        return 'unsupported:{}:element-wise-access'.format(cls)
    return 'raises:{}'.format(q)


def expected_rows(beh):
    """position -> (values of all function columns, weight) according to the model and the real base data"""
    rows = [None] * beh['npoints']
    wts = [None] * beh['npoints']
    for ix, el in zip(beh['index'], beh['elems']):
        for pos, pt in zip(ix, el):
            vals = []
            wt = 1.
            for (b, e, k, m) in pt:
                base = W.bases[b - 1]
                vals.append(float(base['elem'][e]))
                vals.extend(base['coords'][e][k])
                if m:
                    wt *= base['weights'][e][k]
            rows[pos] = vals
            wts[pos] = wt
    ncols = sum(1 + W.ndims[sp] for sp in beh['spaces'])
    return numpy.array(rows, dtype=float).reshape(beh['npoints'], ncols), numpy.array(wts, dtype=float)


def integrand(spaces):
    """a polynomial in all element indices and coordinates: product over the spaces of (1 + idx + 2 x0 [+ 3 x1])"""
    f = 1.
    for sp in spaces:
        F = W.func[sp]
        t = 1. + F[0]
        for d in range(W.ndims[sp]):
            t = t + (2. + d) * F[1 + d]
        f = f * t
    return f


def integrand_values(spaces, rows):
    val = numpy.ones(len(rows))
    c = 0
    for sp in spaces:
        t = 1. + rows[:, c]
        for d in range(W.ndims[sp]):
            t = t + (2. + d) * rows[:, c + 1 + d]
        val = val * t
        c += 1 + W.ndims[sp]
    return val


def close(a, b):
    a = numpy.asarray(a, dtype=float)
    b = numpy.asarray(b, dtype=float)
    return a.shape == b.shape and bool(numpy.all(numpy.abs(a - b) <= RTOL * (1 + numpy.abs(b))))


def replay(beh):
    """replay one TLC state; returns dict(fails=[(key, what, data)], structure_same=bool)"""
    with warnings.catch_warnings():
        warnings.simplefilter('ignore')
        return _replay(beh)


def _replay(beh):
    out = dict(fails=[], structure_same=None, label=ops_str(beh['ops']))
    fails = out['fails']
    spaces = beh['spaces']

    def fail(key, what, **data):
        fails.append((key, '{}: {}'.format(out['label'], what), dict(ops=out['label'], **data)))

    try:
        smp = build(beh['ops'])
    except Exception as e:
        fail('build:' + exc_key(e), 'building the sample raised {!r}'.format(e), trace=traceback.format_exc()[-1500:])
        return out
    top = type(smp).__name__
    out['structure_same'] = class_tree(smp) == beh['cls']
    if tuple(smp.spaces) != tuple(spaces):
        fail('spaces:' + top, 'spaces are {} but the model has {}'.format(smp.spaces, spaces))
        return out
    if smp.nelems != beh['nelems'] or smp.npoints != beh['npoints']:
        fail('size:' + top, 'nelems, npoints = {}, {} but the model has {}, {}'.format(smp.nelems, smp.npoints, beh['nelems'], beh['npoints']))
        return out
    # ---- the index
    zipped = has_kind(beh['cls'], 'zip')
    try:
        index = [numpy.asarray(smp.getindex(i)) for i in range(smp.nelems)]
        index2 = [numpy.asarray(ix) for ix in smp.index]
    except Exception as e:
        fail('getindex:' + exc_key(e), 'getindex raised {!r}'.format(e))
        return out
    for i, (got, got2, want) in enumerate(zip(index, index2, beh['index'])):
        same = (sorted(got.tolist()) == sorted(want)) if zipped else (got.tolist() == list(want))
        if not same or got2.tolist() != got.tolist() or got.ndim != 1:
            fail('getindex:' + top, 'getindex({}) = {} but the model has {}'.format(i, got.tolist(), list(want)), i=i, got=got.tolist(), want=list(want))
            return out
    if zipped:
        # within an element of a zipped sample the order is unspecified: use the real one (checked to be the same set)
        beh = dict(beh, index=[ix.tolist() for ix in index], elems=[[el[list(want).index(p)] for p in ix.tolist()] for ix, want, el in zip(index, beh['index'], beh['elems'])])
    rows, wts = expected_rows(beh)
    F = numpy.concatenate([W.func[sp] for sp in spaces]) if spaces else None
    # ---- evaluation reports the points in the order the index advertises
    try:
        got = smp.eval(F)
    except Exception as e:
        fail(('eval:' if not isinstance(e, NotImplementedError) else '') + exc_key(e), 'eval raised {!r}'.format(e), canbind=beh['canbind'])
        got = None
    if got is not None:
        if got.shape != rows.shape:
            fail('eval-shape:' + top, 'eval returned shape {} for {} points and {} functions'.format(got.shape, beh['npoints'], rows.shape[1]))
        elif not close(got, rows):
            bad = [int(p) for p in numpy.nonzero(numpy.abs(got - rows).max(axis=1) > RTOL * (1 + numpy.abs(rows).max(axis=1)))[0]]
            fail('eval-order:' + top, 'eval differs from the points the index advertises at positions {}'.format(bad[:6]),
                 got=got.tolist(), want=rows.tolist())
    # ---- integration is quadrature of the point evaluation
    f = integrand(spaces)
    fval = integrand_values(spaces, rows)
    want_scalar = float((wts * fval).sum()) if len(rows) else 0.
    want_vector = (wts[:, None] * rows).sum(axis=0) if len(rows) else numpy.zeros(rows.shape[1])
    try:
        iscalar, ivector = smp.integrate([f, F])
    except Exception as e:
        fail(('integrate:' if not isinstance(e, NotImplementedError) else '') + exc_key(e), 'integrate raised {!r}'.format(e), canint=beh['canint'])
        iscalar = None
    if iscalar is not None:
        if not close(iscalar, want_scalar) or not close(ivector, want_vector):
            fail('integrate:' + top, 'integrate gives {} and {} but the sum over the points of weight x value is {} and {}'.format(
                float(iscalar), numpy.asarray(ivector).tolist(), want_scalar, want_vector.tolist()))
        elif got is not None and len(rows) and not close(iscalar, float((wts * integrand_values(spaces, got)).sum())):
            fail('integrate-vs-eval:' + top, 'integrate differs from (weights * eval).sum()')
    return out
