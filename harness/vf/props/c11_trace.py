"""C11 part 3 (C->S): observations recorded from real topologies, validated by spec/TraceTopo.tla.

 "seq" cases    the Transforms nesting a topology operation actually produced is read off the real
                object (class by class) as a TransformSeq expression, together with self[i], a set of
                index_with_tail results, f_index / f_coords on a sample and, for interfaces of
                unstructured meshes, the element geometries and both chains of every interface.
 "locate" cases targets built exactly from (element, dyadic local point) through the element
                geometry, and what locate() returned for them (or that it raised).
TLC evaluates the model on the recorded expression and decides every clause.
"""

import json
import os

import numpy

from .. import tlc
from . import c11_items as ci

SCALE = 4096
WORKROOT = os.path.join(tlc.WORK, 'c11')
REFS = [[], [1], [2], [3], [1, 1], [2, 1], [1, 2], [1, 1, 1]]


class Skip(Exception):
    pass


def mkexpr(k, p=(), q=(), u=()):
    return dict(k=k, p=[int(v) for v in p], q=[[int(v) for v in a] for a in q], u=list(u))


def ref_to_dims(reference):
    name = type(reference).__name__
    if name == 'PointReference':
        return []
    if name == 'LineReference':
        return [1]
    if name == 'TriangleReference':
        return [2]
    if name == 'TetrahedronReference':
        return [3]
    if name == 'TensorReference':
        return ref_to_dims(reference.ref1) + ref_to_dims(reference.ref2)
    raise Skip('reference {} has no name in the model'.format(name))


def _default_ref(n):
    return [n] if n else []


def to_expr(seq, refs):
    """TransformSeq expression of a real Transforms object; refs = reference (dims) of every element"""
    from nutils import transform
    name = type(seq).__name__
    refs = [list(r) for r in refs]
    if len(refs) != len(seq):
        raise Skip('references do not match the sequence')
    if name == 'IndexTransforms':
        return mkexpr('index', [seq.fromdims, len(seq), seq._offset], refs)
    if name == 'StructuredTransforms':
        n = len(seq._axes)
        if seq._root != transform.Index(n, 0):
            raise Skip('structured root is not Index(naxes, 0)')
        axes = [[a.i, a.j, a.mod, 1, int(a.isperiodic), 0, 0] if a.isdim else [a.i, a.j, a.mod, 0, 0, a.ibound, int(a.side)] for a in seq._axes]
        return mkexpr('struct', [seq._nrefine], axes)
    if name == 'MaskedTransforms':
        parent = seq._parent
        prefs = [_default_ref(parent.fromdims)] * len(parent)
        for k, i in enumerate(seq._indices):
            prefs[int(i)] = refs[k]
        return mkexpr('masked', seq._indices, (), [to_expr(parent, prefs)])
    if name == 'ReorderedTransforms':
        parent = seq._parent
        prefs = [None] * len(parent)
        for k, i in enumerate(seq._indices):
            prefs[int(i)] = refs[k]
        return mkexpr('reorder', seq._indices, (), [to_expr(parent, prefs)])
    if name == 'UniformDerivedTransforms':
        parent = seq._parent
        derived = tuple(seq._derived_transforms)
        for d in REFS:
            if sum(d) != parent.fromdims:
                continue
            r = ci.ref(d)
            if tuple(r.child_transforms) == derived:
                return mkexpr('derived', [0], (), [to_expr(parent, [d] * len(parent))])
            if d and tuple(r.edge_transforms) == derived:
                return mkexpr('derived', [1], (), [to_expr(parent, [d] * len(parent))])
        raise Skip('derived transforms of an unknown reference')
    if name == 'DerivedTransforms':
        parent = seq._parent
        prefs = [ref_to_dims(r) for r in seq._parent_references]
        return mkexpr('derived', [parent.fromdims - seq.fromdims], (), [to_expr(parent, prefs)])
    if name == 'ChainedTransforms':
        out, pos = [], 0
        for item in seq._items:
            out.append(to_expr(item, refs[pos:pos + len(item)]))
            pos += len(item)
        return mkexpr('chained', (), (), out)
    raise Skip('{} has no name in the model'.format(name))


def scaled(a):
    return [[int(round(float(v) * SCALE)) for v in row] for row in numpy.asarray(a, dtype=float).reshape(len(a), -1)]


def geometry_table(topo, geom, arguments=None):
    """exact affine geometry of every element of topo (raises Skip if not affine / not dyadic)"""
    smp = topo.sample('bezier', 2)
    x = numpy.asarray(smp.eval(geom, arguments=arguments))
    table = []
    for i in range(len(topo)):
        pts = numpy.asarray(smp.points[i].coords, dtype=float)
        xi = x[smp.getindex(i)]
        n = pts.shape[1]
        A = numpy.concatenate([pts, numpy.ones((len(pts), 1))], axis=1)
        sol, res, rank, sv = numpy.linalg.lstsq(A, xi, rcond=None)
        if rank < n + 1 or abs(A @ sol - xi).max() > 1e-12:
            raise Skip('geometry is not affine on element {}'.format(i))
        lin, off = sol[:n].T, sol[n]
        q = numpy.round(numpy.concatenate([lin.ravel(), off]) * 1024) / 1024
        if abs(q - numpy.concatenate([lin.ravel(), off])).max() > 1e-12:
            raise Skip('geometry is not dyadic')
        from fractions import Fraction
        m = len(off)
        Am = [[Fraction(float(q[r * n + c])) for c in range(n)] for r in range(m)]
        bm = [Fraction(float(v)) for v in q[m * n:]]
        table.append(ci.model_map((Am, bm, m, n)))
    return table


_tails = {}


def all_tails(refdims, n):
    """all chains (abstract) of at most n child / edge items starting at the reference"""
    key = (tuple(refdims), n)
    if key not in _tails:
        out = [[]]
        if n:
            for c in ci.children(refdims):
                out += [[c] + t for t in all_tails(refdims, n - 1)]
            for e in ci.edges(refdims):
                out += [[e] + t for t in all_tails(ci.edge_from_ref(refdims, ci.edge_factor(e)), n - 1)]
        _tails[key] = out
    return _tails[key]


def tails_for(refdims, rng, nlong=3):
    short = all_tails(refdims, 1)
    longer = [t for t in all_tails(refdims, 2) if len(t) == 2]
    longer = rng.sample(longer, min(nlong, len(longer)))
    return [ci.chain_to_real(t) for t in short + longer]


def seq_case(name, topo, rng, base=None, geom=None, max_elems=10):
    refs = [ref_to_dims(r) for r in topo.references]
    seq = topo.transforms
    expr = to_expr(seq, refs)
    try:
        chains = [ci.chain_to_abs(c) for c in seq]
    except ci.Unrepresentable as e:
        raise Skip(str(e))
    n = len(seq)
    elems = list(range(n)) if n <= max_elems else sorted(rng.sample(range(n), max_elems))
    obs = []
    for i in elems:
        chain = tuple(seq[i])
        for tail in tails_for(refs[i], rng):
            rec = dict(i=i, tail=ci.chain_to_abs(tail), ridx=-1, rtail=[])
            try:
                idx, rest = seq.index_with_tail(chain + tail)
            except Exception as e:
                rec['exc'] = repr(e)
            else:
                rec['ridx'] = int(idx)
                try:
                    rec['rtail'] = ci.chain_to_abs(rest)
                except ci.Unrepresentable:
                    rec['rtail'] = [ci.X(0, 999)]    # never the same map as a tail
            obs.append(rec)
    smp = topo.sample('gauss', 2)
    index, coords = smp.eval([topo.f_index, topo.f_coords])
    index, coords = numpy.asarray(index), numpy.asarray(coords)
    findex, fcoords, points = [], [], []
    for i in range(n):
        sel = smp.getindex(i)
        findex.append(sorted(set(int(v) for v in index[sel])))
        fcoords.append(scaled(coords[sel][:2]))
        points.append(scaled(numpy.asarray(smp.points[i].coords)[:2]))
    case = dict(kind='seq', name=name, expr=expr, chains=chains, obs=obs, findex=findex, fcoords=fcoords, points=points, geomtab=[], ifaces=[],
                bexpr=mkexpr('none'), bindex=[], bcoords=[])
    if base is not None and base is not topo:
        try:
            bexpr = to_expr(base.transforms, [ref_to_dims(r) for r in base.references])
            bi, bc = smp.eval([base.f_index, base.f_coords])
            bi, bc = numpy.asarray(bi), numpy.asarray(bc)
            case['bexpr'] = bexpr
            case['bindex'] = [sorted(set(int(v) for v in bi[smp.getindex(i)])) for i in range(n)]
            case['bcoords'] = [scaled(bc[smp.getindex(i)][:2]) for i in range(n)]
        except Skip:
            pass
    if base is not None and type(base.transforms).__name__ == 'IndexTransforms' and base.transforms._offset == 0 and topo.opposites is not topo.transforms:
        try:
            case['geomtab'] = geometry_table(base, geom)
            case['ifaces'] = [dict(t=ci.chain_to_abs(t), o=ci.chain_to_abs(o)) for t, o in zip(topo.transforms, topo.opposites)]
        except (Skip, ci.Unrepresentable):
            case['geomtab'], case['ifaces'] = [], []
    return case


def derived_topologies(d):
    """(name, thunk) for the topologies reached from d by the public operations"""
    n = len(d)
    picks = [0, 2] if n > 2 else [0]
    return [
        ('vol', lambda: d), ('bnd', lambda: d.boundary), ('ifc', lambda: d.interfaces), ('ifc.opp', lambda: ~d.interfaces),
        ('ref', lambda: d.refined), ('ref.bnd', lambda: d.refined.boundary), ('ref.ifc', lambda: d.refined.interfaces),
        ('ref.ifc.opp', lambda: ~d.refined.interfaces), ('bnd.ref', lambda: d.boundary.refined),
        ('bnd.left', lambda: d.boundary['left']), ('take', lambda: d.take(picks)), ('take.bnd', lambda: d.take(picks).boundary),
        ('hier', lambda: d.refined_by([0])), ('hier.bnd', lambda: d.refined_by([0]).boundary), ('hier.ifc', lambda: d.refined_by([0]).interfaces),
        ('hier.ref', lambda: d.refined_by([0]).refined), ('union', lambda: d.take([0]) | d.take(picks[1:] + [n - 1] if n > 3 else [n - 1])),
        ('ref.ref.bnd', lambda: d.refined.refined.boundary), ('bnd.bnd', lambda: d.boundary.boundary),
    ]


def base_meshes(tier):
    from nutils import mesh
    out = []
    for et in ('triangle', 'mixed') if tier == 'quick' else ('triangle', 'mixed', 'square'):
        out.append(('unitsquare2-' + et, ) + tuple(mesh.unitsquare(2, et)))
    out.append(('rect3x2p', ) + tuple(mesh.rectilinear([numpy.linspace(0, 3, 4), numpy.linspace(0, 1, 3)], periodic=[0])))
    out.append(('line4', ) + tuple(mesh.rectilinear([numpy.linspace(0, 2, 5)])))
    if tier != 'quick':
        out.append(('unitsquare3-mixed', ) + tuple(mesh.unitsquare(3, 'mixed')))
        out.append(('unitsquare3-triangle', ) + tuple(mesh.unitsquare(3, 'triangle')))
        out.append(('cube211', ) + tuple(mesh.rectilinear([numpy.linspace(0, 2, 3), numpy.linspace(0, 1, 2), numpy.linspace(0, 1, 2)])))
        try:
            out.append(tets())
        except Exception:
            pass
    return out


def tets():
    """two tetrahedra sharing a face"""
    from nutils import mesh
    coords = numpy.array([[0, 0, 0], [1, 0, 0], [0, 1, 0], [0, 0, 1], [1, 1, 1]], dtype=float)
    simplices = numpy.array([[0, 1, 2, 3], [1, 2, 3, 4]])
    d, g = mesh.simplex(simplices, simplices, coords, {}, {}, {})
    return ('tets2', d, g)


def seq_cases(rep, rng):
    cases = []
    for mname, d, g in base_meshes(rep.tier):
        for name, thunk in derived_topologies(d):
            full = mname + ':' + name
            try:
                topo = thunk()
                if len(topo) == 0:
                    raise Skip('empty')
            except Skip as e:
                rep.skip('trace: ' + str(e))
                continue
            except Exception as e:
                rep.skip('trace: topology operation not available ({})'.format(type(e).__name__))
                continue
            try:
                cases.append(seq_case(full, topo, rng, base=d, geom=g, max_elems=4 if rep.tier == 'quick' else 16))
            except Skip as e:
                rep.skip('trace: ' + str(e))
    return cases


# ---------------------------------------------------------------------------
# locate

LOCAL = [0.0, 0.25, 0.5, 0.75, 1.0]


def local_points(refdims, rng):
    """a dyadic point of the reference (vertices, edges and interior all occur)"""
    p = []
    for n in refdims:
        while True:
            q = [rng.choice(LOCAL) for _ in range(n)]
            if sum(q) <= 1 or n == 1:
                break
        p += q
    return p


def locate_case(name, topo, geom, rng, outside, kwargs, ntargets=6, arguments=None):
    from nutils import topology
    table = geometry_table(topo, geom, arguments)
    refs = [ref_to_dims(r) for r in topo.references]
    targets = []
    seen = set()
    while len(targets) < ntargets:
        i = rng.randrange(len(topo))
        p = local_points(refs[i], rng)
        x = ci.apply_model_map(table[i], [p])[0]
        key = tuple(numpy.round(x * SCALE).astype(int))
        if key in seen:
            continue
        seen.add(key)
        targets.append(x)
    rng.shuffle(targets)
    targets = numpy.array(targets)
    if outside:
        allx = numpy.concatenate([ci.apply_model_map(G, numpy.concatenate([numpy.zeros((1, G['n'])), numpy.eye(G['n'])])) for G in table])
        k = rng.randrange(len(targets))
        targets[k] = allx.max(axis=0) + 0.5
    tolv = kwargs.get('tol', 0)
    case = dict(kind='locate', name=name, geomtab=table, refs=refs, targets=scaled(targets), tol=int(round(tolv * SCALE)),
                raised=False, allinside=not outside, res=[], kwargs={k: float(v) for k, v in kwargs.items()})
    try:
        smp = topo.locate(geom, targets, arguments=arguments, **kwargs)
    except topology.LocateError:
        case['raised'] = True
        return case
    idx, p, x = smp.eval([topo.f_index, topo.f_coords, geom], arguments=arguments)
    case['res'] = [dict(i=int(i), p=scaled([pp])[0], x=scaled([xx])[0]) for i, pp, xx in zip(numpy.asarray(idx), numpy.asarray(p), numpy.asarray(x))]
    return case


def locate_cases(rep, rng):
    from nutils import mesh
    cases, fails = [], []
    metas = []
    sq, gsq = mesh.rectilinear([numpy.linspace(0, 2, 3), numpy.linspace(0, 1, 3)])
    ln, gln = mesh.rectilinear([numpy.linspace(-1, 1, 5)])
    tri, gtri = mesh.unitsquare(2, 'triangle')
    mix, gmix = mesh.unitsquare(2, 'mixed')
    shear = numpy.array([[1, .5], [0, 1]])
    metas += [('struct2x2', sq, gsq), ('struct2x2-sheared', sq, shear @ gsq + numpy.array([1., -2.])), ('struct2x2.refined', sq.refined, gsq),
              ('struct2x2[1:,:]', sq[1:], gsq), ('line4', ln, gln), ('line4[1:3]', ln[1:3], gln), ('line4-flipped', ln, -2 * gln),
              ('triangle', tri, gtri), ('mixed', mix, gmix), ('mixed-sheared', mix, shear @ gmix), ('triangle.refined', tri.refined, gtri),
              ('mixed.take', mix.take([0, 1, 3]), gmix), ('triangle.hier', tri.refined_by([0, 3]), gtri), ('struct.hier', sq.refined_by([1]), gsq)]
    reps = 1 if rep.tier == 'quick' else 4
    for name, topo, geom in metas:
        for r in range(reps):
            for outside in (False, True):
                for kwargs in (dict(tol=2 ** -6), dict(eps=2 ** -20)):
                    if outside and 'eps' in kwargs and rep.tier == 'quick':
                        continue
                    full = '{}:{}:{}'.format(name, 'outside' if outside else 'inside', '+'.join(sorted(kwargs)))
                    try:
                        cases.append(locate_case(full, topo, geom, rng, outside, kwargs))
                    except Skip as e:
                        rep.skip('locate: ' + str(e))
                    except Exception as e:
                        fails.append(('locate:raises-{}'.format(type(e).__name__), 'locate on {} raised {!r}'.format(full, e), dict(name=full)))
    return cases, fails


# the argument values of spec/Locate.tla (ArgVals(2): scale in units of 1/2, offset in 1/128, shear in 1/2); c11.run checks
# that the 2-D behaviours TLC emits use exactly these maps
ARGVALS_2D = [dict(s=[2, 2], o=[0, 0], k=0), dict(s=[4, 4], o=[-64, -32], k=0), dict(s=[2, 2], o=[32, 0], k=0), dict(s=[-2, 2], o=[384, 0], k=0),
              dict(s=[2, 2], o=[0, 0], k=1), dict(s=[4, 2], o=[-64, 32], k=1)]


def locate_history_cases(rep, rng):
    """histories of the Locate model (one topology object, one argument dependent geometry object, a sequence of argument
    values) on simplex and mixed meshes: the generic search; every call is a "locate" case judged by TraceTopo with the
    element geometries evaluated at the arguments of that call"""
    from nutils import mesh, function
    cases, fails = [], []
    nhist = 2 if rep.tier == 'quick' else 12
    for n in range(nhist):
        for et in ('triangle', 'mixed'):
            topo, g = mesh.unitsquare(2, et)
            name = et
            if n % 3 == 1:
                topo, name = topo.refined_by([0, 3]), et + '.hier'
            elif n % 3 == 2:
                topo, name = topo.take([0, 1, 3]), et + '.take'
            stretch, shift, shear = function.Argument('stretch', (2,)), function.Argument('shift', (2,)), function.Argument('shear', ())
            y = g * stretch + shift
            geom = numpy.stack([y[0] + shear * y[1], y[1]])
            for k in range(3):
                m = rng.choice(ARGVALS_2D)
                arguments = dict(stretch=numpy.array(m['s']) / 2, shift=numpy.array(m['o']) / 128, shear=numpy.array(m['k'] / 2))
                outside = rng.random() < .25
                full = 'history{}:{}:call{}:s={},o={},k={}:{}'.format(n, name, k, m['s'], m['o'], m['k'], 'outside' if outside else 'inside')
                try:
                    cases.append(locate_case(full, topo, geom, rng, outside, dict(tol=2 ** -6) if k % 2 == 0 else dict(eps=2 ** -20), ntargets=4, arguments=arguments))
                except Skip as e:
                    rep.skip('locate: ' + str(e))
                except Exception as e:
                    fails.append(('locate:raises-{}'.format(type(e).__name__), 'locate on {} raised {!r}'.format(full, e), dict(name=full)))
    return cases, fails


# ---------------------------------------------------------------------------

def pad(case):
    """every case carries every field (TLC compares / accesses records uniformly)"""
    base = dict(kind='', name='', expr=mkexpr('none'), chains=[], obs=[], findex=[], fcoords=[], points=[], geomtab=[], ifaces=[],
                bexpr=mkexpr('none'), bindex=[], bcoords=[],
                refs=[], targets=[], tol=0, raised=False, allinside=True, res=[])
    out = dict(base)
    out.update({k: v for k, v in case.items() if k in base})
    for o in out['obs']:
        o.pop('exc', None)
    return out


def validate(cases, tag):
    """returns (verdicts in case order, TLC result)"""
    if not cases:
        return [], None
    os.makedirs(WORKROOT, exist_ok=True)
    path = os.path.join(WORKROOT, tag + '.json')
    with open(path, 'w') as f:
        json.dump([pad(c) for c in cases], f)
    res = tlc.run('TraceTopo', 'TraceTopo.cfg', tag='c11-' + tag, env=dict(VF_TRACE=path), deadlock=False, timeout=800, workers=8)
    if res.violated or len(res.emitted) != len(cases):
        raise RuntimeError('TraceTopo: {} verdicts for {} cases (violated={})'.format(len(res.emitted), len(cases), res.violated))
    return sorted(res.emitted, key=lambda v: v['id']), res
