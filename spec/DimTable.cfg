SPECIFICATION Spec
CONSTANT BaseOrd <- TblBaseOrd
CONSTRAINT Emit
INVARIANT ModelOK
INVARIANT TableOK
CHECK_DEADLOCK FALSE
