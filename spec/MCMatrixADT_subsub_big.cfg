\* thorough, exhaustive (2x2 matrices with 2..4 stored entries): all pairs of submatrix selections on one object (the submatrix cache)
SPECIFICATION Spec
CONSTANTS
  Forms = {"coo"}
  Shapes <- ShapesSub
  MinNnz = 2
  MaxNnz = 4
  WildM = 1
  WildN = 1
  WildCooN = 1
  WildNnz = 1
  BlockHeights = {0, 1}
  BlockWidths = {0, 1}
  MaxBlockRows = 1
  MaxBlockCols = 1
  MaxBlockNnz = 1
  Dtypes = {"f"}
  WildDtypes = {"f"}
  Ops = {"submatrix"}
  OpForms = {"coo"}
  MaxSteps = 2
  MaxE = 2
  StrictOrder = TRUE
  LowerBound = TRUE
  CacheCopies = TRUE
INVARIANT TypeOK
INVARIANT AcceptIffValid
INVARIANT ReasonsIffInvalid
INVARIANT BackendGetsValid
INVARIANT Faithful
INVARIANT FaithfulInput
INVARIANT CompressCorrect
INVARIANT BlockFaithful
INVARIANT PickleFaithful
INVARIANT CacheTransparent
INVARIANT StepsFaithful
INVARIANT Algebra
INVARIANT EmitBehaviours
CHECK_DEADLOCK FALSE
