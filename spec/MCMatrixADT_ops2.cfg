\* thorough, exhaustive: all sequences of two operations on the 2x2 matrices with three stored entries
SPECIFICATION Spec
CONSTANTS
  Forms = {"csr"}
  Shapes <- ShapesSq2
  MinNnz = 3
  MaxNnz = 3
  WildM = 1
  WildN = 1
  WildCooN = 1
  WildNnz = 1
  BlockHeights = {0, 1}
  BlockWidths = {0, 1}
  MaxBlockRows = 1
  MaxBlockCols = 1
  MaxBlockNnz = 1
  Dtypes = {"f", "c"}
  WildDtypes = {"f"}
  Ops = {"neg", "T", "scale", "div", "add", "sub", "submatrix", "pickle"}
  OpForms = {"csr"}
  MaxSteps = 2
  MaxE = 2
  StrictOrder = TRUE
  LowerBound = TRUE
  CacheCopies = TRUE
INVARIANT TypeOK
INVARIANT AcceptIffValid
INVARIANT ReasonsIffInvalid
INVARIANT BackendGetsValid
INVARIANT Faithful
INVARIANT FaithfulInput
INVARIANT CompressCorrect
INVARIANT BlockFaithful
INVARIANT PickleFaithful
INVARIANT CacheTransparent
INVARIANT StepsFaithful
INVARIANT Algebra
INVARIANT EmitBehaviours
CHECK_DEADLOCK FALSE
