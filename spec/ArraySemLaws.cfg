SPECIFICATION Spec
INVARIANT LawHolds
CHECK_DEADLOCK FALSE
