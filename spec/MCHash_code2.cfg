\* the code as written: type tag = __name__ (run with -continue; violations are the model-level findings)
SPECIFICATION Spec
CONSTANTS
  TagMode = "name"
  Level = 2
  ExtraClasses <- NoExtra
INVARIANT InUniverse
INVARIANT Judge
CONSTRAINT EmitValue
CHECK_DEADLOCK FALSE
