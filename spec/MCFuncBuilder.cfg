SPECIFICATION Spec
CONSTANTS
  Families <- DefaultFamilies
  EmitMin = 1
  EmitTables = TRUE
  WrongPromotion = FALSE
INVARIANT VerdictUniform
INVARIANT SizeLaw
INVARIANT BroadcastLaw
INVARIANT KindLaw
INVARIANT StructLaw
CONSTRAINT EmitAll
CHECK_DEADLOCK FALSE
