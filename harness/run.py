"""./check <ID> [--tier quick|thorough] [--replay PATH] [--selftest]"""
import argparse
import importlib
import os
import sys
import traceback


def main():
    ap = argparse.ArgumentParser()
    ap.add_argument('pid')
    ap.add_argument('--tier', default=os.environ.get('VERIF_TIER', 'quick'), choices=['quick', 'thorough'])
    ap.add_argument('--replay', default=None)
    ap.add_argument('--selftest', action='store_true')
    ap.add_argument('--seed', type=int, default=int(os.environ.get('VERIF_SEED', '0') or 0))
    a = ap.parse_args()
    pid = a.pid.upper()
    try:
        mod = importlib.import_module('vf.props.' + pid.lower())
    except ImportError:
        traceback.print_exc()
        print('no check implemented for', pid)
        return 2
    from vf.report import Report
    try:
        if a.selftest:
            return mod.selftest()
        if a.replay:
            return mod.replay(a.replay)
        rep = Report(pid, a.tier, a.seed, getattr(mod, 'LEVEL', 'model_checking'))
        mod.run(rep)
        return rep.finish()
    except SystemExit:
        raise
    except BaseException:
        traceback.print_exc()
        print('MACHINERY-FAILURE property={}'.format(pid))
        return 2


if __name__ == '__main__':
    sys.exit(main())
