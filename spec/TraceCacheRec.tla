---------------------------- MODULE TraceCacheRec ----------------------------
(***************************************************************************)
(* Trace validation for nutils.cache.Recursion against CacheRec.           *)
(* Events: the treelog.debug lines of Recursion.__iter__ (emitted under    *)
(* the item's flock), the resume generator's own notices (r_compute,       *)
(* r_raise), the consumer's observations (yield with the harness verdict   *)
(* "value and replayed log equal the uncached sequence", stop,             *)
(* consumer_stop), and the parent's notices (killed, corrupt).             *)
(* N (length of the true sequence) and H (recursion length) are the same   *)
(* for all traces of one batch and come from the environment.              *)
(***************************************************************************)
EXTENDS Naturals, Sequences, FiniteSets, TLC, Json, IOUtils

Traces == JsonDeserialize(IOEnv.VF_TRACE)
NT == Len(Traces)
MaxProcs == 10
TN == atoi(IOEnv.VF_N)
TH == atoi(IOEnv.VF_H)

VARIABLES tid, l, file, lockedBy, pc, idx, hist, exhausted, gen, cur, nbytes, pos, yielded, finished, crashes, runs, corrupts

C == INSTANCE CacheRec WITH Procs <- 1..MaxProcs, N <- TN, H <- TH, PLen <- 2, MaxCrash <- 1000, MaxRuns <- 1000,
                            MaxCorrupt <- 1000, CanRaise <- TRUE

svars == <<file, lockedBy, pc, idx, hist, exhausted, gen, cur, nbytes, pos, yielded, finished, crashes, runs, corrupts>>
E == Traces[tid].events
Killed == {Traces[tid].killed[i] : i \in 1..Len(Traces[tid].killed)}

TraceInit == tid \in 1..NT /\ l = 1 /\ C!Init

IsEvent(name) == l <= Len(E) /\ E[l].ev = name /\ l' = l + 1 /\ UNCHANGED tid
P == E[l].p
Remaining(p) == {i \in l..Len(E) : E[i].p = p /\ E[i].ev # "killed"}

TStart     == IsEvent("r_start") /\ C!Start(P)
TAcquiring == IsEvent("r_acquiring") /\ idx[P] = E[l].i /\ C!Open(P)
TAcquired  == IsEvent("r_acquired") /\ idx[P] = E[l].i /\ C!Lock(P)
TLoad      == IsEvent("r_load") /\ idx[P] = E[l].i /\ C!LoadOk(P)
TFailed    == (IsEvent("r_failed") \/ IsEvent("r_exhausted")) /\ idx[P] = E[l].i /\ C!LoadFail(P)
\* the generator says which item it is about to produce (k = N means StopIteration)
TCompute   == IsEvent("r_compute") /\ gen[P][1] = E[l].i /\ C!Compute(P)
TRaise     == IsEvent("r_raise") /\ C!ComputeRaise(P)
\* NB: Recursion logs "store" BEFORE pickle.dump (cache.py:390-391), unlike cache.function
TStore     == IsEvent("r_store") /\ idx[P] = E[l].i /\ pc[P] = "dump" /\ nbytes[P] = 0 /\ UNCHANGED svars
\* consumer got item i; ok = harness verdict on value and replayed log
TYield     == IsEvent("yield") /\ pc[P] = "yield" /\ Len(yielded[P]) = E[l].i + 1 /\ E[l].ok = TRUE /\ UNCHANGED svars
TStop      == IsEvent("stop") /\ pc[P] = "idle" /\ finished[P] /\ E[l].ok = TRUE /\ UNCHANGED svars
TConsStop  == IsEvent("consumer_stop") /\ C!ConsumerStop(P)
TRaised    == IsEvent("raised") /\ pc[P] = "idle" /\ UNCHANGED svars
TKilled    == IsEvent("killed") /\ pc[P] = "idle" /\ UNCHANGED svars
TCorrupt   == /\ IsEvent("corrupt") /\ lockedBy[E[l].i] = C!None
              /\ file' = [file EXCEPT ![E[l].i] = IF E[l].kind = "empty" THEN <<>> ELSE <<C!Garbage, C!Garbage, C!Garbage>>]
              /\ UNCHANGED <<lockedBy, pc, idx, hist, exhausted, gen, cur, nbytes, pos, yielded, finished, crashes, runs, corrupts>>

SDump  == \E p \in 1..MaxProcs : C!DumpByte(p) /\ UNCHANGED <<tid, l>>
SClose == \E p \in 1..MaxProcs : C!Close(p) /\ UNCHANGED <<tid, l>>
SNext  == \E p \in 1..MaxProcs : C!NextItem(p) /\ Remaining(p) # {} /\ UNCHANGED <<tid, l>>
SCrash == \E p \in Killed : Remaining(p) = {} /\ pc[p] # "idle" /\ C!Crash(p) /\ UNCHANGED <<tid, l>>

TraceNext == \/ TStart \/ TAcquiring \/ TAcquired \/ TLoad \/ TFailed \/ TCompute \/ TRaise \/ TStore
             \/ TYield \/ TStop \/ TConsStop \/ TRaised \/ TKilled \/ TCorrupt
             \/ SDump \/ SClose \/ SNext \/ SCrash

tvars == <<tid, l, file, lockedBy, pc, idx, hist, exhausted, gen, cur, nbytes, pos, yielded, finished, crashes, runs, corrupts>>
TraceSpec == TraceInit /\ [][TraceNext]_tvars

ASSUME TLCSet(2, [t \in 1..NT |-> 0])
Progress == TLCSet(2, [TLCGet(2) EXCEPT ![tid] = IF l > @ THEN l ELSE @])
Rejected == {t \in 1..NT : TLCGet(2)[t] # Len(Traces[t].events) + 1}
TraceAccepted == \/ Rejected = {}
                 \/ /\ \A t \in Rejected : PrintT(<<"VF", ToJson([tid |-> t, matched |-> TLCGet(2)[t] - 1, len |-> Len(Traces[t].events)])>>)
                    /\ FALSE

Transparent == C!Transparent
Complete == C!Complete
StoredIsTrue == C!StoredIsTrue
MutexItem == C!MutexItem
LockHeld == C!LockHeld
GenGood == C!GenGood
=============================================================================
