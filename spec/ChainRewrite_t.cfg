\* quick, exhaustive: every chain of at most 3 child/edge items (with and without root) from every
\* reference of dimension <= 3, each rewritten by canonical, uppermost and promote (every ndims)
SPECIFICATION Spec
CONSTANTS
  MaxDim = 3
  MaxLen = 2
  MaxRounds = 0
  WrongSwap = FALSE
CHECK_DEADLOCK FALSE
INVARIANT WellFormed
