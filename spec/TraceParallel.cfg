SPECIFICATION TraceSpec
CONSTRAINT Progress
INVARIANT AtMostOnce
INVARIANT ExactlyOnce
INVARIANT MutexRange
INVARIANT MutexArrays
INVARIANT NoLostUpdate
INVARIANT NoPartialResult
POSTCONDITION TraceAccepted
CHECK_DEADLOCK FALSE
