------------------------------ MODULE SITables ------------------------------
(* C20: the transcription of the unit definitions of src/nutils/SI.py (MCDefs, the input of level I),
   the physical table of the SI brochure (MCAUnits, level A), the prefix table and the table handed
   to nutils.unit.create.  "U" = mu, "O" = Omega, "Q" = theta. *)
EXTENDS UnitGrammar
V(n, e) == SNorm(n, 1, e)
B(digits, e) == [n |-> 1, d |-> 1, e |-> e, big |-> digits]
MCBaseOrd7 == <<"I", "J", "L", "M", "N", "T", "Q">>
MCPrefixes == (("Y" :> 24) @@ ("Z" :> 21) @@ ("E" :> 18) @@ ("P" :> 15) @@ ("T" :> 12) @@ ("G" :> 9) @@ ("M" :> 6) @@ ("k" :> 3) @@ ("h" :> 2) @@ ("d" :> (-1)) @@ ("c" :> (-2)) @@ ("m" :> (-3)) @@ ("U" :> (-6)) @@ ("n" :> (-9)) @@ ("p" :> (-12)) @@ ("f" :> (-15)) @@ ("a" :> (-18)) @@ ("z" :> (-21)) @@ ("y" :> (-24)))
MCDefs == <<
  [name |-> <<"m">>, kind |-> "base", pw |-> [x \in {"L"} |-> One], val |-> S(1, 1, 0), expr |-> <<>>],
  [name |-> <<"s">>, kind |-> "base", pw |-> [x \in {"T"} |-> One], val |-> S(1, 1, 0), expr |-> <<>>],
  [name |-> <<"g">>, kind |-> "base", pw |-> [x \in {"M"} |-> One], val |-> S(1, 1, (-3)), expr |-> <<>>],
  [name |-> <<"A">>, kind |-> "base", pw |-> [x \in {"I"} |-> One], val |-> S(1, 1, 0), expr |-> <<>>],
  [name |-> <<"K">>, kind |-> "base", pw |-> [x \in {"Q"} |-> One], val |-> S(1, 1, 0), expr |-> <<>>],
  [name |-> <<"m", "o", "l">>, kind |-> "base", pw |-> [x \in {"N"} |-> One], val |-> S(1, 1, 0), expr |-> <<>>],
  [name |-> <<"c", "d">>, kind |-> "base", pw |-> [x \in {"J"} |-> One], val |-> S(1, 1, 0), expr |-> <<>>],
  [name |-> <<"N">>, kind |-> "expr", pw |-> NoPowers, val |-> SOne, expr |-> <<"k", "g", "*", "m", "/", "s", "2">>],
  [name |-> <<"P", "a">>, kind |-> "expr", pw |-> NoPowers, val |-> SOne, expr |-> <<"N", "/", "m", "2">>],
  [name |-> <<"J">>, kind |-> "expr", pw |-> NoPowers, val |-> SOne, expr |-> <<"N", "*", "m">>],
  [name |-> <<"W">>, kind |-> "expr", pw |-> NoPowers, val |-> SOne, expr |-> <<"J", "/", "s">>],
  [name |-> <<"H", "z">>, kind |-> "expr", pw |-> NoPowers, val |-> SOne, expr |-> <<"/", "s">>],
  [name |-> <<"C">>, kind |-> "expr", pw |-> NoPowers, val |-> SOne, expr |-> <<"A", "*", "s">>],
  [name |-> <<"V">>, kind |-> "expr", pw |-> NoPowers, val |-> SOne, expr |-> <<"J", "/", "C">>],
  [name |-> <<"F">>, kind |-> "expr", pw |-> NoPowers, val |-> SOne, expr |-> <<"C", "/", "V">>],
  [name |-> <<"O">>, kind |-> "expr", pw |-> NoPowers, val |-> SOne, expr |-> <<"V", "/", "A">>],
  [name |-> <<"S">>, kind |-> "expr", pw |-> NoPowers, val |-> SOne, expr |-> <<"/", "O">>],
  [name |-> <<"W", "b">>, kind |-> "expr", pw |-> NoPowers, val |-> SOne, expr |-> <<"V", "*", "s">>],
  [name |-> <<"T">>, kind |-> "expr", pw |-> NoPowers, val |-> SOne, expr |-> <<"W", "b", "/", "m", "2">>],
  [name |-> <<"H">>, kind |-> "expr", pw |-> NoPowers, val |-> SOne, expr |-> <<"W", "b", "/", "A">>],
  [name |-> <<"l", "m">>, kind |-> "expr", pw |-> NoPowers, val |-> SOne, expr |-> <<"c", "d">>],
  [name |-> <<"l", "x">>, kind |-> "expr", pw |-> NoPowers, val |-> SOne, expr |-> <<"l", "m", "/", "m", "2">>],
  [name |-> <<"B", "q">>, kind |-> "expr", pw |-> NoPowers, val |-> SOne, expr |-> <<"/", "s">>],
  [name |-> <<"G", "y">>, kind |-> "expr", pw |-> NoPowers, val |-> SOne, expr |-> <<"J", "/", "k", "g">>],
  [name |-> <<"S", "v">>, kind |-> "expr", pw |-> NoPowers, val |-> SOne, expr |-> <<"J", "/", "k", "g">>],
  [name |-> <<"k", "a", "t">>, kind |-> "expr", pw |-> NoPowers, val |-> SOne, expr |-> <<"m", "o", "l", "/", "s">>],
  [name |-> <<"m", "i", "n">>, kind |-> "expr", pw |-> NoPowers, val |-> SOne, expr |-> <<"6", "0", "s">>],
  [name |-> <<"h">>, kind |-> "expr", pw |-> NoPowers, val |-> SOne, expr |-> <<"6", "0", "m", "i", "n">>],
  [name |-> <<"d", "a", "y">>, kind |-> "expr", pw |-> NoPowers, val |-> SOne, expr |-> <<"2", "4", "h">>],
  [name |-> <<"a", "u">>, kind |-> "expr", pw |-> NoPowers, val |-> SOne, expr |-> <<"1", "4", "9", "5", "9", "7", "8", "7", "0", "7", "0", "0", "m">>],
  [name |-> <<"h", "a">>, kind |-> "expr", pw |-> NoPowers, val |-> SOne, expr |-> <<"h", "m", "2">>],
  [name |-> <<"L">>, kind |-> "expr", pw |-> NoPowers, val |-> SOne, expr |-> <<"d", "m", "3">>],
  [name |-> <<"t">>, kind |-> "expr", pw |-> NoPowers, val |-> SOne, expr |-> <<"1", "0", "0", "0", "k", "g">>],
  [name |-> <<"D", "a">>, kind |-> "expr", pw |-> NoPowers, val |-> SOne, expr |-> <<"1", ".", "6", "6", "0", "5", "3", "9", "0", "4", "0", "2", "0", "y", "g">>],
  [name |-> <<"e", "V">>, kind |-> "expr", pw |-> NoPowers, val |-> SOne, expr |-> <<".", "1", "6", "0", "2", "1", "7", "6", "6", "3", "4", "a", "J">>],
  [name |-> <<"i", "n">>, kind |-> "raw", pw |-> NoPowers, val |-> SOne, expr |-> <<"2", "5", ".", "4", "m", "m">>] >>
MCAUnits ==
  ((<<"m">> :> [pw |-> (("L" :> RInt(1))), val |-> V(1, 0), prefixable |-> TRUE]) @@
  (<<"s">> :> [pw |-> (("T" :> RInt(1))), val |-> V(1, 0), prefixable |-> TRUE]) @@
  (<<"g">> :> [pw |-> (("M" :> RInt(1))), val |-> V(1, (-3)), prefixable |-> TRUE]) @@
  (<<"A">> :> [pw |-> (("I" :> RInt(1))), val |-> V(1, 0), prefixable |-> TRUE]) @@
  (<<"K">> :> [pw |-> (("Q" :> RInt(1))), val |-> V(1, 0), prefixable |-> TRUE]) @@
  (<<"m", "o", "l">> :> [pw |-> (("N" :> RInt(1))), val |-> V(1, 0), prefixable |-> TRUE]) @@
  (<<"c", "d">> :> [pw |-> (("J" :> RInt(1))), val |-> V(1, 0), prefixable |-> TRUE]) @@
  (<<"N">> :> [pw |-> (("M" :> RInt(1)) @@ ("L" :> RInt(1)) @@ ("T" :> RInt((-2)))), val |-> V(1, 0), prefixable |-> TRUE]) @@
  (<<"P", "a">> :> [pw |-> (("M" :> RInt(1)) @@ ("L" :> RInt((-1))) @@ ("T" :> RInt((-2)))), val |-> V(1, 0), prefixable |-> TRUE]) @@
  (<<"J">> :> [pw |-> (("M" :> RInt(1)) @@ ("L" :> RInt(2)) @@ ("T" :> RInt((-2)))), val |-> V(1, 0), prefixable |-> TRUE]) @@
  (<<"W">> :> [pw |-> (("M" :> RInt(1)) @@ ("L" :> RInt(2)) @@ ("T" :> RInt((-3)))), val |-> V(1, 0), prefixable |-> TRUE]) @@
  (<<"H", "z">> :> [pw |-> (("T" :> RInt((-1)))), val |-> V(1, 0), prefixable |-> TRUE]) @@
  (<<"C">> :> [pw |-> (("I" :> RInt(1)) @@ ("T" :> RInt(1))), val |-> V(1, 0), prefixable |-> TRUE]) @@
  (<<"V">> :> [pw |-> (("M" :> RInt(1)) @@ ("L" :> RInt(2)) @@ ("T" :> RInt((-3))) @@ ("I" :> RInt((-1)))), val |-> V(1, 0), prefixable |-> TRUE]) @@
  (<<"F">> :> [pw |-> (("M" :> RInt((-1))) @@ ("L" :> RInt((-2))) @@ ("T" :> RInt(4)) @@ ("I" :> RInt(2))), val |-> V(1, 0), prefixable |-> TRUE]) @@
  (<<"O">> :> [pw |-> (("M" :> RInt(1)) @@ ("L" :> RInt(2)) @@ ("T" :> RInt((-3))) @@ ("I" :> RInt((-2)))), val |-> V(1, 0), prefixable |-> TRUE]) @@
  (<<"S">> :> [pw |-> (("M" :> RInt((-1))) @@ ("L" :> RInt((-2))) @@ ("T" :> RInt(3)) @@ ("I" :> RInt(2))), val |-> V(1, 0), prefixable |-> TRUE]) @@
  (<<"W", "b">> :> [pw |-> (("M" :> RInt(1)) @@ ("L" :> RInt(2)) @@ ("T" :> RInt((-2))) @@ ("I" :> RInt((-1)))), val |-> V(1, 0), prefixable |-> TRUE]) @@
  (<<"T">> :> [pw |-> (("M" :> RInt(1)) @@ ("T" :> RInt((-2))) @@ ("I" :> RInt((-1)))), val |-> V(1, 0), prefixable |-> TRUE]) @@
  (<<"H">> :> [pw |-> (("M" :> RInt(1)) @@ ("L" :> RInt(2)) @@ ("T" :> RInt((-2))) @@ ("I" :> RInt((-2)))), val |-> V(1, 0), prefixable |-> TRUE]) @@
  (<<"l", "m">> :> [pw |-> (("J" :> RInt(1))), val |-> V(1, 0), prefixable |-> TRUE]) @@
  (<<"l", "x">> :> [pw |-> (("J" :> RInt(1)) @@ ("L" :> RInt((-2)))), val |-> V(1, 0), prefixable |-> TRUE]) @@
  (<<"B", "q">> :> [pw |-> (("T" :> RInt((-1)))), val |-> V(1, 0), prefixable |-> TRUE]) @@
  (<<"G", "y">> :> [pw |-> (("L" :> RInt(2)) @@ ("T" :> RInt((-2)))), val |-> V(1, 0), prefixable |-> TRUE]) @@
  (<<"S", "v">> :> [pw |-> (("L" :> RInt(2)) @@ ("T" :> RInt((-2)))), val |-> V(1, 0), prefixable |-> TRUE]) @@
  (<<"k", "a", "t">> :> [pw |-> (("N" :> RInt(1)) @@ ("T" :> RInt((-1)))), val |-> V(1, 0), prefixable |-> TRUE]) @@
  (<<"m", "i", "n">> :> [pw |-> (("T" :> RInt(1))), val |-> V(60, 0), prefixable |-> TRUE]) @@
  (<<"h">> :> [pw |-> (("T" :> RInt(1))), val |-> V(3600, 0), prefixable |-> TRUE]) @@
  (<<"d", "a", "y">> :> [pw |-> (("T" :> RInt(1))), val |-> V(86400, 0), prefixable |-> TRUE]) @@
  (<<"a", "u">> :> [pw |-> (("L" :> RInt(1))), val |-> B(<<"1", "4", "9", "5", "9", "7", "8", "7", "0", "7">>, 2), prefixable |-> TRUE]) @@
  (<<"h", "a">> :> [pw |-> (("L" :> RInt(2))), val |-> V(1, 4), prefixable |-> TRUE]) @@
  (<<"L">> :> [pw |-> (("L" :> RInt(3))), val |-> V(1, (-3)), prefixable |-> TRUE]) @@
  (<<"t">> :> [pw |-> (("M" :> RInt(1))), val |-> V(1, 3), prefixable |-> TRUE]) @@
  (<<"D", "a">> :> [pw |-> (("M" :> RInt(1))), val |-> B(<<"1", "6", "6", "0", "5", "3", "9", "0", "4", "0", "2">>, (-37)), prefixable |-> TRUE]) @@
  (<<"e", "V">> :> [pw |-> (("M" :> RInt(1)) @@ ("L" :> RInt(2)) @@ ("T" :> RInt((-2)))), val |-> B(<<"1", "6", "0", "2", "1", "7", "6", "6", "3", "4">>, (-28)), prefixable |-> TRUE]) @@
  (<<"i", "n">> :> [pw |-> (("L" :> RInt(1))), val |-> V(254, (-4)), prefixable |-> FALSE]))
\* unit.create(m=1, s=1, g=1e-3, A=1, K=1, N='kg*m/s2', Pa='N/m2', J='N*m', W='J/s', Hz='/s', min='60s', h='60min', L='dm3', t='1000kg', **{'in': '25.4mm'})
MCUPyNames == {<<"m">>, <<"s">>, <<"g">>, <<"A">>, <<"K">>, <<"N">>, <<"P", "a">>, <<"J">>, <<"W">>, <<"H", "z">>, <<"m", "i", "n">>, <<"h">>, <<"L">>, <<"t">>, <<"i", "n">>}
MCUPyUnits == [u \in MCUPyNames |-> QV(MCAUnits[u].pw, MCAUnits[u].val)]
=============================================================================
