\* quick, exhaustive: on small one-dimensional bases every subset of dofs (Mask), every subset of elements
\* (Prune), every partition into <= 3 parts (Part), two such steps in any order
SPECIFICATION Spec
CONSTANTS
  DimA <- Dims_der_q
  DimB <- Dims_der_q
  MaxDims = 1
  RemChoices <- Rem_2
  MaxDer = 2
  SmallNd = 4
  SmallNe = 3
  Kinds <- Kinds_all
  Mutant = "none"
INVARIANT TypeOK
INVARIANT InvInverse
INVARIANT InvNoDead
INVARIANT InvUnit
INVARIANT InvSpline
INVARIANT EmitState
PROPERTY StepProp
CHECK_DEADLOCK FALSE
