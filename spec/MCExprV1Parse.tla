--------------------------- MODULE MCExprV1Parse ---------------------------
(* model-checking vocabularies for ExprV1Parse (C19, version 1 only language); the harness selects families by name
   through a generated module that defines VFFams *)
EXTENDS ExprV1Parse
None == {}
I1 == {"i"}
IJ == {"i", "j"}
AllMuts1 == {"arg-rank", "unknown", "index-count", "normal-count", "derivative-of-constant", "subst-indices", "subst-lhs", "subst-duplicate", "number-position", "repeated-power"}
AllCors1 == {"grad-space-before", "grad-space-after", "arg-space", "subst-space", "subst-no-equals", "call-no-space"}
\* Fam1(ml, mo, ms, V, A, N, F, T, G, E, W, X, FT, M, C, S)
\* length deduction: unknown arguments linked by sums and products, decided by vectors of length 2 / 3 or by a gradient index
FamLen == [Fam1(3, 3, 3, {"r", "s"}, {"u", "v"}, None, None, I1, I1, None, {"scope"}, None, {"grad"}, None, None, None) EXCEPT !.PK = TRUE]
FamLen4 == [Fam1(4, 3, 4, {"r"}, {"u", "v", "p"}, None, None, I1, I1, None, {"scope"}, None, {"grad"}, None, None, None) EXCEPT !.PK = TRUE]
\* chains of links: four unknown leaves, one vector, sums of scopes, the gradient
FamChain == [Fam1(4, 5, 4, {"r"}, {"u", "v", "p"}, None, None, I1, I1, None, {"scope"}, None, {"grad", "noterm"}, None, None, None) EXCEPT !.PK = TRUE]
\* two letters, arguments with two axes, the dirac
FamLen2 == [Fam1(2, 2, 2, {"r", "s", "M"}, {"u", "w"}, {"2"}, None, IJ, IJ, None, {"scope"}, {"$", "cix"}, {"grad", "rank2", "minus"}, None, None, None) EXCEPT !.PK = TRUE]
\* gradients and surface gradients of polynomial data, one or two indices, numerals, the normal
FamGrad == [Fam1(2, 2, 2, {"a", "q", "x"}, None, {"2"}, None, {"i", "j", "0"}, {"i", "j", "0", "2"}, {"2"}, {"scope"}, {"normal"}, {"grad", "surf"}, None, None, None) EXCEPT !.PK = TRUE]
\* two gradient indices (second derivatives, the laplacian), gradients of jumps, of constants
FamGradB == [Fam1(1, 2, 1, {"a", "q", "k", "s"}, None, None, None, {"i", "0"}, {"i", "j", "1"}, {"2"}, {"scope", "jump"}, None, {"grad", "surf", "grad2", "neg"}, None, None, None) EXCEPT !.PK = TRUE]
FamGrad3 == [Fam1(3, 3, 3, {"a", "q"}, None, {"2"}, {"sqr"}, {"i"}, {"i", "j"}, {"2", "-1"}, {"scope", "mean"}, {"normal"}, {"grad", "surf", "frac", "minus"}, None, None, None) EXCEPT !.PK = TRUE]
\* substitution
FamSubst == [Fam1(3, 3, 3, {"r", "k", "a"}, {"u", "v"}, None, None, I1, I1, None, {"scope"}, None, {"subst", "subst2", "grad", "argscalar"}, None, None, None) EXCEPT !.PK = TRUE]
FamSubst2 == [Fam1(2, 2, 2, {"r", "s", "M"}, {"u", "v"}, None, None, IJ, None, None, {"scope"}, {"cix"}, {"subst", "rank2"}, None, None, None) EXCEPT !.PK = TRUE]
\* calls with two arguments: the product function, d(., x_i), d(., ?u_i)
FamCall == [Fam1(3, 3, 3, {"q", "x", "r"}, {"u", "w"}, None, {"mul", "d"}, IJ, None, None, None, None, None, None, None, None) EXCEPT !.PK = TRUE]
FamCall2 == [Fam1(2, 2, 2, {"a", "q", "x", "r", "s"}, {"u", "v", "w"}, {"2"}, {"mul", "d", "sqr", "abs", "opposite"}, IJ, I1, {"2"}, {"scope"}, {"normal"}, {"grad", "argscalar"}, None, None, None) EXCEPT !.PK = TRUE]
\* every rule breaker / token corruption
FamMut1 == Fam1(2, 2, 2, {"a", "r"}, {"u", "w"}, {"2"}, {"mul"}, I1, I1, {"2"}, {"scope"}, {"cix", "normal"}, {"grad", "subst", "subst2"}, AllMuts1, None, None)
FamCor1 == [Fam1(2, 2, 2, {"a", "r"}, {"u"}, {"2"}, {"mul"}, I1, I1, None, {"scope"}, None, {"grad", "surf", "subst"}, None, AllCors1, {1}) EXCEPT !.PK = TRUE]
\* smaller vocabularies of the same kinds for the quick tier
FamLen2Q == [Fam1(2, 2, 2, {"r", "M"}, {"u"}, {"2"}, None, IJ, I1, None, {"scope"}, {"$", "cix"}, {"grad", "rank2"}, None, None, None) EXCEPT !.PK = TRUE]
FamGradQ == [Fam1(2, 2, 2, {"a", "q"}, None, {"2"}, None, {"i", "0"}, {"i", "j", "0", "2"}, {"2"}, {"scope"}, {"normal"}, {"grad", "surf"}, None, None, None) EXCEPT !.PK = TRUE]
FamSubstQ == [Fam1(2, 2, 2, {"r", "M"}, {"u"}, None, None, IJ, None, None, {"scope"}, None, {"subst", "rank2"}, None, None, None) EXCEPT !.PK = TRUE]
FamCallQ == [Fam1(2, 2, 2, {"a", "q", "x"}, {"w"}, None, {"mul", "d", "sqr"}, IJ, I1, None, None, None, {"grad"}, None, None, None) EXCEPT !.PK = TRUE]
FamCall3Q == [Fam1(3, 2, 3, {"r"}, {"u"}, None, {"mul"}, IJ, None, None, None, None, None, None, None, None) EXCEPT !.PK = TRUE]
FamMutQ == Fam1(2, 2, 2, {"a"}, {"u", "w"}, {"2"}, None, I1, I1, {"2"}, {"scope"}, {"cix"}, {"grad", "subst", "subst2"}, AllMuts1, None, None)
\* chains of three links in every order with four leaves: sums (no products), one compound, the gradient
FamChainQ == [Fam1(4, 3, 3, {"r"}, {"u", "v", "p"}, None, None, I1, I1, None, {"scope"}, None, {"grad", "noterm"}, None, None, None) EXCEPT !.PK = TRUE]
\* every action enabled, tiny: the per-action coverage (vacuity guard) of the bare machine
FamCov1 == Fam1(2, 1, 2, {"a", "r"}, {"u"}, {"2"}, {"mul", "sqr"}, I1, I1, {"2"}, {"scope"}, {"cix", "normal"}, {"grad", "subst", "frac", "neg", "minus", "powscoped"}, AllMuts1, AllCors1, {1})
\* random walks
Sim1Vars == {"a", "q", "x", "k", "r", "s", "M"}
FamSim1 == Fam1(5, 7, 4, Sim1Vars, {"u", "v", "p", "w"}, {"2", "0.5"}, {"mul", "d", "sqr", "abs", "opposite"}, {"i", "j", "0"}, {"i", "j", "0", "1"}, {"2", "-1"},
                {"scope", "jump", "mean"}, {"$", "cix", "normal"}, {"grad", "surf", "grad2", "subst", "subst2", "rank2", "argscalar", "frac", "neg", "minus", "powscoped"}, None, None, {1})
FamSim1O == [FamSim1 EXCEPT !.VO = TRUE]
FamSimLen == [Fam1(5, 8, 4, {"r", "s", "q"}, {"u", "v", "p"}, {"2"}, {"mul"}, IJ, IJ, None, {"scope"}, {"$", "cix"}, {"grad", "surf", "minus", "neg"}, None, None, None) EXCEPT !.VO = TRUE]
FamSim1M == Fam1(4, 6, 3, {"a", "q", "r", "k"}, {"u", "v", "w"}, {"2"}, {"mul", "d", "sqr"}, {"i", "j", "0"}, {"i", "j", "2"}, {"2"}, {"scope"}, {"cix", "normal"},
                 {"grad", "surf", "subst", "subst2", "frac", "minus"}, AllMuts1, AllCors1, None)
\* tiny vocabularies for the spec mutants
FamT1 == Fam1(3, 3, 3, {"r"}, {"u", "v"}, None, None, I1, I1, None, {"scope"}, None, {"grad"}, None, None, None)
FamT3 == Fam1(2, 1, 2, {"r"}, {"u"}, None, None, I1, None, None, None, None, {"subst"}, None, None, None)
FamT4 == Fam1(1, 1, 1, {"s", "q"}, None, None, None, I1, {"j"}, None, None, None, {"grad"}, None, None, None)
FamT2 == Fam1(3, 2, 3, {"r"}, {"u", "v"}, None, {"mul"}, IJ, None, None, None, None, None, None, None, None)
\* families of the stand-alone configurations (ExprV1Parse_*.cfg)
OnlyT1 == <<FamT1>>
OnlyT2 == <<FamT2>>
OnlyT3 == <<FamT3>>
OnlyT4 == <<FamT4>>
OnlyLen == <<FamLen>>
=============================================================================
