\* spec mutant of the version 1 bookkeeping model (C19): the gradient axis takes the length of the last axis of the differentiated array instead of the geometry: s_i,j
\* expected: TLC reports an invariant (VerdictAgree / FreeAgree / GroupsAgree) as violated.  Stand-alone:
\*   java -cp tla2tools.jar:CommunityModules-deps.jar tlc2.TLC -deadlock -config ExprV1Parse_mutant_gradlen.cfg MCExprV1Parse.tla
SPECIFICATION Spec
CONSTANTS
  Fams <- OnlyT4
  EmitMin = 0
  Bug = "grad-len-from-arg"
  Lazy = FALSE
INVARIANT VerdictAgree
INVARIANT FreeAgree
INVARIANT GroupsAgree
INVARIANT InferenceSound
CHECK_DEADLOCK FALSE
