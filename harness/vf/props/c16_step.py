"""C16, binding S->C: behaviours of spec/Parallel.tla (TLC generated schedules
with faults and the shared state predicted after every step) are replayed into
the real nutils.parallel.ctxrange / fork / range / _wait / shzeros.

Every process of the real run (the parent and the children that the real
``parallel._fork`` creates with the real ``os.fork``) is parked before each
step the model distinguishes and continues only when the scheduler grants the
step the TLC behaviour takes next.  The parking points are *outside* the code
under test:

* ``parallel.multiprocessing`` is replaced by a shim whose ``Lock`` and
  ``RawValue`` return proxies around the real objects (``__enter__``,
  ``__exit__``, ``value`` get / set of the proxies announce ClaimAcq, ClaimRel /
  ClaimExh, ClaimRead, ClaimWrite), so the body of ``range.__next__`` that runs
  is the one of the tree under test;
* ``parallel.os`` is replaced by a shim around the real ``os`` (``fork``,
  ``_exit``, ``waitpid``, ``kill`` announce Fork, Exit, Wait, KillChild);
* the loop body is harness code shaped like the generated scripts: ``with
  lock:`` around a non-atomic read-modify-write of a ``parallel.shzeros``
  array (so that a model behaviour that loses an update loses it for real).

With every announcement a process reports the shared state it sees (the real
counter of the range, the real arrays); the scheduler compares it with the
state the model predicts after the step.  Faults of the model are injected for
real: Exc makes the statement raise, Kill sends SIGKILL to the parked child,
ForkFail makes os.fork raise.

This module is executed as a slim server process (python -m
vf.props.c16_step JOBS.json RESULT.json).  It must not import the rest of the
harness (fork cost).
"""

import json
import os
import select
import signal
import sys
import time

ACTION_AT = dict(Fork='Fork', ClaimAcq='ClaimAcq', ClaimRead='ClaimRead', ClaimWrite='ClaimWrite', ClaimRel='ClaimRel',
                 ClaimExh='ClaimExh', AcqA='AcqA', UpdRead='UpdRead', UpdWrite='UpdWrite', RdEnd='RdEnd', Slot='Slot', Nop='Nop', RelA='RelA',
                 ChildExit='Exit', Wait='Wait', Finish='Outcome', Exc=None, Kill=None, ForkFail='Fork')
PC_AT = dict(acq={'ClaimAcq'}, read={'ClaimRead'}, write={'ClaimWrite'}, rel={'ClaimRel'}, relx={'ClaimExh'},
             body={'AcqA', 'UpdRead', 'Slot', 'Nop'}, upd={'UpdWrite', 'RdEnd'}, unl={'RelA'}, exiting={'Exit'})
TIMEOUT = 30.0


class Injected(RuntimeError):
    pass


# ---------------------------------------------------------------------------
# code running inside the controlled processes

class Ctl:
    """announce / wait-for-grant channel of one controlled process"""

    def __init__(self, ann_w, reply_r):
        self.ann_w = ann_w
        self.reply_r = reply_r      # list of read fds, one per procid
        self.me = 0
        self.nforked = 0
        self.children = []
        self.index = None           # the real RawValue of the shared range
        self.arrays = []
        self.lastwait = None
        self.extra = {}

    def snapshot(self):
        return dict(idx=None if self.index is None else int(self.index.value),
                    arrs=[[int(x) for x in a] for a in self.arrays], lastwait=self.lastwait)

    def announce(self, at, v=None, wait=True, **kw):
        rec = dict(p=self.me, pid=os.getpid(), at=at, v=v)
        rec.update(self.snapshot())
        rec.update(kw)
        os.write(self.ann_w, (json.dumps(rec) + '\n').encode())
        if not wait:
            return 'go'
        r = os.read(self.reply_r[self.me], 1)
        if r == b'g':
            return 'go'
        if r == b'r':
            return 'raise'
        if r == b'p':
            return 'probe'
        os._exit(7)     # scheduler went away


class LockProxy:
    """context manager proxy around a real multiprocessing.Lock"""

    def __init__(self, ctl, real, enter, leave, leave_exc, v):
        self.ctl, self.real, self.enter, self.leave, self.leave_exc, self.v = ctl, real, enter, leave, leave_exc, v

    def __enter__(self):
        while True:
            r = self.ctl.announce(self.enter, self.v)
            if r == 'probe':    # end of a stuck behaviour: is the real lock really unavailable?
                ok = self.real.acquire(block=False)
                if ok:
                    self.real.release()
                self.ctl.announce('Probe', bool(ok), wait=False)
                continue
            break
        if not self.real.acquire(block=False):
            # the model says the lock is free, the real one is not
            self.ctl.announce('Blocked', self.v, wait=False)
            self.real.acquire()
        return self

    def __exit__(self, exc_type, exc, tb):
        if exc_type is None:
            self.ctl.announce(self.leave, self.v)
        elif self.leave_exc is not None and exc_type is StopIteration:
            self.ctl.announce(self.leave_exc, self.v)
        # any other exception: the with statement releases silently (part of the model's Exc step)
        self.real.release()
        return False

    # the code under test may use acquire / release directly
    def acquire(self, *args, **kw):
        self.__enter__()
        return True

    def release(self):
        self.__exit__(None, None, None)


class ValueProxy:
    def __init__(self, ctl, real):
        object.__setattr__(self, '_ctl', ctl)
        object.__setattr__(self, '_real', real)

    @property
    def value(self):
        self._ctl.announce('ClaimRead')
        return self._real.value

    @value.setter
    def value(self, v):
        self._ctl.announce('ClaimWrite', int(v))
        self._real.value = v


class MpShim:
    """stands in for the `multiprocessing` module inside nutils.parallel"""

    def __init__(self, ctl):
        import multiprocessing
        self._mp = multiprocessing
        self._ctl = ctl

    def RawValue(self, *args):
        real = self._mp.RawValue(*args)
        self._ctl.index = real
        return ValueProxy(self._ctl, real)

    def Lock(self):
        return LockProxy(self._ctl, self._mp.Lock(), 'ClaimAcq', 'ClaimRel', 'ClaimExh', 0)

    def __getattr__(self, name):
        return getattr(self._mp, name)


class OsShim:
    """stands in for the `os` module inside nutils.parallel"""

    def __init__(self, ctl):
        self._ctl = ctl

    def fork(self):
        ctl = self._ctl
        c = ctl.nforked + 1
        if ctl.announce('Fork', c) == 'raise':
            raise OSError('injected fork failure')
        pid = os.fork()
        ctl.nforked = c
        if pid == 0:
            ctl.me = c
            ctl.children = []
            ctl.nforked = 0
        else:
            ctl.children.append(pid)
        return pid

    def _exit(self, code):
        self._ctl.announce('Exit', int(code))
        os._exit(code)

    def waitpid(self, pid, options):
        self._ctl.announce('Wait', int(pid))
        pid_, status = os.waitpid(pid, options)
        if os.WIFEXITED(status):
            self._ctl.lastwait = ['exit', os.WEXITSTATUS(status)]
        elif os.WIFSIGNALED(status):
            self._ctl.lastwait = ['signal', os.WTERMSIG(status)]
        else:
            self._ctl.lastwait = ['other', status]
        return pid_, status

    def kill(self, pid, sig):
        self._ctl.announce('KillChild', [int(pid), int(sig)])
        return os.kill(pid, sig)

    def __getattr__(self, name):
        return getattr(os, name)


def episode_parent(cfg, ann_w, reply_r):
    """body of the controlled parent process: one call of the real ctxrange with a
    loop body shaped like cfg['body']"""
    import contextlib
    import multiprocessing
    import numpy
    import treelog
    from nutils import parallel
    ctl = Ctl(ann_w, reply_r)
    parallel.os = OsShim(ctl)
    parallel.multiprocessing = MpShim(ctl)
    devnull = os.open(os.devnull, os.O_WRONLY)
    os.dup2(devnull, 1)
    niter = cfg['niter']
    outcome, exc = 'returned', None
    with parallel.maxprocs(cfg['np']), treelog.set(treelog.NullLog()):
        ctl.arrays = [parallel.shzeros(niter, dtype=int) if sh else numpy.zeros(niter, dtype=int) for sh in cfg['shared']]
        locks = [LockProxy(ctl, multiprocessing.Lock(), 'AcqA', 'RelA', None, l + 1) for l in range(cfg['nlocks'])]
        try:
            with parallel.ctxrange('replay', niter) as rng:
                for i in rng:
                    i = int(i)
                    for st in cfg['body']:
                        with contextlib.ExitStack() as stack:
                            for l in st['locks']:
                                stack.enter_context(locks[l - 1])
                            op, a = st['op'], st['arr']
                            if op == 'rmw':
                                if ctl.announce('UpdRead', a) == 'raise':
                                    raise Injected('injected failure in iteration {}'.format(i))
                                tmp = ctl.arrays[a - 1].copy()
                                ctl.announce('UpdWrite', a)
                                tmp[i] += 1
                                ctl.arrays[a - 1][:] = tmp
                            elif op == 'read':
                                if ctl.announce('UpdRead', a) == 'raise':
                                    raise Injected('injected failure in iteration {}'.format(i))
                                tmp = ctl.arrays[a - 1].copy()
                                ctl.announce('RdEnd', a)
                            elif op == 'slot':
                                if ctl.announce('Slot', a) == 'raise':
                                    raise Injected('injected failure in iteration {}'.format(i))
                                ctl.arrays[a - 1][i] += 1
                            else:
                                if ctl.announce('Nop', a) == 'raise':
                                    raise Injected('injected failure in iteration {}'.format(i))
                                # nested forks are disabled inside a fork: must be a no-op
                                with parallel.fork(2) as nested:
                                    if nested != 0:
                                        os._exit(9)
        except BaseException as e:
            outcome, exc = 'raised', type(e).__name__ + ': ' + str(e)
    # which children are still running? (the model: none when the call raised)
    alive = []
    deadline = time.time() + 10
    for pid in ctl.children:
        while True:
            try:
                r, _ = os.waitpid(pid, os.WNOHANG)
            except ChildProcessError:
                break       # reaped by the code under test
            if r:
                break
            if time.time() > deadline:
                alive.append(pid)
                break
            time.sleep(0.002)
    ctl.announce('Outcome', outcome, wait=False, exc=exc, alive=alive, nchildren=len(ctl.children))
    for pid in alive:
        try:
            os.kill(pid, signal.SIGKILL)
            os.waitpid(pid, 0)
        except OSError:
            pass
    os._exit(0)


# ---------------------------------------------------------------------------
# scheduler (runs in the server process)

class Mismatch(Exception):
    def __init__(self, key, what):
        super().__init__(what)
        self.key = key
        self.what = what


class Scheduler:
    def __init__(self, cfg, beh):
        self.cfg = cfg
        self.beh = beh
        self.pending = {}
        self.pids = {}
        self.buf = b''
        self.extra = []     # announcements that need no grant (Blocked, Probe, Outcome)
        self.trace = []

    def start(self):
        np_ = max(self.cfg['np'], 1)
        self.ann_r, ann_w = os.pipe()
        self.reply = [os.pipe() for _ in range(np_)]
        pid = os.fork()
        if pid == 0:
            try:
                os.close(self.ann_r)
                for r, w in self.reply:
                    os.close(w)
                episode_parent(self.cfg, ann_w, [r for r, w in self.reply])
            finally:
                os._exit(8)
        os.close(ann_w)
        for r, w in self.reply:
            os.close(r)
        self.parent = pid

    def _pump(self, timeout):
        r, _, _ = select.select([self.ann_r], [], [], timeout)
        if not r:
            return False
        data = os.read(self.ann_r, 65536)
        if not data:
            time.sleep(0.01)
            return False
        self.buf += data
        while b'\n' in self.buf:
            line, self.buf = self.buf.split(b'\n', 1)
            rec = json.loads(line)
            self.pids[rec['p']] = rec['pid']
            self.trace.append([rec['p'], rec['at'], rec['v']])
            if rec['at'] in ('Blocked', 'Probe', 'Outcome'):
                self.extra.append(rec)
            else:
                if rec['p'] in self.pending:
                    raise Mismatch('protocol:double-announcement', 'process {} announced {} while {} is pending'.format(rec['p'], rec['at'], self.pending[rec['p']]['at']))
                self.pending[rec['p']] = rec
        return True

    def get(self, p, what):
        deadline = time.time() + TIMEOUT
        while p not in self.pending:
            for e in self.extra:
                if e['at'] == 'Outcome' and p == 0:
                    raise Mismatch('outcome:early-' + str(e['v']), 'the call ended ({}, {}) while the model expects process 0 to do {}'.format(e['v'], e.get('exc'), what))
            if time.time() > deadline:
                raise Mismatch('stuck:' + what, 'process {} did not reach the step {} the model takes (last announcements {})'.format(p, what, self.trace[-6:]))
            self._pump(0.2)
        return self.pending[p]

    def get_extra(self, at):
        deadline = time.time() + TIMEOUT
        while True:
            for e in self.extra:
                if e['at'] == at:
                    self.extra.remove(e)
                    return e
            if time.time() > deadline:
                raise Mismatch('stuck:' + at, 'no {} announcement (last announcements {})'.format(at, self.trace[-6:]))
            self._pump(0.2)

    def grant(self, p, code=b'g'):
        self.pending.pop(p, None)
        os.write(self.reply[p][1], code)

    def check_blocked(self):
        for e in self.extra:
            if e['at'] == 'Blocked':
                raise Mismatch('lock:held-but-model-free', 'process {} found lock {} taken although the model says it is free'.format(e['p'], e['v']))

    def compare_state(self, h, ann, k):
        cfg = self.cfg
        if ann.get('idx') is not None and ann['idx'] != h['idx']:
            raise Mismatch('state:index', 'after step {} ({} by {}) the shared counter is {} but the model predicts {}'.format(k, h['a'], h['p'], ann['idx'], h['idx']))
        for a, sh in enumerate(cfg['shared']):
            want = h['shm'][a] if sh else h['mine'][a]
            if ann['arrs'][a] != want:
                raise Mismatch('state:array:' + ('shared' if sh else 'private'),
                               'after step {} ({} by {}) array {} as seen by process {} is {} but the model predicts {}'.format(k, h['a'], h['p'], a + 1, ann['p'], ann['arrs'][a], want))

    def run(self):
        cfg, beh = self.cfg, self.beh
        hist = beh['hist']
        dead = set()
        for k, h in enumerate(hist):
            p, a, v = h['p'], h['a'], h['v']
            if a == 'Kill':
                ann = self.get(p, 'Kill@' + str(v))
                if ann['at'] not in PC_AT.get(v, ()):
                    raise Mismatch('shape:' + str(v) + '->' + ann['at'], 'model kills process {} at pc {} but the real process is about to do {}'.format(p, v, ann['at']))
                os.kill(self.pids[p], signal.SIGKILL)
                self.pending.pop(p)
                dead.add(p)
                continue
            if a == 'Exc':
                ann = self.get(p, 'Exc')
                if ann['at'] not in ('UpdRead', 'Slot', 'Nop'):
                    raise Mismatch('shape:Exc->' + ann['at'], 'model raises in a statement of process {} but the real process is about to do {}'.format(p, ann['at']))
                self.grant(p, b'r')
                if p != 0:
                    nxt = self.get(p, 'Exit(1)')
                    if nxt['at'] != 'Exit' or nxt['v'] != 1:
                        raise Mismatch('child-exception:' + nxt['at'] + ':' + str(nxt['v']), 'a failing child must report os._exit(1), got {} {}'.format(nxt['at'], nxt['v']))
                    self.grant(p)
                    dead.add(p)
                else:
                    self.parent_failure(h, dead)
                continue
            if a == 'Finish':
                break
            ann = self.get(p, a)
            want_at = ACTION_AT[a]
            if ann['at'] != want_at:
                raise Mismatch('shape:{}->{}'.format(a, ann['at']), 'step {}: the model lets process {} do {} but the real process is about to do {}'.format(k, p, a, ann['at']))
            if a in ('ClaimWrite', 'AcqA', 'RelA', 'UpdRead', 'UpdWrite', 'RdEnd', 'Slot', 'Nop') and ann['v'] != v:
                raise Mismatch('value:' + a, 'step {}: {} by process {}: real value {} differs from the model value {}'.format(k, a, p, ann['v'], v))
            if a == 'Fork' and ann['v'] != v:
                raise Mismatch('value:Fork', 'fork number {} but the model forks child {}'.format(ann['v'], v))
            if a == 'Wait':
                c = v['c']
                if self.pids.get(c) != ann['v']:
                    raise Mismatch('value:Wait', 'parent waits for pid {} but the model waits for child {} (pid {})'.format(ann['v'], c, self.pids.get(c)))
            if a == 'ForkFail':
                self.grant(p, b'r')
                self.parent_failure(h, dead)
                continue
            self.grant(p)
            if a == 'ChildExit':
                if ann['v'] != 0:
                    raise Mismatch('value:Exit', 'child {} exits with status {} after completing its loop'.format(p, ann['v']))
                dead.add(p)
                continue
            # the process runs the step and parks at its next one: its report is the state after the step
            if p == 0 and a in ('Wait', 'ClaimExh') and self._is_last_parent_step(hist, k):
                nxt = self.get_extra('Outcome')
                self.extra.append(nxt)
            else:
                nxt = self.get(p, 'step after ' + a)
            self.check_blocked()
            self.compare_state(h, nxt, k)
            if a == 'Wait':
                st = {'ok': ['exit', 0], 'err': ['exit', 1], 'sig': ['signal', 9]}[v['st']]
                if nxt.get('lastwait') != st:
                    raise Mismatch('value:wait-status', 'waitpid for child {} gave {} but the model says {}'.format(v['c'], nxt.get('lastwait'), st))
        return self.finish(dead)

    def _is_last_parent_step(self, hist, k):
        return all(h['p'] != 0 or h['a'] == 'Finish' for h in hist[k + 1:]) and any(h['a'] == 'Finish' for h in hist[k + 1:])

    def parent_failure(self, h, dead):
        """the parent raised: it must SIGKILL every child it created, then the call raises"""
        killed = set()
        while True:
            deadline = time.time() + TIMEOUT
            while 0 not in self.pending and not any(e['at'] == 'Outcome' for e in self.extra):
                if time.time() > deadline:
                    raise Mismatch('stuck:parent-failure', 'the failing parent neither killed its children nor ended')
                self._pump(0.2)
            if 0 in self.pending:
                ann = self.pending[0]
                if ann['at'] != 'KillChild':
                    raise Mismatch('shape:parent-failure->' + ann['at'], 'the failing parent is about to do {}'.format(ann['at']))
                if ann['v'][1] != signal.SIGKILL:
                    raise Mismatch('value:kill-signal', 'children are sent signal {}'.format(ann['v'][1]))
                killed.add(ann['v'][0])
                self.grant(0)
            else:
                break
        for c, pid in self.pids.items():
            if c != 0 and c not in dead and pid not in killed:
                raise Mismatch('parent-failure:child-not-killed', 'the failing parent did not kill child {} (pid {})'.format(c, pid))

    def finish(self, dead):
        cfg, beh = self.cfg, self.beh
        res = dict(status='ok', steps=len(beh['hist']), outcome=beh['outcome'])
        if beh['outcome'] == 'stuck':
            # the model says nobody can move: every live process is parked at a lock that stays taken
            nprobe = 0
            for p in list(self.pending):
                ann = self.pending[p]
                if ann['at'] in ('ClaimAcq', 'AcqA'):
                    self.grant(p, b'p')
                    r = self.get_extra('Probe')
                    nprobe += 1
                    if r['v']:
                        raise Mismatch('stuck:lock-available', 'the model says lock {} stays taken by a killed process, the real lock could be acquired'.format(ann['v']))
                    self.get(p, 'reannounce')
            res['probed'] = nprobe
            return res
        out = self.get_extra('Outcome')
        if out['v'] != beh['outcome']:
            raise Mismatch('outcome:{}-model-{}'.format(out['v'], beh['outcome']), 'the call {} ({}) but the model says {}'.format(out['v'], out.get('exc'), beh['outcome']))
        if out['alive']:
            raise Mismatch('orphans', 'after the call {} {} of {} children are still running'.format(out['v'], len(out['alive']), out['nchildren']))
        if out['v'] == 'returned':
            for a in range(len(cfg['shared'])):
                if out['arrs'][a] != beh['result'][a]:
                    raise Mismatch('result', 'returned array {} is {} but the model says {}'.format(a + 1, out['arrs'][a], beh['result'][a]))
            if out['idx'] is not None and out['idx'] != beh['index']:
                raise Mismatch('state:index', 'final counter {} but the model says {}'.format(out['idx'], beh['index']))
        return res

    def cleanup(self):
        for p, pid in list(self.pids.items()):
            try:
                os.kill(pid, signal.SIGKILL)
            except OSError:
                pass
        try:
            os.kill(self.parent, signal.SIGKILL)
        except OSError:
            pass
        try:
            os.waitpid(self.parent, 0)
        except OSError:
            pass
        for r, w in self.reply:
            os.close(w)
        os.close(self.ann_r)


def replay(cfg, beh):
    s = Scheduler(cfg, beh)
    s.start()
    try:
        res = s.run()
    except Mismatch as m:
        res = dict(status='violation', key=m.key, what=m.what, trace=s.trace[-12:])
    finally:
        s.cleanup()
    return res


def main():
    # import everything the controlled processes need before forking them
    import contextlib, multiprocessing, numpy, treelog
    from nutils import parallel
    import gc
    multiprocessing.Lock()      # starts multiprocessing's resource tracker once, not once per episode
    with parallel.maxprocs(1), treelog.set(treelog.NullLog()):      # warm up lazy imports
        with parallel.ctxrange('warmup', 2) as rng:
            for i in rng:
                pass
    gc.collect()
    gc.freeze()                 # forked processes do not touch (copy) the pages of existing objects
    with open(sys.argv[1]) as f:
        jobs = json.load(f)
    out = []
    for cfg, beh in jobs:
        out.append(replay(cfg, beh))
    with open(sys.argv[2], 'w') as f:
        json.dump(out, f)


if __name__ == '__main__':
    main()
