\* quick, exhaustive: every chain of at most 2 child/edge items (with and without root Index) from
\* every reference of dimension <= 3 and of at most 3 items from every reference of dimension <= 2,
\* rewritten by canonical, uppermost and promote (every ndims); results that contain ScaledUpdim /
\* Identity items are rewritten once more
SPECIFICATION Spec
CONSTANTS
  MaxDim = 3
  MaxLen = 2
  LongDim = 2
  LongLen = 3
  MaxRounds = 1
  WrongSwap = FALSE
INVARIANT MapPreserved
INVARIANT WellFormed
INVARIANT InRange
INVARIANT Terminates
INVARIANT CanonicalDone
INVARIANT OperatorAgrees
INVARIANT DimsKept
INVARIANT EmitDone
CHECK_DEADLOCK FALSE
