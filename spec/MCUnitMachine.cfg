SPECIFICATION Spec
CONSTANTS
  BaseOrd <- MCBaseOrd7
  Prefixes <- MCPrefixes
  Defs <- MCDefs
  AUnits <- MCAUnits
  Numbers <- MCNumbersQ
  Words1 <- MCWords1Quick
  Words2 <- MCWords2Quick
  Powers1 <- MCPowers1Quick
  Powers2 <- MCPowers2Quick
  MaxFactors = 2
  Precs <- MCPrecsQuick
  Precs2 <- MCPrecs2
  OtherUnits <- MCOtherUnits
  ExtraNames <- MCExtraNames
  UPyUnits <- MCUPyUnits
CONSTRAINT Emit
INVARIANT DefsAccepted
INVARIANT TableSound
INVARIANT ParseSound
INVARIANT UParseSound
INVARIANT RoundTrip
INVARIANT FormatChecked
INVARIANT ExtraChecked
CHECK_DEADLOCK FALSE
