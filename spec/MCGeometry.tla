----------------------------- MODULE MCGeometry -----------------------------
(***************************************************************************)
(* C08: model-checking harness of Geometry plus its T binding to           *)
(* src/nutils/transform.py / evaluable.TransformBasis.                     *)
(*                                                                         *)
(* The harness exports (env VF_TABLE, JSON) one row per edge of every      *)
(* reference element (SimplexEdge, TensorEdge1, TensorEdge2) and per       *)
(* boundary / interface element (both sides) of the real topologies the    *)
(* model meshes are bound to, refined ones included (chains with           *)
(* SimplexChild / TensorChild / ScaledUpdim items):                        *)
(*   [at, kind, den, n, ev, fv, basis]                                     *)
(*     at     name of the model mesh whose initial state judges the row    *)
(*     kind   class of the Updim item / "chain:<mesh>" (for the report)    *)
(*     den    common denominator (a power of two) of all numbers           *)
(*     n      dimension of the element                                     *)
(*     ev     the vertices of the element in its root coordinates          *)
(*     fv     the vertices of the facet, mapped through the whole chain    *)
(*     basis  evaluable.TransformBasis._transform_basis(chain): n x n, the *)
(*            first n - 1 columns the linear part of the chain, the last   *)
(*            column Updim.ext pushed through the items above the edge     *)
(* TLC decides for every row, in exact arithmetic, what _Normal relies on: *)
(*   tangent    the first n - 1 columns are tangents of the facet          *)
(*   spanning   ... and they span it (Gram determinant > 0)                *)
(*   outward    ext . nu > 0 where nu is the normal of the facet computed  *)
(*              from its vertices and oriented away from the centre of the *)
(*              element  (Geometry!NormalOutward for the real chains)      *)
(*   onfacet    the facet vertices are vertices-or-midpoints combinations  *)
(*              on the hull of the element: (fv - centre) . nu is the same *)
(*              for all facet vertices and >= (v - centre) . nu for every  *)
(*              element vertex v                                           *)
(***************************************************************************)
EXTENDS Geometry, IOUtils

Table == JsonDeserialize(IOEnv.VF_TABLE)

RowVerdict(r) ==
    LET n == r.n
        ev == TLCEval([k \in 1..Len(r.ev) |-> IV(r.ev[k])])
        fv == TLCEval([k \in 1..Len(r.fv) |-> IV(r.fv[k])])
        B == TLCEval([i \in 1..n |-> IV(r.basis[i])])
        \* centre of the element (times the number of vertices, to stay in integers: compare (nv * x - sum v))
        nv == Len(ev)
        csum == TLCEval([i \in 1..n |-> QSum(TLCEval([k \in 1..nv |-> ev[k][i]]))])
        rel(x) == VSub(VScale(QI(nv), x), csum)                      \* nv * (x - centre)
        \* n - 1 independent edge vectors of the facet: from its first vertex to the next n - 1 vertices in the
        \* order of the reference (simplex: all others; square face: vertices 2 and 3 are the two neighbours)
        tang == TLCEval([k \in 1..(n - 1) |-> VSub(fv[k + 1], fv[1])])
        c == Cross(FromCols(tang, n))
        s == QSgn(VDot(c, rel(fv[1])))
        nu == IF s = 1 THEN c ELSE VNeg(c)
        cols == TLCEval([j \in 1..n |-> MCol(B, j)])
        tcols == TLCEval([j \in 1..(n - 1) |-> cols[j]])
    IN IF s = 0 THEN "degenerate"
       ELSE IF \E j \in 1..(n - 1) : VDot(cols[j], nu)[1] # 0 THEN "tangent"
       ELSE IF QDet(Gram(FromCols(tcols, n), n - 1))[1] <= 0 THEN "spanning"
       ELSE IF QSgn(VDot(cols[n], nu)) # 1 THEN "outward"
       ELSE IF \E k \in 1..Len(fv) : VDot(rel(fv[k]), nu) # VDot(rel(fv[1]), nu) THEN "onfacet"
       ELSE IF \E k \in 1..nv : VDot(rel(ev[k]), nu)[1] * VDot(rel(fv[1]), nu)[2] > VDot(rel(fv[1]), nu)[1] * VDot(rel(ev[k]), nu)[2] THEN "onfacet"
       ELSE "ok"

MyRows == {k \in 1..Len(Table) : Table[k].at = mesh.name}
\* always TRUE; judges the rows of the mesh of an initial state and prints the verdicts that are not "ok" plus the count
EdgeTable == (stage = "mesh" /\ mesh.level = 0) =>
                /\ \A k \in MyRows : LET v == RowVerdict(Table[k]) IN v = "ok" \/ Emit([tab |-> "edge", row |-> k, verdict |-> v])
                /\ Emit([tab |-> "edge-count", at |-> mesh.name, n |-> Cardinality(MyRows)])
=============================================================================
