---------------------------- MODULE SparseCheck ----------------------------
(***************************************************************************)
(* C05: the sparse COO / CSR data extracted from an array expression       *)
(* denote exactly the dense array the expression means.                    *)
(*                                                                         *)
(* Jobs (env VF_JOBS): [id, N (program), argsh, args (flat integer data    *)
(* per argument id), node, coo |-> [values, indices, shape],               *)
(* csr |-> [values, rowptr, colidx, ncols, has]] where values are exact    *)
(* rationals <<n, d>> recorded from the real evaluation.  The dense        *)
(* reference is computed here from the ArraySem semantics of the same      *)
(* program; all clauses of the property are TLA+ predicates and TLC        *)
(* reports the first one that fails ("ok" otherwise, "undef" when the      *)
(* model value is undefined and the case is not judged).                   *)
(***************************************************************************)
EXTENDS ArraySem, Json, IOUtils

Jobs == JsonDeserialize(IOEnv.VF_JOBS)
NJ == Len(Jobs)
VARIABLE jid

EnvOf(job) == [a \in 1..Len(job.argsh) |-> ArgArr(job.argsh[a], job.args[a], 0)]
Dense(job) == Ev(job.N, job.node, EnvOf(job), <<0, 0>>)

\* ---- COO clauses
NNZ(c) == Len(c.values)
Lengths(c) == \A k \in 1..Len(c.indices) : Len(c.indices[k]) = NNZ(c)
NDimOk(c) == Len(c.indices) = Len(c.shape)
InRange(c) == \A k \in 1..Len(c.indices) : \A e \in 1..NNZ(c) : c.indices[k][e] >= 0 /\ c.indices[k][e] < c.shape[k]
Tuple(c, e) == [k \in 1..Len(c.indices) |-> c.indices[k][e]]
RECURSIVE LexLess(_, _, _)
LexLess(a, b, k) == IF k > Len(a) THEN FALSE
                    ELSE IF a[k] < b[k] THEN TRUE ELSE IF a[k] > b[k] THEN FALSE ELSE LexLess(a, b, k + 1)
\* strictly increasing lexicographically (=> unique); a 0-d array has exactly one entry
StrictLex(c) == IF Len(c.shape) = 0 THEN NNZ(c) = 1
                ELSE \A e \in 1..(NNZ(c) - 1) : LexLess(Tuple(c, e), Tuple(c, e + 1), 1)
\* scattering the values into zeros reproduces the dense array
ScatterEq(c, dense) ==
    \A f \in 1..Prod(c.shape) :
        LET idx == Unflat(f - 1, c.shape)
            hits == {e \in 1..NNZ(c) : Tuple(c, e) = idx}
            val == IF hits = {} THEN RZero ELSE c.values[CHOOSE e \in hits : TRUE]
        IN dense.v[f][1] = Norm(val[1], val[2])
AnyBad(a) == \E k \in 1..Len(a.v) : DIsBad(a.v[k])

CooVerdict(job) ==
    LET c == job.coo
        dense == Dense(job)
    IN IF c.shape # dense.sh THEN "shape"
       ELSE IF ~NDimOk(c) THEN "ndim"
       ELSE IF ~Lengths(c) THEN "lengths"
       ELSE IF ~InRange(c) THEN "index-out-of-range"
       ELSE IF ~StrictLex(c) THEN "not-strictly-lexicographic"
       ELSE IF AnyBad(dense) THEN "undef"
       ELSE IF ~ScatterEq(c, dense) THEN "scatter-differs-from-dense"
       ELSE "ok"

\* ---- CSR clauses (2-d only)
CsrVerdict(job) ==
    LET c == job.csr
        dense == Dense(job)
        nrows == Len(c.rowptr) - 1
        nnz == Len(c.values)
    IN IF ~c.has THEN "absent"
       ELSE IF Len(dense.sh) # 2 \/ nrows # dense.sh[1] \/ c.ncols # dense.sh[2] THEN "shape"
       ELSE IF Len(c.colidx) # nnz THEN "lengths"
       ELSE IF c.rowptr[1] # 0 \/ c.rowptr[nrows + 1] # nnz THEN "rowptr-ends"
       ELSE IF \E r \in 1..nrows : c.rowptr[r] > c.rowptr[r + 1] THEN "rowptr-not-monotone"
       ELSE IF \E e \in 1..nnz : c.colidx[e] < 0 \/ c.colidx[e] >= c.ncols THEN "column-out-of-range"
       ELSE IF \E r \in 1..nrows : \E e \in (c.rowptr[r] + 1)..(c.rowptr[r + 1] - 1) : c.colidx[e] >= c.colidx[e + 1]
            THEN "columns-not-strictly-increasing"
       ELSE IF AnyBad(dense) THEN "undef"
       ELSE IF \E r \in 1..nrows : \E col \in 0..(c.ncols - 1) :
                 LET hits == {e \in (c.rowptr[r] + 1)..c.rowptr[r + 1] : c.colidx[e] = col}
                     val == IF hits = {} THEN RZero ELSE c.values[CHOOSE e \in hits : TRUE]
                 IN dense.v[(r - 1) * c.ncols + col + 1][1] # Norm(val[1], val[2])
            THEN "scatter-differs-from-dense"
       ELSE "ok"

Emit(x) == PrintT(<<"VF", ToJson(x)>>)
Work == LET job == Jobs[jid] IN Emit([id |-> job.id, coo |-> CooVerdict(job), csr |-> CsrVerdict(job)])
Init == jid \in 1..NJ
Next == FALSE /\ UNCHANGED jid
Spec == Init /\ [][Next]_jid
=============================================================================
