\* liveness: under weak fairness of the non-fault steps, and with no SIGKILL inside a
\* critical section, every call returns or raises
SPECIFICATION LiveSpec
CONSTANTS
  MaxProcs = 3
  Configs <- ConfigsLive
  MaxFaults = 1
  LockedClaim = TRUE
  CheckExit = TRUE
  KillChildren = TRUE
  KillInCS = FALSE
  Record = FALSE
  FaultPlans <- PlansAny
INVARIANT TypeOK
PROPERTY Terminates
CHECK_DEADLOCK FALSE
