--------------------------- MODULE TraceCodeGen ---------------------------
(***************************************************************************)
(* C02 (C->S): abstract machine for the statement language that            *)
(* evaluable.compile emits, driven by the executed statements of real      *)
(* generated scripts (recorded with sys.settrace; see harness/vf/          *)
(* codegen.py).  One event per executed statement:                         *)
(*   [k kind, t target variable, r read variables, nl number of enclosing  *)
(*    loops, ln source line, sh shared-memory allocation, cst target is a  *)
(*    module global]                                                       *)
(* State: per variable a status                                            *)
(*   undef -> alloc (numpy.empty) -> zero (fill(0)) -> acc (in-place       *)
(*   contributions: add out=, add.at, copyto) -> sealed (read by another   *)
(*   statement); val (plain assignment)                                    *)
(* and a stamp: the vector of <<loop line, iteration number>> of the       *)
(* enclosing loops at which the variable was (re)defined.                  *)
(*                                                                         *)
(* Clauses checked at every step (first failing clause is reported):       *)
(*   read-undefined / read-uninitialised  every read variable holds a      *)
(*       value: in particular an allocated but never zeroed or filled      *)
(*       buffer is never read or accumulated into;                         *)
(*   stale-read  a value read was defined in the current iteration of the  *)
(*       enclosing loops (its stamp is a prefix of the current iteration   *)
(*       vector) -- catches statements placed in the wrong loop block and  *)
(*       values leaking out of a loop body;                                *)
(*   accumulate-into-uninitialised / write-after-read  in-place            *)
(*       accumulation only into a zeroed or accumulating buffer that no    *)
(*       other statement has read since (zeroing must be repeated per      *)
(*       activation: catches hoisted zeroing and in-place aliasing);       *)
(*   write-to-frozen  cached globals are not written after setflags;       *)
(*   zero-undefined  fill(0) of a variable that was never allocated.       *)
(***************************************************************************)
EXTENDS Naturals, Sequences, FiniteSets, TLC, Json, IOUtils

Traces == JsonDeserialize(IOEnv.VF_TRACE)
NT == Len(Traces)

VARIABLES tid, l, status, stamp, iter, frozen, viol
vars == <<tid, l, status, stamp, iter, frozen, viol>>

E == Traces[tid].events
NV == Traces[tid].nvars
\* module globals (c<hash> constants and cached intermediates) exist before the call
PreDefined == {Traces[tid].predefined[i] : i \in 1..Len(Traces[tid].predefined)}

Init == /\ tid \in 1..NT
        /\ l = 1
        /\ status = [v \in 1..NV |-> IF v \in PreDefined THEN "val" ELSE "undef"]
        /\ stamp = [v \in 1..NV |-> <<>>]
        /\ iter = <<>>
        /\ frozen = {}
        /\ viol = "none"

IsPrefix(s, t) == Len(s) <= Len(t) /\ \A i \in 1..Len(s) : s[i] = t[i]
Readable == {"val", "acc", "zero", "sealed"}

Step ==
  /\ l <= Len(E) /\ viol = "none"
  /\ LET e == E[l]
         now == SubSeq(iter, 1, IF e.nl < Len(iter) THEN e.nl ELSE Len(iter))
         reads == {e.r[i] : i \in 1..Len(e.r)}
         badread == IF \E v \in reads : status[v] = "undef" THEN "read-undefined"
                    ELSE IF \E v \in reads : status[v] = "alloc" THEN "read-uninitialised"
                    ELSE IF \E v \in reads : ~IsPrefix(stamp[v], now) THEN "stale-read"
                    ELSE "none"
         t == e.t
         tgt == CASE e.k \in {"IADD", "ADDAT"} ->
                       (IF status[t] \in {"undef", "alloc"} THEN "accumulate-into-uninitialised"
                        ELSE IF status[t] = "sealed" THEN "write-after-read"
                        ELSE IF t \in frozen THEN "write-to-frozen"
                        ELSE IF ~IsPrefix(stamp[t], now) THEN "stale-accumulator" ELSE "none")
                  [] e.k = "COPYTO" ->
                       (IF status[t] = "undef" THEN "write-undefined"
                        ELSE IF status[t] = "sealed" THEN "write-after-read"
                        ELSE IF t \in frozen THEN "write-to-frozen" ELSE "none")
                  [] e.k = "IMUL" ->
                       (IF status[t] \in {"undef", "alloc"} THEN "accumulate-into-uninitialised"
                        ELSE IF t \in frozen THEN "write-to-frozen" ELSE "none")
                  [] e.k = "ZERO" -> (IF status[t] = "undef" THEN "zero-undefined" ELSE IF t \in frozen THEN "write-to-frozen" ELSE "none")
                  [] e.k \in {"ASSIGN", "ALLOC", "WITHAS", "FOR"} -> (IF t \in frozen THEN "write-to-frozen" ELSE "none")
                  [] OTHER -> "none"
         verdict == IF badread # "none" THEN badread ELSE tgt
         \* reading an accumulator (other than accumulating into it) seals it
         sealed == [v \in 1..NV |-> IF v \in reads /\ status[v] \in {"acc", "zero"} /\ v # t THEN "sealed" ELSE status[v]]
     IN /\ viol' = verdict
        /\ IF verdict # "none" THEN UNCHANGED <<status, stamp, iter, frozen, l>>
           ELSE /\ l' = l + 1
                /\ iter' = IF e.k = "FOR"
                           THEN Append(now, <<e.ln, IF Len(iter) > e.nl /\ iter[e.nl + 1][1] = e.ln THEN iter[e.nl + 1][2] + 1 ELSE 1>>)
                           ELSE now
                /\ frozen' = IF e.k = "FREEZE" THEN frozen \cup {t} ELSE frozen
                /\ status' = CASE e.k = "ALLOC" -> [sealed EXCEPT ![t] = "alloc"]
                               [] e.k = "ZERO" -> [sealed EXCEPT ![t] = "zero"]
                               [] e.k \in {"IADD", "ADDAT", "COPYTO"} -> [sealed EXCEPT ![t] = "acc"]
                               [] e.k \in {"ASSIGN", "WITHAS", "FOR"} -> [sealed EXCEPT ![t] = "val"]
                               [] OTHER -> sealed
                /\ stamp' = CASE e.k \in {"ALLOC", "ZERO", "ASSIGN", "WITHAS"} -> [stamp EXCEPT ![t] = now]
                              [] e.k = "FOR" -> [stamp EXCEPT ![t] = iter']
                              [] OTHER -> stamp
  /\ UNCHANGED tid

Spec == Init /\ [][Step]_vars

\* ---- verdict bookkeeping (needs -workers 1): register 2 maps tid -> <<events consumed, clause>>
ASSUME TLCSet(2, [t \in 1..NT |-> <<0, "none">>])
Progress == TLCSet(2, [TLCGet(2) EXCEPT ![tid] = IF l - 1 >= @[1] THEN <<l - 1, viol>> ELSE @])
Rejected == {t \in 1..NT : TLCGet(2)[t][2] # "none" \/ TLCGet(2)[t][1] # Len(Traces[t].events)}
TraceAccepted == \/ Rejected = {}
                 \/ /\ \A t \in Rejected : PrintT(<<"VF", ToJson([tid |-> t, matched |-> TLCGet(2)[t][1], clause |-> TLCGet(2)[t][2], len |-> Len(Traces[t].events)])>>)
                    /\ FALSE
=============================================================================
