---- MODULE MCExprBuilder ----
EXTENDS ExprBuilder
AllOps == {"Negative", "Absolute", "Sign", "Reciprocal", "LogicalNot", "Multiply", "Add", "Minimum", "Maximum",
           "FloorDivide", "Mod", "Equal", "Less", "Greater", "Power", "BoolToInt", "IntToFloat", "InsertAxis",
           "Transpose", "Sum", "Product", "Take", "TakeDiag", "Diagonalize", "Inflate", "Ravel", "Unravel",
           "RavelIndex", "Choose", "InRange", "Determinant", "Inverse", "Polyval", "LoopSum", "LoopConcat"}
\* the structural constructors that carry the swap rules of the simplifier
CoreOps == {"InsertAxis", "Transpose", "Sum", "Multiply", "Add", "Take", "TakeDiag", "Diagonalize", "Inflate",
            "Ravel", "Unravel", "Power", "Sign", "LoopSum", "Absolute", "Negative", "Choose"}
AllLeaves == 1..Len(LeafPool)
CoreLeaves == {1, 2, 7, 8, 9, 10, 12, 13, 14, 15, 20, 22, 25}
Fam(ops, leaves, maxnodes, maxops, maxleaves) == [ops |-> ops, leaves |-> leaves, maxnodes |-> maxnodes, maxops |-> maxops, maxleaves |-> maxleaves]
====
