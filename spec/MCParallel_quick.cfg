SPECIFICATION SpecT
CONSTANTS
  MaxProcs = 3
  Configs <- ConfigsQuick
  MaxFaults = 1
  LockedClaim = TRUE
  CheckExit = TRUE
  KillChildren = TRUE
  KillInCS = FALSE
  Record = FALSE
INVARIANT TypeOK
INVARIANT AtMostOnce
INVARIANT ExactlyOnce
INVARIANT MutexRange
INVARIANT MutexArrays
INVARIANT NoLostUpdate
INVARIANT NoPartialResult
INVARIANT RaiseOnlyOnFault
INVARIANT NoOrphans
CHECK_DEADLOCK TRUE
