---------------------------- MODULE TraceCacheFn ----------------------------
(***************************************************************************)
(* Trace validation for nutils.cache.function: every recorded execution of *)
(* the real code (treelog.debug lines of cache.py, emitted while the flock *)
(* is held, plus harness events around the wrapped function and the call)  *)
(* must be a behaviour of CacheFn, and every CacheFn invariant must hold   *)
(* in every state of it.                                                   *)
(*                                                                         *)
(* Input: JSON file (env VF_TRACE) = list of traces; a trace is            *)
(*   [init |-> "absent"|"empty"|"prefix"|"complete"|"garbage",             *)
(*    nprocs |-> n, killed |-> <<p, ...>>,                                 *)
(*    events |-> << [p |-> 1..n, ev |-> name, ok |-> BOOLEAN], ... >>]     *)
(* One TLC run validates all traces: tid is chosen in the initial state.   *)
(* Unlogged steps (DumpByte, Close, Crash) are silent actions; TLC infers  *)
(* e.g. how many bytes a killed writer left behind from what the next      *)
(* process logged ("failed to load" vs "load").                            *)
(***************************************************************************)
EXTENDS Naturals, Sequences, FiniteSets, TLC, Json, IOUtils

Traces == JsonDeserialize(IOEnv.VF_TRACE)
NT == Len(Traces)
MaxProcs == 4

VARIABLES tid, l, exists, file, lockedBy, pc, pos, wid, nbytes, ret, crashes, calls, nwrites

C == INSTANCE CacheFn WITH Procs <- 1..MaxProcs, PLen <- 2, MaxCrash <- 1000, MaxCalls <- 1000,
                           CanRaise <- TRUE, DetPickle <- TRUE, InitFiles <- {<<>>}

svars == <<exists, file, lockedBy, pc, pos, wid, nbytes, ret, crashes, calls, nwrites>>
E == Traces[tid].events
Killed == {Traces[tid].killed[i] : i \in 1..Len(Traces[tid].killed)}

InitFile(kind) == CASE kind = "absent" -> <<>>
                    [] kind = "empty" -> <<>>
                    [] kind = "prefix" -> <<C!Tok(0, 1)>>
                    [] kind = "complete" -> C!Good(0)
                    [] kind = "garbage" -> <<C!Garbage, C!Garbage, C!Garbage>>

TraceInit == /\ tid \in 1..NT
             /\ l = 1
             /\ exists = (Traces[tid].init # "absent")
             /\ file = InitFile(Traces[tid].init)
             /\ lockedBy = C!None
             /\ pc = [p \in 1..MaxProcs |-> "idle"]
             /\ pos = [p \in 1..MaxProcs |-> 0]
             /\ wid = [p \in 1..MaxProcs |-> 0]
             /\ nbytes = [p \in 1..MaxProcs |-> 0]
             /\ ret = [p \in 1..MaxProcs |-> C!NoRet]
             /\ crashes = 0 /\ calls = 0 /\ nwrites = 0

IsEvent(name) == l <= Len(E) /\ E[l].ev = name /\ l' = l + 1 /\ UNCHANGED tid
P == E[l].p

\* remaining logged events of process p (other than the parent's kill notice)
Remaining(p) == {i \in l..Len(E) : E[i].p = p /\ E[i].ev # "killed"}

TCall       == IsEvent("call") /\ C!Call(P)
TAcquiring  == IsEvent("acquiring") /\ C!Open(P)
TAcquired   == IsEvent("acquired") /\ C!Lock(P)
TFailed     == IsEvent("failed") /\ C!LoadFail(P)
TLoad       == IsEvent("load") /\ C!LoadOk(P)
TCompStart  == IsEvent("compute_start") /\ C!ComputeStart(P)
TCompEnd    == IsEvent("compute_end") /\ C!ComputeOk(P)
TCompRaise  == IsEvent("compute_raise") /\ C!ComputeRaise(P)
TStore      == IsEvent("store") /\ pc[P] = "stored" /\ UNCHANGED svars
\* the harness compared the returned value and the replayed log with the
\* uncached function: "ok" is the implementation-side verdict of Transparent
TReturn     == IsEvent("return") /\ E[l].ok = TRUE /\ pc[P] = "done" /\ ret[P] = C!TrueValue /\ C!Return(P)
TRaise      == IsEvent("raise") /\ pc[P] = "raised" /\ C!Return(P)
TKilled     == IsEvent("killed") /\ pc[P] = "idle" /\ UNCHANGED svars

\* silent steps
\* (TLC has no action composition: Touch before "acquiring" and Seek0 before
\* "compute_start" are silent steps, each enabled at exactly one pc value)
STouch == \E p \in 1..MaxProcs : C!Touch(p) /\ UNCHANGED <<tid, l>>
SSeek  == \E p \in 1..MaxProcs : C!Seek0(p) /\ UNCHANGED <<tid, l>>
SDump  == \E p \in 1..MaxProcs : C!DumpByte(p) /\ UNCHANGED <<tid, l>>
SClose == \E p \in 1..MaxProcs : C!Close(p) /\ UNCHANGED <<tid, l>>
SCrash == \E p \in Killed : Remaining(p) = {} /\ pc[p] # "idle" /\ C!Crash(p) /\ UNCHANGED <<tid, l>>

TraceNext == \/ TCall \/ TAcquiring \/ TAcquired \/ TFailed \/ TLoad \/ TCompStart \/ TCompEnd
             \/ TCompRaise \/ TStore \/ TReturn \/ TRaise \/ TKilled
             \/ STouch \/ SSeek \/ SDump \/ SClose \/ SCrash

tvars == <<tid, l, exists, file, lockedBy, pc, pos, wid, nbytes, ret, crashes, calls, nwrites>>
TraceSpec == TraceInit /\ [][TraceNext]_tvars

\* ---- acceptance bookkeeping (needs -workers 1)
ASSUME TLCSet(2, [t \in 1..NT |-> 0])
Progress == TLCSet(2, [TLCGet(2) EXCEPT ![tid] = IF l > @ THEN l ELSE @])
Rejected == {t \in 1..NT : TLCGet(2)[t] # Len(Traces[t].events) + 1}
TraceAccepted == \/ Rejected = {}
                 \/ /\ \A t \in Rejected : PrintT(<<"VF", ToJson([tid |-> t, matched |-> TLCGet(2)[t] - 1, len |-> Len(Traces[t].events)])>>)
                    /\ FALSE

MutexCompute == C!MutexCompute
LockHeld == C!LockHeld
Transparent == C!Transparent
LoadableIsGenuine == C!LoadableIsGenuine
=============================================================================
