\* thorough, exhaustive: every CSR input with up to 3 stored entries (arbitrary COO input stays at the bounds
\* of asm: its column tests are those of the CSR path), well-formed input up to 3x3
SPECIFICATION Spec
CONSTANTS
  Forms = {"csrwild", "csr", "coo", "empty", "diag", "eye"}
  Shapes <- Shapes3
  MinNnz = 0
  MaxNnz = 3
  WildM = 2
  WildN = 2
  WildCooN = 0
  WildNnz = 3
  BlockHeights = {0, 1}
  BlockWidths = {0, 1}
  MaxBlockRows = 1
  MaxBlockCols = 1
  MaxBlockNnz = 1
  Dtypes = {"f", "c"}
  WildDtypes = {"f"}
  Ops = {}
  OpForms = {"csrwild", "csr", "coo", "empty", "diag", "eye"}
  MaxSteps = 0
  MaxE = 2
  StrictOrder = TRUE
  LowerBound = TRUE
  CacheCopies = TRUE
INVARIANT TypeOK
INVARIANT AcceptIffValid
INVARIANT ReasonsIffInvalid
INVARIANT BackendGetsValid
INVARIANT Faithful
INVARIANT FaithfulInput
INVARIANT CompressCorrect
INVARIANT BlockFaithful
INVARIANT PickleFaithful
INVARIANT CacheTransparent
INVARIANT StepsFaithful
INVARIANT Algebra
INVARIANT EmitBehaviours
CHECK_DEADLOCK FALSE
