--------------------------- MODULE MCParallelIO ---------------------------
(* Parallel with configurations loaded from a JSON table exported by the   *)
(* harness from the real generated scripts (env VF_TABLE; binding T), and  *)
(* emission of complete behaviours with the predicted state after every    *)
(* step for the replay into the real code (binding S->C).                  *)
EXTENDS MCParallel, Json, IOUtils

Table == JsonDeserialize(IOEnv.VF_TABLE)
ConfigsTable == {Table[i] : i \in 1..Len(Table)}

Emit(x) == PrintT(<<"VF", ToJson(x)>>)
EmitBehaviours == (Record /\ (Terminal \/ Stuck)) =>
                    Emit([cfg |-> cfg, hist |-> hist,
                          outcome |-> IF Terminal THEN pc[0] ELSE "stuck",
                          result |-> [a \in Arrs |-> Result(a)], index |-> index])
=============================================================================
