"""C10 -- Topology operations conserve the domain.

Deciding method: model-based verification with a TLA+ specification checked by TLC.

Design spec  spec/Topo.tla (+ MCTopo.tla, MCTopo_*.cfg)
  A topology denotes a set of cells over the atoms of the dyadic grid of maximal depth L (unit boxes; half
  squares for simplex / mixed meshes); one action per public topology operation (refined, refine_spaces,
  refined_by, refined_by & refined_by, take, subset, -, |, slicing, trim and its complement), a structure tag
  that mirrors which nutils class results and hence which operations / observations the implementation offers;
  level sets are half spaces on the dyadic grid (trim) and max / min of two of them (trim2, non-convex elements).
  Invariants (the text of C10): Disjoint, WithinHull, BoundaryClosed (sum n = 0, flux of x = D V),
  InterfacesOnce, FacetPartition, CutShared; action property StepConserves (refinement preserves the atom set of
  every element, selections drop whole elements only, trim + complement partition every element).
  TLC: exhaustive over every denotation reachable within MaxOps operations (VIEW = denotation) for small bases,
  -simulate for deeper histories on larger bases; vacuity guard on the per-action coverage; spec mutants
  (child-drop, trim-overlap, nb-skew) must violate the invariants.
Binding S->C  spec/TopoEval.tla + c10_replay.py
  Behaviours chosen by TLC (operation histories) together with the model's predicted observation of every state
  (element keys, measures, moments, boundary facet atoms with normals, interior facet atoms with their two
  cells, named boundary groups, complement, cut and trimmed | complement after a trim) are replayed step by step on real nutils topologies
  (mesh.rectilinear incl. periodic, newrectilinear products, multipatch, unitsquare triangle / mixed) and
  compared after every step.  The model is the oracle.
"""

import collections
import concurrent.futures
import json
import multiprocessing
import os
import random
import time

from .. import tlc

LEVEL = 'model_checking'

ACTIONS = ['Refine', 'RefSpace', 'RefBy', 'HierAnd', 'Take', 'Select', 'Remove', 'Union', 'Slice', 'Trim', 'Trim2']
MUTANTS = {'child-drop': ('StepProp', 'BoundaryClosed', 'StepConserves'), 'trim-overlap': ('Disjoint',), 'nb-skew': ('InterfacesOnce', 'BoundaryClosed', 'FacetPartition')}
NPROC = 12

# minimal behaviours that witness the findings recorded for this property (replayed on every run, first)
WITNESSES = [
    dict(base='line2', L=1, hist=[dict(op='trim', a=[1, 1, 1, 1], S=[], T=[]), dict(op='refby', a=[], S=[[[0], [0], 2]], T=[])]),
    dict(base='line2p', L=1, hist=[dict(op='trim', a=[1, 1, 1, 0], S=[], T=[])]),
    dict(base='line2', L=1, hist=[dict(op='trim', a=[1, 2, 1, 0], S=[], T=[]), dict(op='trim', a=[1, 1, 1, 0], S=[], T=[])]),
    dict(base='rect21', L=1, hist=[dict(op='trim', a=[1, 3, 1, 1], S=[], T=[]), dict(op='trim', a=[2, 1, -1, 1], S=[], T=[])]),
    dict(base='line3p', L=1, hist=[dict(op='trim', a=[1, 5, -1, 0], S=[], T=[]), dict(op='trim', a=[1, 4, -1, 0], S=[], T=[])]),
    dict(base='rect21', L=2, hist=[dict(op='trim2', a=[1, -1, 2, 1, 2, 0], S=[], T=[]), dict(op='trim', a=[1, 1, 1, 2], S=[], T=[])]),
    dict(base='rect22', L=1, hist=[dict(op='trim2', a=[1, 1, 2, -1, 1, 0], S=[], T=[]), dict(op='trim2', a=[3, -1, 2, -1, 1, 1], S=[], T=[])]),
]


def _cfg(bases, maxops, maxsub, npat, ops='Ops_all', ref='Ref_01', mutant='none', view=True, emit='EmitState', props=True):
    lines = ['SPECIFICATION Spec', 'CONSTANTS',
             '  Bases <- {}'.format(bases), '  MaxOps = {}'.format(maxops), '  MaxSub = {}'.format(maxsub), '  NPat = {}'.format(npat),
             '  OpSet <- {}'.format(ops), '  TrimRef <- {}'.format(ref), '  Mutant = "{}"'.format(mutant)]
    if view:
        lines.append('VIEW View')
    for inv in ('TypeOK', 'Disjoint', 'WithinHull', 'BoundaryClosed', 'InterfacesOnce', 'FacetPartition', 'CutShared'):
        lines.append('INVARIANT ' + inv)
    if emit:
        lines.append('INVARIANT ' + emit)
    if props:
        lines.append('PROPERTY StepProp')
    lines.append('CHECK_DEADLOCK FALSE')
    return '\n'.join(lines) + '\n'


def plan(tier, seed):
    """name -> (module, kwargs, exhaustive)"""
    jobs = collections.OrderedDict()
    mut = sorted(MUTANTS)[seed % len(MUTANTS)]
    if tier == 'quick':
        jobs['ex1'] = ('MCTopo', dict(cfg='MCTopo_quick.cfg', coverage=True, workers=1), True)
        jobs['sim'] = ('MCTopo', dict(cfg='MCTopo_sim.cfg', simulate=dict(num=14), depth=4, seed=seed, workers=1, timeout=400), False)
        # directed, exhaustive: intersections of hierarchical topologies of different depth (refined_by . [refined_by & refined_by])
        jobs['ex2-hier'] = ('MCTopo', dict(cfg_text=_cfg('Bases_hier', 2, 1, 1, ops='Ops_hier', ref='Ref_1'), workers=1, timeout=400), True)
        jobs['mutant-' + mut] = ('MCTopo', dict(cfg_text=_cfg('Bases_mutant', 2, 1, 1, mutant=mut, emit=None), workers=1), True)
    else:
        jobs['ex1'] = ('MCTopo', dict(cfg='MCTopo_quick.cfg', coverage=True, workers=1), True)
        for fam in ('line', 'rect', 'conn', 'mul', 'trim2'):
            jobs['ex2-' + fam] = ('MCTopo', dict(cfg='MCTopo_{}.cfg'.format(fam), workers=1, timeout=1500), True)
        jobs['ex3-line'] = ('MCTopo', dict(cfg_text=_cfg('Bases_one', 3, 1, 1, ops='Ops_deep', ref='Ref_1', emit='EmitHist'), workers=1, timeout=1500), True)
        jobs['sim'] = ('MCTopo', dict(cfg='MCTopo_sim.cfg', simulate=dict(num=120), depth=5, seed=seed, workers=1, timeout=500), False)
        jobs['sim-deep'] = ('MCTopo', dict(cfg='MCTopo_simdeep.cfg', simulate=dict(num=40), depth=7, seed=seed + 1, workers=1, timeout=500), False)
        for m in sorted(MUTANTS):
            jobs['mutant-' + m] = ('MCTopo', dict(cfg_text=_cfg('Bases_mutant', 2, 1, 1, mutant=m, emit=None), workers=1), True)
    return jobs


def _run_job(item):
    name, (module, kw, exhaustive) = item
    kw = dict(kw)
    kw.setdefault('deadlock', False)
    return name, tlc.run(module, tag='c10-' + name, **kw)


def _hkey(base, L, hist):
    return (base, L, json.dumps(hist, sort_keys=True))


def evaluate(cases, tag, workers=2):
    """TopoEval: the model's predictions for every prefix state of the given behaviours -> (dict key -> pred, result)"""
    if not cases:
        return {}, None
    wd = os.path.join(tlc.WORK, 'c10')
    os.makedirs(wd, exist_ok=True)
    path = os.path.join(wd, tag + '.json')
    with open(path, 'w') as f:
        json.dump([dict(base=c['base'], L=c['L'], hist=c['hist']) for c in cases], f)
    res = tlc.run('TopoEval', 'TopoEval.cfg', tag='c10-' + tag, workers=workers, deadlock=False, env=dict(VF_TRACE=path), timeout=1200)
    if res.violated:
        raise RuntimeError('TopoEval: the replayed behaviours violate {}:\n{}'.format(res.violated, '\n'.join(res.error_trace[:40])))
    preds = {}
    got = collections.Counter()
    for e in res.emitted:
        c = cases[e['cid'] - 1]
        preds[_hkey(c['base'], c['L'], c['hist'][:e['k']])] = e['pred']
        got[e['cid']] += 1
    for i, c in enumerate(cases):
        if got[i + 1] != len(c['hist']) + 1:
            raise RuntimeError('TopoEval: behaviour {} is not a behaviour of the design spec (stopped after {} of {} steps)'.format(c, got[i + 1] - 1, len(c['hist'])))
    return preds, res


_PREDS = None
_DEADLINE = None


def _replay_group(cases):
    """worker: replay a group of behaviours that share prefixes"""
    import treelog
    from . import c10_replay
    out = []
    rp = c10_replay.Replayer()
    n0 = len(c10_replay.RELABEL_NOTES)
    with treelog.set(treelog.FilterLog(treelog.StdoutLog(), minlevel=treelog.proto.Level.error)):
        for c in cases:
            if time.process_time() > _DEADLINE:      # CPU seconds of this worker (a forked worker starts at zero): load independent
                out.append(('skipped', None, 0))
                continue
            preds = [_PREDS[_hkey(c['base'], c['L'], c['hist'][:k])] for k in range(len(c['hist']) + 1)]
            try:
                fail, ok = rp.run_case(c, preds)
            except Exception:
                import traceback
                return dict(harness_error=traceback.format_exc() + '\ncase: ' + json.dumps(c))
            out.append(('done', fail, ok))
    rp.stats['cut_label_not_judged'] += len(c10_replay.RELABEL_NOTES) - n0
    return dict(res=out, stats=rp.stats, unsupported=rp.unsupported)


def generate(rep, jobs, rng, limit):
    """run the TLC design jobs; -> (behaviours chosen for replay incl. the witnesses, predictions by state key)"""
    with concurrent.futures.ThreadPoolExecutor(max_workers=len(jobs) + 1) as pool:
        futures = [pool.submit(_run_job, item) for item in jobs.items()]
        wfut = pool.submit(evaluate, WITNESSES, 'witness', 1)
        results = dict(f.result() for f in futures)
        preds, wres = wfut.result()
    rep.lap('tlc design runs')
    if wres is not None:
        rep.add_tlc(wres)

    behaviours = collections.OrderedDict()      # key -> dict(base, L, hist)
    for name, res in results.items():
        exhaustive = jobs[name][2]
        if name.startswith('mutant-'):
            want = MUTANTS[name[7:]]
            if res.violated not in want:
                raise RuntimeError('spec mutant {} does not violate any of {} (violated={}): the invariants are vacuous'.format(name, want, res.violated))
            rep.extra.setdefault('spec_mutants_killed', []).append('{}:{}'.format(name[7:], res.violated))
            continue
        rep.add_tlc(res, exhaustive=exhaustive)
        if res.violated:
            raise RuntimeError('design spec run {} violates {}:\n{}'.format(name, res.violated, '\n'.join(res.error_trace[:60])))
        for e in res.emitted:
            key = _hkey(e['base'], e['L'], e['hist'])
            if key not in behaviours:
                behaviours[key] = dict(base=e['base'], L=e['L'], hist=e['hist'], src=name)
            if 'pred' in e:
                preds[key] = e['pred']
    cov = results['ex1'].coverage
    missing = [a for a in ACTIONS if cov.get(a, (0, 0))[1] == 0]
    if missing:
        raise RuntimeError('Topo: actions never taken in the exhaustive run: {}'.format(missing))

    # ---- choose the behaviours to replay: maximal histories (every prefix is compared on the way)
    allh = list(behaviours.values())
    prefixes = set()
    for b in allh:
        for k in range(len(b['hist'])):
            prefixes.add(_hkey(b['base'], b['L'], b['hist'][:k]))
    leaves = [b for b in allh if b['hist'] and _hkey(b['base'], b['L'], b['hist']) not in prefixes]
    rng.shuffle(leaves)
    # stratify: round robin over (base, first operation, last operation) so that a cut by the time budget stays balanced
    strata = collections.OrderedDict()
    for b in leaves:
        strata.setdefault((b['base'], b['hist'][0]['op'], b['hist'][-1]['op']), []).append(b)
    order = []
    if rep.tier == 'quick':
        # the directed families of the quick tier are small and go first: they are replayed whatever the time budget cuts later
        order = [b for b in leaves if b.get('src', '').startswith('ex2-')]
        for k in list(strata):
            strata[k] = [b for b in strata[k] if not b.get('src', '').startswith('ex2-')]
            if not strata[k]:
                del strata[k]
    while strata:
        for k in list(strata):
            order.append(strata[k].pop())
            if not strata[k]:
                del strata[k]
    chosen = order[:limit]
    rep.extra['behaviours_generated'] = len(leaves)
    # predictions that the design runs did not emit (exhaustive runs identify states by denotation, so a prefix of a
    # history may have been reached by another history): evaluate with TopoEval
    lack = [b for b in chosen if any(_hkey(b['base'], b['L'], b['hist'][:k]) not in preds for k in range(len(b['hist']) + 1))]
    if lack:
        p2, r2 = evaluate(lack, 'eval', workers=NPROC)
        preds.update(p2)
        rep.add_tlc(r2)
        rep.lap('tlc evaluation of {} behaviours'.format(len(lack)))
    for b in chosen[:3]:
        rep.sample(dict(base=b['base'], L=b['L'], operations=[[o['op'], o['a'], o['S'], o['T']] for o in b['hist']]))
    return list(WITNESSES) + chosen, preds


def replay(rep, cases, preds, budget):
    """S->C replay in NPROC processes; behaviours that share their first operation go to one task (prefix cache)"""
    global _PREDS, _DEADLINE
    groups = collections.OrderedDict()
    for c in cases:
        groups.setdefault((c['base'], c['L'], json.dumps(c['hist'][0], sort_keys=True)), []).append(c)
    tasks = []
    for g in groups.values():
        for i in range(0, len(g), 6):
            tasks.append(g[i:i + 6])
    _PREDS = preds
    _DEADLINE = budget
    ctx = multiprocessing.get_context('fork')
    with ctx.Pool(NPROC) as pool:
        outs = pool.map(_replay_group, tasks, chunksize=1)
    stats = collections.Counter()
    unsupported = collections.Counter()
    skipped = 0
    opcount = collections.Counter()
    for task, out in zip(tasks, outs):
        if 'harness_error' in out:
            raise RuntimeError(out['harness_error'])
        stats.update(out['stats'])
        unsupported.update(out.get('unsupported', {}))
        for c, (status, fail, ok) in zip(task, out['res']):
            if status == 'skipped':
                skipped += 1
                continue
            for k in range(1, ok):
                rep.case(_hkey(c['base'], c['L'], c['hist'][:k]), nontrivial=k >= 2)
            opcount.update(o['op'] for o in c['hist'][:max(ok - 1, 0)])
            if fail is not None:
                rep.violation(*fail)
            elif ok == len(c['hist']) + 1:
                rep.traces += 1
    if skipped:
        rep.skip('behaviours not replayed within the time budget', skipped)
    rep.extra['replayed'] = dict(stats)
    rep.extra['unsupported_not_judged'] = dict(unsupported)
    rep.extra['operations_replayed'] = dict(opcount)
    rep.lap('replay')


def run(rep):
    quick = rep.tier == 'quick'
    rng = random.Random(rep.seed)
    jobs = plan(rep.tier, rep.seed)
    # CPU seconds of replay per worker process after the TLC runs (VF_C10_BUDGET overrides); CPU time, not wall-clock time, so that
    # the replay coverage does not depend on the load of the machine
    budget = float(os.environ.get('VF_C10_BUDGET') or (45 if quick else 420))
    rep.constants['Topo'] = ('bases line3/line3p/rect22/rect32p/mp21/tri1/mix2/mul22 (+ periodic line2p), depth L<=2: every denotation reachable by 1 operation '
                             'exhaustively; simulation to 3 operations' if quick else
                             'line/rect/connected/product bases, L<=3: every denotation reachable by 2 operations exhaustively (3 on line3); simulation to 6 operations')
    cases, preds = generate(rep, jobs, rng, 260 if quick else 1500)
    replay(rep, cases, preds, budget)

    rep.rule = ('cases = states of replayed behaviours (base mesh + history of topology operations), each compared with the model in elements, '
                'measures, boundary facet atoms, interior facet atoms (and complement + cut after a trim); non-trivial: at least 2 operations')
    rep.assumptions += [
        'level sets are half spaces +-(x_d - c) with c on the dyadic grid of depth L, so that trimming is exact (approximation quality of trimming for '
        'general level sets is not decided); geometry is the identity on unit cells (affine); meshes are 1-D and 2-D',
        'operations the implementation does not offer are not generated: refinement of elements with MosaicReference leaves (no child_refs), re-trimming of '
        'elements with mosaic leaves, refined_by / trim / subset of product topologies, slicing of unstructured topologies',
        'boundary and interfaces are compared only where the implementation offers them (topologies with connectivity and hierarchical topologies over '
        'them); take(), unions of take() and trimmed hierarchical topologies have no connectivity (AttributeError) and are compared in elements and measures only',
        'the flux identity is not demanded of periodic meshes (the position vector jumps at the seam); normals must still integrate to zero',
        'the interface normal is required to be the outward normal of the first adjacent element (nutils convention)',
    ]
