\* quick, second run: chains of 3 items from references of dimension <= 2
\* every reference of dimension <= 3, rewritten by canonical, uppermost and promote (every ndims),
\* and every result rewritten once more (chains with ScaledUpdim / Identity items)
SPECIFICATION Spec
CONSTANTS
  MaxDim = 2
  MaxLen = 3
  MaxRounds = 0
  WrongSwap = FALSE
INVARIANT MapPreserved
INVARIANT WellFormed
INVARIANT InRange
INVARIANT Terminates
INVARIANT CanonicalDone
INVARIANT OperatorAgrees
INVARIANT DimsKept
INVARIANT EmitDone
CHECK_DEADLOCK FALSE
