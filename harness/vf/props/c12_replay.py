"""C12 binding S->C: behaviours of spec/BasisMachine.tla (and the sibling machines for nodal, hierarchical and
multipatch bases) replayed on real nutils topologies and bases.

For every state of a behaviour the model supplies the basis structure it predicts (module Basis: number of
elements and dofs, per-element dof lists, supports, interfaces with the promised continuity order, elements
on which the functions sum to one).  The replay constructs the same basis through the public nutils API and
compares, after every step,
  * len(topo), len(basis), basis.get_dofs(e), basis.get_support(d) with the model (exactly where the model
    fixes the numbering, otherwise up to a renumbering of the dofs = equality of the multiset of supports);
  * sample.eval(basis) at interior points of every element with the polynomials of get_coefficients(e)
    scattered to get_dofs(e), and the set of functions that are non-zero there with get_dofs(e);
  * sample.eval(basis.sum(0)) = 1 on the elements where the model promises a partition of unity;
  * the jump of all derivatives up to the order the model promises, on every interface of the topology.
The code's tables are returned as well: TLC checks InverseMaps on them (spec/BasisTables.tla).
"""

import collections
import itertools
import json

import numpy

TOL = 1e-8
NZ = 1e-9      # a function whose values at all sample points are below this is numerically zero


class Fail(Exception):
    def __init__(self, key, what, data=None):
        super().__init__(what)
        self.key, self.what, self.data = key, what, data


class Obj:
    """a nutils basis on its topology plus what the harness knows about where it came from"""

    def __init__(self, topo, geom, basis, period=None, scale=1, btype=None, kwargs=None, exact=True, root=None, emap=None):
        self.topo = topo
        self.geom = geom
        self.basis = basis
        self.period = period      # per dimension: the period of the doubled integer coordinates or 0
        self.scale = scale        # keys are round(2 * scale * x)
        self.btype = btype        # arguments with which topo.basis(btype, **kwargs) gave this basis (None: derived)
        self.kwargs = kwargs
        self.exact = exact        # the model fixes the numbering of the dofs
        self.root = root or topo  # the topology that supplies the interfaces
        self.emap = emap          # element of topo -> element of root (None: the same)


def hkey(hist):
    return json.dumps(hist, sort_keys=True, separators=(',', ':'))


# ----------------------------------------------------------------------------------------------------------
# construction of structured bases from the history of BasisMachine

def dim_kwargs(h):
    p, n, per, k = h['a']
    form = h['f']
    ms = h['aa'][0]
    return dict(p=p, n=n, per=bool(per), form=form, ms=list(ms), k=k)


def spline_args(dims):
    """keyword arguments of basis('spline') for a list of per-dimension parameters"""
    degree = [d['p'] for d in dims]
    km = [d['ms'] if d['form'] in ('full', 'coarse') else None for d in dims]
    cont = [d['k'] for d in dims]
    kwargs = dict(degree=degree if len(dims) > 1 else degree[0])
    if any(m is not None for m in km):
        kwargs['knotmultiplicities'] = km
    if any(c != -1 for c in cont):
        kwargs['continuity'] = cont if len(dims) > 1 else cont[0]
    return kwargs


_grid_cache = {}


def grid(shape, periodic):
    from nutils import mesh
    key = tuple(shape), tuple(periodic)
    if key not in _grid_cache:
        if len(_grid_cache) > 64:
            _grid_cache.clear()
        _grid_cache[key] = mesh.rectilinear([numpy.arange(n + 1, dtype=float) for n in shape], periodic=periodic)
    return _grid_cache[key]


def subset(topo, E):
    from nutils import topology
    keep = set(E)
    refs = [r if i in keep else r.empty for i, r in enumerate(topo.references)]
    return topology.SubsetTopology(topo, refs)


def follow_structured(hist, variant=0):
    """yield (k, Obj, alternatives) for every prefix hist[:k] of a BasisMachine history; alternatives are other nutils
    routes to the same basis (label, thunk returning a Basis or Array) that must give the same tables / values"""
    from nutils import function
    dims = []
    cur = None
    for k, h in enumerate(hist, 1):
        op = h['op']
        alts = []
        if op == 'dim':
            d = dim_kwargs(h)
            dims.append(d)
            topo, geom = grid([d['n']], [0] if d['per'] else [])
            kwargs = spline_args([d])
            cur = Obj(topo, geom, topo.basis('spline', **kwargs), period=[2 * d['n'] if d['per'] else 0], btype='spline', kwargs=kwargs)
            if d['form'] == 'none' and d['k'] == 0:
                alts.append(('std', lambda topo=topo, p=d['p']: topo.basis('std', degree=p)))
                alts.append(connected_alt(cur, d['p'], k + variant))
            if d['form'] == 'none' and d['k'] == -1 and d['p'] >= 1:
                alts.append(('h-spline', lambda topo=topo, p=d['p']: topo.basis('h-spline', degree=p)))
        elif op in ('ravel', 'discont', 'legendre'):
            shape = [d['n'] for d in dims]
            periodic = [i for i, d in enumerate(dims) if d['per']]
            topo, geom = grid(shape, periodic)
            period = [2 * d['n'] if d['per'] else 0 for d in dims]
            if op == 'ravel':
                kwargs = spline_args(dims)
                cur = Obj(topo, geom, topo.basis('spline', **kwargs), period=period, btype='spline', kwargs=kwargs)
                if len(dims) > 1:
                    alts.append(('product', lambda dims=tuple(dims): product_basis(dims)))
                    if all(d['form'] == 'none' and d['k'] == 0 and d['p'] == dims[0]['p'] for d in dims):
                        alts.append(connected_alt(cur, dims[0]['p'], k + variant))
            elif op == 'discont':
                kwargs = dict(degree=h['a'][0])
                cur = Obj(topo, geom, topo.basis('discont', **kwargs), period=period, btype='discont', kwargs=kwargs, exact=len(dims) == 1)
            else:
                kwargs = dict(degree=h['a'][0])
                cur = Obj(topo, geom, topo.basis('legendre', **kwargs), period=period, btype='legendre', kwargs=kwargs)
        elif op == 'rem':
            R = [list(r) or None for r in h['aa']]
            kwargs = dict(cur.kwargs, removedofs=R if len(R) > 1 else R[0])
            cur = Obj(cur.topo, cur.geom, cur.topo.basis('spline', **kwargs), period=cur.period, btype='spline', kwargs=kwargs)
        elif op == 'mask':
            K = numpy.array(h['a'], dtype=int)
            parent = cur.basis
            if (len(K) + k + variant) % 2:
                basis = parent[K]
                alts.append(('boolmask', lambda parent=parent, K=K: parent[numpy.isin(numpy.arange(len(parent)), K)]))
            else:
                basis = parent[numpy.isin(numpy.arange(len(parent)), K)]
                alts.append(('MaskedBasis', lambda parent=parent, K=K: function.MaskedBasis(parent, K)))
            cur = Obj(cur.topo, cur.geom, basis, period=cur.period, exact=cur.exact, root=cur.root, emap=cur.emap)
        elif op == 'prune':
            E = list(h['a'])
            sub = subset(cur.topo, E)
            basis = function.PrunedBasis(cur.basis, numpy.array(E, dtype=int), sub.f_index, sub.f_coords)
            if cur.btype is not None:
                alts.append(('SubsetTopology.basis', lambda sub=sub, bt=cur.btype, kw=cur.kwargs: sub.basis(bt, **kw)))
            emap = [E[i] if cur.emap is None else cur.emap[E[i]] for i in range(len(E))]
            cur = Obj(sub, cur.geom, basis, period=cur.period, exact=cur.exact, root=cur.root, emap=emap)
        elif op == 'part':
            P = list(h['a'])
            cur = Obj(cur.topo, cur.geom, partition_basis(cur.basis, P), period=cur.period, exact=cur.exact, root=cur.root, emap=cur.emap)
        else:
            raise ValueError('unknown operation ' + op)
        yield k, cur, alts


def partition_basis(parent, P):
    """parent.discontinuous_at_partition_interfaces(P); the AssertionError of Basis.__init__ for a parent with a
    MaskedBasis in its ancestry that keeps the same number of functions on every element gets its root cause key
    (the per-element count of the partition basis simplifies to a constant, that of the coefficients still depends
    on the element index, and evaluable._equals_simplified calls arrays with different arguments 'certainly different')"""
    from nutils import function
    try:
        return parent.discontinuous_at_partition_interfaces(P)
    except AssertionError as e:
        anc, masked = parent, False
        while anc is not None:
            masked = masked or isinstance(anc, function.MaskedBasis)
            anc = getattr(anc, '_parent', None)
        counts = {len(parent.get_dofs(e)) for e in range(parent.nelems)}
        if masked and len(counts) == 1:
            raise Fail('part:masked-parent-uniform-count:raises-AssertionError', 'discontinuous_at_partition_interfaces({}) of a masked basis with {} functions on '
                       'every element raised {!r} (Basis.__init__: dofs and coefficients "certainly different" in length)'.format(P, counts.pop(), e))
        raise


def connected_alt(cur, p, variant):
    """the C0 basis of the same grid through TransformChainsTopology._basis_c0_structured (util.merge_index_map over the
    connectivity and Reference.get_edge_dofs): the same space, other numbering.  Two public routes: basis('lagrange') /
    basis('bernstein') of the structured topology itself (only basis_std is overridden there), and basis('std') of the
    same elements as an unstructured ConnectedTopology (what mesh.unitsquare(etype='mixed') builds)"""
    route = ('lagrange', 'bernstein', 'connected-std')[variant % 3]

    def make():
        from nutils import topology
        t = cur.topo
        if route == 'connected-std':
            ct = topology.ConnectedTopology(t.space, t.references, t.transforms, t.opposites, t.connectivity)
            # the interfaces are taken from the structured topology (same elements, same transforms)
            return Obj(ct, cur.geom, ct.basis('std', degree=p), period=cur.period, exact=False, root=t)
        return Obj(t, cur.geom, t.basis(route, degree=p), period=cur.period, exact=False, root=t)
    return 'c0-' + route, make


def product_basis(dims):
    """the same tensor product spline on a product of one-dimensional topologies (Topology.basis ravels the
    outer product of the factor bases): returns (topo, basis array, geometry)"""
    from nutils import mesh, function
    topo = None
    geoms = []
    for i, d in enumerate(dims):
        t, g = mesh.line(numpy.arange(d['n'] + 1, dtype=float), periodic=d['per'], space='X{}'.format(i))
        topo = t if topo is None else topo * t
        geoms.append(g)
    kwargs = spline_args(list(dims))
    periodic = tuple(i for i, d in enumerate(dims) if d['per'])
    return topo, topo.basis('spline', periodic=periodic, **kwargs), numpy.stack(geoms)


# ----------------------------------------------------------------------------------------------------------
# observation of a real basis

def code_tables(obj, fam):
    """get_dofs / get_support of the real basis as plain lists"""
    basis = obj.basis
    try:
        ne = len(obj.topo)
        nd = len(basis)
        ed = [[int(d) for d in basis.get_dofs(e)] for e in range(ne)]
        su = [[int(e) for e in basis.get_support(d)] for d in range(nd)]
        nel = basis.nelems
    except Exception as e:
        raise Fail('{}:tables:raises-{}'.format(fam, type(e).__name__), 'get_dofs/get_support raised {!r}'.format(e))
    if nel != ne:
        raise Fail('{}:nelems'.format(fam), 'basis.nelems = {} on a topology of {} elements'.format(nel, ne))
    return dict(ne=ne, nd=nd, ed=ed, su=su)


def check_vector_args(obj, tab):
    """the documented contract of get_dofs / get_support with an array argument: the union, strictly increasing"""
    basis = obj.basis
    for name, f, rows in (('get_dofs', basis.get_dofs, tab['ed']), ('get_support', basis.get_support, tab['su'])):
        n = len(rows)
        args = [[i] for i in range(n)] + ([list(range(n))] if n > 1 else []) + ([[0, n - 1]] if n > 2 else [])
        for arg in args:
            try:
                got = [int(x) for x in f(numpy.array(arg, dtype=int))]
            except Exception as e:
                raise Fail('{}:array-arg:raises-{}'.format(name, type(e).__name__), '{}(array({})) raised {!r}'.format(name, arg, e))
            want = sorted(set(itertools.chain.from_iterable(rows[i] for i in arg)))
            if got != want:
                kind = 'not-sorted-unique' if sorted(set(got)) == want else 'wrong'
                raise Fail('{}:array-arg:{}'.format(name, kind), '{}(array({})) = {}, the union of the single-index results is {}'.format(name, arg, got, want))


def compare_tables(pred, tab, exact, fam, as_sets=False):
    if tab['ne'] != pred['ne']:
        raise Fail('{}:nelems'.format(fam), 'topology has {} elements, the model {}'.format(tab['ne'], pred['ne']))
    if tab['nd'] != pred['nd']:
        raise Fail('{}:ndofs'.format(fam), 'basis has {} functions, the model predicts {}'.format(tab['nd'], pred['nd']), dict(code=tab, model=_slim(pred)))
    for d, s in enumerate(tab['su']):
        if sorted(set(s)) != s:
            raise Fail('{}:support-not-sorted-unique'.format(fam), 'get_support({}) = {} is not strictly increasing'.format(d, s))
    if exact:
        for e in range(pred['ne']):
            if (sorted(set(tab['ed'][e])) != sorted(set(pred['ed'][e]))) if as_sets else (sorted(tab['ed'][e]) != sorted(pred['ed'][e])):
                raise Fail('{}:dofs'.format(fam), 'get_dofs({}) = {}, the model predicts {}'.format(e, tab['ed'][e], pred['ed'][e]), dict(code=tab, model=_slim(pred)))
        for d in range(pred['nd']):
            if tab['su'][d] != sorted(pred['su'][d]):
                raise Fail('{}:support'.format(fam), 'get_support({}) = {}, the model predicts {}'.format(d, tab['su'][d], sorted(pred['su'][d])), dict(code=tab, model=_slim(pred)))
    else:
        # equal up to a renumbering of the dofs: the multiset of supports (the incidence structure) coincides
        for e in range(pred['ne']):
            if len(tab['ed'][e]) != len(pred['ed'][e]) or len(set(tab['ed'][e])) != len(set(pred['ed'][e])):
                raise Fail('{}:dofs'.format(fam), 'element {} has {} functions ({} distinct), the model predicts {} ({} distinct)'.format(
                    e, len(tab['ed'][e]), len(set(tab['ed'][e])), len(pred['ed'][e]), len(set(pred['ed'][e]))), dict(code=tab, model=_slim(pred)))
        got = collections.Counter(tuple(sorted({e for e in range(tab['ne']) if d in set(tab['ed'][e])})) for d in range(tab['nd']))
        want = collections.Counter(tuple(sorted(s)) for s in pred['su'])
        if got != want:
            diff = sorted((got - want).items()), sorted((want - got).items())
            raise Fail('{}:dofs'.format(fam), 'no renumbering of the dofs maps get_dofs onto the model: supports only in the code {}, only in the model {}'.format(*diff),
                       dict(code=tab, model=_slim(pred)))


def _slim(pred):
    return dict(ne=pred['ne'], nd=pred['nd'], ed=pred['ed'], su=pred['su'])


def _polyeval(coeffs, x):
    import nutils_poly as poly
    coeffs = numpy.asarray(coeffs, dtype=float)
    return poly.eval(coeffs[numpy.newaxis], numpy.asarray(x, dtype=float)[:, numpy.newaxis, :])


def gauss_degree(obj, pmax):
    return max(2 * pmax, 2)


def check_values(pred, tab, obj, fam, pmax, slack=None):
    """numeric clauses on the elements: evaluation = coefficient tables, non-zero set = dof list, partition of unity.
    slack: per element the dofs the model does not decide to be non-zero there (truncated hierarchical bases: the
    functions of coarser levels, whose truncation may or may not vanish on the element; nutils keeps a truncated
    polynomial when a coefficient exceeds truncation_tolerance=1e-15, so a mathematically vanishing one survives
    with round-off sized coefficients).  A listed function that evaluates to zero is accepted there and only there;
    'any': every listed function may vanish (children of such a basis).  A non-zero function must always be listed."""
    from nutils import function
    topo, basis = obj.topo, obj.basis
    try:
        smp = topo.sample('gauss', gauss_degree(obj, pmax))
        vals, xi = smp.eval([basis, basis.coords if hasattr(basis, 'coords') else topo.f_coords])
    except Exception as e:
        raise Fail('{}:eval:raises-{}'.format(fam, type(e).__name__), 'sample.eval(basis) raised {!r}'.format(e))
    vals = numpy.asarray(vals)
    if vals.shape != (smp.npoints, tab['nd']):
        raise Fail('{}:eval-shape'.format(fam), 'sample.eval(basis) has shape {} for {} points and {} dofs'.format(vals.shape, smp.npoints, tab['nd']))
    unit = set(pred['un'])
    for e in range(tab['ne']):
        sel = smp.getindex(e)
        v = vals[sel]
        try:
            coeffs = numpy.asarray(basis.get_coefficients(e))
        except Exception as ex:
            raise Fail('{}:get_coefficients:raises-{}'.format(fam, type(ex).__name__), 'get_coefficients({}) raised {!r}'.format(e, ex))
        dofs = tab['ed'][e]
        if coeffs.ndim != 2 or coeffs.shape[0] != len(dofs):
            raise Fail('{}:coefficients-shape'.format(fam), 'get_coefficients({}) has shape {} for {} dofs'.format(e, coeffs.shape, len(dofs)))
        want = numpy.zeros_like(v)
        if len(dofs):
            numpy.add.at(want, (slice(None), numpy.array(dofs, dtype=int)), _polyeval(coeffs, numpy.asarray(xi)[sel]))
        if abs(v - want).max(initial=0) > TOL:
            d = int(abs(v - want).max(axis=0).argmax())
            raise Fail('{}:eval-vs-tables'.format(fam), 'on element {} function {} evaluates to {} but get_dofs/get_coefficients describe {}'.format(
                e, d, v[:, d].tolist(), want[:, d].tolist()), dict(dofs=dofs))
        nonzero = {int(d) for d in numpy.nonzero(abs(v).max(axis=0) > NZ)[0]}
        listed_zero = set(dofs) - nonzero
        if slack is not None and nonzero <= set(dofs) and (slack == 'any' or listed_zero <= set(slack[e])):
            listed_zero = set()
        if nonzero - set(dofs) or listed_zero:
            raise Fail('{}:nonzero-vs-dofs'.format(fam), 'on element {} the functions {} are non-zero, get_dofs lists {}'.format(e, sorted(nonzero), sorted(set(dofs))))
        if e in unit and abs(v.sum(axis=1) - 1).max(initial=0) > TOL:
            raise Fail('{}:partition-of-unity'.format(fam), 'on element {} the functions sum to {}'.format(e, v.sum(axis=1).tolist()))
    return smp.npoints


_ifc_cache = {}


def root_interfaces(obj):
    """interfaces of the root topology with [(key, root element a, root element b)]: doubled midpoint coordinates"""
    from nutils import function
    root = obj.root
    # the keys depend on the scale and the periods with which the harness reads the geometry, and the same grid object
    # (grid() caches them) serves several families with different scales: all of that is part of the cache key
    ckey = id(root), obj.scale, tuple(obj.period), id(obj.geom)
    hit = _ifc_cache.get(ckey)
    if hit is not None and hit[0] is root and hit[3] is obj.geom:
        return hit[1], hit[2]
    ifc = root.interfaces
    out = []
    if len(ifc):
        smp = ifc.sample('gauss', 1)
        x, a, b = smp.eval([obj.geom, root.f_index, function.opposite(root.f_index)])
        for i in range(len(ifc)):
            sel = smp.getindex(i)
            mid = numpy.asarray(x)[sel].mean(axis=0) * 2 * obj.scale
            key = numpy.round(mid).astype(int)
            if abs(mid - key).max() > 1e-6:
                raise RuntimeError('interface midpoint {} is not on the model grid'.format(mid.tolist()))
            key = [int(c % p) if p else int(c) for c, p in zip(key, obj.period)]
            out.append((tuple(key), int(numpy.asarray(a)[sel][0]), int(numpy.asarray(b)[sel][0])))
    if len(_ifc_cache) > 32:
        _ifc_cache.clear()
    _ifc_cache[ckey] = root, ifc, out, obj.geom
    return ifc, out


def interface_keys(obj):
    """(interface topology, [(key, element a, element b)]) for the current topology: the interfaces of the root
    topology whose two sides both belong to it (elements renumbered)"""
    ifc, real = root_interfaces(obj)
    if obj.emap is None:
        return ifc, real
    inv = {r: i for i, r in enumerate(obj.emap)}
    keep = [i for i, (k, a, b) in enumerate(real) if a in inv and b in inv]
    if not keep:
        return None, []
    return ifc.take(numpy.array(keep, dtype=int)), [(real[i][0], inv[real[i][1]], inv[real[i][2]]) for i in keep]


def check_interfaces(pred, obj, fam, pmax, keys=None):
    from nutils import function
    ifc, real = interface_keys(obj) if keys is None else keys
    model = {tuple(i['key']): i for i in pred['ifc']}
    if sorted(k for k, a, b in real) != sorted(model):
        raise RuntimeError('{}: the interfaces of the topology {} differ from the model {}'.format(fam, sorted(k for k, a, b in real), sorted(model)))
    if not real:
        return 0
    cmax = max(i['c'] for i in pred['ifc'])
    if cmax < 0:
        return 0
    fs = [obj.basis]
    for c in range(cmax):
        fs.append(function.grad(fs[-1], obj.geom))
    try:
        smp = ifc.sample('gauss', gauss_degree(obj, pmax))
        jumps = smp.eval([function.jump(f) for f in fs])
    except Exception as e:
        raise Fail('{}:jump:raises-{}'.format(fam, type(e).__name__), 'evaluating the jump of the basis on the interfaces raised {!r}'.format(e))
    n = 0
    for i, (key, a, b) in enumerate(real):
        m = model[key]
        if {a, b} != {m['a'], m['b']}:
            raise RuntimeError('{}: interface {} joins elements {}, the model says {}'.format(fam, key, (a, b), (m['a'], m['b'])))
        sel = smp.getindex(i)
        for order in range(m['c'] + 1):
            j = numpy.asarray(jumps[order])[sel]
            n += 1
            if abs(j).max(initial=0) > TOL * 10 ** order:
                d = int(abs(j).reshape(len(j), j.shape[1], -1).max(axis=(0, 2)).argmax())
                raise Fail('{}:continuity:order{}'.format(fam, order), 'derivative {} of function {} jumps by {} across the interface {} between elements {} and {}, promised continuity C^{}'.format(
                    order, d, float(abs(j[:, d]).max()), list(key), a, b, m['c']))
    return n


def check_alternative(label, alt, obj, tab, fam, pmax, pred=None):
    """another route to the same basis must give the same tables (if it is a Basis) and the same values"""
    from nutils import function
    try:
        other = alt()
    except Exception as e:
        raise Fail('{}:{}:raises-{}'.format(fam, label, type(e).__name__), 'constructing the basis via {} raised {!r}'.format(label, e))
    ogeom = None
    if isinstance(other, Obj):     # the same space by another construction: decided against the same prediction
        try:
            tab2, n2, soft2 = compare(pred, other, [], 'c0', pmax)
        except Fail as f:
            # a periodic direction with two elements: they are neighbours through both their facets, and _basis_c0_structured
            # looks the opposite facet up with util.index(connectivity[neighbour], element) = the first of the two
            if 4 in (other.period or ()) and f.key in ('c0:dofs', 'c0:ndofs', 'c0:nonzero-vs-dofs', 'c0:continuity:order0', 'c0:partition-of-unity'):
                raise Fail('c0:two-elements-share-two-facets', 'C0 basis via {} on a grid in which two elements share two facets '
                           '(periodic direction of 2 elements): {}'.format(label, f.what), f.data)
            raise
        if soft2:
            raise soft2[0]
        return
    if isinstance(other, tuple):   # a basis on another topology covering the same points
        otopo, other, ogeom = other
    else:
        otopo = obj.topo
    if len(other) != tab['nd']:
        raise Fail('{}:{}:ndofs'.format(fam, label), 'the basis via {} has {} functions instead of {}'.format(label, len(other), tab['nd']))
    if isinstance(other, function.Basis):
        t2 = code_tables(Obj(otopo, None, other), fam + ':' + label)
        if [sorted(d) for d in t2['ed']] != [sorted(d) for d in tab['ed']] or t2['su'] != tab['su']:
            raise Fail('{}:{}:tables'.format(fam, label), 'the basis via {} has other dof tables'.format(label), dict(code=tab, other=t2))
    deg = gauss_degree(obj, pmax)
    try:
        v1, x1 = obj.topo.sample('gauss', deg).eval([obj.basis, obj.geom])
        v2, x2 = otopo.sample('gauss', deg).eval([other, obj.geom if ogeom is None else ogeom])
    except Exception as e:
        raise Fail('{}:{}:eval:raises-{}'.format(fam, label, type(e).__name__), 'evaluating the basis via {} raised {!r}'.format(label, e))
    v1, v2, x1, x2 = (numpy.asarray(a) for a in (v1, v2, x1, x2))
    if ogeom is not None:   # the other sample orders its points differently: match them by position
        v1 = v1[numpy.lexsort(numpy.round(x1, 9).T[::-1])]
        v2 = v2[numpy.lexsort(numpy.round(x2, 9).T[::-1])]
    if v1.shape != v2.shape or abs(v1 - v2).max(initial=0) > TOL:
        raise Fail('{}:{}:values'.format(fam, label), 'the basis via {} evaluates differently'.format(label))


def compare(pred, obj, alts, fam, pmax, exact=None):
    """all checks of one state; returns (code tables, number of point evaluations)"""
    tab = code_tables(obj, fam)
    soft = []
    try:
        check_vector_args(obj, tab)
    except Fail as f:       # reported, but the remaining clauses are still decided for this state
        soft.append(f)
    compare_tables(pred, tab, obj.exact if exact is None else exact, fam)
    n = check_values(pred, tab, obj, fam, pmax)
    n += check_interfaces(pred, obj, fam, pmax)
    for label, alt in alts:
        check_alternative(label, alt, obj, tab, fam, pmax, pred)
    return tab, n, soft


def run_structured(hist, preds, done, variant=0):
    """replay one behaviour of BasisMachine; preds[k-1] = model structure after hist[:k] (or None);
    -> (failures [(key, what, data)], number of states compared, tables of the compared states)"""
    pmax = max([h['a'][0] for h in hist if h['op'] == 'dim'] + [1])
    tables = []
    fails = []
    ok = 0
    parent = None
    try:
        for k, obj, alts in guarded(follow_structured(hist, variant), hist):
            key = hkey(hist[:k])
            pred = preds[k - 1]
            op = hist[k - 1]['op']
            fam = {'dim': 'spline', 'ravel': 'spline', 'rem': 'removedofs'}.get(op, op)
            if pred is not None and key not in done:
                try:
                    tab, n, soft = compare(pred, obj, alts, fam, pmax)
                except Fail as f:
                    raise diagnose(f, op, hist[k - 1], parent)
                fails += [(f.key, f.what, dict(hist=hist[:k], detail=f.data)) for f in soft]
                done.add(key)
                tables.append(dict(kind='table', t=tab, key=fam))
                ok += 1
            parent = obj
    except Fail as f:
        fails.append((f.key, f.what, dict(hist=hist, detail=f.data)))
    return fails, ok, tables


def diagnose(f, op, h, parent):
    """give a table mismatch after Prune its root cause key when it is the known single-element defect"""
    if op == 'prune' and len(h['a']) == 1 and parent is not None and f.key.startswith('prune:'):
        try:
            raw = [int(d) for d in parent.basis.get_dofs(numpy.array(h['a'], dtype=int))]
        except Exception:
            return f
        if raw != sorted(set(raw)) and len(raw) != len(set(raw)):
            return Fail('prune:one-element:parent-dofs-repeat', 'PrunedBasis of the single element {} whose parent dof list {} repeats a dof (get_dofs(array) is not unique there): {}'.format(
                h['a'][0], raw, f.what), f.data)
    return f


def periodic_ms(d):
    """the knot multiplicities of knots 0..n-1 as StructuredTopology.basis_spline expands them"""
    p, n = d['p'], d['n']
    c = d['k'] + p if d['k'] < 0 else d['k']
    if d['form'] == 'full':
        ms = list(d['ms'])
    elif d['form'] == 'none':
        ms = [p - c] * (n + 1)
    else:
        ms = [d['ms'][i // 2] if i % 2 == 0 else p - c for i in range(n + 1)]
    return ms[:n]


def short_periodic_knots(d):
    """the root cause of the AssertionError of periodic splines on very few elements: the period is repeated
    'while m[n:].sum() < p - m[0] + 2', but the local knot vector of element n-1 takes p knots from beyond the period"""
    if not d['per']:
        return False
    m = periodic_ms(d)
    p, n = d['p'], d['n']
    if m[0] == p + 1:
        return False
    while sum(m[n:]) < p - m[0] + 2:
        m = m + m
    return sum(m[n:]) < p


def guarded(gen, hist):
    """exceptions raised by nutils while constructing a basis the model defines are violations"""
    k = 0
    while True:
        try:
            item = next(gen)
        except StopIteration:
            return
        except Fail:
            raise
        except Exception as e:
            op = hist[k]['op'] if k < len(hist) else '?'
            if op == 'dim' and isinstance(e, AssertionError) and short_periodic_knots(dim_kwargs(hist[k])):
                d = dim_kwargs(hist[k])
                raise Fail('spline:periodic:knot-vector-too-short:raises-AssertionError', 'periodic spline of degree {} on {} element(s) with knot multiplicities {} raised {!r}: '
                           'basis_spline repeats the period until p - m[0] + 2 knots lie beyond it, the last element needs p'.format(d['p'], d['n'], periodic_ms(d), e))
            raise Fail('{}:raises-{}'.format(op, type(e).__name__), 'constructing the basis for step {} ({}) raised {!r}'.format(k + 1, op, e))
        k = item[0]
        yield item


# ----------------------------------------------------------------------------------------------------------
# nodal bases on simplex meshes (spec/BasisNodal.tla)

def simplex_topology(D, simp):
    from nutils import topology, transformseq
    simplices = numpy.array(simp, dtype=int)
    transforms = transformseq.IndexTransforms(D, len(simplices))
    return topology.SimplexTopology('X', simplices, transforms, transforms)


def simplex_interfaces(topo, simp):
    """(interface topology, [(key, a, b)]): key = the common vertices of the two simplices"""
    from nutils import function
    ifc = topo.interfaces
    if len(ifc) == 0:
        return None, []
    smp = ifc.sample('gauss', 1)
    a, b = smp.eval([topo.f_index, function.opposite(topo.f_index)])
    out = []
    for i in range(len(ifc)):
        sel = smp.getindex(i)
        ea, eb = int(numpy.asarray(a)[sel][0]), int(numpy.asarray(b)[sel][0])
        out.append((tuple(sorted(set(simp[ea]) & set(simp[eb]))), ea, eb))
    return ifc, out


def run_nodal(h, pred, derive=None):
    """replay one state of BasisNodal: h = dict(op, p, D, simp); derive: random.Random for the table cases"""
    from nutils import function
    op, p, D, simp = h['op'], h['p'], h['D'], [list(s) for s in h['simp']]
    fam = 'nodal:' + op
    fails = []
    tables = []
    try:
        try:
            topo = simplex_topology(D, simp)
            basis = topo.basis('bubble') if op == 'bubble' else topo.basis(op, degree=p)
        except Exception as e:
            raise Fail('{}:raises-{}'.format(fam, type(e).__name__), 'constructing basis {} of degree {} on the simplices {} raised {!r}'.format(op, p, simp, e))
        obj = Obj(topo, None, basis, exact=False)
        pmax = max(p, D + 1 if op == 'bubble' else 1)
        tab = code_tables(obj, fam)
        try:
            check_vector_args(obj, tab)
        except Fail as f:
            fails.append((f.key, f.what, dict(hist=h)))
        compare_tables(pred, tab, False, fam)
        check_values(pred, tab, obj, fam, pmax)
        check_interfaces(pred, obj, fam, pmax, keys=simplex_interfaces(topo, simp))
        tables.append(dict(kind='table', t=tab, key=fam))
        if derive is not None:
            recs, f2 = derived_records(obj, tab, derive, fam, pmax)
            tables += recs
            fails += f2
    except Fail as f:
        fails.append((f.key, f.what, dict(hist=h, detail=f.data)))
    return fails, 1 if tables else 0, tables


# ----------------------------------------------------------------------------------------------------------
# hierarchical bases (spec/BasisHier.tla)

def hier_topology(n, per, cells):
    """the hierarchical topology with the given active cells [(level, ravelled index)], built level by level with refined_by"""
    topo, geom = grid(list(n), [d for d, p in enumerate(per) if p])
    want = {tuple(c) for c in cells}
    cur = sorted((0, e) for e in range(len(topo)))
    nd = len(n)

    def children(l, e):
        shape = [k * 2 ** l for k in n]
        c = [e] if nd == 1 else [e // shape[1], e % shape[1]]
        out = []
        for o in itertools.product((0, 1), repeat=nd):
            cc = [2 * ci + oi for ci, oi in zip(c, o)]
            out.append((l + 1, cc[0] if nd == 1 else cc[0] * shape[1] * 2 + cc[1]))
        return out

    level = 0
    while set(cur) != want:
        ref = [i for i, c in enumerate(cur) if c[0] == level and c not in want]
        if not ref and level > max(l for l, e in want):
            raise RuntimeError('cannot reach the cells {}'.format(sorted(want)))
        if ref:
            topo = topo.refined_by(ref)
            cur = sorted([c for i, c in enumerate(cur) if i not in set(ref)] + [k for i in ref for k in children(*cur[i])])
        level += 1
    return topo, geom, cur


def run_hier(h, pred, derive=None):
    op, p, n, per, L, cells = h['op'], h['p'], h['n'], h['per'], h['L'], [tuple(c) for c in h['cells']]
    fam = 'hier:' + op
    fails = []
    tables = []
    try:
        topo, geom, cur = hier_topology(n, per, cells)
        if cur != cells:
            raise RuntimeError('element order {} differs from the model {}'.format(cur, cells))
        scale = 2 ** L
        period = [2 * scale * k if pp else 0 for k, pp in zip(n, per)]
        try:
            basis = topo.basis(op, degree=p)
        except Exception as e:
            raise Fail('{}:raises-{}'.format(fam, type(e).__name__), 'basis {} of degree {} on cells {} raised {!r}'.format(op, p, cells, e))
        obj = Obj(topo, geom, basis, period=period, scale=scale)
        # the elements of the real topology are where the model says they are
        mids = numpy.asarray(topo.sample('gauss', 1).eval(geom)) * 2 * scale
        if len(mids) != len(cells) or abs(mids - numpy.array(pred['mid'], dtype=float)).max() > 1e-6:
            raise RuntimeError('hier: the elements of the topology are not the cells of the model')
        tab = code_tables(obj, fam)
        try:
            check_vector_args(obj, tab)
        except Fail as f:
            fails.append((f.key, f.what, dict(hist=h)))
        if op.startswith('th-'):
            if tab['nd'] != pred['nd']:
                raise Fail('{}:ndofs'.format(fam), 'basis has {} functions, the model predicts {}'.format(tab['nd'], pred['nd']), dict(code=tab, model=_slim(pred)))
            for e in range(pred['ne']):
                got = set(tab['ed'][e])
                if not set(pred['edmin'][e]) <= got <= set(pred['ed'][e]):
                    raise Fail('{}:dofs'.format(fam), 'get_dofs({}) = {}; the model demands at least {} and at most {}'.format(e, tab['ed'][e], pred['edmin'][e], pred['ed'][e]),
                               dict(code=tab, model=_slim(pred)))
        else:
            compare_tables(pred, tab, True, fam, as_sets=True)   # a periodic element may list a function once per image
        trunc = op.startswith('th-')
        check_values(pred, tab, obj, fam, p, slack=[set(pred['ed'][e]) - set(pred['edmin'][e]) for e in range(pred['ne'])] if trunc else None)
        check_interfaces(pred, obj, fam, p)
        tables.append(dict(kind='table', t=tab, key=fam))
        if derive is not None:
            recs, f2 = derived_records(obj, tab, derive, fam, p, slack='any' if trunc else None)
            tables += recs
            fails += f2
    except Fail as f:
        f = diagnose_hier(f, h)
        fails.append((f.key, f.what, dict(hist=h, detail=f.data)))
    return fails, 1 if tables else 0, tables


def diagnose_hier(f, h):
    """a wrong number of functions when a level keeps exactly one element whose level basis lists a function twice
    (periodic wrap) is the get_dofs(array([e])) defect: give it its root cause key"""
    if not (f.key.endswith(':ndofs') or f.key.endswith(':dofs')):
        return f
    try:
        topo, geom = grid(list(h['n']), [d for d, p in enumerate(h['per']) if p])
        for l in range(h['L'] + 1):
            mine = [e for ll, e in h['cells'] if ll == l]
            if len(mine) == 1:
                raw = [int(d) for d in topo.basis(h['op'].split('-', 1)[1], degree=h['p']).get_dofs(mine[0])]
                if len(raw) != len(set(raw)):
                    return Fail('hier:one-element-level:parent-dofs-repeat', 'level {} keeps the single element {} whose dof list {} repeats a dof '
                                '(get_dofs(array) is not unique there): {}'.format(l, mine[0], raw, f.what), f.data)
            topo = topo.refined
    except Exception:
        pass
    return f


# ----------------------------------------------------------------------------------------------------------
# multipatch bases (spec/BasisMulti.tla)

def multipatch_topology(cells, n):
    from nutils import mesh
    nd = len(cells[0])
    pts = sorted({tuple(c + o for c, o in zip(cell, off)) for cell in cells for off in itertools.product((0, 1), repeat=nd)})
    ids = {pt: i for i, pt in enumerate(pts)}
    patches = [[ids[tuple(c + o for c, o in zip(cell, off))] for off in itertools.product((0, 1), repeat=nd)] for cell in cells]
    return mesh.multipatch(patches=patches, patchverts=[[float(x) for x in pt] for pt in pts], nelems=n)


def run_multi(h, pred, derive=None):
    p, k, pc, n, cells = h['p'], h['k'], h['pc'], h['n'], [tuple(c) for c in h['patches']]
    fam = 'multipatch'
    fails = []
    tables = []
    try:
        topo, geom = multipatch_topology(cells, n)
        kwargs = dict(degree=p, patchcontinuous=bool(pc))
        if k != -1:
            kwargs['continuity'] = k
        try:
            basis = topo.basis('spline', **kwargs)
        except Exception as e:
            raise Fail('{}:raises-{}'.format(fam, type(e).__name__), 'basis spline {} on patches {} raised {!r}'.format(kwargs, cells, e))
        obj = Obj(topo, geom, basis, period=[0] * len(cells[0]), scale=n)
        mids = numpy.asarray(topo.sample('gauss', 1).eval(geom)) * 2 * n
        if len(mids) != pred['ne'] or abs(mids - numpy.array(pred['mid'], dtype=float)).max() > 1e-6:
            raise RuntimeError('multipatch: the elements of the topology are not where the model puts them')
        alts = []
        if k == 0:
            alts.append(('std', lambda: topo.basis('std', degree=p, patchcontinuous=bool(pc))))
        tab, npts, soft = compare(pred, obj, alts, fam, p, exact=True)
        fails += [(f.key, f.what, dict(hist=h)) for f in soft]
        tables.append(dict(kind='table', t=tab, key=fam))
        if derive is not None:
            recs, f2 = derived_records(obj, tab, derive, fam, p)
            tables += recs
            fails += f2
    except Fail as f:
        fails.append((f.key, f.what, dict(hist=h, detail=f.data)))
    return fails, 1 if tables else 0, tables


# ----------------------------------------------------------------------------------------------------------
# binding T: MaskedBasis / PrunedBasis / partition basis of a real basis, exported as tables for spec/BasisTables.tla

def derived_records(obj, tab, rng, fam, pmax, slack=None):
    """-> (records for BasisTables, failures): one Mask, one Prune and one Part of the real basis obj"""
    from nutils import function
    recs = []
    fails = []
    parent = dict(ne=tab['ne'], nd=tab['nd'], ed=tab['ed'], su=tab['su'])
    nd, ne = tab['nd'], tab['ne']
    todo = []
    if nd >= 2:
        K = sorted(rng.sample(range(nd), rng.randint(1, nd - 1)))
        todo.append(('mask', K, lambda: (obj.topo, obj.basis[numpy.array(K, dtype=int)])))
    if ne >= 2:
        E = sorted(rng.sample(range(ne), rng.randint(1, ne - 1)))

        def pruned():
            sub = subset(obj.topo, E)
            return sub, function.PrunedBasis(obj.basis, numpy.array(E, dtype=int), sub.f_index, sub.f_coords)
        # the child of a single element is numbered in the order of the parent's dof list (get_dofs(array([e])) is that
        # list as it is, reported as get_dofs:array-arg): only an increasing list gives the order preserving numbering
        if len(E) > 1 or tab['ed'][E[0]] == sorted(set(tab['ed'][E[0]])) or len(set(tab['ed'][E[0]])) != len(tab['ed'][E[0]]):
            todo.append(('prune', E, pruned))
        P = [0] + [rng.randint(0, 2) for e in range(ne - 1)]
        todo.append(('part', P, lambda: (obj.topo, obj.basis.discontinuous_at_partition_interfaces(P))))
    for kind, arg, make in todo:
        try:
            try:
                topo, child = make()
            except Exception as e:
                raise Fail('{}:{}:raises-{}'.format(fam, kind, type(e).__name__), '{} {} of a {} basis raised {!r}'.format(kind, arg, fam, e))
            cobj = Obj(topo, obj.geom, child)
            ctab = code_tables(cobj, fam + ':' + kind)
            if kind == 'prune' and len(arg) == 1 and len(set(tab['ed'][arg[0]])) != len(tab['ed'][arg[0]]) and ctab['nd'] != len(set(tab['ed'][arg[0]])):
                raise Fail('prune:one-element:parent-dofs-repeat', 'PrunedBasis of the single element {} whose parent dof list {} repeats a dof has {} functions'.format(
                    arg[0], tab['ed'][arg[0]], ctab['nd']))
            check_values(dict(un=[]), ctab, cobj, fam + ':' + kind, pmax, slack=slack)
            recs.append(dict(kind=kind, t=parent, arg=arg, c=ctab, key='{}:{}'.format(fam, kind)))
        except Fail as f:
            fails.append((f.key, f.what, dict(parent=parent, op=kind, arg=arg)))
    return recs, fails


# ----------------------------------------------------------------------------------------------------------
# util.merge_index_map against the MergeIndex machine

def run_merge(e):
    from nutils import _util as util
    sets = [list(s) for s in e['sets']]
    try:
        got, count = util.merge_index_map(e['nin'], iter(sets), condense=bool(e['condense']))
        got = [int(x) for x in got]
    except Exception as ex:
        return [('merge_index_map:raises-{}'.format(type(ex).__name__), 'merge_index_map({}, {}, condense={}) raised {!r}'.format(e['nin'], sets, e['condense'], ex), dict(case=e))]
    if got != list(e['map']) or int(count) != e['count']:
        return [('merge_index_map:result', 'merge_index_map({}, {}, condense={}) = ({}, {}), the machine ends in ({}, {})'.format(
            e['nin'], sets, e['condense'], got, int(count), list(e['map']), e['count']), dict(case=e))]
    return []
