----------------------------- MODULE DimMachine -----------------------------
(***************************************************************************)
(* C20 -- design specification of arithmetic on nutils.SI quantities.      *)
(*                                                                         *)
(* State: a pool of values (plain numbers and Quantity objects holding     *)
(* exact rational scalars or 2-vectors in reference units), the            *)
(* Dimension.__cache (canonical name -> powers dict) and the last          *)
(* operation with its outcome.  One action per dispatcher of               *)
(* Quantity.__DISPATCH_TABLE that applies to numerical data (__unary,      *)
(* __add_like, __mul_like, __div_like, __sqrt, __pow_like, __setitem,      *)
(* __unary_op, __binary_op, __stack_like, __interp); every action is       *)
(* written like the code: __unpack the operands (a non-Quantity unpacks    *)
(* as Dimensionless), compare the dimension CLASSES (= cache names),       *)
(* compute the new class through Dimension.__mul__/__truediv__/__pow__     *)
(* -> _binop -> from_powers (zero stripping, canonical name, cache         *)
(* lookup), and wrap (a dimensionless result falls out of the container).  *)
(*                                                                         *)
(* The invariants relate this level I to level A of module Dimension: the  *)
(* exponent VECTOR of every result is the one Physics(RuleOf[f], ...)      *)
(* dictates, and mismatched additions / comparisons / stackings /          *)
(* assignments are refused.                                                *)
(*                                                                         *)
(* Every transition is emitted as JSON; the harness replays it on the real *)
(* SI.Quantity objects (S->C) and compares class, powers, name and value.  *)
(***************************************************************************)
EXTENDS Dimension, Json

CONSTANTS Seeds,       \* initial pool
          Pows,        \* rational exponents offered to ** / numpy.power
          MaxSteps,    \* number of operations in a behaviour
          FullSteps,   \* operations 1..FullSteps range over ALL functions of a rule, later ones over representatives
          LeafDedup,   \* TRUE: a transition that adds nothing new to the pool is a leaf (exhaustive mode)
          MaxVal       \* bound on numerators/denominators of pool values

VARIABLES pool, cache, last, nsteps, phase
vars == <<pool, cache, last, nsteps, phase>>


\* ------------------------------------------------------------- values
NA == <<<<0, 0>>>>                    \* "the model does not give an exact value" (inexact root, out of bounds, NumPy raises)
SmallR(r) == Abs(r[1]) <= MaxVal /\ r[2] <= MaxVal
SmallV(v) == \A i \in 1..Len(v) : SmallR(v[i])
TinyV(v) == \A i \in 1..Len(v) : Abs(v[i][1]) <= 100 /\ v[i][2] <= 100
Bc(v, i) == IF Len(v) = 1 THEN v[1] ELSE v[i]
Map2(Op(_, _), a, b) == [i \in 1..Max2(Len(a), Len(b)) |-> Op(Bc(a, i), Bc(b, i))]
Map1(Op(_), a) == [i \in 1..Len(a) |-> Op(a[i])]
Chk(v) == IF SmallV(v) THEN v ELSE NA
NoZero(v) == \A i \in 1..Len(v) : v[i] # Zero
VMaxOf(v) == IF Len(v) = 1 THEN v[1] ELSE RMax(v[1], v[2])
VMinOf(v) == IF Len(v) = 1 THEN v[1] ELSE RMin(v[1], v[2])
VSum(v) == IF Len(v) = 1 THEN v[1] ELSE RAdd(v[1], v[2])
RSq(a) == RMul(a, a)
RHypot(a, b) == RSqrt(RAdd(RSq(a), RSq(b)))
HypotOK(a, b) == RIsSquare(RAdd(RSq(a), RSq(b)))

\* the same computation on plain numbers (scalars are sequences of length 1, vectors of length 2)
NumBinary(f, a, b) ==
  CASE f \in {"numpy.add", "operator.add"} -> Chk(Map2(RAdd, a, b))
    [] f \in {"numpy.subtract", "operator.sub"} -> Chk(Map2(RSub, a, b))
    [] f = "numpy.maximum" -> Map2(RMax, a, b)
    [] f = "numpy.minimum" -> Map2(RMin, a, b)
    [] f = "operator.mod" -> IF NoZero(b) /\ TinyV(a) /\ TinyV(b) THEN Chk(Map2(RMod, a, b)) ELSE NA
    [] f = "numpy.hypot" -> IF TinyV(a) /\ TinyV(b) /\ \A i \in 1..Max2(Len(a), Len(b)) : HypotOK(Bc(a, i), Bc(b, i))
                            THEN Map2(RHypot, a, b) ELSE NA
    [] f \in {"numpy.multiply", "operator.mul"} -> Chk(Map2(RMul, a, b))
    [] f \in {"numpy.matmul", "operator.matmul"} -> IF Len(a) = 2 /\ Len(b) = 2 THEN Chk(<<RAdd(RMul(a[1], b[1]), RMul(a[2], b[2]))>>) ELSE NA
    [] f \in {"numpy.divide", "operator.truediv"} -> IF NoZero(b) THEN Chk(Map2(RDiv, a, b)) ELSE NA

\* k: index for getitem
NumUnary(f, a, k) ==
  CASE f \in {"numpy.absolute", "operator.abs"} -> Map1(RAbs, a)
    [] f \in {"numpy.negative", "operator.neg"} -> Map1(RNeg, a)
    [] f \in {"numpy.positive", "operator.pos", "numpy.conjugate", "numpy.real", "numpy.transpose", "numpy.reshape"} -> a
    [] f = "numpy.imag" -> [i \in 1..Len(a) |-> Zero]
    [] f \in {"numpy.amax", "numpy.max"} -> <<VMaxOf(a)>>
    [] f \in {"numpy.amin", "numpy.min"} -> <<VMinOf(a)>>
    [] f = "numpy.sum" -> Chk(<<VSum(a)>>)
    [] f = "numpy.mean" -> Chk(<<RDiv(VSum(a), RInt(Len(a)))>>)
    [] f = "numpy.ptp" -> Chk(<<RSub(VMaxOf(a), VMinOf(a))>>)
    [] f = "numpy.linalg.norm" -> IF Len(a) = 1 THEN <<RAbs(a[1])>>
                                  ELSE IF TinyV(a) /\ HypotOK(a[1], a[2]) THEN <<RHypot(a[1], a[2])>> ELSE NA
    [] f = "operator.getitem" -> IF Len(a) = 2 THEN <<a[k + 1]>> ELSE NA
    [] f = "numpy.take" -> IF Len(a) = 2 THEN <<a[2], a[1]>> ELSE NA          \* numpy.take(a, [1, 0])
    [] f = "numpy.broadcast_to" -> IF Len(a) = 1 THEN <<a[1], a[1]>> ELSE NA  \* numpy.broadcast_to(a, (2,))

NumSqrt(a) == IF \A i \in 1..Len(a) : a[i][1] >= 0 /\ RIsSquare(a[i]) THEN Map1(RSqrt, a) ELSE NA
\* exact cube roots of small non-negative rationals (exponents with denominator 3)
ICbrtM(n) == CHOOSE s \in 0..46 : s * s * s = n
IsCubeM(n) == \E s \in 0..46 : s * s * s = n
RIsCubeM(a) == a[1] >= 0 /\ IsCubeM(a[1]) /\ IsCubeM(a[2])
RCbrtM(a) == <<ICbrtM(a[1]), ICbrtM(a[2])>>
RPowRat(a, k) == IF k[2] = 1 THEN RPowInt(a, k[1]) ELSE IF k[2] = 2 THEN RPowInt(RSqrt(a), k[1]) ELSE RPowInt(RCbrtM(a), k[1])
PowOK(a, k) == /\ k[2] \in {1, 2, 3} /\ Abs(k[1]) <= 4
               /\ (k[2] = 2 => a[1] >= 0 /\ RIsSquare(a))
               /\ (k[2] = 3 => RIsCubeM(a))
               /\ (k[1] < 0 => a # Zero)
NumPow(a, k) == IF TinyV(a) /\ \A i \in 1..Len(a) : PowOK(a[i], k) THEN Chk([i \in 1..Len(a) |-> RPowRat(a[i], k)]) ELSE NA

CmpOp(f, x, y) ==
  CASE f \in {"numpy.equal", "operator.eq"} -> x = y
    [] f \in {"numpy.not_equal", "operator.ne"} -> x # y
    [] f \in {"numpy.less", "operator.lt"} -> RLt(x, y)
    [] f \in {"numpy.less_equal", "operator.le"} -> RLe(x, y)
    [] f \in {"numpy.greater", "operator.gt"} -> RLt(y, x)
    [] f \in {"numpy.greater_equal", "operator.ge"} -> RLe(y, x)

\* numpy.interp(x, xp, fp) with len(xp) = len(fp) = 2, xp increasing
Interp1(x, xp, fp) == IF RLe(x, xp[1]) THEN fp[1] ELSE IF RLe(xp[2], x) THEN fp[2]
                      ELSE RAdd(fp[1], RDiv(RMul(RSub(x, xp[1]), RSub(fp[2], fp[1])), RSub(xp[2], xp[1])))
NumInterp(x, xp, fp) == IF Len(xp) = 2 /\ Len(fp) = 2 /\ RLt(xp[1], xp[2]) /\ TinyV(x) /\ TinyV(xp) /\ TinyV(fp)
                        THEN Chk([i \in 1..Len(x) |-> Interp1(x[i], xp, fp)]) ELSE NA

\* ------------------------------------------------------------- level I: unpack, dispatch, wrap
\* Quantity.__unpack: (type(arg), arg.__value) or (Dimensionless, arg)
UDim(x) == IF x.q THEN x.dim ELSE Dimless
\* val: sequence of rationals (numbers), bval: sequence of booleans (comparison results)
Out(kind, dim, val, pw) == [kind |-> kind, dim |-> dim, val |-> val, pw |-> pw, bval |-> <<>>]
OutB(bval) == [kind |-> "bool", dim |-> Dimless, val |-> <<>>, pw |-> NoPowers, bval |-> bval]
\* Dimension.wrap: `if not cls.__powers: return value`
Wrap(c, name, val) == IF DOMAIN c[name] = {} THEN Out("plain", Dimless, val, NoPowers) ELSE Out("q", name, val, c[name])
WrapOpaque(c, name) == IF DOMAIN c[name] = {} THEN Out("plainopaque", Dimless, <<>>, NoPowers) ELSE Out("qopaque", name, <<>>, c[name])
Reject(kind) == Out(kind, Dimless, <<>>, NoPowers)
Res(out, c) == [out |-> out, cache |-> c]

\* level A view of an operand
AVec(c, x) == Vec(IF x.q THEN c[x.dim] ELSE NoPowers)

\* a DimensionError inside an operator method becomes NotImplemented (_try_or_noimp) and Python raises
\* TypeError, except for == and != which fall back to identity comparison (False / True); the NumPy
\* entry points raise the DimensionError itself
Mismatch(f) == IF f \in {"operator.eq", "operator.ne"} THEN Reject("noteq") ELSE Reject("reject")

\* the table entry of f applied to the operands xs (those the dispatcher unpacks), producing value val
Apply(c, f, xs, k, val) ==
  LET d == Dispatch(c, DispOf(f), [i \in DOMAIN xs |-> UDim(xs[i])], k)
  IN CASE d.res = "rej" -> Res(Mismatch(f), d.cache)
       [] d.res = "wrap" -> Res(Wrap(d.cache, d.name, val), d.cache)
       [] d.res = "raw" -> Res(Out("raw", Dimless, val, NoPowers), d.cache)

I_unary(c, f, x, k) == Apply(c, f, <<x>>, Zero, NumUnary(f, x.val, k))
I_add_like(c, f, x, y) == Apply(c, f, <<x, y>>, Zero, NumBinary(f, x.val, y.val))
I_mul_like(c, f, x, y) == Apply(c, f, <<x, y>>, Zero, NumBinary(f, x.val, y.val))
I_div_like(c, f, x, y) == Apply(c, f, <<x, y>>, Zero, NumBinary(f, x.val, y.val))
I_sqrt(c, f, x) == Apply(c, f, <<x>>, Zero, NumSqrt(x.val))
I_pow_like(c, f, x, k) == Apply(c, f, <<x>>, k, NumPow(x.val, k))
\* F[k] = y: the container keeps its class, element k is replaced (the value returned by the dispatcher is dropped)
I_setitem(c, f, x, k, y) ==
  LET r == Apply(c, f, <<x, y>>, Zero, [x.val EXCEPT ![k + 1] = y.val[1]])
  IN IF r.out.kind = "q" THEN Res([r.out EXCEPT !.kind = "none"], r.cache) ELSE r
I_unary_op(c, f, x) ==
  LET r == Apply(c, f, <<x>>, Zero, <<>>)
      out == CASE f = "numpy.isfinite" -> OutB([i \in 1..Len(x.val) |-> TRUE])
               [] f = "numpy.isnan" -> OutB([i \in 1..Len(x.val) |-> FALSE])
               [] f = "numpy.ndim" -> Out("meta", Dimless, <<RInt(IF Len(x.val) = 1 THEN 0 ELSE 1)>>, NoPowers)
               [] f = "numpy.size" -> Out("meta", Dimless, <<RInt(Len(x.val))>>, NoPowers)
               [] f = "numpy.shape" -> Out("meta", Dimless, IF Len(x.val) = 1 THEN <<>> ELSE <<RInt(2)>>, NoPowers)
  IN IF r.out.kind = "raw" THEN Res(out, r.cache) ELSE r
I_binary_op(c, f, x, y) ==
  LET r == Apply(c, f, <<x, y>>, Zero, <<>>)
  IN IF r.out.kind = "raw" THEN Res(OutB([i \in 1..Max2(Len(x.val), Len(y.val)) |-> CmpOp(f, Bc(x.val, i), Bc(y.val, i))]), r.cache) ELSE r
\* numpy.stack([x, y]) / numpy.concatenate([x, y]); two scalars stack to a vector, other results are not kept in the pool
I_stack_like(c, f, x, y) ==
  LET keep == f = "numpy.stack" /\ Len(x.val) = 1 /\ Len(y.val) = 1
      r == Apply(c, f, <<x, y>>, Zero, IF keep THEN <<x.val[1], y.val[1]>> ELSE <<>>)
  IN IF keep \/ r.out.kind \notin {"q", "plain"} THEN r
     ELSE Res(WrapOpaque(r.cache, r.out.dim), r.cache)
I_interp(c, f, x, xp, fp) == Apply(c, f, <<x, xp, fp>>, Zero, NumInterp(x.val, xp.val, fp.val))

\* ------------------------------------------------------------- which functions, which operands
Full == nsteps < FullSteps
UnaryFs == IF Full THEN {"numpy.absolute", "operator.abs", "numpy.negative", "operator.neg", "numpy.positive", "operator.pos",
                         "numpy.conjugate", "numpy.real", "numpy.imag", "numpy.transpose", "numpy.reshape", "numpy.amax", "numpy.max",
                         "numpy.amin", "numpy.min", "numpy.sum", "numpy.mean", "numpy.ptp", "numpy.linalg.norm", "operator.getitem",
                         "numpy.take", "numpy.broadcast_to"}
           ELSE {"operator.neg", "numpy.absolute", "numpy.sum", "operator.getitem"}
AddFs == IF Full THEN RuleFuncs.add_like ELSE {"operator.add", "numpy.subtract", "numpy.maximum"}
MulFs == IF Full THEN RuleFuncs.mul_like ELSE {"operator.mul", "numpy.multiply"}
DivFs == {"numpy.divide", "operator.truediv"}
PowFs == IF Full THEN {"numpy.power", "operator.pow"} ELSE {"operator.pow"}
StripFs == IF Full THEN {"numpy.isfinite", "numpy.isnan", "numpy.ndim", "numpy.shape", "numpy.size"} ELSE {"numpy.shape"}
CmpFs == IF Full THEN RuleFuncs.compare ELSE {"operator.eq", "numpy.less_equal"}
StackFs == RuleFuncs.stack_like

Quantities == {x \in pool : x.q}
IsVec(x) == Len(x.val) = 2
\* operand pairs with at least one Quantity (otherwise SI is not involved)
Pairs == {<<x, y>> \in pool \X pool : x.q \/ y.q}

Obj(out) == [q |-> out.kind = "q", dim |-> out.dim, val |-> out.val]
Keep(out) == out.kind \in {"q", "plain"} /\ out.val # NA

\* k is always a rational so that `last` has one shape
Commit(act, f, args, k, r) ==
  /\ r.out.val # NA                       \* the model gives no exact value: not part of the explored behaviours
  /\ nsteps' = nsteps + 1
  /\ cache' = r.cache
  /\ last' = [act |-> act, f |-> f, args |-> args, k |-> k, out |-> r.out, step |-> nsteps + 1,
              apw |-> [i \in DOMAIN args |-> IF args[i].q THEN cache[args[i].dim] ELSE NoPowers]]
  /\ LET new == Keep(r.out) /\ Obj(r.out) \notin pool
     IN /\ pool' = IF new THEN pool \cup {Obj(r.out)} ELSE pool
        /\ phase' = IF new \/ ~LeafDedup THEN "done" ELSE "leaf"

Unary == \E f \in UnaryFs, x \in Quantities, k \in {0, 1} :
           /\ (f # "operator.getitem" => k = 0)
           /\ Commit("Unary", f, <<x>>, RInt(k), I_unary(cache, f, x, k))
AddLike == \E f \in AddFs, p \in Pairs : Commit("AddLike", f, <<p[1], p[2]>>, Zero, I_add_like(cache, f, p[1], p[2]))
MulLike == \E f \in MulFs, p \in Pairs : Commit("MulLike", f, <<p[1], p[2]>>, Zero, I_mul_like(cache, f, p[1], p[2]))
DivLike == \E f \in DivFs, p \in Pairs : Commit("DivLike", f, <<p[1], p[2]>>, Zero, I_div_like(cache, f, p[1], p[2]))
Sqrt == \E x \in Quantities : Commit("Sqrt", "numpy.sqrt", <<x>>, Zero, I_sqrt(cache, "numpy.sqrt", x))
PowLike == \E f \in PowFs, x \in Quantities, k \in Pows : Commit("PowLike", f, <<x>>, k, I_pow_like(cache, f, x, k))
SetItem == \E p \in Pairs, k \in {0, 1} :
             /\ p[1].q /\ IsVec(p[1]) /\ ~IsVec(p[2])
             /\ Commit("SetItem", "operator.setitem", <<p[1], p[2]>>, RInt(k), I_setitem(cache, "operator.setitem", p[1], k, p[2]))
UnaryOp == \E f \in StripFs, x \in Quantities : Commit("UnaryOp", f, <<x>>, Zero, I_unary_op(cache, f, x))
BinaryOp == \E f \in CmpFs, p \in Pairs : Commit("BinaryOp", f, <<p[1], p[2]>>, Zero, I_binary_op(cache, f, p[1], p[2]))
StackLike == \E f \in StackFs, p \in Pairs :
               /\ Len(p[1].val) = Len(p[2].val)
               /\ (f = "numpy.concatenate" => IsVec(p[1]))
               /\ Commit("StackLike", f, <<p[1], p[2]>>, Zero, I_stack_like(cache, f, p[1], p[2]))
Interp == \E x \in pool, xp \in pool, fp \in pool :
            /\ (IF Full THEN TRUE ELSE (~IsVec(x) /\ xp \in Seeds /\ fp \in Seeds))
            /\ {x.q, xp.q, fp.q} # {FALSE} /\ IsVec(xp) /\ IsVec(fp) /\ RLt(xp.val[1], xp.val[2])
            /\ Commit("Interp", "numpy.interp", <<x, xp, fp>>, Zero, I_interp(cache, "numpy.interp", x, xp, fp))

Op == /\ phase = "ready" /\ nsteps < MaxSteps
      /\ (Unary \/ AddLike \/ MulLike \/ DivLike \/ Sqrt \/ PowLike \/ SetItem \/ UnaryOp \/ BinaryOp \/ StackLike \/ Interp)

\* classes of the seeds exist (they were created when the units were defined)
SeedCache == LET names == {x.dim : x \in Seeds} \cup {Dimless}
             IN [n \in names |-> NameToPowers(n)]
NoOp == [act |-> "", f |-> "init", args |-> <<>>, k |-> Zero, out |-> Reject("init"), step |-> 0, apw |-> <<>>]
\* bookkeeping step: forget which operation produced the pool, so that states reached by different
\* operations with the same pool are explored once (every operation is still a state of its own)
Absorb == /\ phase = "done" /\ phase' = "ready" /\ last' = NoOp /\ UNCHANGED <<pool, cache, nsteps>>
Next == Op \/ Absorb
Init == /\ pool = Seeds /\ cache = SeedCache /\ last = NoOp /\ nsteps = 0 /\ phase = "ready"
Spec == Init /\ [][Next]_vars

\* ------------------------------------------------------------- invariants
TypeOK == /\ \A x \in pool : /\ x.q \in BOOLEAN /\ Len(x.val) \in {1, 2} /\ SmallV(x.val)
                             /\ (x.q => x.dim \in DOMAIN cache) /\ (~x.q => x.dim = Dimless)
          /\ Dimless \in DOMAIN cache /\ nsteps \in 0..MaxSteps

\* Dimension.__cache: the key is the canonical name of the stored powers, there are no zero powers,
\* and the name parses back to the powers (Dimension.__getattr__, used by pickle)
CacheSound == \A n \in DOMAIN cache : /\ Name(cache[n]) = n
                                      /\ Strip(cache[n]) = cache[n]
                                      /\ NameToPowers(n) = cache[n]
\* two cached classes never denote the same exponent vector, nor one class two vectors
CacheInjective == \A n1, n2 \in DOMAIN cache : Vec(cache[n1]) = Vec(cache[n2]) => n1 = n2
\* a Quantity is never dimensionless (the wrapper falls away)
NoDimensionlessQuantity == \A x \in pool : x.q => DOMAIN cache[x.dim] # {}

\* which operands the rule of the last function looks at
LA == LET a == last.args IN
      CASE last.f = "numpy.interp" -> <<a[1], a[2]>>
        [] Len(a) = 1 -> <<a[1], a[1]>>
        [] OTHER -> <<a[1], a[2]>>
\* THE property: the dimension of every result is the one dictated by the algebra of exponent vectors
Sound ==
  last.f # "init" =>
    LET rule == RuleOfF(last.f)
        opnds == LA
        want == Physics(rule, AVec(cache, opnds[1]), AVec(cache, opnds[2]), last.k)
        got == last.out
        gotvec == Vec(got.pw)
        expect == IF last.f = "numpy.interp" /\ want.k = "plain" THEN PDim(AVec(cache, last.args[3])) ELSE want
    IN CASE expect.k = "reject" -> got.kind \in {"reject", "noteq"}
         [] expect.k = "plain" -> got.kind \in {"bool", "meta"}
         [] expect.k = "dim" -> /\ got.kind \in {"q", "plain", "qopaque", "plainopaque", "none"}
                                /\ gotvec = expect.v
                                /\ (got.kind \in {"plain", "plainopaque"} <=> expect.v = VZero)
                                /\ (got.kind \in {"q", "qopaque", "none"} => got.dim \in DOMAIN cache /\ cache[got.dim] = got.pw)
\* rejection happens exactly when dimensions differ: never for equal ones
NoSpuriousReject ==
  (last.f # "init" /\ last.out.kind \in {"reject", "noteq"}) =>
      AVec(cache, LA[1]) # AVec(cache, LA[2])

\* ------------------------------------------------------------- emission for the S->C replay
Emit == last.f = "init" \/ PrintT(<<"VF", ToJson(last)>>)
=============================================================================
