#!/usr/bin/env python3
"""Regenerates /verif/MANIFEST.json from the table below (single source of truth)."""
import json, os
HERE = os.path.dirname(os.path.dirname(os.path.abspath(__file__)))

CHECKS = {
 'C18': dict(
   category='model_checking',
   text="TLA+ specs CacheFn/CacheRec of cache.function and cache.Recursion (one action per step of the wrapper, crash between any two bytes of pickle.dump, concurrent callers) are checked exhaustively by TLC for Transparent, MutexCompute, LockHeld, StoredIsTrue, termination; bound to the code by trace validation of real multi-process runs with SIGKILLs (TraceCacheFn/TraceCacheRec) and by realising every model-reachable file state (every byte prefix, junk tails, chimeras) on real cache files.",
   note="Assumes SIGKILL-style process death (no fsync/power-loss reordering), flock semantics of Linux, deterministic pickles for a deterministic function; bounds: 2 processes, pickle length 3 abstract bytes, <=3 crashes in the design model.",
   technique="TLA+/TLC exhaustive design model + trace validation of recorded real executions + model-state realisation (every prefix)"),
}

NOT_YET = "check not implemented yet in this round (planned, see DESIGN.md section 4); not claimed"
NOT_APPLICABLE = {}

def main():
    props = [json.loads(l)['id'] for l in open(os.path.join(HERE, 'properties.jsonl'))]
    checks = []
    for pid in props:
        if pid in CHECKS:
            c = CHECKS[pid]
            checks.append({
                'property_id': pid,
                'quick_cmd': './check {} --tier quick'.format(pid),
                'thorough_cmd': './check {} --tier thorough'.format(pid),
                'evidence_file': '/verif/evidence/{}.json'.format(pid),
                'replay_cmd_template': './check {} --replay {{path}}'.format(pid),
                'engine': 'tlc',
                'level_claimed': {'category': c['category'], 'text': c['text'], 'design_ref': 'DESIGN.md section 4 ' + pid},
                'level_note': c['note'],
                'technique': c['technique'],
            })
    na = [{'property_id': pid, 'reason': NOT_APPLICABLE.get(pid, NOT_YET)} for pid in props if pid not in CHECKS]
    m = {
     'version': 1,
     'setup_cmd': 'sh ./setup.sh',
     'hooks': {
      'guard': 'NUTILS_VERIF_TRACE',
      'enable': 'checks run /venv/bin/python with PYTHONPATH=/repo/src (pure Python, nothing to build); the hook is enabled per check by setting NUTILS_VERIF_TRACE=<event file>',
      'baseline_off_cmd': 'cd /repo && env -u NUTILS_VERIF_TRACE /venv/bin/python -m pytest -ra -q -p no:cacheprovider --timeout=900 --continue-on-collection-errors',
      'source_commits': HOOK_COMMITS,
      'add_only': True,
     },
     'engines': [{'name': 'tlc', 'path': '/opt/veriftools/tla/tla2tools.jar', 'serves_properties': sorted(CHECKS),
                  'kind_free_text': 'TLA+ explicit-state model checker (TLC 1.8); design specs spec/*.tla are checked exhaustively/by simulation, Trace*.tla validate executions recorded from the real code, and TLC-generated behaviours are replayed into the real code by harness/vf'}],
     'checks': checks,
     'not_applicable': na,
     'notes': 'Entry point ./check <ID> --tier quick|thorough; known findings in known_findings.jsonl; see DESIGN.md.',
    }
    with open(os.path.join(HERE, 'MANIFEST.json'), 'w') as f:
        json.dump(m, f, indent=1)
    print('MANIFEST.json: {} checks, {} not claimed'.format(len(checks), len(na)))

HOOK_COMMITS = []

if __name__ == '__main__':
    main()
