SPECIFICATION TSpec
CONSTANTS
  RefTypes <- MCRefs2
  TrimRefs <- MCTrim3
  DegRef = 0
  DegRegion = 0
  DegRegion3 = 0
  InvDeg = 2
  TrimLevels <- MCLevels2
  MaxRefine <- MCRefine01
  GoMutant = "none"
INVARIANT CheckEntry
CHECK_DEADLOCK FALSE
