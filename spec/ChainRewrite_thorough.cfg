\* thorough, exhaustive: chains of 3 items, all references of dimension <= 3, results rewritten once more
\* every reference of dimension <= 3, rewritten by canonical, uppermost and promote (every ndims),
\* and every result rewritten once more (chains with ScaledUpdim / Identity items)
SPECIFICATION Spec
CONSTANTS
  MaxDim = 3
  MaxLen = 3
  LongDim = 0
  LongLen = 0
  MaxRounds = 1
  WrongSwap = FALSE
INVARIANT MapPreserved
INVARIANT WellFormed
INVARIANT InRange
INVARIANT Terminates
INVARIANT CanonicalDone
INVARIANT OperatorAgrees
INVARIANT DimsKept
INVARIANT EmitDone
CHECK_DEADLOCK FALSE
