\* thorough, exhaustive: at most two structured-topology operations and two wrappers
SPECIFICATION Spec
CONSTANTS
  MaxDepth = 2
  MaxStructOps = 2
  MaxElems = 12
  TailLen = 2
  Bases = {"line2", "line3", "line3p", "sq22", "sq21", "sq12p", "idx1", "tri2", "mixed3"}
  Wrappers = {"mask", "reorder", "derive", "plain", "chainindex", "split"}
  LookupMutant = "none"
INVARIANT DenIsDen
INVARIANT PrefixFree
INVARIANT ElemDims
INVARIANT LookupCorrect
INVARIANT FIndex
INVARIANT CrossConsistent
INVARIANT InterfaceConsistent
INVARIANT EmitAll
CHECK_DEADLOCK FALSE
