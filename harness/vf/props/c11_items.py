"""C11 binding layer: abstract transform items of spec/TransformChain.tla <-> real nutils
transform items, and exact (dyadic) affine maps of real items.

Abstract item = dict(t, c, s) exactly as the TLA+ record, nested like the nutils objects:
  X Index(c[0], c[1]) | I Identity(c[0]) | SC SimplexChild(c[0], c[1]) | SE SimplexEdge(c[0], c[1]) |
  TC TensorChild(s[0], s[1]) | T1 TensorEdge1(s[0], c[0]) | T2 TensorEdge2(c[0], s[0]) | SU ScaledUpdim(s[0], s[1])
A reference is the list of its simplex dimensions (all >= 1), [] is the point.

The conversion is purely structural.  Everything it claims is cross-checked by TLC: the exact
matrix of every real item is exported next to its abstract name and spec/TransformTables.tla
demands that it equals the model's ItemMap.
"""

from fractions import Fraction
import functools


class Unrepresentable(Exception):
    pass


def X(n, i): return dict(t='X', c=[int(n), int(i)], s=[])
def I(n): return dict(t='I', c=[int(n)], s=[])
def SC(n, k): return dict(t='SC', c=[int(n), int(k)], s=[])
def SE(n, e): return dict(t='SE', c=[int(n), int(e)], s=[])
def TC(a, b): return dict(t='TC', c=[], s=[a, b])
def T1(a, n2): return dict(t='T1', c=[int(n2)], s=[a])
def T2(n1, b): return dict(t='T2', c=[int(n1)], s=[b])
def SU(a, b): return dict(t='SU', c=[], s=[a, b])


def key(item):
    """hashable form of an abstract item / chain"""
    if isinstance(item, dict):
        return (item['t'], tuple(item['c']), tuple(key(x) for x in item['s']))
    return tuple(key(x) for x in item)


def todims(it):
    t = it['t']
    if t in ('X', 'I', 'SC', 'SE'):
        return it['c'][0]
    if t == 'TC':
        return todims(it['s'][0]) + todims(it['s'][1])
    if t in ('T1', 'T2'):
        return it['c'][0] + todims(it['s'][0])
    return todims(it['s'][0])


def fromdims(it):
    t = it['t']
    if t in ('X', 'I', 'SC'):
        return it['c'][0]
    if t == 'SE':
        return it['c'][0] - 1
    if t == 'TC':
        return fromdims(it['s'][0]) + fromdims(it['s'][1])
    if t in ('T1', 'T2'):
        return it['c'][0] + fromdims(it['s'][0])
    return fromdims(it['s'][1])


def children(d):
    """abstract children of reference d in the order of Reference.child_transforms"""
    d = list(d)
    if not d:
        return [SC(0, 0)]
    if len(d) == 1:
        return [SC(d[0], k) for k in range(2 ** d[0])]
    return [TC(SC(d[0], k), r) for k in range(2 ** d[0]) for r in children(d[1:])]


def edges(d):
    d = list(d)
    if not d:
        return []
    if len(d) == 1:
        return [SE(d[0], e) for e in range(d[0] + 1)]
    return [T1(SE(d[0], e), sum(d[1:])) for e in range(d[0] + 1)] + [T2(d[0], r) for r in edges(d[1:])]


def edge_factor(it):
    return 1 + edge_factor(it['s'][0]) if it['t'] == 'T2' else 1


def edge_from_ref(d, j):
    d = list(d)
    if d[j - 1] == 1:
        del d[j - 1]
    else:
        d[j - 1] -= 1
    return d


# ---------------------------------------------------------------------------
# abstract -> real

@functools.lru_cache(maxsize=None)
def _ref(d):
    from nutils import element
    from nutils import _util as util
    return util.product(element.getsimplex(n) for n in d) if d else element.getsimplex(0)


def ref(d):
    return _ref(tuple(d))


def to_real(it):
    from nutils import transform
    t, c, s = it['t'], it['c'], it['s']
    if t == 'X':
        return transform.Index(c[0], c[1])
    if t == 'I':
        return transform.Identity(c[0])
    if t == 'SC':
        return transform.SimplexChild(c[0], c[1])
    if t == 'SE':
        return transform.SimplexEdge(c[0], c[1])
    if t == 'TC':
        return transform.TensorChild(to_real(s[0]), to_real(s[1]))
    if t == 'T1':
        return transform.TensorEdge1(to_real(s[0]), c[0])
    if t == 'T2':
        return transform.TensorEdge2(c[0], to_real(s[0]))
    if t == 'SU':
        return transform.ScaledUpdim(to_real(s[0]), to_real(s[1]))
    raise ValueError(it)


def chain_to_real(chain):
    return tuple(to_real(it) for it in chain)


# ---------------------------------------------------------------------------
# real -> abstract

def to_abs(item):
    from nutils import transform
    T = type(item)
    if T is transform.Index:
        return X(item.todims, item.index)
    if T is transform.Identity:
        return I(item.todims)
    if T is transform.SimplexChild:
        return SC(item.todims, item.ichild)
    if T is transform.SimplexEdge and not item.inverted:
        return SE(item.todims, item.iedge)
    if T is transform.TensorChild:
        return TC(to_abs(item.trans1), to_abs(item.trans2))
    if T is transform.TensorEdge1:
        return T1(to_abs(item.trans), item.fromdims - item.trans.fromdims)
    if T is transform.TensorEdge2:
        return T2(item.fromdims - item.trans.fromdims, to_abs(item.trans))
    if T is transform.ScaledUpdim:
        return SU(to_abs(item.trans1), to_abs(item.trans2))
    raise Unrepresentable('no abstract name for {!r}'.format(item))


def chain_to_abs(chain):
    return [to_abs(item) for item in chain]


# ---------------------------------------------------------------------------
# exact affine maps

def _norm(A, b, m, n):
    e = 0
    vals = [x for row in A for x in row] + list(b)
    while any(x.denominator != 1 for x in vals):
        vals = [x * 2 for x in vals]
        A = [[x * 2 for x in row] for row in A]
        b = [x * 2 for x in b]
        e += 1
        if e > 60:
            raise Unrepresentable('not dyadic')
    return dict(m=m, n=n, e=e, A=[[int(x) for x in row] for row in A], b=[int(x) for x in b])


def real_map(item):
    """exact map of a real item from its stored linear / offset arrays"""
    m, n = item.todims, item.fromdims
    lin, off = item.linear, item.offset
    if lin.shape != (m, n) or off.shape != (m,):
        raise Unrepresentable('bad shapes {} {}'.format(lin.shape, off.shape))
    A = [[Fraction(float(lin[r, c])) for c in range(n)] for r in range(m)]
    b = [Fraction(float(off[r])) for r in range(m)]
    return A, b, m, n


def compose(F, G):
    A1, b1, m1, n1 = F
    A2, b2, m2, n2 = G
    if n1 != m2:
        raise Unrepresentable('dimension mismatch {} {}'.format(n1, m2))
    A = [[sum(A1[r][k] * A2[k][c] for k in range(n1)) for c in range(n2)] for r in range(m1)]
    b = [sum(A1[r][k] * b2[k] for k in range(n1)) + b1[r] for r in range(m1)]
    return A, b, m1, n2


def identity(n):
    return [[Fraction(int(r == c)) for c in range(n)] for r in range(n)], [Fraction(0)] * n, n, n


def real_chain_map(chain, n0):
    out = identity(chain[0].todims if chain else n0)
    for item in chain:
        out = compose(out, real_map(item))
    return out


def model_map(F):
    return _norm(*F)


def item_map(item):
    return _norm(*real_map(item))


def chain_map(chain, n0):
    return _norm(*real_chain_map(chain, n0))


def apply_model_map(F, pts):
    """apply a model map record (dict m n e A b) to an array of points (floats)"""
    import numpy
    A = numpy.array(F['A'], dtype=float).reshape(F['m'], F['n'])
    b = numpy.array(F['b'], dtype=float).reshape(F['m'])
    return (numpy.asarray(pts, dtype=float) @ A.T + b) / 2.0 ** F['e']
