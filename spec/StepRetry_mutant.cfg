\* spec mutant / design-level finding: the code as written with the property demanded of it.
\* TLC is EXPECTED to report a violation of AdvanceAsWritten.
SPECIFICATION Spec
CONSTANTS
  MaxRetrySet = {0, 1, 2}
  TimeDeps = {TRUE, FALSE}
  MaxCalls = 7
  Variants = {FALSE}
  Emitting = FALSE
INVARIANT AdvanceAsWritten
INVARIANT EachSolve
INVARIANT Depth
CHECK_DEADLOCK FALSE
