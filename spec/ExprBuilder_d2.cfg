\* stand-alone exhaustive run of the builder (the harness generates its configurations, see harness/vf/exprs.py):
\*   java -cp tla2tools.jar:CommunityModules-deps.jar tlc2.TLC -deadlock -config ExprBuilder_d2.cfg MCExprBuilder.tla
SPECIFICATION Spec
CONSTANTS
  Families <- D2Families
  EmitMin = 1
INVARIANT ShapeSound
INVARIANT IxSound
CONSTRAINT EmitComplete
CHECK_DEADLOCK FALSE
