----------------------------- MODULE BasisTables -----------------------------
(***************************************************************************)
(* C12 binding T: dof tables exported from live nutils bases, judged by    *)
(* the operators of module Basis.                                          *)
(*                                                                         *)
(* The file IOEnv.VF_TABLE holds a list of records                         *)
(*   [kind |-> "table", t |-> [ne, nd, ed, su]]                            *)
(*        get_dofs / get_support of one basis: InverseMaps must hold, every *)
(*        dof must be in range and every support sorted                    *)
(*   [kind |-> "mask" | "prune" | "part", t |-> parent table, arg |-> ..,  *)
(*    c |-> child table]                                                   *)
(*        a MaskedBasis / PrunedBasis / partition basis made from a real   *)
(*        parent: the child table must be MaskOp / PruneOp / PartOp of the *)
(*        parent table (the order-preserving renumbering of the docstring) *)
(* The verdict on every record is emitted, the harness turns a false       *)
(* verdict into a violation.                                               *)
(***************************************************************************)
EXTENDS Basis, TLC, Json, IOUtils

VARIABLE i
Recs == JsonDeserialize(IOEnv.VF_TABLE)

AsBasis(t) == [ne |-> t.ne, nd |-> t.nd, ed |-> t.ed, su |-> [d \in 1..t.nd |-> BSet(t.su[d])],
               mid |-> [e \in 1..t.ne |-> <<e>>], ifc |-> {}, un |-> {}]
Shape(t) == /\ Len(t.ed) = t.ne /\ Len(t.su) = t.nd
            /\ \A e \in 1..t.ne : \A k \in 1..Len(t.ed[e]) : t.ed[e][k] \in 0..t.nd-1
            /\ \A d \in 1..t.nd : \A k \in 1..Len(t.su[d]) : t.su[d][k] \in 0..t.ne-1
            /\ \A d \in 1..t.nd : \A k \in 1..Len(t.su[d])-1 : t.su[d][k] < t.su[d][k+1]
Same(x, t) == /\ x.ne = t.ne /\ x.nd = t.nd
              /\ \A e \in 1..x.ne : x.ed[e] = t.ed[e]
              /\ \A d \in 1..x.nd : x.su[d] = BSet(t.su[d])

Verdict(r) ==
    IF ~Shape(r.t) THEN [shape |-> FALSE, inverse |-> FALSE, op |-> FALSE]
    ELSE LET pb == AsBasis(r.t) IN
         [shape |-> TRUE,
          inverse |-> BInverseMaps(pb),
          op |-> CASE r.kind = "table" -> TRUE
                   [] r.kind = "mask" -> Shape(r.c) /\ Same(MaskOp(pb, BSet(r.arg)), r.c)
                   [] r.kind = "prune" -> Shape(r.c) /\ Same(PruneOp(pb, BSet(r.arg)), r.c)
                   [] r.kind = "part" -> Shape(r.c) /\ Same(PartOp(pb, r.arg), r.c)]

Emit(x) == PrintT(<<"VF", ToJson(x)>>)
Init == i = 1
Next == FALSE /\ i' = i
Spec == Init /\ [][Next]_i
(* the file is read once; every record is judged *)
Judge == LET recs == Recs IN
         \A k \in 1..Len(recs) : LET v == Verdict(recs[k]) IN Emit([i |-> k, shape |-> v.shape, inverse |-> v.inverse, op |-> v.op])
=============================================================================
