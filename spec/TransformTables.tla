--------------------------- MODULE TransformTables ---------------------------
(***************************************************************************)
(* C11, T-binding of TransformChain to src/nutils/transform.py and         *)
(* element.py.  The live code exports (env VF_TABLE, JSON)                 *)
(*   swap     SimplexEdge.swap                                             *)
(*   items    every child / edge transform of every reference of           *)
(*            dimension <= 3 (simplices and tensor products), with its     *)
(*            abstract name, its position in Reference.child_transforms /  *)
(*            edge_transforms, its exact matrix (linear, offset as dyadic  *)
(*            integers) and whether constructing the same item directly    *)
(*            from the transform classes yields the identical (interned)   *)
(*            object, which is what PlainTransforms' id() lookup needs     *)
(*   pairs    for every adjacent pair (a, b) of the alphabet the result of *)
(*            a.swapup(b) resp. b.swapdown(a) in the code (abstract names  *)
(*            and exact matrices of the two returned items, or nothing)    *)
(* and TLC decides, one state per entry, that                              *)
(*   - the model's tables equal the code's (SwapTab, ItemMap, ordering),   *)
(*   - the model's SwapUp / SwapDown return exactly what the code returns, *)
(*   - every swap the code performs preserves the composed affine map      *)
(*     (evaluated on the code's own matrices).                             *)
(* Entries that fail are emitted with a verdict; "ok" entries are counted. *)
(***************************************************************************)
EXTENDS TransformChain, Json, IOUtils

Table == JsonDeserialize(IOEnv.VF_TABLE)
NI == Len(Table.items)
NP == Len(Table.pairs)
VARIABLE i
Init == i = 0
Next == i < 1 + NI + NP /\ i' = i + 1
Spec == Init /\ [][Next]_i

SwapVerdict == IF Table.swap = SwapTab THEN "ok" ELSE "swap-table-differs-from-model"

ItemVerdict(r) ==
    LET it == r.it
    IN IF MapNorm(ItemMap(it)) # r.map THEN "item-map-differs-from-model"
       ELSE IF r.kind = "child" /\ (Len(ChildSeq(r.ref)) # r.count \/ ChildSeq(r.ref)[r.pos + 1] # it) THEN "child-order-differs-from-model"
       ELSE IF r.kind = "edge" /\ (Len(EdgeSeq(r.ref)) # r.count \/ EdgeSeq(r.ref)[r.pos + 1] # it) THEN "edge-order-differs-from-model"
       ELSE IF ~r.same THEN "item-not-interned"
       ELSE IF r.todims # ToDims(it) \/ r.fromdims # FromDims(it) THEN "dims-differ-from-model"
       ELSE "ok"

PairVerdict(r) ==
    LET model == IF r.op = "up" THEN SwapUp(r.a, r.b) ELSE SwapDown(r.a, r.b)
    IN IF r.unrep THEN "swap-result-has-no-name-in-the-model"
       ELSE IF r.out # model THEN "swap-differs-from-model"
       ELSE IF r.out # NoSwap /\ Compose(r.maps[1], r.maps[2]) # Compose(r.outmaps[1], r.outmaps[2]) THEN "swap-changes-map"
       ELSE IF r.out # NoSwap /\ ~WellFormedChain(r.out) THEN "swap-result-ill-formed"
       ELSE "ok"

Verdict == IF i = 0 THEN [id |-> 0, sec |-> "init", v |-> "ok"]
           ELSE IF i = 1 THEN [id |-> 1, sec |-> "swap", v |-> SwapVerdict]
           ELSE IF i <= 1 + NI THEN [id |-> i - 1, sec |-> "item", v |-> ItemVerdict(Table.items[i - 1])]
           ELSE [id |-> i - 1 - NI, sec |-> "pair", v |-> PairVerdict(Table.pairs[i - 1 - NI])]
Emit(x) == PrintT(<<"VF", ToJson(x)>>)
\* always TRUE; prints the verdict of every entry that fails
CheckEntry == Verdict.v # "ok" => Emit(Verdict)
\* Also emitted from the first state: for every reference of dimension <= 3 every chain ("tail") of
\* at most 2 child / edge items starting there, with the affine map the model assigns to it.  These
\* are the tails the S->C replay of SeqNesting appends to element chains; the map is the model's
\* prediction of the remainder index_with_tail must return.
TailRefs == {<<>>, <<1>>, <<2>>, <<3>>, <<1, 1>>, <<2, 1>>, <<1, 2>>, <<1, 1, 1>>}
EmitTails == i = 0 => \A ref \in TailRefs : \A t \in TailsOf(ref, 2) :
                 Emit([sec |-> "tail", ref |-> ref, t |-> t, map |-> ChainMap(t, TcSum(ref))])
Counted == i >= 0
=============================================================================
