---------------------------- MODULE MCDimMachine ----------------------------
(* model-checking constants for DimMachine (cfg files cannot hold sequences or negative numbers) *)
EXTENDS DimMachine

Ch(s) == s      \* names are written as sequences of one-character strings
P(v) == [q |-> FALSE, dim |-> <<>>, val |-> v]
Q(name, v) == [q |-> TRUE, dim |-> name, val |-> v]

MCBaseOrd3 == <<"L", "M", "T">>
MCBaseOrd4 == <<"L", "M", "T", "Q">>           \* "Q" = theta sorts after the ASCII letters

\* quick: plain 2, 4 m, [3,4] m, 64 s (a square and a cube), [1,4] s, 4 m2, -1/2 kg
MCSeedsQuick == { P(<<RInt(2)>>),
                  Q(<<"L">>, <<RInt(4)>>), Q(<<"L">>, <<RInt(3), RInt(4)>>),
                  Q(<<"T">>, <<RInt(64)>>), Q(<<"T">>, <<RInt(1), RInt(4)>>),
                  Q(<<"L", "2">>, <<RInt(4)>>),
                  Q(<<"M">>, <<Rat(-1, 2)>>) }
\* thorough: more dimensions (velocity, force, a fractional power, temperature) and a plain vector
MCSeedsThorough == MCSeedsQuick \cup
                { P(<<RInt(1), RInt(3)>>),
                  Q(<<"L", "/", "T">>, <<RInt(-6)>>),
                  Q(<<"M", "*", "L", "/", "T", "2">>, <<RInt(9)>>),
                  Q(<<"L", "_", "2">>, <<Rat(1, 4)>>),
                  Q(<<"Q">>, <<RInt(5), RInt(12)>>) }
\* 1/3: an exact rational exponent whose denominator is not a power of two (no binary float represents it)
MCPowsQuick == {RInt(0), RInt(2), RInt(-1), Rat(1, 2), Rat(3, 2), Rat(1, 3)}
MCPowsThorough == {RInt(0), RInt(1), RInt(2), RInt(3), RInt(-1), RInt(-2), Rat(1, 2), Rat(-1, 2), Rat(3, 2), Rat(1, 3), Rat(-2, 3)}

=============================================================================
