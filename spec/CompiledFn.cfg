SPECIFICATION Spec
CONSTANTS
  NEnv = 3
  MaxLen = 4
  FreezeCached = TRUE
INVARIANT Pure
INVARIANT CachedFrozen
INVARIANT CacheIntact
CONSTRAINT EmitHist
CHECK_DEADLOCK FALSE
