------------------------------ MODULE MCTopo ------------------------------
(* model-checking shell of Topo: named sets of bases (a cfg cannot hold records), the VIEW that *)
(* identifies states by what they denote, and the emission of one operation history per state.  *)
EXTENDS Topo, Json

Bases_line == {BaseRec("line2", 2), BaseRec("line3", 2), BaseRec("line2p", 2), BaseRec("line3p", 1)}
Bases_line3 == {BaseRec("line3", 3), BaseRec("line4", 2), BaseRec("line3p", 2)}
Bases_rect == {BaseRec("rect21", 1), BaseRec("rect22", 1), BaseRec("rect22p", 1)}
Bases_rect2 == {BaseRec("rect22", 2), BaseRec("rect32", 1), BaseRec("rect32p", 1), BaseRec("rect21", 2)}
Bases_conn == {BaseRec("mp21", 1), BaseRec("tri1", 1), BaseRec("mix2", 1)}
Bases_conn2 == {BaseRec("mp42", 1), BaseRec("mp21", 2), BaseRec("tri1", 2), BaseRec("tri2", 1), BaseRec("mix2", 2), BaseRec("mix3", 1)}
Bases_mul == {BaseRec("mul22", 1), BaseRec("mul21", 2), BaseRec("mul32p", 1)}
Bases_mul2 == {BaseRec("mul22", 2), BaseRec("mul32p", 1)}
Bases_one == {BaseRec("line3", 2)}
Bases_quick == {BaseRec("line3", 2), BaseRec("line3p", 1), BaseRec("rect22", 1), BaseRec("rect21", 2), BaseRec("rect32p", 1), BaseRec("mp21", 1),
                BaseRec("tri1", 1), BaseRec("mix2", 1), BaseRec("mul22", 1)}
Bases_sim == {BaseRec("line4", 2), BaseRec("line3p", 2), BaseRec("rect22", 2), BaseRec("rect32p", 1), BaseRec("mp21", 2),
              BaseRec("tri1", 2), BaseRec("tri2", 1), BaseRec("mix2", 1), BaseRec("mul22", 2), BaseRec("mul32p", 1)}
Bases_simdeep == {BaseRec("line3", 3), BaseRec("line3p", 3), BaseRec("rect32", 2), BaseRec("rect32p", 2), BaseRec("mp42", 1),
                  BaseRec("tri2", 2), BaseRec("mix3", 1), BaseRec("mix2", 2), BaseRec("mul32p", 2)}
Bases_mutant == {BaseRec("line3p", 1), BaseRec("rect21", 1)}

Ops_all == {"refine", "refspace", "refby", "hierand", "take", "select", "remove", "union", "slice", "trim", "trim2"}
Ops_core == {"refine", "refspace", "refby", "take", "select", "slice", "trim"}
Ref_01 == {0, 1}
Ref_012 == {0, 1, 2}
Ref_1 == {1}
Ref_12 == {1, 2}
Ops_trim2 == {"trim2", "refby", "refine", "trim", "hierand"}
Ops_deep == {"refine", "refby", "hierand", "select", "remove", "slice", "trim"}
Ref_2 == {2}
Bases_trim2 == {BaseRec("rect21", 2), BaseRec("mp21", 1)}
\* hierarchical intersections of topologies of DIFFERENT depth: refined_by, then refined_by & refined_by
Bases_hier == {BaseRec("rect21", 2), BaseRec("line3", 2)}
Ops_hier == {"refby", "hierand"}

View == <<base, cells, comp, st, sg>>
Emit(x) == PrintT(<<"VF", ToJson(x)>>)
EmitHist == Emit([base |-> base.name, L |-> base.L, hist |-> hist, st |-> st, ncells |-> Cardinality(cells)])
\* behaviour plus the predicted observations of its last state
EmitState == Emit([base |-> base.name, L |-> base.L, hist |-> hist, pred |-> Prediction])
=============================================================================
