------------------------------ MODULE ExprParse ------------------------------
(***************************************************************************)
(* C19 -- the parsing ALGORITHM of nutils.expression_v2 on arrays, and the *)
(* derivation machine that enumerates syntax trees.                        *)
(*                                                                         *)
(* Part 1 (P...): one operator per method of expression_v2._Parser         *)
(*   (parse_expression / parse_fraction / parse_term / parse_power /       *)
(*   parse_item / _trace / _merge_summed_indices_same_term) working on     *)
(*   model arrays through the operations of _FunctionArrayOps (outer       *)
(*   product, transpose, trace, get_element, ...).  The result carries     *)
(*   the array, the index string in the parser's order and the set of      *)
(*   summed indices, or the refusal.                                       *)
(* Part 2: a shift/reduce derivation machine (one action per production    *)
(*   of the documented grammar = per parse_* method, plus constructors     *)
(*   that break exactly one syntactic rule, plus token-level corruptions   *)
(*   of the rendered string).  Every tree has exactly one derivation.      *)
(* Property (invariants over every derivable tree):                        *)
(*   VerdictAgree  the algorithm accepts iff the documented rules hold,    *)
(*   FreeAgree     its free indices / summed indices / shape are the       *)
(*                 letters used once / twice with their lengths,           *)
(*   MeaningAgree  its array is the index-notation reading (ExprLang!Val)  *)
(*                 at every assignment of the free indices.                *)
(* Every complete state is emitted (string, verdict, predicted array) for  *)
(* the replay on the real namespaces.                                      *)
(***************************************************************************)
EXTENDS ExprLang

CONSTANTS Fams,       \* sequence of vocabularies (families); one is chosen in the initial state
          Lazy,       \* FALSE: a tree is judged in the step that completes it (exhaustive search);
                      \* TRUE: judging is a step of its own (random walks: TLC computes all successors of a
                      \* state before it picks one, the judgement must not be paid for every candidate)
          EmitMin,    \* emit only trees with at least this many productions
          Bug         \* "" or the name of a seeded defect of the algorithm model (spec mutants)

VARIABLES stk, fin, jd, fam
vars == <<stk, fin, jd, fam>>

\* a vocabulary: bounds, names offered, index tokens offered for variables / generated axes, integer
\* exponent literals, brackets, enabled rule-breaking constructors, token corruptions, extra styles
Fam(ml, mo, ms, v, n, f, t, g, e, w, m, c, s) ==
  [ML |-> ml, MO |-> mo, MS |-> ms, V |-> v, N |-> n, F |-> f, T |-> t, G |-> g, E |-> e, W |-> w, M |-> m, C |-> c, S |-> s,
   VO |-> FALSE,      \* VO: derive only trees that follow the documented rules (deep valid trees by random walks)
   PK |-> FALSE,      \* PK: do not build on top of a subtree that violates a rule (one violation per tree, at its root)
   X |-> {}]          \* X: version 1 leaves offered: "$" / "DELTA" (the two dirac symbols), "cix" (number with an index)
MaxLeaves == Fams[fam].ML
MaxOps == Fams[fam].MO
MaxStack == Fams[fam].MS
VarSet == Fams[fam].V
NumSet == Fams[fam].N
FuncSet == Fams[fam].F
Toks == Fams[fam].T
GToks == Fams[fam].G
IntExps == Fams[fam].E
Wraps == Fams[fam].W
Muts == Fams[fam].M
Cors == Fams[fam].C
Styles == Fams[fam].S
ValidOnly == Fams[fam].VO
PruneKids == Fams[fam].PK
V1Extras == Fams[fam].X

\* ================================================================== part 1: the algorithm
XAt(a, idx) == a.v[Flat(idx, a.sh) + 1]
XScalar(x) == [sh |-> <<>>, v |-> <<x>>]
XMap(a, F(_)) == [sh |-> a.sh, v |-> TLCEval([k \in 1..Len(a.v) |-> F(a.v[k])])]
Without(s, i) == SubSeq(s, 1, i - 1) \o SubSeq(s, i + 1, Len(s))
Without2(s, i, j) == SubSeq(s, 1, i - 1) \o SubSeq(s, i + 1, j - 1) \o SubSeq(s, j + 1, Len(s))
InsertAt(s, i, x) == SubSeq(s, 1, i - 1) \o <<x>> \o SubSeq(s, i, Len(s))
\* numpy.take(a, index, axis)   (axis 0-based)
XGet(a, axis, index) == XMk(Without(a.sh, axis + 1), LAMBDA idx : XAt(a, InsertAt(idx, axis + 1, index)))
\* numpy.trace(a, axis1=i-1, axis2=j-1)   (i < j, 1-based here): both axes removed
XTrace(a, i, j) == XMk(Without2(a.sh, i, j),
                         LAMBDA idx : SumTo(LAMBDA m : XAt(a, InsertAt(InsertAt(idx, i, m - 1), j, m - 1)), a.sh[i]))
\* numpy.transpose(a, axes): result axis p is operand axis axes[p]  (0-based)
XTranspose(a, axes) == XMk([p \in 1..Len(axes) |-> a.sh[axes[p] + 1]],
                             LAMBDA idx : XAt(a, [q \in 1..Len(axes) |-> idx[CHOOSE p \in 1..Len(axes) : axes[p] + 1 = q]]))
\* _FunctionArrayOps.multiply: append_axes + multiply = outer product, axes of the left operand first
XOuter(a, b) == XMk(a.sh \o b.sh, LAMBDA idx : T2Mul(XAt(a, Pre(idx, Len(a.sh))), XAt(b, Post(idx, Len(a.sh)))))
\* _FunctionArrayOps.call: the argument's axes followed by the generated axes
XCall(f, a) == XMk(a.sh \o FuncTab[f].gen, LAMBDA idx : ApplyF(f, XAt(a, Pre(idx, Len(a.sh))), Post(idx, Len(a.sh))))
XVar(nm) == XMk(VarTab[nm].sh, LAMBDA idx : VarAt(nm, idx))
PosIn(s, x) == CHOOSE p \in 1..Len(s) : s[p] = x /\ \A q \in 1..(p - 1) : s[q] # x     \* str.index
SeqSet(s) == {s[p] : p \in 1..Len(s)}

POk(a, ix, sm) == [ok |-> TRUE, why |-> "", a |-> a, ix |-> ix, sm |-> sm]
PFail(w) == [ok |-> FALSE, why |-> w, a |-> XScalar(T2Zero), ix |-> <<>>, sm |-> {}]

\* _merge_summed_indices_same_term: the parts must be pairwise disjoint
RECURSIVE PMergeOk(_, _, _)
PMergeOk(parts, p, merged) == IF p > Len(parts) THEN TRUE
                              ELSE IF merged \cap parts[p] # {} THEN FALSE
                              ELSE PMergeOk(parts, p + 1, merged \cup parts[p])
\* _trace: the while loop over j (1-based here)
RECURSIVE PTraceLoop(_, _, _, _)
PTraceLoop(a, ix, sm, j) ==
  IF j > Len(ix) THEN POk(a, ix, sm)
  ELSE LET index == ix[j]
           i == PosIn(ix, index)
       IN IF index \in sm THEN PFail("index-thrice")
          ELSE IF i < j THEN
               IF a.sh[i] # a.sh[j] THEN PFail("trace-length")
               ELSE PTraceLoop(XTrace(a, i, j), Without2(ix, i, j), sm \cup {index}, IF Bug = "trace-noshift" THEN j ELSE j - 1)
          ELSE PTraceLoop(a, ix, sm, j + 1)
PTrace(a, ix, parts) == IF ~PMergeOk(parts, 1, {}) THEN PFail("index-thrice")
                        ELSE PTraceLoop(a, ix, UNION SeqSet(parts), 1)
\* parse_item: the loop over the tokens after the underscore
RECURSIVE PTokens(_, _, _, _, _)
PTokens(a, ind, toks, p, sm0) ==
  IF p > Len(toks) THEN PTrace(a, ind, <<sm0>>)
  ELSE LET t == toks[p]
           axis == Len(ind)
       IN IF IsDigit(t) THEN
               IF DigitVal[t] >= a.sh[axis + 1] THEN PFail("numeral-range")
               ELSE PTokens(XGet(a, axis, DigitVal[t]), ind, toks, p + 1, sm0)
          ELSE IF t \in AllLetters THEN PTokens(a, Append(ind, t), toks, p + 1, sm0)
          ELSE PFail("index-symbol")
\* _verify_indices_summed
PVerify(ix, sm) == \A p \in 1..Len(ix) : ix[p] \notin sm
RECURSIVE PFirstFail(_, _)
PFirstFail(rs, p) == IF ~rs[p].ok THEN PFail(rs[p].why) ELSE PFirstFail(rs, p + 1)

RECURSIVE OuterTo(_, _)      \* multiply(*items): outer products from the left
OuterTo(rs, n) == IF n = 1 THEN rs[1].a ELSE XOuter(OuterTo(rs, n - 1), rs[n].a)
RECURSIVE IxTo(_, _)         \* ''.join(indices)
IxTo(rs, n) == IF n = 0 THEN <<>> ELSE IxTo(rs, n - 1) \o rs[n].ix
RECURSIVE P(_)
P(e) ==
  LET R(p) == P(e.kids[p]) IN
  CASE e.op = "num" -> POk(XScalar(T2(Norm(NumTab[e.nm][1], NumTab[e.nm][2]))), <<>>, {})
    [] e.op \in {"eye", "cix"} -> PFail("v1-syntax")            \* no such variable / no such number in version 2
    [] e.op = "var" ->                                            \* parse_item, variable branch
         IF e.nm \notin DOMAIN VarTab THEN PFail("unknown-name")
         ELSE IF Len(VarTab[e.nm].sh) # Len(e.ix) THEN PFail("index-count")
         ELSE PTokens(XVar(e.nm), <<>>, e.ix, 1, {})
    [] e.op = "call" ->                                           \* parse_item, function branch
         LET r == R(1) IN
         IF ~r.ok THEN r
         ELSE IF e.nm \notin DOMAIN FuncTab THEN PFail("unknown-function")
         ELSE IF Len(FuncTab[e.nm].gen) # Len(e.ix) THEN PFail("generated-count")
         ELSE PTokens(XCall(e.nm, r.a), r.ix, e.ix, 1, r.sm)
    [] e.op \in {"scope", "jump", "mean"} ->                      \* parse_item, scope branch
         LET r == R(1) IN
         IF ~r.ok THEN r
         ELSE POk(IF e.op = "scope" THEN r.a ELSE IF e.op = "jump" THEN XMap(r.a, T2Jump) ELSE XMap(r.a, T2Mean), r.ix, r.sm)
    [] e.op = "pow" ->                                            \* parse_power
         IF e.kids[1].op = "pow" THEN PFail("repeated-power")
         ELSE LET b == R(1)
                  x == R(2)
              IN IF ~b.ok THEN b ELSE IF ~x.ok THEN x
                 ELSE IF x.ix # <<>> THEN PFail("exponent-dim")
                 ELSE IF ~PMergeOk(<<b.sm, x.sm>>, 1, {}) THEN PFail("index-thrice")
                 ELSE IF Bug # "pow-noverify" /\ ~PVerify(b.ix, b.sm \cup x.sm) THEN PFail("index-thrice")
                 ELSE POk(XMap(b.a, LAMBDA y : T2Pow(y, x.a.v[1])), b.ix, b.sm \cup x.sm)
    [] e.op = "frac" ->                                           \* parse_fraction
         IF e.kids[1].op = "frac" \/ e.kids[2].op = "frac" THEN PFail("repeated-fraction")
         ELSE LET nu == R(1)
                  de == R(2)
              IN IF ~nu.ok THEN nu ELSE IF ~de.ok THEN de
                 ELSE IF de.ix # <<>> THEN PFail("denominator-dim")
                 ELSE IF ~PMergeOk(<<nu.sm, de.sm>>, 1, {}) THEN PFail("index-thrice")
                 ELSE IF ~PVerify(nu.ix, nu.sm \cup de.sm) THEN PFail("index-thrice")
                 ELSE POk(XMap(nu.a, LAMBDA y : T2Div(y, de.a.v[1])), nu.ix, nu.sm \cup de.sm)
    [] e.op = "term" ->                                           \* parse_term
         LET n == Len(e.kids)
             rs == TLCEval([p \in 1..n |-> R(p)])
         IN IF \E p \in 2..n : IsNumItem(e.kids[p]) THEN PFail("number-position")   \* parse_item(allow_number=False)
            ELSE IF \E p \in 1..n : ~rs[p].ok THEN PFirstFail(rs, 1)
            ELSE PTrace(OuterTo(rs, n), IxTo(rs, n),
                        [p \in 1..n |-> rs[p].sm])
    [] e.op = "sum" ->                                            \* parse_expression
         LET n == Len(e.kids)
             rs == TLCEval([p \in 1..n |-> R(p)])
         IN IF \E p \in 1..n : e.sg[p] \in {"+-", "--"} THEN PFail("misplaced-minus")   \* parse_item on "-b"
            ELSE IF \E p \in 1..n : ~rs[p].ok THEN PFirstFail(rs, 1)
            ELSE LET ix == rs[1].ix
                     sh == rs[1].a.sh
                 IN IF \E p \in 2..n : SeqSet(rs[p].ix) # SeqSet(ix) THEN PFail("term-indices")
                    ELSE LET al == TLCEval([p \in 1..n |->
                                      IF rs[p].ix = ix THEN rs[p].a
                                      ELSE IF Bug = "sum-inverse-perm"
                                           THEN XTranspose(rs[p].a, [q \in 1..Len(ix) |-> PosIn(ix, rs[p].ix[q]) - 1])
                                           ELSE XTranspose(rs[p].a, [q \in 1..Len(ix) |-> PosIn(rs[p].ix, ix[q]) - 1])])
                         IN IF \E p \in 2..n : al[p].sh # sh THEN PFail("term-length")
                            ELSE POk([sh |-> sh, v |-> TLCEval([k \in 1..Len(al[1].v) |->
                                          SumTo(LAMBDA p : IF e.sg[p] = "-" THEN T2Neg(al[p].v[k]) ELSE al[p].v[k], n)])],
                                     ix,
                                     IF Bug = "sum-nosummed" THEN rs[1].sm ELSE UNION {rs[p].sm : p \in 1..n})

\* ================================================================== the judgement of one tree
\* Every complete state (one tree on the stack) is judged once, when it is produced: the documented
\* reading (n, ExprLang) against the algorithm (r, part 1).  The judgement is kept in the history
\* variable jd (a function of stk and fin), the invariants read it.
Emit(x) == PrintT(<<"VF", ToJson(x)>>)
ProjArr(a) == [sh |-> a.sh, v |-> [k \in 1..Len(a.v) |-> <<a.v[k][1][1], a.v[k][1][2], a.v[k][2][1], a.v[k][2][2]>>]]
NoArr == [sh |-> <<>>, v |-> <<>>]
RECURSIVE Ops(_)
Ops(e) == {e.op} \cup (IF e.op \in {"call", "var", "num"} THEN {e.nm} ELSE {}) \cup UNION {Ops(e.kids[p]) : p \in 1..Len(e.kids)}
NoCase == [t |-> <<>>, ok |-> "none", why |-> "", guess |-> <<>>, fr |-> <<>>, arr |-> NoArr, rev |-> NoArr, ops |-> {}, no |-> 0, st |-> 0, fam |-> 0,
           pix |-> <<>>, psm |-> {}, ok1 |-> "same", why1 |-> "", fr1 |-> <<>>, arr1 |-> NoArr, rev1 |-> NoArr]
NoJd == [c |-> FALSE, verdict |-> TRUE, free |-> TRUE, meaning |-> TRUE, case |-> NoCase]
Judge(ent) ==
  LET e == ent.e
      n == Chk(e)
      r == P(e)
      valid == n.why = ""
      fs == FreeSet(n.cnt)
      fr == FreeSeq(n.cnt)
      sameix == SeqSet(r.ix) = fs /\ Len(r.ix) = Cardinality(fs)
      m == ArrOf(n, r.ix)                                \* the reading, axes in the algorithm's order
      \* the same array with its axes in alphabetical / reverse alphabetical order of the letters
      sorted == IF r.ix = fr THEN m ELSE XTranspose(m, [q \in 1..Len(fr) |-> PosIn(r.ix, fr[q]) - 1])
      rev == IF Len(fr) <= 1 THEN sorted ELSE XTranspose(m, [q \in 1..Len(fr) |-> PosIn(r.ix, Reverse(fr)[q]) - 1])
      usable == valid /\ r.ok /\ sameix
      \* version 1 reading of a tree with dirac / indexed numbers: the inferred lengths must be uniquely deducible
      unk == Unk(e)
      cons == IF unk = {} THEN {} ELSE Consistent(e)
      one == Cardinality(cons) = 1
      n1 == ChkG(e, CHOOSE U \in cons : TRUE, TRUE)
      fr1 == FreeSeq(n1.cnt)
  IN [c |-> TRUE,
      verdict |-> valid = r.ok,
      free |-> (valid /\ r.ok) => /\ sameix
                                  /\ r.sm = {l \in AllLetters : n.cnt[l] = 2}
                                  /\ r.a.sh = [p \in 1..Len(r.ix) |-> n.ln[r.ix[p]]],
      meaning |-> usable => /\ m.sh = r.a.sh
                            /\ \A k \in 1..Len(m.v) : m.v[k] = r.a.v[k] \/ T2Bad(m.v[k]) \/ T2Bad(r.a.v[k]),
      case |-> [t |-> Render(e, 0),
                ok |-> IF ~valid THEN "bad" ELSE IF IntNegPow(n) THEN "skip" ELSE "ok",
                why |-> n.why,
                \* for strings that must be refused: the letters used an odd number of times (the axes to ask version 1 for,
                \* so that a wrongly accepted string is not refused for the requested axes instead)
                guess |-> LET t == Render(e, 0) IN SelectSeq(LetterOrder, LAMBDA l : Cardinality({p \in 1..Len(t) : t[p] = l}) % 2 = 1),
                fr |-> IF valid THEN fr ELSE <<>>,
                arr |-> IF usable THEN ProjArr(sorted) ELSE NoArr,
                rev |-> IF usable THEN ProjArr(rev) ELSE NoArr,
                ops |-> Ops(e), no |-> ent.no, st |-> 0, fam |-> 0,
                \* what the algorithm returns besides the array: its index string (order of the first term) and summed set
                pix |-> IF usable THEN r.ix ELSE <<>>, psm |-> IF usable THEN r.sm ELSE {},
                ok1 |-> IF unk = {} THEN "same" ELSE IF ~one THEN "bad" ELSE IF IntNegPow(n1) THEN "skip" ELSE "ok",
                why1 |-> IF unk = {} \/ one THEN "" ELSE IF cons = {} THEN "no-consistent-lengths" ELSE "undetermined-length",
                fr1 |-> IF unk # {} /\ one THEN fr1 ELSE <<>>,
                arr1 |-> IF unk # {} /\ one THEN ProjArr(ArrOf(n1, fr1)) ELSE NoArr,
                rev1 |-> IF unk # {} /\ one THEN ProjArr(ArrOf(n1, Reverse(fr1))) ELSE NoArr]]
\* ================================================================== part 2: the derivation machine
\* follows the rules (shared reading), or - with version 1 leaves - some assignment of the inferred lengths does
Plausible(e) == IF V1Extras = {} THEN Chk(e).why = "" ELSE IF Unk(e) = {} THEN Chk(e).why = "" ELSE Consistent(e) # {}
\* stack entry: tree, syntactic rank (1 item, 2 power, 3 term, 4 fraction, 5 sum), leaves, productions
\* v: the tree follows the rules (not computed where nothing depends on it: every candidate successor of a random walk would pay)
Ent(e, r, nl, no) == [e |-> e, r |-> r, nl |-> nl, no |-> no,
                      v |-> IF ValidOnly \/ PruneKids \/ ~Lazy THEN TLCEval(Plausible(e)) ELSE TRUE]
L == Len(stk)
Top == stk[L]
Sec == stk[L - 1]
RECURSIVE SumField(_, _)
SumField(f, n) == IF n = 0 THEN 0 ELSE f[n] + SumField(f, n - 1)
NL == SumField([p \in 1..L |-> stk[p].nl], L)
NO == SumField([p \in 1..L |-> stk[p].no], L)
Admit(x) == ValidOnly => x.v
Grow1 == PruneKids => Top.v                     \* guards of the productions that consume one / two entries
Grow2 == PruneKids => (Top.v /\ Sec.v)
Push(x) == stk' = Append(stk, x) /\ Admit(x)
Rep1(x) == stk' = Append(SubSeq(stk, 1, L - 1), x) /\ Admit(x)
Rep2(x) == stk' = Append(SubSeq(stk, 1, L - 2), x) /\ Admit(x)
Open == ~fin.done
CanLeaf == Open /\ NL < MaxLeaves /\ L < MaxStack
CanOp == Open /\ NO < MaxOps

PNum == /\ CanLeaf /\ \E t \in NumSet : Push(Ent(NumNd(t), 1, 1, 0)) /\ UNCHANGED fin
PVar == /\ CanLeaf
        /\ \E nm \in VarSet : \E ix \in [1..Len(VarTab[nm].sh) -> Toks] : Push(Ent(VarNd(nm, ix), 1, 1, 0))
        /\ UNCHANGED fin
\* rule breakers at the leaves: unknown name, one index too many / too few, a symbol that is no index
PBadVar == /\ CanLeaf
           /\ \/ /\ "unknown" \in Muts /\ \E ix \in {<<>>, <<"i">>} : Push(Ent(VarNd("q", ix), 1, 1, 0))
              \/ /\ "index-count" \in Muts
                 /\ \E nm \in VarSet : \E d \in {-1, 1} : Len(VarTab[nm].sh) + d >= 0
                       /\ \E ix \in [1..(Len(VarTab[nm].sh) + d) -> (Toks \cap {"i", "j"})] : Push(Ent(VarNd(nm, ix), 1, 1, 0))
              \/ /\ "index-symbol" \in Muts
                 /\ \E nm \in VarSet : Len(VarTab[nm].sh) = 1 /\ Push(Ent(VarNd(nm, <<"$">>), 1, 1, 0))
           /\ UNCHANGED fin
\* version 1 leaves: the dirac with two letters, a number with one index; the leaf id names the inferred length
Digit1(k) == IF k = 1 THEN "1" ELSE IF k = 2 THEN "2" ELSE IF k = 3 THEN "3" ELSE "4"
PV1Leaf == /\ CanLeaf
           /\ \/ \E sym \in {"DELTA", "$"} \cap V1Extras : \E ix \in [1..2 -> (Toks \cap AllLetters)] :
                       Push(Ent(V1Leaf("eye", sym, ix, Digit1(NL + 1)), 1, 1, 0))
              \/ /\ "cix" \in V1Extras
                 /\ \E t \in NumSet : \E l \in (Toks \cap AllLetters) : Push(Ent(V1Leaf("cix", t, <<l>>, Digit1(NL + 1)), 1, 1, 0))
           /\ UNCHANGED fin
PWrap == /\ CanOp /\ L >= 1 /\ Grow1
         /\ \E w \in Wraps : Rep1(Ent(Nd(w, "", <<>>, <<Top.e>>, <<>>), 1, Top.nl, Top.no + 1))
         /\ UNCHANGED fin
PCall == /\ CanOp /\ L >= 1 /\ Grow1
         /\ \E f \in FuncSet : \E ix \in [1..Len(FuncTab[f].gen) -> GToks] :
                Rep1(Ent(Nd("call", f, ix, <<Top.e>>, <<>>), 1, Top.nl, Top.no + 1))
         /\ UNCHANGED fin
PBadCall == /\ CanOp /\ L >= 1 /\ Grow1
            /\ \/ /\ "unknown" \in Muts /\ Rep1(Ent(Nd("call", "nofunc", <<>>, <<Top.e>>, <<>>), 1, Top.nl, Top.no + 1))
               \/ /\ "index-count" \in Muts
                  /\ \E f \in FuncSet : \E d \in {-1, 1} : Len(FuncTab[f].gen) + d >= 0
                        /\ \E ix \in [1..(Len(FuncTab[f].gen) + d) -> (GToks \cap {"i", "j"})] :
                              Rep1(Ent(Nd("call", f, ix, <<Top.e>>, <<>>), 1, Top.nl, Top.no + 1))
            /\ UNCHANGED fin
PPowInt == /\ CanOp /\ L >= 1 /\ Grow1 /\ (Top.r = 1 \/ (Top.r = 2 /\ "repeated-power" \in Muts))
           /\ \E x \in IntExps : Rep1(Ent(Nd("pow", "int", <<>>, <<Top.e, NumNd(x)>>, <<>>), 2, Top.nl, Top.no + 1))
           /\ UNCHANGED fin
PPowScoped == /\ CanOp /\ L >= 2 /\ Grow2 /\ Sec.r = 1
              /\ Rep2(Ent(Nd("pow", "scoped", <<>>, <<Sec.e, Top.e>>, <<>>), 2, Sec.nl + Top.nl, Sec.no + Top.no + 1))
              /\ UNCHANGED fin
\* juxtaposition: a term is extended on the right
PTerm == /\ CanOp /\ L >= 2 /\ Grow2 /\ Sec.r <= 3 /\ Top.r <= 2
         /\ (IsNumItem(Top.e) => "number-position" \in Muts)
         /\ Rep2(Ent(Nd("term", "", <<>>, IF Sec.r = 3 THEN Append(Sec.e.kids, Top.e) ELSE <<Sec.e, Top.e>>, <<>>), 3,
                     Sec.nl + Top.nl, Sec.no + Top.no + (IF Sec.r = 3 THEN 0 ELSE 1)))
         /\ UNCHANGED fin
PFrac == /\ CanOp /\ L >= 2 /\ Grow2 /\ Top.r <= 3 /\ (Sec.r <= 3 \/ (Sec.r = 4 /\ "repeated-fraction" \in Muts))
         /\ Rep2(Ent(Nd("frac", "", <<>>, <<Sec.e, Top.e>>, <<>>), 4, Sec.nl + Top.nl, Sec.no + Top.no + 1))
         /\ UNCHANGED fin
PNeg == /\ CanOp /\ L >= 1 /\ Grow1 /\ Top.r <= 4
        /\ Rep1(Ent(Nd("sum", "", <<>>, <<Top.e>>, <<"-">>), 5, Top.nl, Top.no + 1))
        /\ UNCHANGED fin
PSum == /\ CanOp /\ L >= 2 /\ Grow2 /\ Top.r <= 4
        /\ \E s \in {"+", "-"} \cup (IF "misplaced-minus" \in Muts THEN {"+-"} ELSE {}) :
              Rep2(Ent(Nd("sum", "", <<>>, IF Sec.r = 5 THEN Append(Sec.e.kids, Top.e) ELSE <<Sec.e, Top.e>>,
                          IF Sec.r = 5 THEN Append(Sec.e.sg, s) ELSE <<"+", s>>), 5,
                       Sec.nl + Top.nl, Sec.no + Top.no + (IF Sec.r = 5 THEN 0 ELSE 1)))
        /\ UNCHANGED fin

\* ---- finishing: a rendering style or one token-level corruption of the canonical string
Brackets == {"(", ")", "[", "]", "{", "}"}
Closers == {")", "]", "}"}
BinOps == {"+", "-", "/"}
CanonToks == Render(Top.e, 0)
IsOpSpace(t, p) == /\ t[p] = " "
                   /\ \/ (p + 2 <= Len(t) /\ t[p + 1] \in BinOps /\ t[p + 2] = " ")
                      \/ (p - 2 >= 1 /\ t[p - 1] \in BinOps /\ t[p - 2] = " ")
\* the "(" at p opens the argument list of a call: a function name, optionally "_" and index tokens, then "("
IsCallParen(t, p) == /\ t[p] = "("
                     /\ \E q \in 1..(p - 1) : /\ t[q] \in DOMAIN FuncTab \cup {"nofunc"}
                                              /\ \/ q = p - 1
                                                 \/ /\ q + 1 < p /\ t[q + 1] = "_"
                                                    /\ \A m \in (q + 2)..(p - 1) : t[m] \in AllLetters \cup DOMAIN DigitVal
CorPositions(kind, t) ==
  CASE kind = "del-bracket" -> {p \in 1..Len(t) : t[p] \in Brackets}
    [] kind = "swap-close" -> {p \in 1..Len(t) : t[p] \in Closers}
    [] kind = "del-op-space" -> {p \in 1..Len(t) : IsOpSpace(t, p)}
    [] kind = "pow-space-before" -> {p \in 1..Len(t) : t[p] = "^"}
    [] kind = "pow-space-after" -> {p \in 1..Len(t) : t[p] = "^"}
    [] kind = "call-space" -> {p \in 2..Len(t) : IsCallParen(t, p)}
    [] kind = "index-space" -> {p \in 1..Len(t) : t[p] = "_"}
    [] kind = "trailing-op" -> {Len(t)}
    [] OTHER -> {}
SwapCloser(c) == IF c = ")" THEN "]" ELSE IF c = "]" THEN "}" ELSE ")"
Corrupt(kind, t, p) ==
  CASE kind = "del-bracket" -> Without(t, p)
    [] kind = "swap-close" -> [t EXCEPT ![p] = SwapCloser(t[p])]
    [] kind = "del-op-space" -> Without(t, p)
    [] kind = "pow-space-before" -> InsertAt(t, p, " ")
    [] kind = "pow-space-after" -> InsertAt(t, p + 1, " ")
    [] kind = "call-space" -> InsertAt(t, p, " ")
    [] kind = "index-space" -> InsertAt(t, p, " ")
    [] kind = "trailing-op" -> t \o <<" ", "+">>
\* a finished state: the same tree in another rendering style (same verdict and array) or with one
\* corrupted token (always a violation of the documented syntax)
Refinish(j, e, f) ==
  IF f.ck = "" THEN [j EXCEPT !.case.t = RenderTop(e, f.st), !.case.st = f.st]
  ELSE [j EXCEPT !.case.t = Corrupt(f.ck, Render(e, 0), f.cp), !.case.ok = "bad", !.case.why = f.ck,
                 !.case.fr = <<>>, !.case.arr = NoArr, !.case.rev = NoArr, !.case.pix = <<>>, !.case.psm = {},
                 !.case.ok1 = IF j.case.ok1 = "same" THEN "same" ELSE "bad", !.case.why1 = f.ck, !.case.fr1 = <<>>, !.case.arr1 = NoArr, !.case.rev1 = NoArr]

\* random walks: only the first and the last position of a kind (keeps finishing from dominating the choice)
FewIfLazy(S) == IF Lazy /\ S # {} THEN {CHOOSE p \in S : \A q \in S : p <= q, CHOOSE p \in S : \A q \in S : p >= q} ELSE S
PFinish == /\ Open /\ L = 1
           /\ \/ \E st \in Styles : fin' = [done |-> TRUE, st |-> st, ck |-> "", cp |-> 0]
              \/ Top.v /\ jd.case.ok # "bad" /\ \E k \in Cors : \E p \in FewIfLazy(CorPositions(k, CanonToks)) : fin' = [done |-> TRUE, st |-> 0, ck |-> k, cp |-> p]
           /\ UNCHANGED stk

Init == stk = <<>> /\ fin = [done |-> FALSE, st |-> 0, ck |-> "", cp |-> 0] /\ jd = NoJd /\ fam \in 1..Len(Fams)
\* the judged machine: jd is a function of the new stack and finishing record (one evaluation per step)
Production == PNum \/ PVar \/ PBadVar \/ PV1Leaf \/ PWrap \/ PCall \/ PBadCall \/ PPowInt \/ PPowScoped \/ PTerm \/ PFrac \/ PNeg \/ PSum
Judgeable(s) == Len(s) = 1 /\ s[1].no >= EmitMin
Next == /\ \/ ~Lazy /\ Production /\ jd' = IF Judgeable(stk') THEN Judge(stk'[1]) ELSE NoJd
           \/ Lazy /\ (Judgeable(stk) => jd.c) /\ Production /\ jd' = NoJd
           \/ Lazy /\ Judgeable(stk) /\ ~jd.c /\ jd' = Judge(stk[1]) /\ UNCHANGED <<stk, fin>>
           \/ PFinish /\ jd.c /\ jd' = Refinish(jd, Top.e, fin')
        /\ UNCHANGED fam
Spec == Init /\ [][Next]_vars
\* the bare machine (no judgement), one named action per production: used for the per-action coverage
\* (vacuity guard) of a configuration; it has the same reachable stacks as Spec
ANum == PNum /\ UNCHANGED <<jd, fam>>
AVar == PVar /\ UNCHANGED <<jd, fam>>
ABadVar == PBadVar /\ UNCHANGED <<jd, fam>>
AV1Leaf == PV1Leaf /\ UNCHANGED <<jd, fam>>
AWrap == PWrap /\ UNCHANGED <<jd, fam>>
ACall == PCall /\ UNCHANGED <<jd, fam>>
ABadCall == PBadCall /\ UNCHANGED <<jd, fam>>
APowInt == PPowInt /\ UNCHANGED <<jd, fam>>
APowScoped == PPowScoped /\ UNCHANGED <<jd, fam>>
ATerm == PTerm /\ UNCHANGED <<jd, fam>>
AFrac == PFrac /\ UNCHANGED <<jd, fam>>
ANeg == PNeg /\ UNCHANGED <<jd, fam>>
ASum == PSum /\ UNCHANGED <<jd, fam>>
AFinish == PFinish /\ UNCHANGED <<jd, fam>>
BareNext == ANum \/ AVar \/ ABadVar \/ AV1Leaf \/ AWrap \/ ACall \/ ABadCall \/ APowInt \/ APowScoped \/ ATerm \/ AFrac \/ ANeg \/ ASum \/ AFinish
BareSpec == Init /\ [][BareNext]_vars

\* ================================================================== the property
VerdictAgree == jd.verdict       \* the algorithm accepts iff the documented rules hold
FreeAgree == jd.free             \* free / summed indices and shape are the letters used once / twice
MeaningAgree == jd.meaning       \* the algorithm's array is the index-notation reading
\* rendered strings of trees are bracket balanced
RECURSIVE Depth(_, _, _)
Depth(t, p, d) == IF p > Len(t) THEN d ELSE IF d < 0 THEN d
                  ELSE Depth(t, p + 1, IF t[p] \in {"(", "[", "{"} THEN d + 1 ELSE IF t[p] \in Closers THEN d - 1 ELSE d)
RenderBalanced == (jd.c /\ fin.ck = "") => Depth(jd.case.t, 1, 0) = 0
Unbalanced == (jd.c /\ fin.ck = "del-bracket") => Depth(jd.case.t, 1, 0) # 0

\* ================================================================== emission
EmitComplete == jd.c => Emit([jd.case EXCEPT !.fam = fam])
\* the namespace itself, once
EmitTables == (L = 0 /\ fam = 1) => Emit([vars |-> VarTab, funcs |-> FuncTab, nums |-> [t \in DOMAIN NumTab |-> NumTab[t]]])
=============================================================================
