------------------------------ MODULE MCHier ------------------------------
EXTENDS BasisHier, Json
HB1(n, per, L) == [n |-> <<n>>, per |-> <<per>>, L |-> L]
HB2(n0, n1, p0, p1, L) == [n |-> <<n0, n1>>, per |-> <<p0, p1>>, L |-> L]
Bases_quick == {HB1(2, FALSE, 2), HB1(2, TRUE, 2), HB2(2, 1, FALSE, FALSE, 1), HB2(2, 2, FALSE, TRUE, 1)}
Builds_quick == {<<"h-spline", 2>>, <<"th-spline", 2>>, <<"th-spline", 3>>, <<"h-spline", 1>>, <<"h-std", 2>>, <<"th-std", 3>>}
Bases_1d == {HB1(2, FALSE, 2), HB1(3, FALSE, 2), HB1(2, TRUE, 2), HB1(3, TRUE, 2), HB1(1, FALSE, 2), HB1(4, FALSE, 1), HB1(1, TRUE, 2)}
Bases_2d == {HB2(2, 1, FALSE, FALSE, 2), HB2(2, 2, FALSE, TRUE, 1), HB2(2, 2, FALSE, FALSE, 1), HB2(3, 2, TRUE, FALSE, 1)}
Builds_all == {<<"h-spline", 1>>, <<"h-spline", 2>>, <<"h-spline", 3>>, <<"th-spline", 1>>, <<"th-spline", 2>>, <<"th-spline", 3>>,
               <<"h-std", 2>>, <<"h-std", 3>>, <<"th-std", 2>>, <<"th-std", 3>>}
Builds_2d == {<<"h-spline", 2>>, <<"th-spline", 2>>, <<"h-std", 2>>, <<"th-std", 1>>, <<"th-spline", 3>>}
Emit(x) == PrintT(<<"VF", ToJson(x)>>)
EmitState == st = "built" => Emit([hist |-> hist, st |-> st, b |-> b])
=============================================================================
