\* simulation: random behaviours of the deep families (the harness runs one vocabulary per TLC process through a generated module MCSubstX)
SPECIFICATION Spec
CONSTANTS
  Families <- SimFamilies
  Mutant = "none"
INVARIANT ShapeSound
INVARIANT FvSound
INVARIANT ReplaceIdNoop
INVARIANT SubstLemma
INVARIANT ChainTwoStep
INVARIANT SwapTwice
INVARIANT LinLinear
INVARIANT LinIsDerivContracted
INVARIANT FactorIdentity
INVARIANT FactorIdempotent
INVARIANT RejectSound
CONSTRAINT EmitDone
CONSTRAINT EmitTables
CHECK_DEADLOCK FALSE
