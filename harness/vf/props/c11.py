"""C11 -- Element lookup and coordinate maps are consistent.

Deciding method: model-based verification with TLA+ specifications checked by TLC.

Design specs (spec/):
  TransformChain.tla   vocabulary: transform items nested like the nutils objects, exact dyadic
                       affine maps, swapup/swapdown transcribed method by method, the loops of
                       canonical / uppermost / promote
  ChainRewrite.tla     machine: one action per loop iteration on every chain of child/edge items
                       (simplices and tensor products up to dimension 3, with/without root,
                       results fed back once); invariants MapPreserved (in every loop state),
                       WellFormed, InRange, Terminates, CanonicalDone, OperatorAgrees, DimsKept
  TransformSeq.tla     vocabulary: denotation Den and algorithm Lookup (= index_with_tail) of
                       Structured / Index / Plain / Masked / Reordered / (Uniform)Derived /
                       Chained sequences, structured axes algebra (refined, boundary, interfaces,
                       slice), root coordinates PhysMap
  SeqNesting.tla       machine: one nesting of constructors per state; invariants LookupCorrect,
                       FIndex, PrefixFree, ElemDims, CrossConsistent, InterfaceConsistent
Bindings to the code:
  (T)    TransformTables.tla: every child/edge item (matrices, ordering, interning) and every
         swapup/swapdown result of the live code, decided by TLC against the model
  (S->C) ChainRewrite behaviours replayed on transform.canonical/uppermost/promote (predicted map
         and items); SeqNesting states rebuilt from the real classes and, for structured bases,
         through the StructuredTopology API, compared element by element and lookup by lookup
         (index, exact remainder map), f_index / f_coords / geometry / opposite geometry /
         parent-topology index and coordinates on samples against the model's predictions
  (C->S) TraceTopo.tla: nestings that real topology operations produce (unitsquare triangle /
         mixed / square, rectilinear periodic, boundary, interfaces, refined, take, refined_by,
         union) are read off the real objects and their recorded lookups, f_index, f_coords,
         interface chains + element geometries and locate() results are validated by TLC.
  ApplyCache.tla       machine: the memo of coordinate maps (types.lru_cache around Matrix.apply / Square.invapply /
                       Square.transform_poly): buffers with addresses that are re-used after destruction, strided /
                       transposed / reversed / read-only views, in-place writes, dropped references, calls (bypass /
                       hit / miss); invariants Transparent (a call returns the image of the argument passed),
                       EntriesFresh, KeysDistinct, NoLeak
  Locate.tla           machine: histories of locate() calls on one topology object with the memo of the affine fit
                       (argument-free and argument-dependent geometry objects, argument values incl. reversed and
                       sheared maps, targets on element boundaries / outside, removed elements); invariants ImageOK,
                       PickedContains, OutsideRaises, InsideLocated, MemoSound
  (S->C) ApplyCache behaviours replayed with real numpy views on the real items (c11_cache), Locate behaviours on real
         StructuredTopology / SubsetTopology / group wrappers / generic search (c11_locate); the argument sequences of
         Locate behaviours are also run on simplex and mixed meshes and judged by TraceTopo (C->S)
Spec mutants (wrong swap entry, three wrong Lookup variants, cache key without strides, no finalizer, own-flag-only
writeable test, memo of argument-dependent fits) must violate the invariants.
"""

import collections
import concurrent.futures
import json
import os
import random

from .. import tlc, exprs
from . import c11_items as ci, c11_chain, c11_seq, c11_trace, c11_cache, c11_locate

LEVEL = 'model_checking'

CHAIN_ACTIONS = ['AddChild', 'AddEdge', 'StartCanonical', 'StartUppermost', 'StartPromote', 'CanonSwap', 'CanonSkip', 'CanonExit',
                 'UpperSwap', 'UpperSkip', 'UpperExit', 'Refeed']
SEQ_OPS = ['refined', 'boundary', 'interfaces', 'slice', 'mask', 'reorder', 'derive', 'plain', 'chainindex', 'split']
LOOKUP_MUTANTS = ['masked-offbyone', 'reorder-forward', 'derived-nocanon']
CACHE_ACTIONS = ['Alloc', 'MkView', 'Mutate', 'Drop', 'CallBypass', 'CallHit', 'CallMiss']
CACHE_TOGGLES = ['KeyStrides', 'Finalizer', 'CheckBases']
LOCATE_ACTIONS = ['CallFree', 'CallFreeExtraArgs', 'CallWithArgs', 'Run']
MUTANT_INVARIANT = dict(rewrite='MapPreserved', seq='LookupCorrect', cache='Transparent', locate='ImageOK')


def _cfg_with(name, **subst):
    text = open(os.path.join(tlc.SPEC, name)).read()
    for k, v in subst.items():
        lines = []
        for line in text.splitlines():
            if line.strip().startswith(k + ' ='):
                line = '  {} = {}'.format(k, v)
            lines.append(line)
        text = '\n'.join(lines) + '\n'
    return text


def plan(tier, seed):
    """TLC design runs: name -> (module, kwargs, exhaustive)"""
    jobs = collections.OrderedDict()
    jobs['rewrite'] = ('ChainRewrite', dict(cfg='ChainRewrite.cfg', coverage=True, workers=4), True)
    jobs['rewrite-mutant'] = ('ChainRewrite', dict(cfg='ChainRewrite_mutant.cfg', workers=2), True)
    jobs['seq'] = ('SeqNesting', dict(cfg='SeqNesting.cfg', workers=4), True)
    jobs['seq-struct'] = ('SeqNesting', dict(cfg='SeqNesting_struct.cfg', workers=2), True)
    if tier == 'quick':
        jobs['seq-sim'] = ('SeqNesting', dict(cfg='SeqNesting_sim.cfg', simulate=dict(num=5), depth=6, seed=seed, workers=2, timeout=600), False)
        muts = [LOOKUP_MUTANTS[seed % len(LOOKUP_MUTANTS)]]
    else:
        jobs['rewrite-thorough'] = ('ChainRewrite', dict(cfg='ChainRewrite_thorough.cfg', workers=8, timeout=1500, heap='8g'), True)
        jobs['rewrite-sim'] = ('ChainRewrite', dict(cfg='ChainRewrite_sim.cfg', simulate=dict(num=1500), depth=40, seed=seed, workers=4, timeout=600), False)
        jobs['seq-thorough'] = ('SeqNesting', dict(cfg='SeqNesting_thorough.cfg', workers=8, timeout=1500, heap='8g'), True)
        jobs['seq-sim'] = ('SeqNesting', dict(cfg='SeqNesting_sim.cfg', simulate=dict(num=400), depth=8, seed=seed, workers=4, timeout=800), False)
        muts = LOOKUP_MUTANTS
    for m in muts:
        jobs['seq-mutant-' + m] = ('SeqNesting', dict(cfg_text=_cfg_with('SeqNesting_mutant.cfg', LookupMutant='"{}"'.format(m)), workers=2), True)
    # the memo of coordinate maps and locate with its memo
    if tier == 'quick':
        jobs['cache'] = ('ApplyCache', dict(cfg='ApplyCache.cfg', coverage=True, workers=1), True)
        jobs['locate'] = ('Locate', dict(cfg='Locate.cfg', coverage=True, workers=3), True)
    else:
        jobs['cache'] = ('ApplyCache', dict(cfg='ApplyCache_thorough.cfg', coverage=True, workers=1, timeout=1500), True)
        jobs['locate'] = ('Locate', dict(cfg='Locate_thorough.cfg', coverage=True, workers=8, timeout=1500, heap='8g'), True)
        jobs['locate-wide'] = ('Locate', dict(cfg='Locate_wide.cfg', workers=4, timeout=1500), True)
    nc, nl = (240, 60) if tier == 'quick' else (3000, 800)
    jobs['cache-sim'] = ('ApplyCache', dict(cfg='ApplyCache_sim.cfg', simulate=dict(num=nc), depth=13, seed=seed, workers=1, timeout=800), False)
    jobs['locate-sim'] = ('Locate', dict(cfg='Locate_sim.cfg', simulate=dict(num=nl), depth=7, seed=seed, workers=1, timeout=800), False)
    for tog in ([CACHE_TOGGLES[seed % len(CACHE_TOGGLES)]] if tier == 'quick' else CACHE_TOGGLES):
        jobs['cache-mutant-' + tog] = ('ApplyCache', dict(cfg_text=_cfg_with('ApplyCache_mutant.cfg', **{tog: 'FALSE'}), workers=1), True)
    jobs['locate-mutant'] = ('Locate', dict(cfg='Locate_mutant.cfg', workers=1), True)
    return jobs


def _run_job(item):
    name, (module, kw, exhaustive) = item
    kw = dict(kw)
    kw.setdefault('deadlock', False)
    return name, tlc.run(module, tag='c11-' + name, **kw)


def _descendants(x):
    for u in x['u']:
        yield u
        yield from _descendants(u)


def run(rep):
    quick = rep.tier == 'quick'
    rng = random.Random(rep.seed)
    jobs = plan(rep.tier, rep.seed)
    rep.constants['ChainRewrite'] = 'references of dimension <= 3 (simplices and tensor products); chains of <= {} items exhaustively{}'.format(
        '2 (<= 3 for dimension <= 2)' if quick else 3, '; replay of all canonical / uppermost and half of the promote behaviours' if quick else ', <= 6 items by simulation')
    rep.constants['SeqNesting'] = 'bases line/square/cube (periodic variants), Index with simplex/mixed/prism references; <= {} topology operations, <= {} wrappers exhaustively; simulation to 2 operations + 3 wrappers; <= 16 elements; tails of <= 2 items'.format(*((1, 1) if quick else (2, 2)))
    rep.constants['ApplyCache'] = ('2 allocations on 2 addresses (freed addresses are re-used), 3 arrays, 2 items, views a[::2] a[:2] a[:2].T a[1::2] a[1:3]{} '
                                   'of a 4x2 buffer, frozen / writeable / read-only view of writeable, <= {} operations exhaustively (one route per distinct state and last call); '
                                   'random walks of 12 operations over 3 allocations, 6 arrays, all views incl. a[2:] a[::-1]').format(*(('', 5) if quick else (' a[::-1]', 6)))
    rep.constants['Locate'] = ('topologies line3, line4 refined, line[1:3], line4 minus an element, rect 3x2, rect refined+sliced, rect 3x3 minus centre; geometry objects F1 F2 (argument free) '
                               'and P (arguments: 5 maps in 1-D, 6 in 2-D incl. reversed axis and shear); 5 target sequences x own/common map; histories of <= {} calls exhaustively, '
                               'random histories of 3 calls').format(2 if quick else 3)

    # ---- all TLC runs concurrently; the table export and the recording of real topologies happen meanwhile
    with concurrent.futures.ThreadPoolExecutor(max_workers=len(jobs) + 3) as pool:
        futures = [pool.submit(_run_job, item) for item in jobs.items()]
        table, tpath = c11_chain.export_to_file()
        ftab = pool.submit(c11_chain.run_tables, tpath)
        seqcases = c11_trace.seq_cases(rep, rng)
        loccases, locfails = c11_trace.locate_cases(rep, rng)
        hcases, hfails = c11_trace.locate_history_cases(rep, rng)
        loccases, locfails = loccases + hcases, locfails + hfails
        ftrace = pool.submit(c11_trace.validate, seqcases + loccases, 'trace')
        rep.lap('tables exported, real topologies recorded')
        results = dict(f.result() for f in futures)
        tabres = ftab.result()
        c11_chain.judge_tables(rep, table, tabres)
        verdicts, rtrace = ftrace.result()
        v1, v2 = verdicts[:len(seqcases)], verdicts[len(seqcases):]
    rep.lap('tlc runs')
    rep.extra['tlc_wall_s'] = dict({name: round(res.wall, 1) for name, res in results.items()}, **{'tables': round(tabres.wall, 1), 'trace': round(rtrace.wall, 1) if rtrace else 0})

    # ---- design-level verdicts
    for name, res in results.items():
        exhaustive = jobs[name][2]
        if 'mutant' in name:
            want = MUTANT_INVARIANT[name.split('-')[0]]
            if res.violated != want:
                raise RuntimeError('spec mutant {} does not violate {} (violated={}): the invariant is vacuous'.format(name, want, res.violated))
            rep.extra.setdefault('spec_mutants_killed', []).append(name)
            continue
        rep.add_tlc(res, exhaustive=exhaustive)
        if res.violated:
            raise RuntimeError('design spec {} violates {}:\n{}'.format(name, res.violated, '\n'.join(res.error_trace[:60])))
    for job, spec, actions in (('rewrite', 'ChainRewrite', CHAIN_ACTIONS), ('cache', 'ApplyCache', CACHE_ACTIONS), ('locate', 'Locate', LOCATE_ACTIONS)):
        cov = results[job].coverage
        missing = [a for a in actions if cov.get(a, (0, 0))[1] == 0]
        if missing:
            raise RuntimeError('{}: actions never taken: {}'.format(spec, missing))

    # ---- S->C: chain rewriting
    behaviours = []
    seen = set()
    for name, res in results.items():
        if name.startswith('rewrite') and 'mutant' not in name:
            for b in res.emitted:
                k = (b['alg'], b['nd'], ci.key(b['chain']))
                if k not in seen:
                    seen.add(k)
                    behaviours.append(b)
    if quick:
        # promote(chain, nd) = canonical(prefix) + uppermost(suffix) is replayed for every nd and makes up two thirds of the
        # behaviours: the quick tier replays every canonical / uppermost behaviour and a seed dependent half of the promote ones
        behaviours.sort(key=lambda b: repr((b['alg'], b['nd'], ci.key(b['chain']))))
        npromote = sum(b['alg'] == 'promote' for b in behaviours)
        behaviours = [b for n, b in enumerate(behaviours) if b['alg'] != 'promote' or n % 2 == rep.seed % 2]
        rep.extra['rewrite_promote_behaviours_left_to_thorough'] = npromote - sum(b['alg'] == 'promote' for b in behaviours)
    chunks = [behaviours[i::16] for i in range(16)]
    outs = exprs.pmap(_replay_chunk, chunks, chunksize=1)
    diverged = 0
    for chunk, out in zip(chunks, outs):
        if 'harness_error' in out:
            raise RuntimeError(out['harness_error'])
        for beh, (bad, same) in zip(chunk, out['res']):
            rep.case(('rewrite', beh['alg'], beh['nd'], ci.key(beh['chain'])), nontrivial=beh['out'] != beh['chain'])
            if bad:
                rep.violation(*bad)
            else:
                rep.traces += 1
                diverged += not same
    rep.extra['rewrite_behaviours_replayed'] = len(behaviours)
    rep.extra['rewrite_results_with_other_items_than_model'] = diverged
    rep.lap('rewrite replay')

    # ---- S->C: sequences
    c11_seq.set_tailmaps(tabres.emitted)
    states, seen = [], set()
    opcount = collections.Counter()
    for name, res in results.items():
        if name.startswith('seq') and 'mutant' not in name:
            for b in res.emitted:
                k = (c11_seq.expr_key(b['expr']), tuple(h['op'] for h in b['hist']))
                if k not in seen:
                    seen.add(k)
                    states.append(b)
                    opcount.update(h['op'] for h in b['hist'][1:])
    for op in SEQ_OPS:
        rep.actions[op] = rep.actions.get(op, 0) + opcount[op]
    missing = [op for op in SEQ_OPS if not opcount[op]]
    if missing:
        raise RuntimeError('SeqNesting: operations never taken: {}'.format(missing))
    states.sort(key=lambda b: len(b['hist']))
    outs = exprs.pmap(c11_seq.check_state, states, chunksize=8)
    failed = {}
    lookups = topo = 0
    for beh, out in zip(states, outs):
        if 'harness_error' in out:
            raise RuntimeError(out['harness_error'])
        x = beh['expr']
        rep.case(('seq', c11_seq.expr_key(x)), nontrivial=len(beh['hist']) > 1)
        lookups += out['lookups']
        topo += out['topo']
        if out['fails']:
            inherited = [failed[c11_seq.expr_key(u)] for u in _descendants(x) if c11_seq.expr_key(u) in failed]
            if inherited:
                for key, what, data in inherited[-1]:
                    rep.violation(key, what, data)
                failed[c11_seq.expr_key(x)] = inherited[-1]
            else:
                fails = [(k, '{}: {}'.format(out['label'], w), dict(expr=x, hist=beh['hist'], detail=d)) for k, w, d in out['fails']]
                for f in fails:
                    rep.violation(*f)
                failed[c11_seq.expr_key(x)] = fails
        else:
            rep.traces += 1
    rep.extra['nestings_replayed'] = len(states)
    rep.extra['lookups_replayed'] = lookups
    rep.extra['structured_topologies_replayed'] = topo
    for b in states[-2:]:
        rep.sample(dict(nesting=c11_seq.expr_str(b['expr']), route=[h['op'] for h in b['hist']], elements=len(b['den'])))
    rep.lap('sequence replay')

    # ---- S->C: the memo of coordinate maps
    _replay_cache(rep, results)
    rep.lap('cache replay')

    # ---- S->C: locate with its memo
    _replay_locate(rep, results)
    rep.lap('locate replay')

    # ---- C->S: real topologies (verdicts of TraceTopo)
    for f in locfails:
        rep.violation(*f)
    if rtrace is not None:
        rep.add_tlc(rtrace)
    nobs = nif = 0
    for case, v in zip(seqcases, v1):
        rep.case(('trace', case['name']), nontrivial=True)
        nobs += len(case['obs'])
        nif += len(case['ifaces'])
        if v['v'] == 'ok':
            rep.traces += 1
        elif v['v'] == 'model-lookup-disagrees':
            raise RuntimeError('TraceTopo: the model Lookup disagrees with a correct real lookup on {}'.format(case['name']))
        else:
            top = c11_seq.expr_str(case['expr']).split('(')[0]
            bad = [o for o in case['obs'] if o['ridx'] != o['i']][:3]
            rep.violation('trace:{}:{}'.format(top, v['v']), 'topology {}: {}'.format(case['name'], v['v']), dict(name=case['name'], expr=case['expr'], bad_lookups=bad))
    raised_inside = 0
    for case, v in zip(loccases, v2):
        rep.case(('locate', case['name'], tuple(map(tuple, case['targets']))), nontrivial=True)
        if v['v'] in ('ok', 'ok-raised'):
            rep.traces += 1
        elif v['v'] == 'ok-raised-though-all-targets-inside':
            raised_inside += 1
            rep.traces += 1
        else:
            rep.violation('locate:{}'.format(v['v']), 'locate on {}: {}'.format(case['name'], v['v']), dict(case=case))
    rep.extra['trace_cases'] = dict(sequences=len(seqcases), lookups=nobs, interface_pairs=nif, locate=len(loccases),
                                    locate_raised=sum(1 for c in loccases if c['raised']), locate_raised_though_inside=raised_inside)
    if seqcases:
        rep.sample(dict(real_topology=seqcases[len(seqcases) // 2]['name'], nesting=c11_seq.expr_str(seqcases[len(seqcases) // 2]['expr'])))
    rep.lap('trace validation')

    rep.rule = ('cases = adjacent item pairs of the swap tables, rewritten chains (non-trivial: the rewriting changed the chain), nestings of '
                'Transforms constructors (non-trivial: at least one operation on the base), recorded real topologies and locate calls, '
                'cache behaviours per binding (non-trivial: at least one call goes through the cache), locate histories per route (non-trivial: at least one call locates)')
    rep.assumptions += [
        'items are Index, Identity, SimplexChild/Edge (ndims <= 3), TensorChild/Edge1/Edge2 and ScaledUpdim; flipped (inverted) edges, '
        'trimmed references and PlainTransforms of trimmed boundaries are outside the model (such real topologies are skipped and counted)',
        'PlainTransforms.index_with_tail is modelled as prefix search on item equality (interning is checked by the tables), not as the id()-sorted bisection',
        'geometry in the structured replays is the root coordinate (unit cells); locate is validated for affine geometries only',
        'locate raising for targets that all lie inside the domain is counted (locate_raised_though_inside), not judged: the property allows raising',
        'sequences queried with chains of absent elements (must raise) are not judged: the property only speaks about chains of elements of the sequence',
        'ApplyCache: one dtype (float64); a frozen buffer is frozen before any view of it exists and stays frozen (types.frozenarray(copy=False) on an array that '
        'still has writeable views, and switching the writeable flag back on, are outside the model); re-use of a freed address is obtained from numpy by '
        're-allocating until the pointer matches (cache_replay.reuse_achieved of reuse_wanted)',
        'Locate: geometries are affine (axis aligned incl. reversed, or sheared) with dyadic data, tol / eps = 2^-30, outside targets lie at least half an element '
        'outside; a LocateError although every target lies in an element (e.g. on the boundary to a removed element) is counted (raised_though_inside), not judged',
    ]


def _replay_chunk(chunk):
    return dict(res=[c11_chain.replay_one(b) for b in chunk])


def _dedupe(items):
    out, prev = [], None
    for it in items:
        if it != prev:
            out.append(it)
        prev = it
    return out


def _replay_cache(rep, results):
    """ApplyCache behaviours on the real lru_cache wrapped methods: the cover of all (state, last call) of the exhaustive
    run, each on one binding in turn, and the random walks on every binding"""
    import json
    cover = sorted(results['cache'].emitted, key=lambda h: json.dumps(h, sort_keys=True))
    walks = _dedupe(results['cache-sim'].emitted)
    if not cover or not walks:
        raise RuntimeError('ApplyCache: no behaviours emitted (cover {}, walks {})'.format(len(cover), len(walks)))
    nb = len(c11_cache.BINDINGS)
    jobs = [dict(hist=h, binding=c11_cache.BINDINGS[(n + rep.seed) % nb], origin=('flags', 'arraydata')[(n // nb) % 2]) for n, h in enumerate(cover)]
    jobs += [dict(hist=h, binding=b, origin=('flags', 'arraydata')[(n + k) % 2]) for n, h in enumerate(walks) for k, b in enumerate(c11_cache.BINDINGS)]
    chunks = [jobs[i::16] for i in range(16)]
    outs = exprs.pmap(c11_cache.replay_chunk, chunks, nproc=8, chunksize=1)
    stats = collections.Counter()
    for chunk, out in zip(chunks, outs):
        if 'harness_error' in out:
            raise RuntimeError(out['harness_error'])
        for job, res in zip(chunk, out['res']):
            ops = tuple((o['op'], o['kind'], o['flag'], o['how']) for o in job['hist'])
            rep.case(('cache', job['binding'], ops), nontrivial=any(o['how'] in ('hit', 'miss') for o in job['hist']))
            stats.update(res['stats'])
            stats['replays'] += 1
            for key, what, detail in res['fails']:
                rep.violation(key, what, dict(binding=job['binding'], origin=job['origin'], hist=[{k: v for k, v in o.items() if k != 'want'} for o in job['hist']], detail=detail))
            if not res['fails']:
                rep.traces += 1
    if not stats['reuse_achieved'] or not stats['hits']:
        raise RuntimeError('ApplyCache replay is vacuous: address re-use achieved {} times, {} hits'.format(stats['reuse_achieved'], stats['hits']))
    rep.extra['cache_replay'] = dict(stats, cover_behaviours=len(cover), random_walks=len(walks))
    rep.sample(dict(cache_behaviour=[{k: v for k, v in o.items() if k in ('op', 'b', 'v', 'kind', 'flag', 't', 'how')} for o in walks[0]]))


def _replay_locate(rep, results):
    behaviours = _dedupe(results['locate-sim'].emitted)
    if not behaviours:
        raise RuntimeError('Locate: no behaviours emitted')
    for b in behaviours:     # the C->S histories on simplex meshes use the same argument values
        for c in b['hist']:
            if len(c['m']['s']) == 2 and c['m'] not in c11_trace.ARGVALS_2D:
                raise RuntimeError('Locate.tla ArgVals(2) and c11_trace.ARGVALS_2D differ: {}'.format(c['m']))
    relevant = sorted(results['locate'].emitted, key=lambda b: json.dumps(b, sort_keys=True))
    if not relevant:
        raise RuntimeError('Locate: the exhaustive run emitted no memo-relevant history')
    jobs = c11_locate.jobs_for(behaviours, rep.seed, every_other=rep.tier == 'quick')
    jobs += [dict(beh=b, variant=('struct', 'groups')[(n + rep.seed) % 4 == 3], kw=('tol', 'eps')[n % 2]) for n, b in enumerate(relevant)]
    outs = exprs.pmap(c11_locate.replay, jobs, nproc=8, chunksize=2)
    stats = collections.Counter()
    for job, out in zip(jobs, outs):
        if 'harness_error' in out:
            raise RuntimeError(out['harness_error'])
        beh = job['beh']
        sig = (beh['topo']['id'], job['variant'], tuple((c['g'], c['hasargs'], str(c['m']), c['tsi'], c['own']) for c in beh['hist']))
        rep.case(('locate-history', ) + sig, nontrivial=any(not c['raised'] for c in beh['hist']))
        stats.update(out['stats'])
        stats['replays'] += 1
        stats['replays_' + job['variant']] += 1
        for key, what, detail in out['fails']:
            rep.violation(key, what, detail)
        if not out['fails']:
            rep.traces += 1
    if not stats['located'] or not stats['raised'] or not stats['memo'] or not stats['ties']:
        raise RuntimeError('Locate replay is vacuous: {}'.format(dict(stats)))
    rep.extra['locate_replay'] = dict(stats, random_histories=len(behaviours), memo_relevant_histories=len(relevant))
    b = behaviours[0]
    rep.sample(dict(locate_behaviour=dict(topo=b['topo']['id'], calls=[dict(g=c['g'], m=c['m'], targets=c['ts'], raised=c['raised'], path=c['path']) for c in b['hist']])))
