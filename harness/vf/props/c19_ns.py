"""C19 replay side: the namespaces of the ExprLang TLA+ model built as real nutils
expression_v2 / expression_v1 namespaces, and the comparison of one emitted case
(string, verdict, predicted two-sided array) with what the real code does.

All variables are piecewise constant on a line of two elements and every array is
evaluated in the single interface point, so that `[f]`, `{f}` and `opposite(f)` have the
meaning the model gives them: a model scalar is the pair (value seen from this side,
value seen from the opposite side) = (f, opposite(f)) in that point.
"""

import fractions
import warnings

import numpy

V1_FUNCS = {'sqr', 'abs', 'opposite'}           # functions of the model that exist with the same call syntax in v1
GEN_FUNCS = {'g', 'h', 'G'}


class World:
    """the model's namespace (tables emitted by TLC) as nutils objects"""

    def __init__(self, tables):
        from nutils import mesh, function
        self.function = function
        topo, geom = mesh.line([0, 1, 2], space='X')
        self.sample = topo.interfaces.sample('gauss', 1)
        assert self.sample.npoints == 1
        basis = topo.basis('discont', degree=0)
        self.tables = tables
        # which element is seen from "this side" of the interface: calibrate with the element index itself
        probe = (basis * numpy.array([0., 1.])).sum(0)
        this, = self.sample.eval(probe)
        self.this = int(round(float(this)))

        def pc(v0, v1, sh):
            v = numpy.zeros((2,) + tuple(sh))
            v[self.this] = numpy.array(v0, dtype=float).reshape(sh)
            v[1 - self.this] = numpy.array(v1, dtype=float).reshape(sh)
            return (basis[(slice(None),) + (None,) * len(sh)] * v).sum(0)
        self.vars = {nm: pc(t['v'][0], t['v'][1], t['sh']) for nm, t in tables['vars'].items()}
        self.funcs = {}
        for nm, t in tables['funcs'].items():
            if t['kind'] == 'sqr':
                self.funcs[nm] = lambda x: x**2
            elif t['kind'] == 'abs':
                self.funcs[nm] = numpy.abs
            elif t['kind'] == 'opp':
                self.funcs[nm] = function.opposite
            elif t['kind'] == 'lin':
                w = numpy.array(t['w'], dtype=float).reshape(t['gen'])
                self.funcs[nm] = (lambda w: lambda x: x[(Ellipsis,) + (None,) * w.ndim] * w)(w)
            else:
                raise ValueError(t['kind'])

    def ns2(self):
        from nutils import expression_v2
        ns = expression_v2.Namespace()
        for k, v in self.vars.items():
            setattr(ns, k, v)
        for k, f in self.funcs.items():
            if self.tables['funcs'][k]['kind'] in ('abs', 'opp'):
                assert getattr(ns, k) is f          # the documented default functions of the namespace
            else:
                setattr(ns, k, f)
        return ns

    def ns1(self):
        from nutils import expression_v1
        ns = expression_v1.Namespace(functions={k: f for k, f in self.funcs.items() if self.tables['funcs'][k]['kind'] == 'sqr'})
        for k, v in self.vars.items():
            setattr(ns, k, v)
        return ns

    def both_sides(self, arr):
        'values of arr and of opposite(arr) in the interface point'
        with warnings.catch_warnings(), numpy.errstate(all='ignore'):
            warnings.simplefilter('ignore')
            a, b = self.sample.eval([arr, self.function.opposite(arr)])
        return numpy.asarray(a)[0], numpy.asarray(b)[0]


def model_array(proj):
    'projected model array -> (shape, this-side floats, opposite-side floats, defined mask)'
    sh = tuple(proj['sh'])
    n = len(proj['v'])
    a = numpy.zeros(n)
    b = numpy.zeros(n)
    ok = numpy.zeros(n, dtype=bool)
    for k, (n0, d0, n1, d1) in enumerate(proj['v']):
        if d0 and d1:
            a[k] = fractions.Fraction(n0, d0)
            b[k] = fractions.Fraction(n1, d1)
            ok[k] = True
    return sh, a.reshape(sh), b.reshape(sh), ok.reshape(sh)


def close(got, want, mask):
    got = numpy.asarray(got, dtype=float)
    if got.shape != want.shape:
        return False
    if not mask.any():
        return True
    return bool(numpy.allclose(got[mask], want[mask], rtol=1e-9, atol=1e-11))


GLYPH = {'DELTA': '\u03b4'}       # the model's token for the Greek dirac symbol of version 1


def text(case):
    return ''.join(GLYPH.get(t, t) for t in case['t'])


STRUCT = ('sum', 'frac', 'term', 'pow', 'call', 'scope', 'jump', 'mean')


def opsig(case):
    return '+'.join(o for o in STRUCT if o in case['ops']) or 'leaf'


class Outcome:
    __slots__ = 'kind', 'key', 'what', 'checked'

    def __init__(self, kind='ok', key=None, what=None, checked=0):
        self.kind, self.key, self.what, self.checked = kind, key, what, checked


class Pending:
    'an array the real code produced for a valid case, waiting for (batched) evaluation'
    __slots__ = 'engine', 'case', 'label', 'order', 'proj', 'arr'

    def __init__(self, engine, case, label, order, proj, arr):
        self.engine, self.case, self.label, self.order, self.proj, self.arr = engine, case, label, order, proj, arr


def classify(exc, syntax_error):
    if isinstance(exc, syntax_error):
        return 'rejected'
    return 'raised-' + type(exc).__name__


def parse_case(engine, case, evaluate, syntax_error, orders):
    """Feed the string to the real code once per order.  evaluate: order -> array (or raises);
    orders: list of (label, order, model array).  The verdict is the model's (case['ok']).
    Returns (final Outcome or None, list of Pending arrays whose values are still to be compared)."""
    s = text(case)
    pend = []
    for label, order, proj in orders:
        try:
            with warnings.catch_warnings():
                warnings.simplefilter('ignore')
                arr = evaluate(order)
            how = 'value'
        except Exception as ex:
            arr = None
            how = classify(ex, syntax_error)
            msg = str(ex).split('\n')[0][:160]
        if case['ok'] == 'skip':
            return Outcome('skip'), []
        if case['ok'] == 'bad':
            if how == 'value':
                return Outcome('violation', '{}:accepted:{}'.format(engine, case['why']),
                               '{} evaluated {!r} (shape {}) although it violates the documented rule {!r}'.format(engine, s, numpy.shape(arr), case['why'])), []
            if how != 'rejected':
                return Outcome('violation', '{}:{}:{}'.format(engine, how, 'unknown-function' if 'nofunc' in case['ops'] else case['why']),
                               '{} refused {!r} (rule {!r}) with {} instead of its ExpressionSyntaxError: {}'.format(engine, s, case['why'], how[7:], msg)), []
            continue
        # the model says: valid, with this array
        if how != 'value':
            return Outcome('violation', '{}:valid-{}:{}'.format(engine, how, opsig(case)),
                           '{} {} the valid expression {!r} ({}): {}'.format(engine, 'rejected' if how == 'rejected' else 'raised ' + how[7:] + ' on', s, label, msg)), []
        sh = tuple(proj['sh'])
        if tuple(numpy.shape(arr)) != sh:
            return Outcome('violation', '{}:shape:{}'.format(engine, opsig(case)),
                           '{} {!r} ({}): shape {} instead of {} for axes {}'.format(engine, s, label, numpy.shape(arr), sh, ''.join(order))), []
        pend.append(Pending(engine, case, label, order, proj, arr))
    if case['ok'] == 'bad':
        return Outcome('ok', checked=1), []
    return None, pend


def compare(p, got0, got1):
    'values of one pending array against the model: Outcome'
    sh, want0, want1, mask = model_array(p.proj)
    if not close(got0, want0, mask) or not close(got1, want1, mask):
        return Outcome('violation', '{}:value:{}'.format(p.engine, opsig(p.case)),
                       '{} {!r} ({}, axes {}): got {} / opposite {}, the index-notation reading is {} / {}'.format(
                           p.engine, text(p.case), p.label, ''.join(p.order), numpy.asarray(got0).tolist(), numpy.asarray(got1).tolist(), want0.tolist(), want1.tolist()))
    return Outcome('ok' if mask.any() else 'skip', checked=int(mask.any()))


class Replayer:

    def __init__(self, tables):
        from nutils import expression_v1, expression_v2
        self.e1, self.e2 = expression_v1, expression_v2
        self.world = World(tables)
        self.ns2 = self.world.ns2()
        self.ns1 = self.world.ns1()

    # -- version 2 ------------------------------------------------------------
    def v2(self, case):
        s = text(case)
        ns = self.ns2

        def evaluate(order):
            if order is None:
                return s @ ns
            setattr(ns, 'zz' + ('_' + ''.join(order) if order else ''), s)
            return ns.zz
        if case['ok'] == 'ok':
            orders = [('expr @ ns', None, case['arr'])]
            if len(case['fr']) >= 1:
                orders.append(('ns.zz_{} = expr'.format(''.join(reversed(case['fr']))), list(reversed(case['fr'])), case['rev']))
        else:
            orders = [('expr @ ns', None, None)]
        # `expr @ ns` orders the axes alphabetically
        fixed = [(label, case['fr'] if order is None else order, proj) for label, order, proj in orders]
        calls = iter([o for _, o, _ in orders])
        return parse_case('v2', case, lambda order: evaluate(next(calls)), self.e2.ExpressionSyntaxError, fixed)

    def v2_parser(self, case):
        """the generic _Parser on the namespace backend: the tuple it returns (shape, index string in the order of
        the first term, summed indices) against the algorithm model's (case pix / psm / arr)"""
        if case['ok'] != 'ok':
            return Outcome('skip')
        s = text(case)
        e2 = self.e2
        try:
            with warnings.catch_warnings():
                warnings.simplefilter('ignore')
                arr, shape, indices, summed = e2._Parser(e2._FunctionArrayOps(self.ns2)).parse_expression(e2._Substring(s))
        except Exception as ex:
            return Outcome('violation', 'v2parser:valid-{}:{}'.format(classify(ex, e2.ExpressionSyntaxError), opsig(case)),
                           'v2 _Parser.parse_expression refused the valid expression {!r}: {}'.format(s, str(ex).split('\n')[0][:160]))
        want_sh = dict(zip(case['fr'], case['arr']['sh']))
        if indices != ''.join(case['pix']) or set(summed) != set(case['psm']) or tuple(shape) != tuple(want_sh[i] for i in case['pix']) \
                or tuple(numpy.shape(arr)) != tuple(shape):
            return Outcome('violation', 'v2parser:bookkeeping:{}'.format(opsig(case)),
                           'v2 _Parser.parse_expression({!r}) returned shape {}, indices {!r}, summed {}; the algorithm model gives indices {!r}, summed {}'.format(
                               s, tuple(shape), indices, sorted(summed), ''.join(case['pix']), sorted(case['psm'])))
        return Outcome('ok', checked=1)

    # -- version 1 ------------------------------------------------------------
    def v1_applicable(self, case):
        ops = set(case['ops'])
        if ops & GEN_FUNCS:
            return False            # generated axes: v1 infers their length, another syntax
        t = case['t']
        if '$' in t and case['ok1'] == 'same':
            return False            # `$` as a (refused) index symbol of v2: it is the dirac of v1
        if any(x in self.world.funcs and t[p + 1:p + 2] == ['_'] for p, x in enumerate(t)):
            return False            # f_i(...): v1 passes `generates` to the function, the parser does not decide
        return True

    def v1(self, case):
        if case['ok1'] != 'same':      # dirac / indexed numbers: the version 1 reading of the model
            case = dict(case, ok=case['ok1'], why=case['why1'] or case['why'], fr=case['fr1'], arr=case['arr1'], rev=case['rev1'], key_ok=case['ok'])
        s = text(case)
        ns = self.ns1

        def evaluate(order):
            return getattr(ns, 'eval_' + ''.join(order))(s)
        if case['ok'] == 'ok':
            orders = [('ns.eval_{}(expr)'.format(''.join(case['fr'])), case['fr'], case['arr'])]
            if len(case['fr']) >= 2:
                orders.append(('ns.eval_{}(expr)'.format(''.join(reversed(case['fr']))), list(reversed(case['fr'])), case['rev']))
        else:
            orders = [('ns.eval_{}(expr)'.format(''.join(case['guess'])), case['guess'], None)]
        return parse_case('v1', case, evaluate, self.e1.ExpressionSyntaxError, orders)

    # -- evaluation of the produced arrays, batched (one compilation per batch) ---------------
    def evaluate(self, pendings):
        'list of Pending -> list of Outcome'
        W = self.world
        flat = []
        for p in pendings:
            flat += [p.arr, W.function.opposite(p.arr)]
        try:
            with warnings.catch_warnings(), numpy.errstate(all='ignore'):
                warnings.simplefilter('ignore')
                vals = W.sample.eval(flat)
            vals = [numpy.asarray(v)[0] for v in vals]
            return [compare(p, vals[2 * i], vals[2 * i + 1]) for i, p in enumerate(pendings)]
        except Exception:
            if len(pendings) > 1:      # find the culprit(s) one by one
                return [self.evaluate([p])[0] for p in pendings]
        p, = pendings
        try:
            got0, got1 = W.both_sides(p.arr)
        except Exception as ex:
            mask = model_array(p.proj)[3]
            if mask.all():
                return [Outcome('violation', '{}:eval-raised-{}:{}'.format(p.engine, type(ex).__name__, opsig(p.case)),
                                '{} {!r}: evaluation raised {!r}'.format(p.engine, text(p.case), ex))]
            return [Outcome('skip')]
        return [compare(p, got0, got1)]
