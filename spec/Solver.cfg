\* both variants of every call (conf.rep): the demanded design must satisfy Certified / NoSilent; every complete
\* behaviour of both variants is emitted for the S->C replay.  Exhaustive within MaxDraw oracle draws.
SPECIFICATION Spec
CONSTANTS
  Methods = {"direct", "newton", "reuse", "linesearch", "arnoldi"}
  Vals = {0, 1, 2, 4, 999, 1000}
  Tols = {0, 1}
  MinIters = {0, 1}
  MaxIters = {1, 2, 99}
  LModes = {"none", "abs", "rel"}
  MaxDraw = 4
  Variants = {TRUE, FALSE}
  Emitting = TRUE
INVARIANT TypeOK
INVARIANT Certified
INVARIANT NoSilent
INVARIANT IterBounds
INVARIANT ReturnsLast
INVARIANT EmitTerminal
CHECK_DEADLOCK FALSE
