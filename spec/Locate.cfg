\* exhaustive: every history of at most MaxCalls locate calls on every topology (geometry object x arguments x target sequence)
SPECIFICATION Spec
CONSTANTS
  MaxCalls = 2
  MemoAlways = FALSE
  TopoIds = {"line3", "line4r", "line2s", "line4m", "rect32", "rect32r", "rect33m"}
  NTargetSets = 2
INVARIANT ImageOK
INVARIANT Containment
INVARIANT MemoSound
INVARIANT EmitMemoRelevant
CHECK_DEADLOCK FALSE
