\* proposed repair: type tag = module.qualname for non-builtin classes; both invariants must hold
SPECIFICATION Spec
CONSTANTS
  TagMode = "qualified"
  Level = 1
  ExtraClasses <- NoExtra
INVARIANT InUniverse
INVARIANT Judge
CHECK_DEADLOCK FALSE
