"""C20, S->C replay of DimFn programs on real nutils function arrays wrapped in SI quantities.

TLC emits for every reachable state the initial objects (classes of the fields u, v,
the geometry x and the basis b) and the program so far, with the outcome the model
predicts for every step (class name and powers, or rejection).  The program is run
twice: on the real Quantity-wrapped function arrays and on the unwrapped arrays (the
"same computation on plain numbers in reference units"); the class of every result is
compared with the model, its numerical value (evaluated in the points of a sample)
with the plain run.
"""

import fractions
import operator
import warnings

import numpy

from .c20_num import py, frac, powers_of, unit_of, real_powers, si


class Env:
    'tiny curved mesh with fields of given dimensions'

    def __init__(self, nd, init, initpw, seed):
        from nutils import mesh, function
        SI = si()
        self.SI = SI
        self.nd = nd
        rng = numpy.random.RandomState(seed)
        topo, xi = mesh.rectilinear([2] * nd if nd == 2 else [2, 1, 1])
        self.topo = topo
        r = 1 + xi[0] / 2
        phi = xi[1] / 4
        comps = [r * numpy.cos(phi), r * numpy.sin(phi)]
        if nd == 3:
            comps.append(xi[2] + .1 * xi[0] * xi[1])
        g = numpy.stack(comps)
        basis = topo.basis('std', degree=2)
        n = len(basis)
        self.ndofs = n
        raw = [function.dotarg('u', basis) * 3., function.dotarg('v', basis) * .5 + 2., g * 2., basis * 1.5]
        self.plain = raw
        self.real = []
        for o, pw, x in zip(init, initpw, raw):
            powers = powers_of(pw)
            assert bool(powers) == o['q']
            self.real.append(x * unit_of(powers) if powers else x)
        self.args = {k: rng.uniform(.5, 1.5, n) for k in ('u', 'v', 'w', 'f')}
        self.samples = [topo.sample('gauss', 2), topo.boundary['right'].sample('gauss', 2), topo.interfaces.sample('gauss', 1)]
        pts = self.samples[0].eval(g * 2.)
        self.coords = pts[[0, len(pts) // 2]]


def apply(env, st, objs, quantity):
    'execute one program step on the given object list (real or plain); returns the result'
    from nutils import function
    SI = env.SI
    f = st['f']
    a = [objs[i - 1] for i in st['a']]
    k = frac(st['k']) if f != 'Topology.locate' else None
    smp = env.samples[0]
    if f in ('function.grad', 'function.surfgrad', 'function.div', 'function.curl', 'function.laplace'):
        return getattr(function, f.split('.')[1])(a[0], a[1])
    if f == 'function.jacobian':
        return function.jacobian(a[0]) if k == -1 else function.jacobian(a[0], int(k))
    if f in ('function.curvature', 'function.normal', 'function.normalized', 'function.jump', 'function.opposite'):
        return getattr(function, f.split('.')[1])(a[0])
    if f == 'function.derivative':
        return function.derivative(a[0], 'u')
    if f == 'function.linearize':
        return function.linearize(a[0], 'u:w')
    if f == 'function.replace_arguments':
        return function.replace_arguments(a[0], dict(u='w'))
    if f == 'function.kronecker':
        return function.kronecker(a[0], 0, env.nd, 0)
    if f == 'function.field':
        return function.field('f', a[0])
    if f == 'function.arguments_for':
        return function.arguments_for(a[0])
    if f == 'operator.neg':
        return -a[0]
    if f == 'numpy.absolute':
        return numpy.absolute(a[0])
    if f == 'numpy.sum':
        return numpy.sum(a[0], -1)
    if f == 'operator.getitem':
        return a[0][0]
    if f == 'Sample.integral':
        return smp.integral(a[0])
    if f == 'Sample.bind':
        return smp.bind(a[0])
    if f == 'operator.mul':
        return a[0] * a[1]
    if f == 'operator.truediv':
        return a[0] / a[1]
    if f == 'operator.add':
        return a[0] + a[1]
    if f == 'numpy.subtract':
        return numpy.subtract(a[0], a[1])
    if f == 'numpy.multiply':
        return numpy.multiply(a[0], a[1])
    if f == 'numpy.sqrt':
        return numpy.sqrt(a[0])
    if f == 'operator.pow':
        return a[0] ** (int(k) if k.denominator == 1 else float(k))
    if f == 'numpy.stack':
        return numpy.stack([a[0], a[1]])
    if f == 'Topology.locate':
        nt, nm = st['k']
        dc, dt, dm = [powers_of_name(env, d) for d in st['ds']]
        def wrap(x, powers):
            return x * unit_of(powers) if powers and quantity else x
        kw = dict(eps=1e-10)
        if not nt:
            kw['tol'] = wrap(1e-8, dt)
        if not nm:
            kw['maxdist'] = wrap(10., dm)
        return env.topo.locate(a[0], wrap(env.coords, dc), **kw)
    raise RuntimeError('unknown function ' + f)


def powers_of_name(env, chars):
    'class name -> powers for the few classes the locate action offers'
    name = py(chars)
    return {'': {}, 'L': {'L': fractions.Fraction(1)}, 'T': {'T': fractions.Fraction(1)}, 'M': {'M': fractions.Fraction(1)}}[name]


class FnReplayer:

    def __init__(self, rep, rng, nnumeric):
        self.rep = rep
        self.rng = rng
        self.SI = si()
        self.envs = {}
        self.memo = {}        # (envkey, program prefix) -> (real objs, plain objs, alive)
        self.nnumeric = nnumeric
        self.judged = set()
        self.nprog = 0
        self.numeric_done = 0
        self.numeric_skipped = 0
        self.plain_raises = 0
        self.blocked = 0
        self.nbad = 0

    def bad(self, st, what, detail, prog):
        self.nbad += 1
        where = 'dimension' if what == 'wrong-name' else 'function.evaluate' if what.startswith('evaluate-') else st['f']
        self.rep.violation('fn:{}:{}'.format(where, what), '{} {}: {}'.format(st['f'], what, detail), dict(step=st, program=prog, detail=detail))

    def env(self, e):
        k = (e['nd'], tuple((o['q'], tuple(o['dim'])) for o in e['init']))
        if k not in self.envs:
            self.envs[k] = Env(e['nd'], e['init'], e['initpw'], 1234)
        return k, self.envs[k]

    def run(self, e, numeric):
        'replay the program of one emitted state; only the last step is new (prefixes are states of their own)'
        ek, env = self.env(e)
        prog = e['prog']
        pk = tuple(stepkey(st) for st in prog)
        parent = self.memo.get((ek, pk[:-1])) if len(pk) > 1 else (list(env.real), list(env.plain))
        if parent is None:
            # the prefix has not been replayed yet (emission order across workers): do it now
            self.run(dict(e, prog=prog[:-1]), False)
            parent = self.memo[(ek, pk[:-1])]
        if (ek, pk) in self.memo:
            return
        real, plain = parent
        st = prog[-1]
        if any(real[i - 1] is None for i in st['a']):
            # an operand is the result of a step on which the code already failed (reported there)
            self.memo[(ek, pk)] = (real + [None], plain + [None])
            self.blocked += 1
            return
        self.nprog += 1
        with warnings.catch_warnings():
            warnings.simplefilter('ignore')
            try:
                s = apply(env, st, plain, False)
                sexc = None
            except Exception as ex:
                s, sexc = None, ex
            try:
                r = apply(env, st, real, True)
                rexc = None
            except Exception as ex:
                r, rexc = None, ex
        nbad = self.nbad
        self.judge(env, st, prog, r, rexc, s, sexc, numeric)
        # a result the code got wrong is not used as an operand of longer programs (no cascades of one root cause)
        self.memo[(ek, pk)] = (real + [r if self.nbad == nbad else None], plain + [s])

    def judge(self, env, st, prog, r, rexc, s, sexc, numeric):
        SI = self.SI
        from nutils import function, sample
        out = st['out']
        kind = out['kind']
        if kind == 'reject':
            if rexc is None:
                self.bad(st, 'not-rejected', 'operands of different dimension accepted, result {!r}'.format(r), prog)
            elif not isinstance(rexc, (TypeError, ValueError)):
                # (NumPy hands a list with a plain function array in front to nutils.function first, which refuses
                # the Quantity with a ValueError: still a rejection)
                self.bad(st, 'rejected-with-' + type(rexc).__name__, 'expected DimensionError/TypeError, got {!r}'.format(rexc), prog)
            return
        if kind == 'undef':
            if rexc is None:
                self.bad(st, 'not-rejected', 'an operation without a definite dimension returned {!r}'.format(r), prog)
            return
        if sexc is not None:
            # the program is not meaningful on plain arrays either (shape typing of the model is approximate)
            self.plain_raises += 1
            if rexc is None:
                self.bad(st, 'plain-computation-raised', 'plain computation raised {!r} but the quantity version returned {!r}'.format(sexc, r), prog)
            return
        if rexc is not None:
            self.bad(st, 'raised-' + type(rexc).__name__, 'model predicts a result of kind {} (class [{}]) but the code raised {!r}'.format(kind, py(out['dim']), rexc), prog)
            return
        if kind == 'sample':
            if not isinstance(r, sample.Sample):
                self.bad(st, 'wrong-result', 'expected a Sample, got {!r}'.format(r), prog)
            elif r.npoints != s.npoints:
                self.bad(st, 'differs-from-plain', 'located {} points instead of {}'.format(r.npoints, s.npoints), prog)
            return
        if kind == 'dict':
            if not isinstance(r, dict) or sorted(r) != sorted(s) or any(isinstance(v, SI.Quantity) for v in r.values()):
                self.bad(st, 'wrong-result', 'expected the argument dict {!r}, got {!r}'.format(s, r), prog)
            return
        if kind == 'q':
            if not isinstance(r, SI.Quantity):
                self.bad(st, 'wrong-dimension', 'expected a Quantity [{}], got {!r}'.format(py(out['dim']), r), prog)
                return
            want = powers_of(out['pw'])
            got = real_powers(type(r))
            if got != want:
                self.bad(st, 'wrong-dimension', 'expected powers {}, got {} ({})'.format(want, got, type(r).__name__), prog)
                return
            if type(r).__name__ != '[' + py(out['dim']) + ']':
                self.bad(st, 'wrong-name', 'expected class name [{}], got {}'.format(py(out['dim']), type(r).__name__), prog)
                return
            payload = r.unwrap()
        else:
            if isinstance(r, SI.Quantity):
                self.bad(st, 'wrong-dimension', 'expected a plain (dimensionless) result, got {!r}'.format(r), prog)
                return
            payload = r
        if numpy.shape(payload) != numpy.shape(s):
            self.bad(st, 'differs-from-plain', 'shape {} differs from the plain computation {}'.format(numpy.shape(payload), numpy.shape(s)), prog)
            return
        if numeric:
            self.numeric(env, st, prog, r, s, out)

    def numeric(self, env, st, prog, r, s, out):
        'evaluate through Sample.bind / function.evaluate (both dispatched) and compare with the plain run'
        SI = self.SI
        from nutils import function
        sval = None
        for smp in env.samples:
            try:
                with warnings.catch_warnings():
                    warnings.simplefilter('ignore')
                    bound = s if not s.spaces else smp.bind(s)
                    sval, = function.evaluate(bound, arguments=env.args)
                break
            except Exception:
                continue
        if sval is None:
            self.numeric_skipped += 1
            return
        try:
            with warnings.catch_warnings():
                warnings.simplefilter('ignore')
                payload = r.unwrap() if isinstance(r, SI.Quantity) else r
                rb = r if not payload.spaces else smp.bind(r)
                rval, = function.evaluate(rb, arguments=env.args)
        except Exception as ex:
            self.bad(st, 'evaluate-raised-' + type(ex).__name__, 'evaluating the result raised {!r}'.format(ex), prog)
            return
        self.numeric_done += 1
        if out['kind'] == 'q':
            if not isinstance(rval, SI.Quantity) or real_powers(type(rval)) != powers_of(out['pw']):
                self.bad(st, 'evaluate-wrong-dimension', 'evaluated result {!r} is not of class [{}]'.format(type(rval).__name__, py(out['dim'])), prog)
                return
            rval = rval.unwrap()
        elif isinstance(rval, SI.Quantity):
            self.bad(st, 'evaluate-wrong-dimension', 'evaluated result of a plain array is a Quantity {!r}'.format(type(rval).__name__), prog)
            return
        if numpy.shape(rval) != numpy.shape(sval) or not numpy.allclose(rval, sval, rtol=1e-10, atol=1e-13, equal_nan=True):
            self.bad(st, 'differs-from-plain', 'value differs from the same computation on plain arrays in reference units', prog)


def stepkey(st):
    return (st['f'], tuple(st['a']), tuple(st['k']), tuple(tuple(d) for d in st['ds']))


def signature(e):
    st = e['prog'][-1]
    objs = e['init']
    return (e['nd'], tuple(''.join(o['dim']) for o in objs), tuple(stepkey(s) for s in e['prog']), st['out']['kind'], ''.join(st['out']['dim']))
