\* quick, exhaustive: every sequence of at most two structured-topology operations (refined, boundary,
\* interfaces, slice) on the structured bases, without wrappers
SPECIFICATION Spec
CONSTANTS
  MaxDepth = 0
  MaxStructOps = 2
  MaxElems = 16
  TailLen = 2
  Bases = {"line2", "line3p", "sq22", "sq12p"}
  Wrappers = {}
  LookupMutant = "none"
INVARIANT DenIsDen
INVARIANT PrefixFree
INVARIANT ElemDims
INVARIANT LookupCorrect
INVARIANT FIndex
INVARIANT CrossConsistent
INVARIANT InterfaceConsistent
INVARIANT EmitAll
CHECK_DEADLOCK FALSE
