------------------------------ MODULE ArraySem ------------------------------
(***************************************************************************)
(* Denotational semantics of the nutils array-expression IR                *)
(* (src/nutils/evaluable.py) over exact rationals on tiny shapes.          *)
(*                                                                         *)
(* This is the reference ("what an expression MEANS") against which        *)
(* simplification (C01), code generation (C02/C03), differentiation (C04), *)
(* sparse extraction (C05) and static metadata (C06) of the real code are  *)
(* judged.  It is transcribed from the documented / NumPy meaning of each  *)
(* constructor, not from the evalf methods.                                *)
(*                                                                         *)
(* Scalars are dual numbers <<v, t>> of normalised rationals <<n, d>>      *)
(* (d > 0); <<0, 0>> is "undefined" and absorbing.  The tangent t carries  *)
(* the exact directional derivative (reference for C04); it is zero for    *)
(* plain evaluation.  Magnitudes are capped (Cap) so that 32-bit TLC       *)
(* integers cannot overflow: a capped value is undefined, and cases whose  *)
(* model value is undefined are skipped by the harness, never judged.      *)
(*                                                                         *)
(* An array is [sh |-> shape, v |-> flat C-order sequence of scalars].     *)
(* A program is a sequence of nodes                                        *)
(*   [op |-> name, d |-> operand positions, p |-> integer parameters,      *)
(*    sh |-> static shape, dt |-> "b" | "i" | "f" | "c"]                   *)
(* in post order (operands precede users).  A negative entry -k of sh is a  *)
(* loop dependent axis length: the value of the scalar integer node k      *)
(* (the evaluator takes shapes from the operand arrays, so sh matters to   *)
(* the typed builder and the harness only).  Elements of a node with       *)
(* dt = "c" are complex scalars: pairs <<re, im>> of dual numbers (the     *)
(* tangent pair is the entrywise derivative of real and imaginary part).   *)
(* Structural operations are polymorphic in the element kind except for    *)
(* the fill values (zero / undefined), which are chosen by the node's dt.  *)
(***************************************************************************)
EXTENDS Integers, Sequences, FiniteSets, TLC

Cap == 20000

\* ------------------------------------------------------------------ rationals
Bad == <<0, 0>>
RZero == <<0, 1>>
ROne == <<1, 1>>
IsBad(r) == r[2] = 0
IAbs(x) == IF x < 0 THEN -x ELSE x
RECURSIVE GCD(_, _)
GCD(a, b) == IF b = 0 THEN a ELSE GCD(b, a % b)
Norm(n, d) == IF d = 0 THEN Bad
              ELSE LET s == IF d < 0 THEN -1 ELSE 1
                       g == GCD(IAbs(n), IAbs(d))
                       nn == (s * n) \div g
                       dd == (s * d) \div g
                   IN IF IAbs(nn) > Cap \/ dd > Cap THEN Bad ELSE <<nn, dd>>
RInt(n) == Norm(n, 1)
RAdd(a, b) == IF IsBad(a) \/ IsBad(b) THEN Bad ELSE Norm(a[1] * b[2] + b[1] * a[2], a[2] * b[2])
RNeg(a) == IF IsBad(a) THEN Bad ELSE <<-a[1], a[2]>>
RSub(a, b) == RAdd(a, RNeg(b))
RMul(a, b) == IF IsBad(a) \/ IsBad(b) THEN Bad ELSE Norm(a[1] * b[1], a[2] * b[2])
RInv(a) == IF IsBad(a) \/ a[1] = 0 THEN Bad ELSE Norm(a[2], a[1])
RDiv(a, b) == RMul(a, RInv(b))
RLt(a, b) == a[1] * b[2] < b[1] * a[2]          \* both defined
RSgn(a) == IF a[1] > 0 THEN 1 ELSE IF a[1] < 0 THEN -1 ELSE 0
RAbs(a) == IF IsBad(a) THEN Bad ELSE <<IAbs(a[1]), a[2]>>
RFloor(a) == a[1] \div a[2]                       \* floor, a defined (TLA+ \div floors for positive divisors)
RIsInt(a) == a[2] = 1
RECURSIVE RPowNat(_, _)
RPowNat(a, k) == IF k = 0 THEN ROne ELSE RMul(a, RPowNat(a, k - 1))
HasSqrt(n) == \E s \in 0..142 : s * s = n
ISqrt(n) == CHOOSE s \in 0..142 : s * s = n
\* a^b: integer exponents exactly; exponents with denominator 2 or 4 on perfect squares / fourth powers;
\* otherwise undefined
RPowInt(a, k) == IF k >= 0 THEN (IF k > 12 THEN Bad ELSE RPowNat(a, k)) ELSE (IF -k > 12 THEN Bad ELSE RInv(RPowNat(a, -k)))
HasRSqrt(a) == a[1] >= 0 /\ HasSqrt(a[1]) /\ HasSqrt(a[2])
RSqrt(a) == <<ISqrt(a[1]), ISqrt(a[2])>>
RPow(a, b) == IF IsBad(a) \/ IsBad(b) THEN Bad
              ELSE IF b[2] = 1 THEN RPowInt(a, b[1])
              ELSE IF b[2] = 2 /\ HasRSqrt(a) THEN RPowInt(RSqrt(a), b[1])
              ELSE IF b[2] = 4 /\ HasRSqrt(a) /\ HasRSqrt(RSqrt(a)) THEN RPowInt(RSqrt(RSqrt(a)), b[1])
              ELSE IF b[2] = 8 /\ HasRSqrt(a) /\ HasRSqrt(RSqrt(a)) /\ HasRSqrt(RSqrt(RSqrt(a))) THEN RPowInt(RSqrt(RSqrt(RSqrt(a))), b[1])
              ELSE Bad

\* ------------------------------------------------------------------ dual numbers
DBad == <<Bad, Bad>>
DOf(r) == IF IsBad(r) THEN DBad ELSE <<r, RZero>>
DInt(n) == DOf(RInt(n))
DZero == <<RZero, RZero>>
DOne == <<ROne, RZero>>
DIsBad(x) == IsBad(x[1])
Mk(v, t) == IF IsBad(v) THEN DBad ELSE <<v, t>>
DAdd(x, y) == Mk(RAdd(x[1], y[1]), RAdd(x[2], y[2]))
DNeg(x) == Mk(RNeg(x[1]), RNeg(x[2]))
DSub(x, y) == DAdd(x, DNeg(y))
DMul(x, y) == Mk(RMul(x[1], y[1]), RAdd(RMul(x[1], y[2]), RMul(x[2], y[1])))
DInv(x) == Mk(RInv(x[1]), RNeg(RMul(x[2], RInv(RMul(x[1], x[1])))))
DPow(x, y) == LET v == RPow(x[1], y[1]) IN
              IF IsBad(v) THEN DBad
              ELSE IF y[2] # RZero THEN <<v, Bad>>            \* exponent varies: needs log, not modelled
              ELSE IF x[2] = RZero \/ y[1] = RZero THEN <<v, RZero>>
              ELSE <<v, RMul(RMul(y[1], RPow(x[1], RSub(y[1], ROne))), x[2])>>
DAbs(x) == IF DIsBad(x) THEN DBad
           ELSE <<RAbs(x[1]), IF x[2] = RZero THEN RZero ELSE IF x[1][1] = 0 THEN Bad
                              ELSE IF x[1][1] > 0 THEN x[2] ELSE RNeg(x[2])>>
DSign(x) == IF DIsBad(x) THEN DBad
            ELSE <<RInt(RSgn(x[1])), IF x[1][1] = 0 /\ x[2] # RZero THEN Bad ELSE RZero>>
\* An undefined tangent of the operand that is NOT selected makes the tangent undefined too: that operand is not
\* differentiable (possibly not even real-valued, e.g. x^x for x < 0) in a neighbourhood of the point, so the point is
\* not a point of differentiability of the program as a function of its arguments (conservative: never judged).
DMin(x, y) == IF DIsBad(x) \/ DIsBad(y) THEN DBad
              ELSE IF IsBad(x[2]) \/ IsBad(y[2]) THEN <<(IF RLt(y[1], x[1]) THEN y[1] ELSE x[1]), Bad>>
              ELSE IF RLt(x[1], y[1]) THEN x ELSE IF RLt(y[1], x[1]) THEN y
              ELSE <<x[1], IF x[2] = y[2] THEN x[2] ELSE Bad>>
DMax(x, y) == IF DIsBad(x) \/ DIsBad(y) THEN DBad
              ELSE IF IsBad(x[2]) \/ IsBad(y[2]) THEN <<(IF RLt(x[1], y[1]) THEN y[1] ELSE x[1]), Bad>>
              ELSE IF RLt(x[1], y[1]) THEN y ELSE IF RLt(y[1], x[1]) THEN x
              ELSE <<x[1], IF x[2] = y[2] THEN x[2] ELSE Bad>>
KinkT(x, y) == IF x[2] = RZero /\ y[2] = RZero THEN RZero ELSE Bad
\* Python/NumPy floor division and modulo (sign of the result follows the divisor)
DFloorDiv(x, y) == IF DIsBad(x) \/ DIsBad(y) \/ y[1][1] = 0 THEN DBad
                   ELSE LET q == RDiv(x[1], y[1]) IN IF IsBad(q) THEN DBad ELSE <<RInt(RFloor(q)), KinkT(x, y)>>
DMod(x, y) == IF DIsBad(x) \/ DIsBad(y) \/ y[1][1] = 0 THEN DBad
              ELSE LET q == RDiv(x[1], y[1]) IN
                   IF IsBad(q) THEN DBad ELSE Mk(RSub(x[1], RMul(RInt(RFloor(q)), y[1])), KinkT(x, y))
DBool(b, x, y) == <<IF b THEN ROne ELSE RZero, IF x[1] = y[1] /\ x[2] # y[2] THEN Bad ELSE RZero>>
DEq(x, y) == IF DIsBad(x) \/ DIsBad(y) THEN DBad ELSE DBool(x[1] = y[1], x, y)
DLess(x, y) == IF DIsBad(x) \/ DIsBad(y) THEN DBad ELSE DBool(RLt(x[1], y[1]), x, y)
DGreater(x, y) == DLess(y, x)
DNot(x) == IF DIsBad(x) THEN DBad ELSE <<IF x[1] = RZero THEN ROne ELSE RZero, RZero>>
DOr(x, y) == IF DIsBad(x) \/ DIsBad(y) THEN DBad ELSE <<IF x[1] = RZero /\ y[1] = RZero THEN RZero ELSE ROne, RZero>>
DAnd(x, y) == IF DIsBad(x) \/ DIsBad(y) THEN DBad ELSE <<IF x[1] = RZero \/ y[1] = RZero THEN RZero ELSE ROne, RZero>>

\* ------------------------------------------------------------------ complex scalars
\* <<re, im>> of dual numbers; undefined iff either part is undefined (then both are).  Prefix Z: NumpySem owns C*.
ZBad == <<DBad, DBad>>
ZZero == <<DZero, DZero>>
ZOne == <<DOne, DZero>>
ZIsBad(z) == DIsBad(z[1]) \/ DIsBad(z[2])
ZMk(re, im) == IF DIsBad(re) \/ DIsBad(im) THEN ZBad ELSE <<re, im>>
ZOfD(x) == ZMk(x, DZero)                                   \* FloatToComplex
ZRe(z) == IF ZIsBad(z) THEN DBad ELSE z[1]
ZIm(z) == IF ZIsBad(z) THEN DBad ELSE z[2]
ZAdd(x, y) == ZMk(DAdd(x[1], y[1]), DAdd(x[2], y[2]))
ZNeg(x) == ZMk(DNeg(x[1]), DNeg(x[2]))
ZSub(x, y) == ZAdd(x, ZNeg(y))
ZMul(x, y) == ZMk(DSub(DMul(x[1], y[1]), DMul(x[2], y[2])), DAdd(DMul(x[1], y[2]), DMul(x[2], y[1])))
ZConj(x) == ZMk(x[1], DNeg(x[2]))
ZNorm2(x) == DAdd(DMul(x[1], x[1]), DMul(x[2], x[2]))      \* |z|^2, a dual number
ZInv(x) == LET q == DInv(ZNorm2(x)) IN ZMk(DMul(x[1], q), DNeg(DMul(x[2], q)))   \* conj(z) / |z|^2
RECURSIVE ZPowNat(_, _)
ZPowNat(x, k) == IF k = 0 THEN ZOne ELSE ZMul(x, ZPowNat(x, k - 1))
ZPowInt(x, k) == IF k >= 0 THEN (IF k > 12 THEN ZBad ELSE ZPowNat(x, k)) ELSE (IF -k > 12 THEN ZBad ELSE ZInv(ZPowNat(x, -k)))
ZNoTan(z) == IF ZIsBad(z) THEN ZBad ELSE <<<<z[1][1], Bad>>, <<z[2][1], Bad>>>>
\* z^w is modelled for integer-valued w only (w = k + 0i): repeated multiplication, tangent by the product rule;
\* a varying exponent needs the complex logarithm (branch cut): tangent undefined
ZPow(x, y) == IF ZIsBad(x) \/ ZIsBad(y) THEN ZBad
              ELSE IF y[2][1] # RZero \/ ~RIsInt(y[1][1]) THEN ZBad
              ELSE LET r == ZPowInt(x, y[1][1][1]) IN
                   IF y[1][2] # RZero \/ y[2][2] # RZero THEN ZNoTan(r) ELSE r
ZPowVar(x, y) == ZNoTan(ZPow(x, y))
\* |z| where exact (|z|^2 a perfect rational square), else undefined; tangent (re re' + im im') / |z|, undefined at 0
ZAbs(x) == IF ZIsBad(x) THEN DBad ELSE DPow(ZNorm2(x), <<<<1, 2>>, RZero>>)
ZEq(x, y) == IF ZIsBad(x) \/ ZIsBad(y) THEN DBad
             ELSE LET eq == x[1][1] = y[1][1] /\ x[2][1] = y[2][1]
                  IN <<IF eq THEN ROne ELSE RZero, IF eq /\ (x[1][2] # y[1][2] \/ x[2][2] # y[2][2]) THEN Bad ELSE RZero>>

\* ------------------------------------------------------------------ index arithmetic
SLast(s) == s[Len(s)]
SFront(s) == SubSeq(s, 1, Len(s) - 1)
RECURSIVE Prod(_)
Prod(sh) == IF Len(sh) = 0 THEN 1 ELSE Prod(SFront(sh)) * SLast(sh)
RECURSIVE Flat(_, _)
Flat(idx, sh) == IF Len(sh) = 0 THEN 0 ELSE Flat(SFront(idx), SFront(sh)) * SLast(sh) + SLast(idx)
RECURSIVE Unflat(_, _)
Unflat(k, sh) == IF Len(sh) = 0 THEN <<>> ELSE Append(Unflat(k \div SLast(sh), SFront(sh)), k % SLast(sh))
InShape(idx, sh) == \A i \in 1..Len(sh) : idx[i] >= 0 /\ idx[i] < sh[i]
At(a, idx) == IF InShape(idx, a.sh) THEN a.v[Flat(idx, a.sh) + 1] ELSE DBad
AtB(a, idx, bad) == IF InShape(idx, a.sh) THEN a.v[Flat(idx, a.sh) + 1] ELSE bad     \* explicit fill for out-of-range (element kind of the node)
MkArr(sh, F(_)) == [sh |-> sh, v |-> [k \in 1..Prod(sh) |-> F(Unflat(k - 1, sh))]]
Map1(a, F(_)) == [sh |-> a.sh, v |-> [k \in 1..Len(a.v) |-> F(a.v[k])]]
Map2(a, b, F(_, _)) == [sh |-> a.sh, v |-> [k \in 1..Len(a.v) |-> F(a.v[k], b.v[k])]]
RECURSIVE FoldSeq(_, _, _, _)
FoldSeq(F(_, _), z, s, k) == IF k > Len(s) THEN z ELSE FoldSeq(F, F(z, s[k]), s, k + 1)
\* value of an integer-valued scalar used as an index (undefined -> -1, i.e. out of range)
IdxVal(x) == IF DIsBad(x) \/ x[1][2] # 1 THEN -1 ELSE x[1][1]
Pre(idx, n) == SubSeq(idx, 1, n)
Post(idx, n) == SubSeq(idx, n + 1, Len(idx))

\* ------------------------------------------------------------------ array operations
AInsertAxis(a, n) == MkArr(Append(a.sh, n), LAMBDA idx : At(a, SFront(idx)))
\* numpy.transpose: result axis i is operand axis axes[i] (axes 0-based)
ATranspose(a, axes) == MkArr([i \in 1..Len(axes) |-> a.sh[axes[i] + 1]],
                             LAMBDA idx : At(a, [j \in 1..Len(axes) |-> idx[CHOOSE i \in 1..Len(axes) : axes[i] + 1 = j]]))
AReduceLast(a, F(_, _), z) ==
    MkArr(SFront(a.sh), LAMBDA idx : FoldSeq(F, z, [m \in 1..SLast(a.sh) |-> At(a, Append(idx, m - 1))], 1))
ATakeB(a, ind, bad) == LET na == Len(a.sh) IN
    MkArr(SFront(a.sh) \o ind.sh, LAMBDA idx : AtB(a, Append(Pre(idx, na - 1), IdxVal(At(ind, Post(idx, na - 1)))), bad))
ATake(a, ind) == ATakeB(a, ind, DBad)
ATakeDiag(a) == MkArr(SFront(a.sh), LAMBDA idx : At(a, Append(idx, SLast(idx))))
ADiagonalizeZ(a, zero) == MkArr(Append(a.sh, SLast(a.sh)),
                         LAMBDA idx : IF idx[Len(idx)] = idx[Len(idx) - 1] THEN At(a, SFront(idx)) ELSE zero)
ADiagonalize(a) == ADiagonalizeZ(a, DZero)
\* scatter-ADD of f (shape pre ++ dofmap.sh) into pre ++ <<length>>
AInflateX(f, dm, length, Plus(_, _), zero, bad) == LET np == Len(f.sh) - Len(dm.sh) IN
    IF \E k \in 1..Len(dm.v) : IdxVal(dm.v[k]) < 0 \/ IdxVal(dm.v[k]) >= length
    THEN MkArr(Append(Pre(f.sh, np), length), LAMBDA idx : bad)
    ELSE MkArr(Append(Pre(f.sh, np), length),
               LAMBDA idx : FoldSeq(Plus, zero,
                    [k \in 1..Len(dm.v) |-> IF IdxVal(dm.v[k]) = SLast(idx)
                                            THEN At(f, Pre(idx, np) \o Unflat(k - 1, dm.sh)) ELSE zero], 1))
AInflateG(f, dm, length, Plus(_, _)) == AInflateX(f, dm, length, Plus, DZero, DBad)
\* numeric: scatter-add; boolean: numpy.add.at on bool arrays is a logical or
AInflate(f, dm, length) == AInflateG(f, dm, length, DAdd)
AInflateBool(f, dm, length) == AInflateG(f, dm, length, DOr)
AInflateCx(f, dm, length) == AInflateX(f, dm, length, ZAdd, ZZero, ZBad)
AReshape(a, sh) == [sh |-> sh, v |-> a.v]
AChooseB(index, choices, bad) == MkArr(index.sh, LAMBDA idx : AtB(choices, Append(idx, IdxVal(At(index, idx))), bad))
AChoose(index, choices) == AChooseB(index, choices, DBad)
\* determinant / inverse for n <= 2 over a field given by its operations (dual numbers or complex scalars)
ADetF(a, Mul(_, _), Sub(_, _), one, bad) == LET n == SLast(a.sh) IN
    MkArr(SubSeq(a.sh, 1, Len(a.sh) - 2),
          LAMBDA idx : IF n = 0 THEN one
                       ELSE IF n = 1 THEN At(a, idx \o <<0, 0>>)
                       ELSE IF n = 2 THEN Sub(Mul(At(a, idx \o <<0, 0>>), At(a, idx \o <<1, 1>>)),
                                              Mul(At(a, idx \o <<0, 1>>), At(a, idx \o <<1, 0>>)))
                       ELSE bad)
AInvF(a, det, Mul(_, _), Neg(_), Inv(_), bad) == LET n == SLast(a.sh) IN
    MkArr(a.sh, LAMBDA idx :
                LET pre == SubSeq(idx, 1, Len(idx) - 2)
                    i == idx[Len(idx) - 1]
                    j == idx[Len(idx)]
                    dd == At(det, pre)
                IN IF n = 1 THEN Inv(At(a, pre \o <<0, 0>>))
                   ELSE IF n = 2 THEN
                        (IF i = j THEN Mul(At(a, pre \o <<1 - i, 1 - j>>), Inv(dd))
                         ELSE Neg(Mul(At(a, pre \o <<i, j>>), Inv(dd))))
                   ELSE bad)
ADet(a) == ADetF(a, DMul, DSub, DOne, DBad)
AInv(a) == AInvF(a, ADet(a), DMul, DNeg, DInv, DBad)
ADetCx(a) == ADetF(a, ZMul, ZSub, ZOne, ZBad)
AInvCx(a) == AInvF(a, ADetCx(a), ZMul, ZNeg, ZInv, ZBad)
ARange(n) == [sh |-> <<n>>, v |-> [k \in 1..n |-> DInt(k - 1)]]
AFull(sh, x) == [sh |-> sh, v |-> [k \in 1..Prod(sh) |-> x]]
AScalar(x) == [sh |-> <<>>, v |-> <<x>>]
\* constants: p = <<n1, d1, n2, d2, ...>>
AConst(sh, p) == [sh |-> sh, v |-> [k \in 1..Prod(sh) |-> DOf(Norm(p[2 * k - 1], p[2 * k]))]]
\* complex constants: p = <<re n1, re d1, im n1, im d1, re n2, ...>>
AConstCx(sh, p) == [sh |-> sh, v |-> [k \in 1..Prod(sh) |-> ZMk(DOf(Norm(p[4 * k - 3], p[4 * k - 2])), DOf(Norm(p[4 * k - 1], p[4 * k])))]]
ARavelIndex(ia, ib, nb) == MkArr(ia.sh \o ib.sh,
    LAMBDA idx : DAdd(DMul(At(ia, Pre(idx, Len(ia.sh))), DInt(nb)), At(ib, Post(idx, Len(ia.sh)))))
ANormDim(length, index) == Map2(length, index,
    LAMBDA n, i : IF DIsBad(n) \/ DIsBad(i) THEN DBad
                  ELSE IF IdxVal(i) < -IdxVal(n) \/ IdxVal(i) >= IdxVal(n) THEN DBad
                  ELSE IF IdxVal(i) < 0 THEN DAdd(i, n) ELSE i)
AInRange(index, n) == Map1(index, LAMBDA i : IF DIsBad(i) \/ IdxVal(i) < 0 \/ IdxVal(i) >= n THEN DBad ELSE i)
\* polynomial evaluation, nutils_poly coefficient order, 1 variable: coeffs (.., nc) highest degree first;
\* points (.., 1); result coeffs.sh[:-1] ++ points.sh[:-1]  -- see Polyval docstring
APolyval1(c, x) == LET nc == SLast(c.sh) IN
    MkArr(SFront(x.sh) \o SFront(c.sh), LAMBDA idx :
        LET xi == At(x, Append(Pre(idx, Len(x.sh) - 1), 0))
            ci == Post(idx, Len(x.sh) - 1)
        IN FoldSeq(LAMBDA acc, cf : DAdd(DMul(acc, xi), cf), DZero, [m \in 1..nc |-> At(c, Append(ci, m - 1))], 1))

\* ---- Einsum(args, args_idx, out_idx): numpy.einsum with integer axis labels.  Result element at output labels o:
\* the sum over all values of the labels that do not occur in out_idx of the product of the operand elements at their
\* labels (a label repeated within one operand addresses its diagonal).
\* Node encoding: p = <<Len(out), out..., rank1, idx1..., rank2, idx2..., ...>>
RECURSIVE EsDecode(_, _)
EsDecode(p, pos) == IF pos > Len(p) THEN <<>> ELSE <<SubSeq(p, pos + 1, pos + p[pos])>> \o EsDecode(p, pos + p[pos] + 1)
RECURSIVE EsLabSeq(_)
EsLabSeq(S) == IF S = {} THEN <<>> ELSE LET m == CHOOSE x \in S : \A y \in S : x <= y IN <<m>> \o EsLabSeq(S \ {m})
EsPos(q, x) == CHOOSE i \in 1..Len(q) : q[i] = x
EsIn(q, x) == \E i \in 1..Len(q) : q[i] = x
AEinsumG(args, idx, out, Plus(_, _), Times(_, _), zero, one) ==
    LET labs == UNION {{idx[i][j] : j \in 1..Len(idx[i])} : i \in 1..Len(idx)}
        LenOf(l) == LET i == CHOOSE i \in 1..Len(idx) : EsIn(idx[i], l) IN args[i].sh[EsPos(idx[i], l)]
        summed == EsLabSeq({l \in labs : ~EsIn(out, l)})
        lsum == [m \in 1..Len(summed) |-> LenOf(summed[m])]
    IN MkArr([m \in 1..Len(out) |-> LenOf(out[m])], LAMBDA oidx :
          FoldSeq(Plus, zero, [m \in 1..Prod(lsum) |->
              LET sidx == Unflat(m - 1, lsum)
                  val(l) == IF EsIn(out, l) THEN oidx[EsPos(out, l)] ELSE sidx[EsPos(summed, l)]
              IN FoldSeq(Times, one, [i \in 1..Len(args) |-> At(args[i], [j \in 1..Len(idx[i]) |-> val(idx[i][j])])], 1)], 1))

\* ---- polynomials in nv variables (nutils_poly).  A polynomial of degree p is the coefficient vector over the
\* monomials x^k, |k| <= p, in "reverse lexicographic order" (Polyval docstring): the power of the LAST variable is the
\* most significant and descends; e.g. nv = 2, p = 2: x1^2, x0 x1, x1, x0^2, x0, 1.  (Order confirmed by evaluating unit
\* coefficient vectors with the real nutils_poly.)
RECURSIVE PolyPowers(_, _), PolyPowersFrom(_, _, _)
PolyPowersFrom(nv, p, j) == IF j < 0 THEN <<>>
                            ELSE LET sub == PolyPowers(nv - 1, p - j)
                                 IN [m \in 1..Len(sub) |-> Append(sub[m], j)] \o PolyPowersFrom(nv, p, j - 1)
PolyPowers(nv, p) == IF nv = 0 THEN << <<>> >> ELSE PolyPowersFrom(nv, p, p)
\* number of coefficients = binomial(p + nv, nv) = Len(PolyPowers(nv, p)) (law checked in ArraySemLaws); nv <= 3
PolyNC(nv, p) == IF nv = 0 THEN 1 ELSE IF nv = 1 THEN p + 1 ELSE IF nv = 2 THEN ((p + 1) * (p + 2)) \div 2
                 ELSE ((p + 1) * (p + 2) * (p + 3)) \div 6
PolyMaxDeg == 9
\* degree of a polynomial in nv variables with nc coefficients; -1 if no degree has that many coefficients
PolyDeg(nv, nc) == IF \E p \in 0..PolyMaxDeg : PolyNC(nv, p) = nc THEN CHOOSE p \in 0..PolyMaxDeg : PolyNC(nv, p) = nc ELSE -1
PolyIndex(pows, q) == CHOOSE k \in 1..Len(pows) : pows[k] = q
RECURSIVE DPowNat(_, _)
DPowNat(x, k) == IF DIsBad(x) THEN DBad ELSE IF k = 0 THEN DOne ELSE DMul(x, DPowNat(x, k - 1))
PolyRowBad(c, pre) == \E k \in 0..(SLast(c.sh) - 1) : DIsBad(At(c, Append(pre, k)))     \* undefined is absorbing per coefficient row
\* Polyval(coeffs (.., nc), points (.., nv)) -> points.sh[:-1] ++ coeffs.sh[:-1]:  sum_k c_k prod_i x_i^(k_i)
APolyvalN(c, x) ==
    LET nv == SLast(x.sh)
        deg == PolyDeg(nv, SLast(c.sh))
        pows == PolyPowers(nv, deg)
        npx == Len(x.sh) - 1
    IN MkArr(SFront(x.sh) \o SFront(c.sh), LAMBDA idx :
          IF deg < 0 THEN DBad
          ELSE FoldSeq(DAdd, DZero,
                 [k \in 1..Len(pows) |->
                    FoldSeq(DMul, At(c, Append(Post(idx, npx), k - 1)),
                            [i \in 1..nv |-> DPowNat(At(x, Append(Pre(idx, npx), i - 1)), pows[k][i])], 1)], 1))
\* PolyMul(left (.., ncl), right (.., ncr), vars): coefficients of the product; vars[v] in {0 = the variable occurs in the
\* left factor only, 1 = right only, 2 = both}; the factors' own variables are numbered in the order of vars
PolyVarPos(vars, v, excl) == Cardinality({u \in 1..v : vars[u] # excl})
APolyMul(cl, cr, vars) ==
    LET nvl == Cardinality({v \in 1..Len(vars) : vars[v] # 1})
        nvr == Cardinality({v \in 1..Len(vars) : vars[v] # 0})
        pl == PolyDeg(nvl, SLast(cl.sh))
        pr == PolyDeg(nvr, SLast(cr.sh))
        powl == PolyPowers(nvl, pl)
        powr == PolyPowers(nvr, pr)
        powo == PolyPowers(Len(vars), pl + pr)
        Comb(a, b) == [v \in 1..Len(vars) |-> (IF vars[v] # 1 THEN a[PolyVarPos(vars, v, 1)] ELSE 0) + (IF vars[v] # 0 THEN b[PolyVarPos(vars, v, 0)] ELSE 0)]
    IN IF pl < 0 \/ pr < 0 THEN MkArr(Append(SFront(cl.sh), 0), LAMBDA idx : DBad)
       ELSE MkArr(Append(SFront(cl.sh), Len(powo)), LAMBDA idx :
              LET q == powo[SLast(idx) + 1]
                  pre == SFront(idx)
              IN IF PolyRowBad(cl, pre) \/ PolyRowBad(cr, pre) THEN DBad ELSE
                 FoldSeq(DAdd, DZero,
                    [m \in 1..(Len(powl) * Len(powr)) |->
                        LET a == ((m - 1) \div Len(powr)) + 1
                            b == ((m - 1) % Len(powr)) + 1
                        IN IF Comb(powl[a], powr[b]) = q THEN DMul(At(cl, Append(pre, a - 1)), At(cr, Append(pre, b - 1))) ELSE DZero], 1))
\* PolyGrad(coeffs (.., nc), nv) -> (.., nv, nc'): coefficients (degree max(0, p - 1)) of the partial derivatives
APolyGrad(c, nv) ==
    LET p == PolyDeg(nv, SLast(c.sh))
        pg == IF p > 0 THEN p - 1 ELSE 0
        pows == PolyPowers(nv, p)
        powg == PolyPowers(nv, pg)
    IN IF p < 0 THEN MkArr(SFront(c.sh) \o <<nv, 0>>, LAMBDA idx : DBad)
       ELSE MkArr(SFront(c.sh) \o <<nv, Len(powg)>>, LAMBDA idx :
              LET np == Len(c.sh) - 1
                  v == idx[np + 1] + 1
                  q == powg[idx[np + 2] + 1]
                  qq == [i \in 1..nv |-> IF i = v THEN q[i] + 1 ELSE q[i]]
              IN IF PolyRowBad(c, Pre(idx, np)) THEN DBad ELSE IF p = 0 THEN DZero ELSE DMul(DInt(q[v] + 1), At(c, Append(Pre(idx, np), PolyIndex(pows, qq) - 1))))
APolyDegree(nc, nv) == Map1(nc, LAMBDA x : IF DIsBad(x) \/ IdxVal(x) < 0 \/ PolyDeg(nv, IdxVal(x)) < 0 THEN DBad ELSE DInt(PolyDeg(nv, IdxVal(x))))
APolyNCoeffs(nv, deg) == Map1(deg, LAMBDA x : IF DIsBad(x) \/ IdxVal(x) < 0 \/ IdxVal(x) > PolyMaxDeg THEN DBad ELSE DInt(PolyNC(nv, IdxVal(x))))
\* Legendre(x, degree) -> x.sh ++ <<degree + 1>>: P_0 = 1, P_1 = x, i P_i = (2 i - 1) x P_(i-1) - (i - 1) P_(i-2)
RECURSIVE LegendreP(_, _)
LegendreP(x, i) == IF i = 0 THEN (IF DIsBad(x) THEN DBad ELSE DOne) ELSE IF i = 1 THEN x
                   ELSE DMul(DOf(<<1, i>>), DSub(DMul(DInt(2 * i - 1), DMul(x, LegendreP(x, i - 1))), DMul(DInt(i - 1), LegendreP(x, i - 2))))
ALegendre(x, degree) == MkArr(Append(x.sh, degree + 1), LAMBDA idx : LegendreP(At(x, SFront(idx)), SLast(idx)))

\* ---- integer / search operations (numpy meaning)
\* all elements defined and non-decreasing (1-d)
ASorted(a) == /\ \A k \in 1..Len(a.v) : ~DIsBad(a.v[k])
              /\ \A k \in 1..(Len(a.v) - 1) : ~RLt(a.v[k + 1][1], a.v[k][1])
\* numpy.searchsorted(arr, arg, side): arr 1-d sorted (otherwise the result of the binary search is unspecified: undefined);
\* side 0 = left: number of elements < v (first position where v can be inserted), 1 = right: number of elements <= v
ASearchSorted(arg, arr, side) ==
    Map1(arg, LAMBDA x : IF DIsBad(x) \/ ~ASorted(arr) THEN DBad
                         ELSE <<RInt(Cardinality({k \in 1..Len(arr.v) : IF side = 0 THEN RLt(arr.v[k][1], x[1]) ELSE ~RLt(x[1], arr.v[k][1])})),
                                IF x[2] = RZero /\ (\A k \in 1..Len(arr.v) : arr.v[k][2] = RZero) THEN RZero ELSE Bad>>)
\* numpy.argsort(a, -1, kind='stable'): position of the k-th smallest element of each row, ties in index order
AArgSort(a) == LET n == SLast(a.sh) IN
    MkArr(a.sh, LAMBDA idx :
        LET pre == SFront(idx)
            E(j) == At(a, Append(pre, j))
            rank(j) == Cardinality({i \in 0..(n - 1) : RLt(E(i)[1], E(j)[1]) \/ (E(i)[1] = E(j)[1] /\ i < j)})
        IN IF \E j \in 0..(n - 1) : DIsBad(E(j)) THEN DBad ELSE DInt(CHOOSE j \in 0..(n - 1) : rank(j) = SLast(idx)))
\* UniqueMask(sorted 1-d): first element, and every element that differs from its predecessor
AUniqueMask(a) == MkArr(a.sh, LAMBDA idx : LET k == idx[1] + 1 IN
                    IF DIsBad(a.v[k]) \/ (k > 1 /\ DIsBad(a.v[k - 1])) THEN DBad
                    ELSE IF k = 1 \/ a.v[k][1] # a.v[k - 1][1] THEN DOne ELSE DZero)
\* UniqueInverse(mask, sorter): inverse[sorter[k]] = (number of set mask entries among the first k + 1) - 1; sorter must be
\* a permutation (otherwise entries of numpy.empty_like would be exposed: undefined)
AIsPerm(a) == LET n == Len(a.v) IN \A j \in 0..(n - 1) : Cardinality({k \in 1..n : IdxVal(a.v[k]) = j}) = 1
AUniqueInverse(mask, sorter) ==
    MkArr(sorter.sh, LAMBDA idx :
        IF ~AIsPerm(sorter) \/ \E k \in 1..Len(mask.v) : DIsBad(mask.v[k]) THEN DBad
        ELSE LET k == CHOOSE k \in 1..Len(sorter.v) : IdxVal(sorter.v[k]) = idx[1]
             IN DInt(Cardinality({m \in 1..k : mask.v[m][1] # RZero}) - 1))
\* _SizesToOffsets(sizes 1-d, non-negative): numpy.cumsum([0, *sizes])
ASizesToOffsets(sz) == MkArr(<<Len(sz.v) + 1>>, LAMBDA idx : FoldSeq(DAdd, DZero, SubSeq(sz.v, 1, idx[1]), 1))
\* CompressIndices(indices 1-d non-decreasing in [0, length), length): c[i] = number of indices < i, i = 0..length
\* (numeric.compress_indices docstring: indices[c[i]:c[i+1]] == i; raises for unsorted / out of bounds: undefined)
ACompressIndices(ind, length) ==
    MkArr(<<length + 1>>, LAMBDA idx :
        IF ~ASorted(ind) \/ \E k \in 1..Len(ind.v) : IdxVal(ind.v[k]) < 0 \/ IdxVal(ind.v[k]) >= length THEN DBad
        ELSE DInt(Cardinality({k \in 1..Len(ind.v) : IdxVal(ind.v[k]) < idx[1]})))
\* Find(where 1-d bool): positions of the true entries, ascending (data dependent length)
AFind(w) == LET pos == {k \in 1..Len(w.v) : w.v[k][1] # RZero}
                seq == EsLabSeq(pos)
            IN [sh |-> <<Cardinality(pos)>>, v |-> [m \in 1..Len(seq) |-> IF \E k \in 1..Len(w.v) : DIsBad(w.v[k]) THEN DBad ELSE DInt(seq[m] - 1)]]
\* value of a scalar integer node used as an axis length (loop dependent lengths); undefined -> 0
LenVal(a) == IF IdxVal(a.v[1]) < 0 THEN 0 ELSE IdxVal(a.v[1])
ARavel(a) == [sh |-> Append(SubSeq(a.sh, 1, Len(a.sh) - 2), a.sh[Len(a.sh) - 1] * a.sh[Len(a.sh)]), v |-> a.v]
AUnravel(a, s1, s2) == [sh |-> SFront(a.sh) \o <<s1, s2>>, v |-> a.v]

\* ---- Monomial(values (n), args, indices, powers): sparse product without summation (helper of evaluable.factor):
\* result[k] = values[k] * prod_a args[a][indices[a][1][k], ..., indices[a][rank_a][k]].
\* Node encoding: d = <<values, arg_1, its rank_1 index nodes, arg_2, its index nodes, ...>>, p = powers (multiplicities, which
\* matter to the derivative bookkeeping only).  MonoSplit lists <<arg position, <<index positions>>>> per factor.
RECURSIVE MonoSplit(_, _, _)
MonoSplit(N, d, pos) == IF pos > Len(d) THEN <<>>
                        ELSE LET r == Len(N[d[pos]].sh) IN << <<d[pos], SubSeq(d, pos + 1, pos + r)>> >> \o MonoSplit(N, d, pos + r + 1)

IsBoolNode(n) == n.dt = "b"
\* does node k depend on an argument (i.e. can it vary with the point of differentiation)?
RECURSIVE DepArg(_, _)
DepArg(N, k) == N[k].op = "Arg" \/ \E i \in 1..Len(N[k].d) : DepArg(N, N[k].d[i])
\* x^y with an exponent that varies with an argument is defined (real-valued) in a neighbourhood only for x > 0: for
\* x <= 0 the expression is not differentiable as a function of its arguments, whichever entry carries the seed
DPowVar(x, y) == LET r == DPow(x, y) IN IF DIsBad(r) \/ x[1][1] > 0 THEN r ELSE <<r[1], Bad>>

\* ------------------------------------------------------------------ the evaluator
\* N: program, k: node position, env: argument arrays (indexed by argument id),
\* lenv: loop index values (indexed by loop id)
RECURSIVE Ev(_, _, _, _)
Ev(N, k, env, lenv) ==
  LET n == N[k]
      op == n.op
      A(i) == Ev(N, n.d[i], env, lenv)
      cx == n.dt = "c"                                  \* complex result
      cx1 == N[n.d[1]].dt = "c"                         \* complex (first) operand
  IN CASE op = "Arg" -> env[n.p[1]]
       [] op = "Const" -> IF cx THEN AConstCx(n.sh, n.p) ELSE AConst(n.sh, n.p)
       [] op = "Zeros" -> AFull(n.sh, IF cx THEN ZZero ELSE DZero)
       [] op = "Range" -> ARange(n.p[1])
       [] op = "RangeN" -> ARange(LenVal(A(1)))                           \* Range(length node)
       [] op = "InsertAxisN" -> AInsertAxis(A(1), LenVal(A(2)))           \* InsertAxis(func, length node)
       [] op = "LoopIndex" -> AScalar(DInt(lenv[n.p[1]]))
       \* loop whose number of iterations is the value of a (closed, possibly argument dependent) scalar integer node:
       \* LoopIndexN: d = <<length node>>, p = <<loop id>>;  LoopSumN: d = <<body, length node>>, p = <<loop id>>
       [] op = "LoopIndexN" -> AScalar(DInt(lenv[n.p[1]]))
       [] op = "LoopSumN" ->
            LET len == LenVal(A(2))
                parts == [i \in 1..len |-> Ev(N, n.d[1], env, [lenv EXCEPT ![n.p[1]] = i - 1])]
            IN IF DIsBad(A(2).v[1]) THEN AFull(n.sh, IF cx THEN ZBad ELSE DBad)
               ELSE [sh |-> n.sh, v |-> [e \in 1..Prod(n.sh) |-> IF cx THEN FoldSeq(ZAdd, ZZero, [i \in 1..len |-> parts[i].v[e]], 1)
                                                                  ELSE FoldSeq(DAdd, DZero, [i \in 1..len |-> parts[i].v[e]], 1)]]
       [] op = "InsertAxis" -> AInsertAxis(A(1), n.p[1])
       [] op = "Transpose" -> ATranspose(A(1), n.p)
       [] op = "Sum" -> IF N[n.d[1]].dt = "b" THEN AReduceLast(A(1), DOr, DZero)
                        ELSE IF cx THEN AReduceLast(A(1), ZAdd, ZZero) ELSE AReduceLast(A(1), DAdd, DZero)
       [] op = "Product" -> IF N[n.d[1]].dt = "b" THEN AReduceLast(A(1), DAnd, DOne)
                            ELSE IF cx THEN AReduceLast(A(1), ZMul, ZOne) ELSE AReduceLast(A(1), DMul, DOne)
       [] op = "Multiply" -> IF n.dt = "b" THEN Map2(A(1), A(2), DAnd) ELSE IF cx THEN Map2(A(1), A(2), ZMul) ELSE Map2(A(1), A(2), DMul)
       [] op = "Add" -> IF n.dt = "b" THEN Map2(A(1), A(2), DOr) ELSE IF cx THEN Map2(A(1), A(2), ZAdd) ELSE Map2(A(1), A(2), DAdd)
       [] op = "Power" -> IF cx THEN (IF DepArg(N, n.d[2]) THEN Map2(A(1), A(2), ZPowVar) ELSE Map2(A(1), A(2), ZPow))
                          ELSE IF N[n.d[2]].dt = "f" /\ DepArg(N, n.d[2]) THEN Map2(A(1), A(2), DPowVar) ELSE Map2(A(1), A(2), DPow)
       [] op = "Negative" -> IF cx THEN Map1(A(1), ZNeg) ELSE Map1(A(1), DNeg)
       [] op = "Reciprocal" -> IF cx THEN Map1(A(1), ZInv) ELSE Map1(A(1), DInv)
       [] op = "Absolute" -> IF cx1 THEN Map1(A(1), ZAbs) ELSE Map1(A(1), DAbs)
       [] op = "FloatToComplex" -> Map1(A(1), ZOfD)
       [] op = "Real" -> Map1(A(1), ZRe)
       [] op = "Imag" -> Map1(A(1), ZIm)
       [] op = "Conjugate" -> Map1(A(1), ZConj)
       [] op = "Sign" -> Map1(A(1), DSign)
       [] op = "FloorDivide" -> Map2(A(1), A(2), DFloorDiv)
       [] op = "Mod" -> Map2(A(1), A(2), DMod)
       [] op = "Minimum" -> Map2(A(1), A(2), DMin)
       [] op = "Maximum" -> Map2(A(1), A(2), DMax)
       [] op = "Equal" -> IF cx1 THEN Map2(A(1), A(2), ZEq) ELSE Map2(A(1), A(2), DEq)
       [] op = "Less" -> Map2(A(1), A(2), DLess)
       [] op = "Greater" -> Map2(A(1), A(2), DGreater)
       [] op = "LogicalNot" -> Map1(A(1), DNot)
       [] op \in {"BoolToInt", "IntToFloat", "Guard", "Identity"} -> A(1)
       [] op = "Take" -> ATakeB(A(1), A(2), IF cx THEN ZBad ELSE DBad)
       [] op = "TakeDiag" -> ATakeDiag(A(1))
       [] op = "Diagonalize" -> ADiagonalizeZ(A(1), IF cx THEN ZZero ELSE DZero)
       [] op = "Inflate" -> IF n.dt = "b" THEN AInflateBool(A(1), A(2), n.p[1])
                            ELSE IF cx THEN AInflateCx(A(1), A(2), n.p[1]) ELSE AInflate(A(1), A(2), n.p[1])
       [] op = "Ravel" -> ARavel(A(1))
       [] op = "Unravel" -> AUnravel(A(1), n.p[1], n.p[2])
       [] op = "RavelIndex" -> ARavelIndex(A(1), A(2), n.p[2])
       [] op = "Choose" -> AChooseB(A(1), A(2), IF cx THEN ZBad ELSE DBad)
       [] op = "InRange" -> AInRange(A(1), n.p[1])
       [] op = "NormDim" -> ANormDim(A(1), A(2))
       [] op = "Determinant" -> IF cx THEN ADetCx(A(1)) ELSE ADet(A(1))
       [] op = "Inverse" -> IF cx THEN AInvCx(A(1)) ELSE AInv(A(1))
       [] op = "Polyval" -> APolyvalN(A(1), A(2))
       [] op = "PolyMul" -> APolyMul(A(1), A(2), n.p)
       [] op = "PolyGrad" -> APolyGrad(A(1), n.p[1])
       [] op = "PolyDegree" -> APolyDegree(A(1), n.p[1])
       [] op = "PolyNCoeffs" -> APolyNCoeffs(n.p[1], A(1))
       [] op = "Legendre" -> ALegendre(A(1), n.p[1])
       [] op = "SearchSorted" -> ASearchSorted(A(1), IF Len(n.d) = 3 THEN ATake(A(2), A(3)) ELSE A(2), n.p[1])
       [] op = "ArgSort" -> AArgSort(A(1))
       [] op = "UniqueMask" -> AUniqueMask(A(1))
       [] op = "UniqueInverse" -> AUniqueInverse(A(1), A(2))
       [] op = "SizesToOffsets" -> ASizesToOffsets(A(1))
       [] op = "CompressIndices" -> ACompressIndices(A(1), LenVal(A(2)))
       [] op = "Find" -> AFind(A(1))
       [] op = "Monomial" ->
            LET terms == MonoSplit(N, n.d, 2)
                vals == A(1)
                argv == [t \in 1..Len(terms) |-> Ev(N, terms[t][1], env, lenv)]
                indv == [t \in 1..Len(terms) |-> [j \in 1..Len(terms[t][2]) |-> Ev(N, terms[t][2][j], env, lenv)]]
            IN MkArr(vals.sh, LAMBDA idx :
                  FoldSeq(DMul, At(vals, idx), [t \in 1..Len(terms) |-> At(argv[t], [j \in 1..Len(indv[t]) |-> IdxVal(At(indv[t][j], idx))])], 1))
       [] op = "Einsum" ->
            LET dec == EsDecode(n.p, 1)
                args == [i \in 1..Len(n.d) |-> A(i)]
                idx == [i \in 1..Len(n.d) |-> dec[i + 1]]
            IN IF cx THEN AEinsumG(args, idx, dec[1], ZAdd, ZMul, ZZero, ZOne) ELSE AEinsumG(args, idx, dec[1], DAdd, DMul, DZero, DOne)
       [] op = "LoopSum" ->
            LET parts == [i \in 1..n.p[2] |-> Ev(N, n.d[1], env, [lenv EXCEPT ![n.p[1]] = i - 1])]
                psh == IF n.p[2] > 0 THEN parts[1].sh ELSE n.sh
            IN [sh |-> psh, v |-> [e \in 1..Prod(psh) |-> IF cx THEN FoldSeq(ZAdd, ZZero, [i \in 1..n.p[2] |-> parts[i].v[e]], 1)
                                                             ELSE FoldSeq(DAdd, DZero, [i \in 1..n.p[2] |-> parts[i].v[e]], 1)]]
       [] op = "LoopConcat" ->
            \* p = <<loop id, loop length, chunk size (0: loop dependent)>>; the chunks (iteration i contributes its whole
            \* last axis, whose length may depend on i) are concatenated along the last axis in loop order
            LET parts == [i \in 1..n.p[2] |-> Ev(N, n.d[1], env, [lenv EXCEPT ![n.p[1]] = i - 1])]
                Off(i) == FoldSeq(LAMBDA acc, q : acc + SLast(q.sh), 0, SubSeq(parts, 1, i - 1), 1)     \* start of chunk i
                csh == IF n.p[2] > 0 THEN Append(SFront(parts[1].sh), Off(n.p[2] + 1)) ELSE n.sh
            IN MkArr(csh, LAMBDA idx :
                  LET j == SLast(idx)
                      i == CHOOSE i \in 1..n.p[2] : Off(i) <= j /\ j < Off(i + 1)
                  IN At(parts[i], Append(SFront(idx), j - Off(i))))
       [] OTHER -> Assert(FALSE, <<"ArraySem: unknown op", op>>)

\* ------------------------------------------------------------------ environments
\* argument array from integer data with tangent seed on flat position seed (0 = none)
\* A complex argument is recognised by its data: 2 * size integers, real parts first, then imaginary parts (the seed is
\* a unit tangent on the REAL part of one element: d/d re, which for a holomorphic program is the complex derivative).
ArgArr(sh, ints, seed) ==
    IF Prod(sh) > 0 /\ Len(ints) = 2 * Prod(sh)
    THEN [sh |-> sh, v |-> [k \in 1..Prod(sh) |-> << <<RInt(ints[k]), IF k = seed THEN ROne ELSE RZero>>, <<RInt(ints[Prod(sh) + k]), RZero>> >>]]
    ELSE [sh |-> sh, v |-> [k \in 1..Prod(sh) |-> <<RInt(ints[k]), IF k = seed THEN ROne ELSE RZero>>]]
\* JSON-friendly projection of an array: flat list of <<vn, vd, tn, td>>
Proj(a) == [sh |-> a.sh, v |-> [k \in 1..Len(a.v) |-> <<a.v[k][1][1], a.v[k][1][2], a.v[k][2][1], a.v[k][2][2]>>]]
\* complex arrays: <<re vn, re vd, re tn, re td, im vn, im vd, im tn, im td>>
ProjCx(a) == [sh |-> a.sh, v |-> [k \in 1..Len(a.v) |-> <<a.v[k][1][1][1], a.v[k][1][1][2], a.v[k][1][2][1], a.v[k][1][2][2],
                                                           a.v[k][2][1][1], a.v[k][2][1][2], a.v[k][2][2][1], a.v[k][2][2][2]>>]]
=============================================================================
