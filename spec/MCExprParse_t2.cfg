SPECIFICATION Spec
CONSTANTS
  MaxLeaves = 2
  MaxOps = 2
  MaxStack = 2
  VarSet <- VarsA
  NumSet <- NumsA
  FuncSet <- FuncsA
  Toks <- ToksA
  GToks <- GToksA
  IntExps <- ExpsA
  Wraps <- AllWraps
  Muts <- NoStrings
  Cors <- NoStrings
  Styles <- NoStrings
  EmitMin = 0
  Bug = ""
INVARIANT VerdictAgree
INVARIANT FreeAgree
INVARIANT MeaningAgree
INVARIANT RenderBalanced

CONSTRAINT EmitTables
CHECK_DEADLOCK FALSE
