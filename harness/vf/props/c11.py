"""C11 -- Element lookup and coordinate maps are consistent.

Deciding method: model-based verification with TLA+ specifications checked by TLC.

Design specs (spec/):
  TransformChain.tla   vocabulary: transform items nested like the nutils objects, exact dyadic
                       affine maps, swapup/swapdown transcribed method by method, the loops of
                       canonical / uppermost / promote
  ChainRewrite.tla     machine: one action per loop iteration on every chain of child/edge items
                       (simplices and tensor products up to dimension 3, with/without root,
                       results fed back once); invariants MapPreserved (in every loop state),
                       WellFormed, InRange, Terminates, CanonicalDone, OperatorAgrees, DimsKept
  TransformSeq.tla     vocabulary: denotation Den and algorithm Lookup (= index_with_tail) of
                       Structured / Index / Plain / Masked / Reordered / (Uniform)Derived /
                       Chained sequences, structured axes algebra (refined, boundary, interfaces,
                       slice), root coordinates PhysMap
  SeqNesting.tla       machine: one nesting of constructors per state; invariants LookupCorrect,
                       FIndex, PrefixFree, ElemDims, CrossConsistent, InterfaceConsistent
Bindings to the code:
  (T)    TransformTables.tla: every child/edge item (matrices, ordering, interning) and every
         swapup/swapdown result of the live code, decided by TLC against the model
  (S->C) ChainRewrite behaviours replayed on transform.canonical/uppermost/promote (predicted map
         and items); SeqNesting states rebuilt from the real classes and, for structured bases,
         through the StructuredTopology API, compared element by element and lookup by lookup
         (index, exact remainder map), f_index / f_coords / geometry / opposite geometry /
         parent-topology index and coordinates on samples against the model's predictions
  (C->S) TraceTopo.tla: nestings that real topology operations produce (unitsquare triangle /
         mixed / square, rectilinear periodic, boundary, interfaces, refined, take, refined_by,
         union) are read off the real objects and their recorded lookups, f_index, f_coords,
         interface chains + element geometries and locate() results are validated by TLC.
Spec mutants (wrong swap entry, three wrong Lookup variants) must violate the invariants.
"""

import collections
import concurrent.futures
import os
import random

from .. import tlc, exprs
from . import c11_items as ci, c11_chain, c11_seq, c11_trace

LEVEL = 'model_checking'

CHAIN_ACTIONS = ['AddChild', 'AddEdge', 'StartCanonical', 'StartUppermost', 'StartPromote', 'CanonSwap', 'CanonSkip', 'CanonExit',
                 'UpperSwap', 'UpperSkip', 'UpperExit', 'Refeed']
SEQ_OPS = ['refined', 'boundary', 'interfaces', 'slice', 'mask', 'reorder', 'derive', 'plain', 'chainindex', 'split']
LOOKUP_MUTANTS = ['masked-offbyone', 'reorder-forward', 'derived-nocanon']


def _cfg_with(name, **subst):
    text = open(os.path.join(tlc.SPEC, name)).read()
    for k, v in subst.items():
        lines = []
        for line in text.splitlines():
            if line.strip().startswith(k + ' ='):
                line = '  {} = {}'.format(k, v)
            lines.append(line)
        text = '\n'.join(lines) + '\n'
    return text


def plan(tier, seed):
    """TLC design runs: name -> (module, kwargs, exhaustive)"""
    jobs = collections.OrderedDict()
    jobs['rewrite'] = ('ChainRewrite', dict(cfg='ChainRewrite.cfg', coverage=True, workers=4), True)
    jobs['rewrite-mutant'] = ('ChainRewrite', dict(cfg='ChainRewrite_mutant.cfg', workers=2), True)
    jobs['seq'] = ('SeqNesting', dict(cfg='SeqNesting.cfg', workers=4), True)
    jobs['seq-struct'] = ('SeqNesting', dict(cfg='SeqNesting_struct.cfg', workers=2), True)
    if tier == 'quick':
        jobs['seq-sim'] = ('SeqNesting', dict(cfg='SeqNesting_sim.cfg', simulate=dict(num=6), depth=6, seed=seed, workers=2, timeout=600), False)
        muts = [LOOKUP_MUTANTS[seed % len(LOOKUP_MUTANTS)]]
    else:
        jobs['rewrite-thorough'] = ('ChainRewrite', dict(cfg='ChainRewrite_thorough.cfg', workers=8, timeout=1500, heap='8g'), True)
        jobs['rewrite-sim'] = ('ChainRewrite', dict(cfg='ChainRewrite_sim.cfg', simulate=dict(num=1500), depth=40, seed=seed, workers=4, timeout=600), False)
        jobs['seq-thorough'] = ('SeqNesting', dict(cfg='SeqNesting_thorough.cfg', workers=8, timeout=1500, heap='8g'), True)
        jobs['seq-sim'] = ('SeqNesting', dict(cfg='SeqNesting_sim.cfg', simulate=dict(num=400), depth=8, seed=seed, workers=4, timeout=800), False)
        muts = LOOKUP_MUTANTS
    for m in muts:
        jobs['seq-mutant-' + m] = ('SeqNesting', dict(cfg_text=_cfg_with('SeqNesting_mutant.cfg', LookupMutant='"{}"'.format(m)), workers=2), True)
    return jobs


def _run_job(item):
    name, (module, kw, exhaustive) = item
    kw = dict(kw)
    kw.setdefault('deadlock', False)
    return name, tlc.run(module, tag='c11-' + name, **kw)


def _descendants(x):
    for u in x['u']:
        yield u
        yield from _descendants(u)


def run(rep):
    quick = rep.tier == 'quick'
    rng = random.Random(rep.seed)
    jobs = plan(rep.tier, rep.seed)
    rep.constants['ChainRewrite'] = 'references of dimension <= 3 (simplices and tensor products); chains of <= {} items exhaustively{}'.format(
        '2 (<= 3 for dimension <= 2)' if quick else 3, '' if quick else ', <= 6 items by simulation')
    rep.constants['SeqNesting'] = 'bases line/square/cube (periodic variants), Index with simplex/mixed/prism references; <= {} topology operations, <= {} wrappers exhaustively; simulation to 2 operations + 3 wrappers; <= 16 elements; tails of <= 2 items'.format(*((1, 1) if quick else (2, 2)))

    # ---- all TLC runs concurrently; the table export and the recording of real topologies happen meanwhile
    with concurrent.futures.ThreadPoolExecutor(max_workers=len(jobs) + 3) as pool:
        futures = [pool.submit(_run_job, item) for item in jobs.items()]
        table, tpath = c11_chain.export_to_file()
        ftab = pool.submit(c11_chain.run_tables, tpath)
        seqcases = c11_trace.seq_cases(rep, rng)
        loccases, locfails = c11_trace.locate_cases(rep, rng)
        ftrace = pool.submit(c11_trace.validate, seqcases + loccases, 'trace')
        rep.lap('tables exported, real topologies recorded')
        results = dict(f.result() for f in futures)
        tabres = ftab.result()
        c11_chain.judge_tables(rep, table, tabres)
        verdicts, rtrace = ftrace.result()
        v1, v2 = verdicts[:len(seqcases)], verdicts[len(seqcases):]
    rep.lap('tlc runs')
    rep.extra['tlc_wall_s'] = dict({name: round(res.wall, 1) for name, res in results.items()}, **{'tables': round(tabres.wall, 1), 'trace': round(rtrace.wall, 1) if rtrace else 0})

    # ---- design-level verdicts
    for name, res in results.items():
        exhaustive = jobs[name][2]
        if 'mutant' in name:
            want = 'MapPreserved' if name.startswith('rewrite') else 'LookupCorrect'
            if res.violated != want:
                raise RuntimeError('spec mutant {} does not violate {} (violated={}): the invariant is vacuous'.format(name, want, res.violated))
            rep.extra.setdefault('spec_mutants_killed', []).append(name)
            continue
        rep.add_tlc(res, exhaustive=exhaustive)
        if res.violated:
            raise RuntimeError('design spec {} violates {}:\n{}'.format(name, res.violated, '\n'.join(res.error_trace[:60])))
    cov = results['rewrite'].coverage
    missing = [a for a in CHAIN_ACTIONS if cov.get(a, (0, 0))[1] == 0]
    if missing:
        raise RuntimeError('ChainRewrite: actions never taken: {}'.format(missing))

    # ---- S->C: chain rewriting
    behaviours = []
    seen = set()
    for name, res in results.items():
        if name.startswith('rewrite') and 'mutant' not in name:
            for b in res.emitted:
                k = (b['alg'], b['nd'], ci.key(b['chain']))
                if k not in seen:
                    seen.add(k)
                    behaviours.append(b)
    chunks = [behaviours[i::16] for i in range(16)]
    outs = exprs.pmap(_replay_chunk, chunks, chunksize=1)
    diverged = 0
    for chunk, out in zip(chunks, outs):
        if 'harness_error' in out:
            raise RuntimeError(out['harness_error'])
        for beh, (bad, same) in zip(chunk, out['res']):
            rep.case(('rewrite', beh['alg'], beh['nd'], ci.key(beh['chain'])), nontrivial=beh['out'] != beh['chain'])
            if bad:
                rep.violation(*bad)
            else:
                rep.traces += 1
                diverged += not same
    rep.extra['rewrite_behaviours_replayed'] = len(behaviours)
    rep.extra['rewrite_results_with_other_items_than_model'] = diverged
    rep.lap('rewrite replay')

    # ---- S->C: sequences
    c11_seq.set_tailmaps(tabres.emitted)
    states, seen = [], set()
    opcount = collections.Counter()
    for name, res in results.items():
        if name.startswith('seq') and 'mutant' not in name:
            for b in res.emitted:
                k = (c11_seq.expr_key(b['expr']), tuple(h['op'] for h in b['hist']))
                if k not in seen:
                    seen.add(k)
                    states.append(b)
                    opcount.update(h['op'] for h in b['hist'][1:])
    for op in SEQ_OPS:
        rep.actions[op] = rep.actions.get(op, 0) + opcount[op]
    missing = [op for op in SEQ_OPS if not opcount[op]]
    if missing:
        raise RuntimeError('SeqNesting: operations never taken: {}'.format(missing))
    states.sort(key=lambda b: len(b['hist']))
    outs = exprs.pmap(c11_seq.check_state, states, chunksize=8)
    failed = {}
    lookups = topo = 0
    for beh, out in zip(states, outs):
        if 'harness_error' in out:
            raise RuntimeError(out['harness_error'])
        x = beh['expr']
        rep.case(('seq', c11_seq.expr_key(x)), nontrivial=len(beh['hist']) > 1)
        lookups += out['lookups']
        topo += out['topo']
        if out['fails']:
            inherited = [failed[c11_seq.expr_key(u)] for u in _descendants(x) if c11_seq.expr_key(u) in failed]
            if inherited:
                for key, what, data in inherited[-1]:
                    rep.violation(key, what, data)
                failed[c11_seq.expr_key(x)] = inherited[-1]
            else:
                fails = [(k, '{}: {}'.format(out['label'], w), dict(expr=x, hist=beh['hist'], detail=d)) for k, w, d in out['fails']]
                for f in fails:
                    rep.violation(*f)
                failed[c11_seq.expr_key(x)] = fails
        else:
            rep.traces += 1
    rep.extra['nestings_replayed'] = len(states)
    rep.extra['lookups_replayed'] = lookups
    rep.extra['structured_topologies_replayed'] = topo
    for b in states[-2:]:
        rep.sample(dict(nesting=c11_seq.expr_str(b['expr']), route=[h['op'] for h in b['hist']], elements=len(b['den'])))
    rep.lap('sequence replay')

    # ---- C->S: real topologies (verdicts of TraceTopo)
    for f in locfails:
        rep.violation(*f)
    if rtrace is not None:
        rep.add_tlc(rtrace)
    nobs = nif = 0
    for case, v in zip(seqcases, v1):
        rep.case(('trace', case['name']), nontrivial=True)
        nobs += len(case['obs'])
        nif += len(case['ifaces'])
        if v['v'] == 'ok':
            rep.traces += 1
        elif v['v'] == 'model-lookup-disagrees':
            raise RuntimeError('TraceTopo: the model Lookup disagrees with a correct real lookup on {}'.format(case['name']))
        else:
            top = c11_seq.expr_str(case['expr']).split('(')[0]
            bad = [o for o in case['obs'] if o['ridx'] != o['i']][:3]
            rep.violation('trace:{}:{}'.format(top, v['v']), 'topology {}: {}'.format(case['name'], v['v']), dict(name=case['name'], expr=case['expr'], bad_lookups=bad))
    raised_inside = 0
    for case, v in zip(loccases, v2):
        rep.case(('locate', case['name'], tuple(map(tuple, case['targets']))), nontrivial=True)
        if v['v'] in ('ok', 'ok-raised'):
            rep.traces += 1
        elif v['v'] == 'ok-raised-though-all-targets-inside':
            raised_inside += 1
            rep.traces += 1
        else:
            rep.violation('locate:{}'.format(v['v']), 'locate on {}: {}'.format(case['name'], v['v']), dict(case=case))
    rep.extra['trace_cases'] = dict(sequences=len(seqcases), lookups=nobs, interface_pairs=nif, locate=len(loccases),
                                    locate_raised=sum(1 for c in loccases if c['raised']), locate_raised_though_inside=raised_inside)
    if seqcases:
        rep.sample(dict(real_topology=seqcases[len(seqcases) // 2]['name'], nesting=c11_seq.expr_str(seqcases[len(seqcases) // 2]['expr'])))
    rep.lap('trace validation')

    rep.rule = ('cases = adjacent item pairs of the swap tables, rewritten chains (non-trivial: the rewriting changed the chain), nestings of '
                'Transforms constructors (non-trivial: at least one operation on the base), recorded real topologies and locate calls')
    rep.assumptions += [
        'items are Index, Identity, SimplexChild/Edge (ndims <= 3), TensorChild/Edge1/Edge2 and ScaledUpdim; flipped (inverted) edges, '
        'trimmed references and PlainTransforms of trimmed boundaries are outside the model (such real topologies are skipped and counted)',
        'PlainTransforms.index_with_tail is modelled as prefix search on item equality (interning is checked by the tables), not as the id()-sorted bisection',
        'geometry in the structured replays is the root coordinate (unit cells); locate is validated for affine geometries only',
        'locate raising for targets that all lie inside the domain is counted (locate_raised_though_inside), not judged: the property allows raising',
        'sequences queried with chains of absent elements (must raise) are not judged: the property only speaks about chains of elements of the sequence',
    ]


def _replay_chunk(chunk):
    return dict(res=[c11_chain.replay_one(b) for b in chunk])
