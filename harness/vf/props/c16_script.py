"""C16, binding T: export the parallel structure of the scripts that the real
evaluable.compile generates as configurations of spec/Parallel.tla.

A script compiled under ``parallel.maxprocs(n>1)`` is captured at the
observation point ``nutils._util.function`` (nothing in /repo is touched) and
analysed with ``ast``.  For every outermost parallel loop

    with parallel.ctxrange('loop k', length) as vR:
        for iK in map(numpy.int_, vR):
            BODY

(and for both the first-run and the rerun branch of a script with cached
constants) one configuration record is produced:

* arrays: the variables that are bound *outside* BODY and referenced or
  mutated inside it; ``shared`` iff the variable was bound by
  ``parallel.shempty`` (anonymous shared mmap).  A plain variable that is
  assigned in BODY and read after the loop is exported as a private array that
  is written in the loop (its value would only exist in the process that ran
  the iteration).
  A private array that is written in BODY but never read after the loop is a
  per-process scratch buffer and left out.
* locks: the ``lock<n> = multiprocessing.Lock()`` objects created before the
  loop.  A lock created inside BODY is private to the process and therefore
  exported as no lock at all.
* body: one statement record per simple statement of BODY (nested serial loops
  and if-blocks are flattened) that touches an array: op "rmw" if it mutates
  the array (``out=``, ``numpy.copyto``, ``ufunc.at``, ``.fill``, item / augmented
  assignment), "slot" if it assigns exactly the item selected by the loop index
  (``X[i] = ...``), "read" otherwise; ``locks`` = the enclosing ``with lock<n>:``
  blocks, outermost first.  Statements that touch several arrays give one
  record per array with the same locks.

TLC then decides on these records whether every schedule of the loop gives the
serial result (MutexArrays, NoLostUpdate, deadlock freedom of the lock order).
"""

import ast
import contextlib
import inspect
import re
import textwrap


class Capture:
    """context manager: records (script, globals) of every evaluable.compile"""

    def __init__(self, serial=False):
        self.scripts = []
        self.serial = serial    # run the (parallel) script single-process: no forks

    def __enter__(self):
        from nutils import _util
        self._util = _util
        self._orig = _util.function

        def function(script, globals={}):
            self.scripts.append((script, globals))
            func = self._orig(script, globals)
            if not self.serial:
                return func
            from nutils import parallel

            def compiled(a):
                with parallel.maxprocs(1):
                    return func(a)
            compiled.__nutils_hash__ = func.__nutils_hash__
            return compiled
        _util.function = function
        return self

    def __exit__(self, *exc):
        self._util.function = self._orig


def _call_name(node):
    """dotted name of a call target, e.g. 'numpy.add.at'"""
    parts = []
    while isinstance(node, ast.Attribute):
        parts.append(node.attr)
        node = node.value
    if isinstance(node, ast.Name):
        parts.append(node.id)
        return '.'.join(reversed(parts))
    return None


def _names(node):
    return {n.id for n in ast.walk(node) if isinstance(n, ast.Name)}


VIEW_CALLS = {'numpy.transpose': 0, 'numpy.einsum': 1, 'numpy.asarray': 0, 'numpy.reshape': 0, 'numpy.swapaxes': 0, 'numpy.broadcast_to': 0}


def _base_names(node):
    """the variables whose memory the array expression `node` designates"""
    if isinstance(node, ast.Name):
        return {node.id}
    if isinstance(node, ast.Subscript):
        return _base_names(node.value)
    if isinstance(node, ast.Attribute):
        return _base_names(node.value)
    if isinstance(node, ast.Call):
        name = _call_name(node.func)
        if name in VIEW_CALLS and len(node.args) > VIEW_CALLS[name]:
            return _base_names(node.args[VIEW_CALLS[name]])
        if isinstance(node.func, ast.Attribute) and node.func.attr in ('transpose', 'reshape', 'view', 'swapaxes'):
            return _base_names(node.func.value)
    return _names(node)


def _is_view(node):
    if isinstance(node, (ast.Name, ast.Subscript, ast.Attribute)):
        return True
    if isinstance(node, ast.Call):
        name = _call_name(node.func)
        if name in VIEW_CALLS:
            return True
        if isinstance(node.func, ast.Attribute) and node.func.attr in ('transpose', 'reshape', 'view', 'swapaxes'):
            return True
    return False


def _mutated(stmt):
    """variables whose memory the simple statement `stmt` writes to"""
    out = set()
    if isinstance(stmt, ast.Assign):
        for t in stmt.targets:
            if not isinstance(t, ast.Name):
                out |= _base_names(t)
    elif isinstance(stmt, ast.AugAssign):
        out |= _base_names(stmt.target)
    for node in ast.walk(stmt):
        if isinstance(node, ast.Call):
            name = _call_name(node.func) or ''
            for kw in node.keywords:
                if kw.arg == 'out':
                    out |= _base_names(kw.value)
            if name == 'numpy.copyto' and node.args:
                out |= _base_names(node.args[0])
            elif name.startswith('numpy.') and name.endswith('.at') and node.args:
                out |= _base_names(node.args[0])
            elif isinstance(node.func, ast.Attribute) and node.func.attr in ('fill', 'sort', 'put', 'itemset', 'resize', 'setfield') and not name.startswith('numpy.'):
                out |= _base_names(node.func.value)
    return out


def _slot_writes(stmt, index):
    """variables of which the statement assigns exactly the item(s) selected by the loop index:
    `X[i] = ...` or `X[i, ...] = ...` -- distinct iterations write distinct elements"""
    out = set()
    if isinstance(stmt, ast.Assign):
        for t in stmt.targets:
            if isinstance(t, ast.Subscript) and isinstance(t.value, ast.Name):
                sl = t.slice
                first = sl.elts[0] if isinstance(sl, ast.Tuple) and sl.elts else sl
                if isinstance(first, ast.Name) and first.id == index:
                    out.add(t.value.id)
    return out


def _bound(stmt):
    """plain variables (re)bound by the simple statement"""
    out = set()
    if isinstance(stmt, ast.Assign):
        for t in stmt.targets:
            for n in ast.walk(t):
                if isinstance(n, ast.Name) and isinstance(n.ctx, ast.Store):
                    out.add(n.id)
    return out


class Loop:
    def __init__(self, name, body, index):
        self.name = name
        self.body = body
        self.index = index


def _parallel_loop(stmt):
    """match `with parallel.ctxrange(name, n) as v: for i in map(numpy.int_, v): BODY`"""
    if isinstance(stmt, ast.With) and len(stmt.items) == 1:
        ce = stmt.items[0].context_expr
        if isinstance(ce, ast.Call) and _call_name(ce.func) == 'parallel.ctxrange':
            fors = [s for s in stmt.body if isinstance(s, ast.For)]
            if len(fors) == 1 and len(stmt.body) == 1:
                name = ce.args[0].value if ce.args and isinstance(ce.args[0], ast.Constant) else '?'
                tgt = fors[0].target.id if isinstance(fors[0].target, ast.Name) else '?'
                return Loop(name, fors[0].body, tgt)
            return Loop('malformed', stmt.body, '?')
    return None


def _lock_of(stmt):
    """`with lock<n>:` -> name"""
    if isinstance(stmt, ast.With) and len(stmt.items) == 1 and isinstance(stmt.items[0].context_expr, ast.Name) and stmt.items[0].optional_vars is None:
        return stmt.items[0].context_expr.id
    return None


class _Held(tuple):
    """the enclosing `with <name>:` blocks of a statement; `.irregular` is set when the statement sits in a
    nested loop or a conditional, i.e. is not executed exactly once per iteration of the parallel loop"""
    irregular = False


def _flatten(stmts, held=(), irregular=False):
    """simple statements of a block with the `with <name>:` blocks that enclose them;
    compound statements are flattened, their header expressions become pseudo statements"""
    def mk(h, irr):
        h = _Held(h)
        h.irregular = irr
        return h
    for s in stmts:
        lk = _lock_of(s)
        if lk is not None:
            yield from _flatten(s.body, tuple(held) + (lk,), irregular)
        elif isinstance(s, ast.With):
            for it in s.items:
                yield ast.Expr(it.context_expr), mk(held, irregular)
            yield from _flatten(s.body, held, irregular)
        elif isinstance(s, ast.For):
            yield ast.Expr(s.iter), mk(held, irregular)
            yield from _flatten(s.body, held, True)
            yield from _flatten(s.orelse, held, True)
        elif isinstance(s, ast.While):
            yield ast.Expr(s.test), mk(held, True)
            yield from _flatten(s.body, held, True)
            yield from _flatten(s.orelse, held, True)
        elif isinstance(s, ast.If):
            yield ast.Expr(s.test), mk(held, irregular)
            yield from _flatten(s.body, held, True)
            yield from _flatten(s.orelse, held, True)
        elif isinstance(s, ast.Try):
            yield from _flatten(s.body + [x for h in s.handlers for x in h.body] + s.orelse + s.finalbody, held, True)
        else:
            yield s, mk(held, irregular)


def _branches(script):
    """[(branch name, statements)] of `def compiled(a)`; the first-run and the rerun branch are analysed separately"""
    tree = ast.parse(textwrap.dedent(script))
    fn = tree.body[0]
    assert isinstance(fn, ast.FunctionDef)
    out = []

    def expand(stmts):
        # a (possibly nested in `stats` wrappers) `if first_run: A else: B`
        for k, s in enumerate(stmts):
            if isinstance(s, ast.If) and isinstance(s.test, ast.Name) and s.test.id == 'first_run':
                return [('first', stmts[:k] + s.body + stmts[k + 1:]), ('rerun', stmts[:k] + s.orelse + stmts[k + 1:])]
        return [('only', stmts)]
    return expand(fn.body)


def analyse(script):
    """-> list of dict(branch, loop, cfg fields, detail) for every outermost parallel loop of the script"""
    out = []
    for bname, stmts in _branches(script):
        # top level walk: what is bound before each parallel loop, and how
        kind = {}       # variable -> 'shared' | 'private' | 'lock' | 'plain'
        order = []
        for k, s in enumerate(stmts):
            loop = _parallel_loop(s)
            if loop is None:
                for simple, held in _flatten([s]):
                    if isinstance(simple, ast.Assign) and len(simple.targets) == 1 and isinstance(simple.targets[0], ast.Name):
                        name = simple.targets[0].id
                        cn = _call_name(simple.value.func) if isinstance(simple.value, ast.Call) else None
                        if cn in ('parallel.shempty', 'parallel.shzeros'):
                            kind[name] = 'shared'
                        elif cn == 'multiprocessing.Lock':
                            kind[name] = 'lock'
                        else:
                            kind[name] = 'private'
                            # a view of a shared array is the shared array
                            if _is_view(simple.value):
                                for b in _base_names(simple.value):
                                    if kind.get(b) == 'shared':
                                        kind[name] = 'alias:' + b
                    else:
                        for name in _bound(simple):
                            kind[name] = 'private'
                continue
            after = stmts[k + 1:]
            out.append(_analyse_loop(bname, loop, dict(kind), after))
            # variables bound in the loop body are bound in the process that ran the iteration only
    return out


def _resolve(name, kind):
    k = kind.get(name)
    seen = set()
    while isinstance(k, str) and k.startswith('alias:') and name not in seen:
        seen.add(name)
        name = k[6:]
        k = kind.get(name)
    return name, k


def _analyse_loop(bname, loop, kind, after):
    flat = list(_flatten(loop.body))
    inner_bound = set()
    inner_locks = set()
    alias = {}      # variables bound in the body to views of outer arrays
    for s, held in flat:
        if isinstance(s, ast.Assign) and len(s.targets) == 1 and isinstance(s.targets[0], ast.Name):
            name = s.targets[0].id
            cn = _call_name(s.value.func) if isinstance(s.value, ast.Call) else None
            if cn == 'multiprocessing.Lock':
                inner_locks.add(name)
            if _is_view(s.value):
                bases = {_resolve(alias.get(b, b), kind)[0] for b in _base_names(s.value)}
                bases = {b for b in bases if b in kind and b not in inner_bound and kind[b] in ('shared', 'private')}
                if len(bases) == 1:
                    alias[name] = next(iter(bases))
        inner_bound |= _bound(s)
    inner_bound.add(loop.index)
    locks = [n for n, k in kind.items() if k == 'lock' and n not in inner_locks]
    arrays = []     # names, in order of first use
    steps = []
    detail = []

    def arr_index(name):
        if name not in arrays:
            arrays.append(name)
        return arrays.index(name) + 1

    # plain variables bound in the body and read after the loop
    read_after = set()
    for s, held in _flatten(after):
        read_after |= {n.id for n in ast.walk(s) if isinstance(n, ast.Name) and isinstance(n.ctx, ast.Load)}
    leaks = sorted((inner_bound - {loop.index}) & read_after - set(kind))
    for istmt, (s, held) in enumerate(flat):
        held_locks = [h for h in held if h in locks]       # locks created in the body are no locks
        mut = set()
        for m in _mutated(s):
            m = alias.get(m, m)
            base, k = _resolve(m, kind)
            if k in ('shared', 'private') and base not in inner_bound:
                mut.add(base)
        refs = set()
        for n in _names(s):
            n = alias.get(n, n) if n not in _bound(s) else n
            base, k = _resolve(n, kind)
            if k in ('shared', 'private') and base not in inner_bound:
                refs.add(base)
        slots = _slot_writes(s, loop.index)
        irr = bool(getattr(held, 'irregular', False))
        for name in sorted(mut):
            steps.append(dict(op='slot' if name in slots else 'rmw', arr=arr_index(name), locks=[locks.index(h) + 1 for h in held_locks], irregular=irr, stmt=istmt))
        for name in sorted(refs - mut):
            steps.append(dict(op='read', arr=arr_index(name), locks=[locks.index(h) + 1 for h in held_locks], irregular=irr, stmt=istmt))
        for name in sorted(_bound(s) & set(leaks)):
            steps.append(dict(op='rmw', arr=arr_index(name), locks=[locks.index(h) + 1 for h in held_locks], irregular=irr, stmt=istmt))
        if mut or (refs - mut):
            detail.append(dict(stmt=ast.unparse(s)[:120], writes=sorted(mut), reads=sorted(refs - mut), held=list(held)))
    # only arrays that are written in the loop matter for mutual exclusion; reads of arrays that are
    # complete before the loop are kept only when they are taken under a lock (lock order)
    written = {st['arr'] for st in steps if st['op'] in ('rmw', 'slot')}
    steps = [st for st in steps if st['arr'] in written or st['locks']]
    # a private array that is not read after the loop is a per-process scratch buffer (e.g. the
    # workspace of an Inflate inside the loop whose allocation was hoisted): it cannot carry a result
    scratch = {a for a in written if kind.get(arrays[a - 1]) != 'shared' and arrays[a - 1] not in read_after}
    steps = [st for st in steps if st['arr'] not in scratch]
    used = sorted({st['arr'] for st in steps})
    remap = {a: i + 1 for i, a in enumerate(used)}
    for st in steps:
        st['arr'] = remap[st['arr']]
    names = [arrays[a - 1] for a in used]
    shared = [kind.get(n) == 'shared' for n in names]
    usedlocks = sorted({l for st in steps for l in st['locks']})
    lremap = {l: i + 1 for i, l in enumerate(usedlocks)}
    for st in steps:
        st['locks'] = [lremap[l] for l in st['locks']]
    irregular = any(st.pop('irregular') and st['locks'] for st in steps)
    return dict(branch=bname, loop=loop.name, irregular=irregular, alllocks=locks, arrays=names, shared=shared, nlocks=len(usedlocks), scratch=sorted(arrays[a - 1] for a in scratch),
                locknames=[locks[l - 1] for l in usedlocks], body=steps, detail=detail, leaks=leaks)


def analyse_function(fn):
    """the same export for a hand written parallel loop of nutils (topology.Topology._locate)"""
    return analyse(inspect.getsource(fn))


def statements(rec):
    """one step per statement of the script (a statement that touches several arrays is exported as several steps
    with the same locks; a recorded execution takes the locks once per statement): the writing step is kept"""
    out = []
    for st in rec['body']:
        if out and out[-1]['stmt'] == st['stmt']:
            if out[-1]['op'] == 'read' and st['op'] != 'read':
                out[-1] = st
            continue
        out.append(st)
    return out


def signature(rec):
    """canonical form of the abstract loop (arrays and locks renumbered by first use)"""
    return (tuple(rec['shared']), rec['nlocks'], tuple((st['op'], st['arr'], tuple(st['locks'])) for st in rec['body']))


def config(rec, cid, np_=2, niter=2):
    return dict(id=cid, np=np_, niter=niter, shared=list(rec['shared']), nlocks=rec['nlocks'],
                body=[dict(op=st['op'], arr=st['arr'], locks=list(st['locks'])) for st in rec['body']])


_CLASS = re.compile(r'# (\w+) e\d+')


def classes(script):
    """evaluable classes named in the comments of the script (for reporting)"""
    return sorted(set(_CLASS.findall(script)))
