------------------------------- MODULE Locate -------------------------------
(***************************************************************************)
(* C11, locate() as a state machine with its memo: design specification of *)
(* Topology.locate -> StructuredTopology._locate / _asaffine (and the       *)
(* wrappers SubsetTopology._locate, generic TransformChainsTopology._locate) *)
(* of src/nutils/topology.py, for histories of calls on ONE topology object. *)
(*                                                                         *)
(* Topology: a box grid, per axis the elements a .. a+n-1 of refinement     *)
(* level lev (element size 2^-lev in root coordinates), optionally with a   *)
(* set of removed elements (SubsetTopology).                                *)
(* Geometry objects:  F1, F2  argument free, two different objects;         *)
(*                    P       depends on arguments (scale, offset, shear).  *)
(* The map is  x = K (o + s * root),  K = [[1, k/2], [0, 1]] (2-D only);    *)
(* all numbers are integers in units of 1/128, scales in units of 1/2.      *)
(*                                                                         *)
(* State: memo (the _asaffine_geom / _asaffine_retval attributes of the     *)
(* topology object), the call history with the results, the last call.      *)
(* Actions Begin (CallFree / CallFreeExtraArgs / CallWithArgs: the caller    *)
(* spells the call: geometry object, arguments, targets) and Run, which is   *)
(* LocateCall(g, hasargs, args, targets) step by step as the code:          *)
(*   fit    := memo if memo.geom is g else _asaffine(g, args)               *)
(*   error  >  tol  -> generic search (any containing element / raise)      *)
(*   store memo  iff  the call has no arguments  (design toggle MemoAlways) *)
(*   any target outside [min, max] of the fitted box -> raise               *)
(*   xi = (x - geom0) / scale; ielem = clamp(floor(xi)); point = xi - ielem *)
(*   SubsetTopology: element removed -> raise                               *)
(*                                                                         *)
(* Property clauses (C11: locate returns, in input order, points whose      *)
(* images are the targets, or else raises):                                 *)
(*   ImageOK         result k is a point whose image under the geometry AT  *)
(*                   THE ARGUMENTS OF THIS CALL is target k                 *)
(*   PickedContains  ... in an element of the topology that contains it     *)
(*   OutsideRaises   a target in no element: the call raises                *)
(*   InsideLocated   (no removed elements) all targets inside: no raise     *)
(*   MemoSound       the memo only ever holds fits of argument-free objects *)
(* Spec mutant MemoAlways = TRUE (fits of argument dependent geometries are *)
(* memoised too) must violate ImageOK.                                      *)
(***************************************************************************)
EXTENDS Integers, Sequences, FiniteSets, TLC, Json

CONSTANTS MaxCalls,     \* length of a history
          MemoAlways,   \* design toggle (spec mutant when TRUE)
          TopoIds,      \* which topologies
          NTargetSets   \* how many of the target sequences are used

VARIABLES topo, memo, hist, last, pend
vars == <<topo, memo, hist, last, pend>>

U == 128
Pow2(l) == IF l = 0 THEN 1 ELSE IF l = 1 THEN 2 ELSE 4
LMin(a, b) == IF a < b THEN a ELSE b
LMax(a, b) == IF a < b THEN b ELSE a
\* floor(x / d) for d # 0
FloorDiv(x, d) == IF d > 0 THEN x \div d ELSE (-x) \div (-d)
ExactDiv(x, d) == IF (IF d > 0 THEN x % d ELSE (-x) % (-d)) = 0 THEN FloorDiv(x, d)
                  ELSE Assert(FALSE, <<"inexact division in the model", x, d>>)

Ax(a, n) == [a |-> a, n |-> n]
AllTopos == {
  [id |-> "line3",   lev |-> 0, axes |-> <<Ax(0, 3)>>,           off |-> {}],
  [id |-> "line4r",  lev |-> 1, axes |-> <<Ax(0, 4)>>,           off |-> {}],     \* 2 root elements, refined
  [id |-> "line2s",  lev |-> 0, axes |-> <<Ax(1, 2)>>,           off |-> {}],     \* elements 1..2 of a longer line
  [id |-> "line4m",  lev |-> 0, axes |-> <<Ax(0, 4)>>,           off |-> {2}],    \* third element removed
  [id |-> "rect32",  lev |-> 0, axes |-> <<Ax(0, 3), Ax(0, 2)>>, off |-> {}],
  [id |-> "rect32r", lev |-> 1, axes |-> <<Ax(1, 3), Ax(0, 2)>>, off |-> {}],     \* refined, then sliced
  [id |-> "rect33m", lev |-> 0, axes |-> <<Ax(0, 3), Ax(0, 3)>>, off |-> {4}] }   \* centre element removed
Topos == {t \in AllTopos : t.id \in TopoIds}
Nd(t) == Len(t.axes)
Flat(t, ie) == IF Nd(t) = 1 THEN ie[1] ELSE ie[1] * t.axes[2].n + ie[2]
Unflat(t, e) == IF Nd(t) = 1 THEN <<e>> ELSE <<e \div t.axes[2].n, e % t.axes[2].n>>
NElems(t) == IF Nd(t) = 1 THEN t.axes[1].n ELSE t.axes[1].n * t.axes[2].n

\* ------------------------------------------------------------------ geometry maps (argument values)
\* s: scale in units of 1/2 per axis, o: offset per axis, k: shear in units of 1/2 (0 in 1-D)
Map(s, o, k) == [s |-> s, o |-> o, k |-> k]
ArgVals(nd) == IF nd = 1
    THEN <<Map(<<2>>, <<0>>, 0), Map(<<4>>, <<-64>>, 0), Map(<<2>>, <<32>>, 0), Map(<<-2>>, <<384>>, 0), Map(<<1>>, <<64>>, 0)>>
    ELSE <<Map(<<2, 2>>, <<0, 0>>, 0), Map(<<4, 4>>, <<-64, -32>>, 0), Map(<<2, 2>>, <<32, 0>>, 0), Map(<<-2, 2>>, <<384, 0>>, 0),
           Map(<<2, 2>>, <<0, 0>>, 1), Map(<<4, 2>>, <<-64, 32>>, 1)>>
Geoms == {"F1", "F2", "P"}
FixedMap(g, nd) == IF g = "F1" THEN ArgVals(nd)[1] ELSE ArgVals(nd)[2]

\* root coordinate (1/128) of local point p of element index ie on axis d
Root(t, d, ie, p) == ((t.axes[d].a + ie) * U + p) \div Pow2(t.lev)
Y(m, d, R) == m.o[d] + (m.s[d] * R) \div 2
\* physical image of the root point R (sequence over axes)
Phys(m, R) == IF Len(R) = 1 THEN <<Y(m, 1, R[1])>>
              ELSE <<Y(m, 1, R[1]) + (m.k * Y(m, 2, R[2])) \div 2, Y(m, 2, R[2])>>
\* image of local point p of (flat) element e
Img(t, m, e, p) == LET ie == Unflat(t, e) IN Phys(m, [d \in 1..Nd(t) |-> Root(t, d, ie[d], p[d])])
\* exact root coordinates of physical point x
Unshear(m, x) == IF Len(x) = 1 THEN x ELSE <<x[1] - ExactDiv(m.k * x[2], 2), x[2]>>
RootOf(m, x) == LET y == Unshear(m, x) IN [d \in 1..Len(x) |-> ExactDiv((y[d] - m.o[d]) * 2, m.s[d])]
\* the closed elements of the topology that contain x, with the local coordinates of x in them
AxisCont(t, d, R) == {[e |-> e, p |-> R * Pow2(t.lev) - (t.axes[d].a + e) * U] :
                         e \in {e \in 0..(t.axes[d].n - 1) : R * Pow2(t.lev) - (t.axes[d].a + e) * U \in 0..U}}
Cont(t, m, x) == LET R == RootOf(m, x) IN
    IF Nd(t) = 1 THEN {[e |-> c.e, p |-> <<c.p>>] : c \in {c \in AxisCont(t, 1, R[1]) : c.e \notin t.off}}
    ELSE {[e |-> Flat(t, <<c[1].e, c[2].e>>), p |-> <<c[1].p, c[2].p>>] :
            c \in {c \in AxisCont(t, 1, R[1]) \X AxisCont(t, 2, R[2]) : Flat(t, <<c[1].e, c[2].e>>) \notin t.off}}

\* ------------------------------------------------------------------ target sequences, input order is not sorted
\* A target is the image of a root point given per axis as <<element, local coordinate>>; element 90 = the last
\* element of the axis, 91 = one beyond it, -1 = one before the first (outside the topology by half an element).
\* The image is taken under the map of the call itself ("own": the target lies where the root point says) or
\* under the first map (the same physical points for every call: where they lie depends on the arguments).
RootSets == <<  << <<90, 128>>, <<0, 0>>, <<1, 0>>, <<0, 32>> >>,     \* upper end of the last element, lower end, element boundary, interior
                << <<90, 96>>, <<0, 64>>, <<1, 32>> >>,               \* interior points, not in element order
                << <<0, 64>>, <<91, 64>>, <<1, 64>> >>,               \* the second one is outside
                << <<1, 96>>, <<0, 128>>, <<90, 0>>, <<0, 96>> >>,    \* element boundaries from the other side
                << <<-1, 64>>, <<1, 0>>, <<90, 128>> >>  >>           \* the first one is outside
OtherAxis(i) == <<2, 4, 1, 1, 2>>[i]
ElemOf(t, d, c) == IF c >= 90 THEN t.axes[d].n - 1 + (c - 90) ELSE c
RootPoints(t, i) == LET sx == RootSets[i]
                        sy == RootSets[OtherAxis(i)]
                        n == LMin(Len(sx), Len(sy))
                    IN IF Nd(t) = 1 THEN [k \in 1..Len(sx) |-> <<Root(t, 1, ElemOf(t, 1, sx[k][1]), sx[k][2])>>]
                       ELSE [k \in 1..n |-> <<Root(t, 1, ElemOf(t, 1, sx[k][1]), sx[k][2]), Root(t, 2, ElemOf(t, 2, sy[k][1]), sy[k][2])>>]
TargetsOf(t, i, m) == LET rp == RootPoints(t, i) IN [k \in 1..Len(rp) |-> Phys(m, rp[k])]

\* ------------------------------------------------------------------ the algorithm
NoFit == [g0 |-> <<>>, sc |-> <<>>, err |-> FALSE]
NoPend == [set |-> FALSE, g |-> "none", hasargs |-> FALSE, m |-> Map(<<>>, <<>>, 0), tsi |-> 0, own |-> FALSE]
NoMemo == [set |-> FALSE, geom |-> "none", dep |-> FALSE, fit |-> NoFit]
\* _asaffine: exact on an affine geometry; the error estimate exceeds every tolerance iff the map is sheared
Asaffine(t, m) == [g0 |-> [d \in 1..Nd(t) |-> Y(m, d, (t.axes[d].a * U) \div Pow2(t.lev))],
                   sc |-> [d \in 1..Nd(t) |-> (m.s[d] * (U \div 2)) \div Pow2(t.lev)],
                   err |-> m.k # 0]
Lo(t, f, d) == LMin(f.g0[d], f.g0[d] + f.sc[d] * t.axes[d].n)
Hi(t, f, d) == LMax(f.g0[d], f.g0[d] + f.sc[d] * t.axes[d].n)
Missing(t, f, x) == \E d \in 1..Nd(t) : x[d] < Lo(t, f, d) \/ x[d] > Hi(t, f, d)
Clamp(v, lo, hi) == LMin(LMax(v, lo), hi)
Place(t, f, x) == LET xi == [d \in 1..Nd(t) |-> FloorDiv((x[d] - f.g0[d]) * U, f.sc[d])]
                      ie == [d \in 1..Nd(t) |-> Clamp(xi[d] \div U, 0, t.axes[d].n - 1)]
                  IN [e |-> Flat(t, ie), p |-> [d \in 1..Nd(t) |-> xi[d] - ie[d] * U]]
Raised == [raised |-> TRUE, pts |-> <<>>]
Structured(t, f, ts) ==
    IF \E k \in 1..Len(ts) : Missing(t, f, ts[k]) THEN Raised
    ELSE LET pts == [k \in 1..Len(ts) |-> Place(t, f, ts[k])]
         IN IF \E k \in 1..Len(ts) : pts[k].e \in t.off THEN Raised      \* SubsetTopology._locate
            ELSE [raised |-> FALSE, pts |-> pts]
\* TransformChainsTopology._locate on an affine geometry: Newton is exact, the first containing element tried wins
Generic(t, m, ts) ==
    IF \E k \in 1..Len(ts) : Cont(t, m, ts[k]) = {} THEN Raised
    ELSE [raised |-> FALSE, pts |-> [k \in 1..Len(ts) |-> CHOOSE c \in Cont(t, m, ts[k]) : TRUE]]

Init == /\ topo \in Topos
        /\ memo = NoMemo
        /\ hist = <<>>
        /\ last = [n |-> 0, m |-> Map(<<>>, <<>>, 0), ts |-> <<>>, res |-> Raised]
        /\ pend = NoPend

\* the caller spells the call ...
Begin(g, hasargs, m, tsi, own) == /\ Len(hist) < MaxCalls /\ ~pend.set
                                 /\ pend' = [set |-> TRUE, g |-> g, hasargs |-> hasargs, m |-> m, tsi |-> tsi, own |-> own]
                                 /\ UNCHANGED <<topo, memo, hist, last>>
\* ... and locate runs
LocateCall(g, hasargs, m, tsi, own) ==
    LET ts == TargetsOf(topo, tsi, IF own THEN m ELSE ArgVals(Nd(topo))[1])
        usememo == memo.set /\ memo.geom = g
        fit == IF usememo THEN memo.fit ELSE Asaffine(topo, m)
        res == IF fit.err THEN Generic(topo, m, ts) ELSE Structured(topo, fit, ts)
        store == ~fit.err /\ (~hasargs \/ MemoAlways)
        rec == [g |-> g, hasargs |-> hasargs, m |-> m, ts |-> ts, tsi |-> tsi, own |-> own, raised |-> res.raised, pts |-> res.pts,
                path |-> (IF usememo THEN "memo" ELSE "fit") \o (IF fit.err THEN "+generic" ELSE "+structured")]
    IN /\ memo' = IF store THEN [set |-> TRUE, geom |-> g, dep |-> g = "P", fit |-> fit] ELSE memo
       /\ hist' = Append(hist, rec)
       /\ last' = [n |-> Len(hist) + 1, m |-> m, ts |-> ts, res |-> res]
       /\ pend' = NoPend
       /\ UNCHANGED topo
Run == pend.set /\ LocateCall(pend.g, pend.hasargs, pend.m, pend.tsi, pend.own)

\* one disjunct per spelling of the call, so that the coverage tells them apart
CallFree == /\ Len(hist) < MaxCalls
            /\ \E g \in {"F1", "F2"}, i \in 1..NTargetSets, own \in BOOLEAN : Begin(g, FALSE, FixedMap(g, Nd(topo)), i, own)
CallFreeExtraArgs == /\ Len(hist) < MaxCalls
                     /\ \E i \in 1..NTargetSets, own \in BOOLEAN : Begin("F1", TRUE, FixedMap("F1", Nd(topo)), i, own)
CallWithArgs == /\ Len(hist) < MaxCalls
                /\ \E a \in 1..Len(ArgVals(Nd(topo))), i \in 1..NTargetSets, own \in BOOLEAN : Begin("P", TRUE, ArgVals(Nd(topo))[a], i, own)
Next == CallFree \/ CallFreeExtraArgs \/ CallWithArgs \/ Run
Spec == Init /\ [][Next]_vars

\* ------------------------------------------------------------------ property clauses
\* (the clauses speak about the call that just returned; states in which the next call is being spelled repeat it)
Returned == last.n > 0 /\ ~pend.set
Located == Returned /\ ~last.res.raised
ImageOK == Located => /\ Len(last.res.pts) = Len(last.ts)
                      /\ \A k \in 1..Len(last.ts) : Img(topo, last.m, last.res.pts[k].e, last.res.pts[k].p) = last.ts[k]
PickedContains == Located => \A k \in 1..Len(last.ts) : last.res.pts[k] \in Cont(topo, last.m, last.ts[k])
OutsideRaises == (Returned /\ \E k \in 1..Len(last.ts) : Cont(topo, last.m, last.ts[k]) = {}) => last.res.raised
InsideLocated == (Returned /\ topo.off = {} /\ \A k \in 1..Len(last.ts) : Cont(topo, last.m, last.ts[k]) # {}) => ~last.res.raised
\* the three clauses above in one formula that computes the containing elements of every target once (what the cfgs check)
Containment == Returned =>
    LET C == [k \in 1..Len(last.ts) |-> Cont(topo, last.m, last.ts[k])]
        outside == \E k \in 1..Len(last.ts) : C[k] = {}
    IN /\ (~last.res.raised => \A k \in 1..Len(last.ts) : last.res.pts[k] \in C[k])      \* PickedContains
       /\ (outside => last.res.raised)                                                    \* OutsideRaises
       /\ ((topo.off = {} /\ ~outside) => ~last.res.raised)                               \* InsideLocated
MemoSound == memo.set => ~memo.dep

Emit(x) == PrintT(<<"VF", ToJson(x)>>)
\* what the replay needs per call: the call, the model's result, whether it must raise, and for every target the
\* elements that contain it (ascending) with the local coordinates of the target
Predict(c) == [g |-> c.g, hasargs |-> c.hasargs, m |-> c.m, ts |-> c.ts, tsi |-> c.tsi, own |-> c.own, raised |-> c.raised, pts |-> c.pts, path |-> c.path,
               mustraise |-> \E k \in 1..Len(c.ts) : Cont(topo, c.m, c.ts[k]) = {},
               cont |-> [k \in 1..Len(c.ts) |-> LET C == Cont(topo, c.m, c.ts[k]) IN
                            [i \in 1..Cardinality(C) |-> CHOOSE b \in C : Cardinality({a \in C : a.e < b.e}) = i - 1]]]
Behaviour == [topo |-> [id |-> topo.id, lev |-> topo.lev, axes |-> topo.axes, off |-> [e \in 1..NElems(topo) |-> (e - 1) \in topo.off]],
              hist |-> [n \in 1..Len(hist) |-> Predict(hist[n])]]
EmitFull == (Len(hist) = MaxCalls /\ ~pend.set) => Emit(Behaviour)
\* exhaustive runs: the histories in which the memo could matter at all -- the same argument dependent geometry object is
\* located twice in a row with different argument values (axis aligned maps: the ones a wrong design would remember and
\* re-use), targets of the second call generated with its own map
MemoRelevant == /\ Len(hist) = MaxCalls /\ MaxCalls >= 2
                /\ LET c1 == hist[MaxCalls - 1]
                       c2 == hist[MaxCalls]
                   IN /\ c1.g = "P" /\ c2.g = "P" /\ c1.m # c2.m /\ c1.m.k = 0 /\ c2.m.k = 0
                      /\ c1.tsi = 1 /\ c1.own /\ c2.tsi = 1 /\ c2.own
                      /\ (MaxCalls > 2 => hist[1].g = "F1" /\ hist[1].tsi = 1 /\ hist[1].own /\ ~hist[1].hasargs)
EmitMemoRelevant == MemoRelevant => Emit(Behaviour)
\* simulation: the stuttering step Done prints the behaviour of the walk that was actually taken (an invariant would
\* also print every successor that the random walk did not choose)
Done == Len(hist) = MaxCalls /\ Emit(Behaviour) /\ UNCHANGED vars
SimSpec == Init /\ [][Next \/ Done]_vars
=============================================================================
