\* spec mutant of the version 1 bookkeeping model (C19): _update_lengths re-points only the two linked lengths to the merged group, the other members keep a stale group: (?u_i + ?v_i)_,i
\* expected: TLC reports an invariant (VerdictAgree / FreeAgree / GroupsAgree) as violated.  Stand-alone:
\*   java -cp tla2tools.jar:CommunityModules-deps.jar tlc2.TLC -deadlock -config ExprV1Parse_mutant_update.cfg MCExprV1Parse.tla
SPECIFICATION Spec
CONSTANTS
  Fams <- OnlyT1
  EmitMin = 0
  Bug = "update-nontransitive"
  Lazy = FALSE
INVARIANT VerdictAgree
INVARIANT FreeAgree
INVARIANT GroupsAgree
INVARIANT InferenceSound
CHECK_DEADLOCK FALSE
