------------------------------ MODULE TailMaps ------------------------------
(***************************************************************************)
(* C11: emits, for every reference of dimension <= 3, every chain of at    *)
(* most N child / edge items starting at that reference together with the  *)
(* affine map the model assigns to it.  These are the "tails" that the     *)
(* S->C replay appends to element chains; their maps are the model's       *)
(* prediction of the remainder returned by index_with_tail.                *)
(***************************************************************************)
EXTENDS TransformChain, Json
CONSTANT N
Refs == {<<>>, <<1>>, <<2>>, <<3>>, <<1, 1>>, <<2, 1>>, <<1, 2>>, <<1, 1, 1>>}
VARIABLE ref
Init == ref \in Refs
Next == FALSE /\ UNCHANGED ref
Spec == Init /\ [][Next]_ref
Emit(x) == PrintT(<<"VF", ToJson(x)>>)
EmitTails == \A t \in TailsOf(ref, N) : Emit([ref |-> ref, t |-> t, map |-> ChainMap(t, TcSum(ref)), fromdims |-> ChainFromDims(t, TcSum(ref))])
=============================================================================
