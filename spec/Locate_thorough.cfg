\* thorough: histories of 3 calls, exhaustive
SPECIFICATION Spec
CONSTANTS
  MaxCalls = 3
  MemoAlways = FALSE
  TopoIds = {"line3", "line4r", "line2s", "line3m", "rect32", "rect32r", "rect22m"}
  NTargetSets = 5
INVARIANT ImageOK
INVARIANT PickedContains
INVARIANT OutsideRaises
INVARIANT InsideLocated
INVARIANT MemoSound
CHECK_DEADLOCK FALSE
