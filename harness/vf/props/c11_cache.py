"""C11 part 4 (S->C): the memo of coordinate maps, spec/ApplyCache.tla.

TLC generates call histories (allocate a buffer -- frozen or writeable, at a fresh or a re-used
address --, take strided / transposed / reversed views, write in place, drop references, apply a
transform item to an array) together with the image the model demands for every call.  The histories
are replayed with real numpy arrays on the real `types.lru_cache` wrapped methods

    apply           Matrix.apply of square and updim items (SimplexChild, TensorChild, SimplexEdge, TensorEdge2)
    invapply        Square.invapply
    transform_poly  Square.transform_poly (coefficients of linear polynomials)
    chain           transform.apply(chain, x) and transform.apply(canonical(chain), x)
    raw             a function decorated with types.lru_cache (inner calls counted: hit / miss / bypass as the model says)

and every result is compared with the exact image (fractions) of the cells the model says the argument
addresses.  After the step that frees a buffer no entry registered on it may remain (NoLeak).
"""

from fractions import Fraction

import numpy

from . import c11_items as ci

NROWS, NCOLS = 4, 2
KINDS = {
    'full': lambda a: a[:], 'even': lambda a: a[::2], 'head': lambda a: a[:2], 'headT': lambda a: a[:2].T,
    'odd': lambda a: a[1::2], 'mid': lambda a: a[1:3], 'tail': lambda a: a[2:], 'rev': lambda a: a[::-1],
}
BINDINGS = ['apply:square', 'apply:updim', 'invapply', 'transform_poly', 'chain', 'raw']


def cell_value(b, ver, cell):
    """content of cell `cell` of buffer b after `ver` writes (dyadic, injective)"""
    return Fraction(cell * 3 + 1, 16) + b + Fraction(ver, 64)


def _solve(A, rhs):
    """exact solution of the square system A y = rhs"""
    n = len(A)
    M = [list(A[r]) + [rhs[r]] for r in range(n)]
    for c in range(n):
        piv = next(r for r in range(c, n) if M[r][c] != 0)
        M[c], M[piv] = M[piv], M[c]
        M[c] = [v / M[c][c] for v in M[c]]
        for r in range(n):
            if r != c and M[r][c] != 0:
                M[r] = [v - M[r][c] * w for v, w in zip(M[r], M[c])]
    return [M[r][n] for r in range(n)]


def _apply_exact(F, rows):
    A, b, m, n = F
    return [[sum(A[r][c] * x[c] for c in range(n)) + b[r] for r in range(m)] for x in rows]


class Binding:
    """two real 'items' (model items 1 and 2), how to call them, the exact oracle, and the cache that serves them"""

    def __init__(self, name):
        from nutils import transform, types
        self.name = name
        self.ncalls = 0
        self.cache = None
        self.tol = 0.
        T = transform
        if name == 'apply:square':
            self.items = [T.SimplexChild(2, 1), T.TensorChild(T.SimplexChild(1, 0), T.SimplexChild(1, 1))]
            self.cache = T.Matrix.apply.cache
            self.call = lambda it, x: it.apply(x)
            self.exact = lambda it, rows: _apply_exact(ci.real_map(it), rows)
        elif name == 'apply:updim':
            self.items = [T.SimplexEdge(3, 1), T.TensorEdge2(1, T.SimplexEdge(2, 0))]
            self.cache = T.Matrix.apply.cache
            self.call = lambda it, x: it.apply(x)
            self.exact = lambda it, rows: _apply_exact(ci.real_map(it), rows)
        elif name == 'invapply':
            self.items = [T.SimplexChild(2, 2), T.TensorChild(T.SimplexChild(1, 1), T.SimplexChild(1, 0))]
            self.cache = T.Square.invapply.cache
            self.call = lambda it, x: it.invapply(x)
            self.tol = 1e-13
            self.exact = self._invapply
        elif name == 'transform_poly':
            self.items = [T.SimplexChild(1, 0), T.SimplexChild(1, 1)]
            self.cache = T.Square.transform_poly.cache
            self.call = lambda it, x: it.transform_poly(x)
            self.exact = self._poly
        elif name == 'chain':
            chains = [(T.SimplexChild(3, 2), T.SimplexEdge(3, 0), T.SimplexChild(2, 1), T.SimplexChild(2, 1)),
                      ci.chain_to_real([ci.TC(ci.SC(1, 0), ci.TC(ci.SC(1, 1), ci.SC(1, 0))), ci.T1(ci.SE(1, 0), 2), ci.TC(ci.SC(1, 1), ci.SC(1, 0))])]
            self.items = chains
            self.canon = {id(c): T.canonical(c) for c in chains}
            self.call = self._chain
            self.exact = lambda ch, rows: _apply_exact(ci.real_chain_map(ch, 2), rows)
        elif name == 'raw':
            def inner(tag, points):
                self.ncalls += 1
                return types.frozenarray(numpy.asarray(points) * 2 + tag, copy=True)
            self.wrapped = types.lru_cache(inner)
            self.items = [1, 2]
            self.cache = self.wrapped.cache
            self.call = self.wrapped
            self.exact = lambda tag, rows: [[2 * v + tag for v in x] for x in rows]
        else:
            raise ValueError(name)

    @staticmethod
    def _invapply(it, rows):
        A, b, m, n = ci.real_map(it)
        return [_solve(A, [x[r] - b[r] for r in range(m)]) for x in rows]

    @staticmethod
    def _poly(it, rows):
        # nutils_poly: p(x) = c[0] x + c[1]; p(a xi + b) = c[0] a xi + (c[0] b + c[1])
        A, b, m, n = ci.real_map(it)
        return [[c[0] * A[0][0], c[0] * b[0] + c[1]] for c in rows]

    def _chain(self, chain, x):
        from nutils import transform
        r1 = numpy.asarray(transform.apply(chain, x))
        r2 = numpy.asarray(transform.apply(self.canon[id(chain)], x))
        if r1.shape != r2.shape or abs(r1 - r2).max() > 1e-15:
            raise CanonicalDiffers(r1, r2)
        return r1

    def entries_in(self, lo, hi):
        """cache entries of this binding's items whose array argument starts inside [lo, hi)"""
        n = 0
        for key in list(self.cache):
            if len(key) == 2 and key[0][1] in self.items and isinstance(key[1][0], tuple) and lo <= key[1][0][0] < hi:
                n += 1
        return n


class CanonicalDiffers(Exception):
    pass


_bindings = {}


def binding(name):
    if name not in _bindings:
        _bindings[name] = Binding(name)
    return _bindings[name]


def _ptr(a):
    return a.__array_interface__['data'][0]


def _new_buffer(b, wr, origin, want_ptr):
    """the owner array of model buffer b; returns (array, reuse_achieved or None)

    when the model re-uses the address of a destroyed buffer the allocation is repeated until numpy hands out
    the same pointer again (its small-block cache normally does so at once); nothing else is allocated before"""
    from nutils import types
    rejected = []
    for attempt in range(12):
        a = numpy.empty((NROWS, NCOLS), dtype=float)
        if want_ptr is None or _ptr(a) == want_ptr:
            break
        rejected.append(a)
    del rejected
    for r in range(NROWS):
        for c in range(NCOLS):
            a[r, c] = float(cell_value(b, 0, r * NCOLS + c))
    if not wr and origin == 'arraydata':
        return numpy.asarray(types.arraydata(a)), None
    if not wr:
        a.flags.writeable = False
    return a, (None if want_ptr is None else _ptr(a) == want_ptr)


def _root(a):
    while isinstance(a.base, numpy.ndarray):
        a = a.base
    return a


def _on_buffer(arrays, rng):
    return next(arrays[v] for v in sorted(arrays) if rng[0] <= _ptr(arrays[v]) < rng[1])


def _floats(rows):
    return numpy.array([[float(v) for v in row] for row in rows])


def _call(bind, item, x):
    return numpy.asarray(bind.call(item, x))


def replay(job):
    """job = dict(hist=[ops], binding=name, origin='flags'|'arraydata', vers={step: version}); returns dict(fails=[(key, what, detail)], stats)

    no local name may keep an array alive across steps: the model decides when a buffer dies"""
    bind = binding(job['binding'])
    origin = job['origin']
    arrays = {}       # model view id -> real array
    ranges = {}       # model buffer id -> (lo, hi) of its bytes
    addr_ptr = {}     # model address -> real pointer of the last buffer that lived there
    seen = []         # (exact image as floats, description), for the diagnosis of a wrong result
    fails = []
    stats = dict(calls=0, reuse_wanted=0, reuse_achieved=0, hits=0, frees=0)
    for n, op in enumerate(job['hist']):
        kind = op['op']
        if kind == 'alloc':
            want_ptr = addr_ptr.get(op['addr'])
            arrays[op['v']], reused = _new_buffer(op['b'], op['flag'], origin, want_ptr)
            if reused is not None:
                stats['reuse_wanted'] += 1
                stats['reuse_achieved'] += bool(reused)
            lo = _ptr(arrays[op['v']])
            ranges[op['b']] = (lo, lo + NROWS * NCOLS * 8)
            addr_ptr[op['addr']] = lo
        elif kind == 'view':
            arrays[op['v']] = KINDS[op['kind']](_root(_on_buffer(arrays, ranges[op['b']])))
            if op['flag'] and arrays[op['v']].flags.writeable:
                arrays[op['v']].flags.writeable = False
            assert arrays[op['v']].flags.writeable == (not op['flag'])
        elif kind == 'mutate':
            _root(_on_buffer(arrays, ranges[op['b']]))[...] = [[float(cell_value(op['b'], job['vers'][n], r * NCOLS + c)) for c in range(NCOLS)] for r in range(NROWS)]
        elif kind == 'drop':
            del arrays[op['v']]
            if op['flag']:     # the model says the buffer dies here
                stats['frees'] += 1
                if bind.cache is not None:
                    left = bind.entries_in(*ranges[op['b']])
                    if left:
                        fails.append(('applycache:entry-survives-its-buffer', '{}: {} cache entries remain for a destroyed buffer'.format(bind.name, left),
                                      dict(step=n)))
                        break
        elif kind == 'call':
            item = bind.items[op['t'] - 1]
            t, val = op['want']
            want = _floats(bind.exact(item, [[cell_value(val['buf'], val['ver'], c) for c in row] for row in val['cells']]))
            desc = 'array {} (view {}) of step {}'.format(op['v'], op['kind'], n)
            stats['calls'] += 1
            stats['hits'] += op['how'] == 'hit'
            before = bind.ncalls
            try:
                got = _call(bind, item, arrays[op['v']])
            except CanonicalDiffers:
                fails.append(('applycache:chain:canonical-changes-the-map', 'apply(canonical(chain), x) != apply(chain, x) after the history', dict(step=n, how=op['how'])))
                break
            except Exception as e:
                fails.append(('applycache:{}:raises-{}'.format(bind.name, type(e).__name__), repr(e), dict(step=n, how=op['how'])))
                break
            if got.shape != want.shape or not (abs(got - want) <= bind.tol).all():
                other = [d for img, d in seen if img.shape == got.shape and (abs(img - got) <= bind.tol).all()]
                key = 'applycache:{}:image-of-another-argument'.format(bind.name) if other else 'applycache:{}:wrong-image'.format(bind.name)
                fails.append((key, '{}: the model ({}) demands the image of the argument passed, the code returned {}'.format(
                    bind.name, op['how'], 'the image of ' + other[-1] if other else 'something else'),
                    dict(step=n, how=op['how'], got=got.tolist(), want=want.tolist())))
                break
            seen.append((want, desc))
            if bind.name == 'raw':
                called = bind.ncalls - before
                if called != (op['how'] != 'hit'):
                    fails.append(('applycache:raw:{}-but-function-{}'.format(op['how'], 'called' if called else 'not-called'),
                                  'model says {} but the wrapped function was {}called'.format(op['how'], '' if called else 'not '), dict(step=n)))
                    break
            del got
    arrays.clear()
    return dict(fails=fails, stats=stats)


def prepare(hist):
    """content version of the buffer after every mutate step (the model only logs the op)"""
    vers, cur = {}, {}
    for n, op in enumerate(hist):
        if op['op'] == 'alloc':
            cur[op['b']] = 0
        elif op['op'] == 'mutate':
            cur[op['b']] += 1
            vers[n] = cur[op['b']]
    return vers


def replay_chunk(jobs):
    out = []
    for job in jobs:
        job = dict(job, vers=prepare(job['hist']))
        out.append(replay(job))
    return dict(res=out)
