SPECIFICATION Spec
CONSTANTS
  MaxNodes = 12
  MaxOps = 7
  MaxLeaves = 5
  Ops <- AllOps
  LeafSet <- AllLeaves
  EmitMin = 3
INVARIANT ShapeSound
CONSTRAINT EmitComplete
CHECK_DEADLOCK FALSE
