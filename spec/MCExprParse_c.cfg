SPECIFICATION Spec
CONSTANTS
  MaxLeaves = 1
  MaxOps = 2
  MaxStack = 1
  VarSet <- VarsC
  NumSet <- NoStrings
  FuncSet <- NoStrings
  Toks <- ToksC
  GToks <- NoStrings
  IntExps <- ExpsB
  Wraps <- WrapsB
  Muts <- NoStrings
  Cors <- NoStrings
  Styles <- NoStrings
  EmitMin = 0
  Bug = ""
INVARIANT VerdictAgree
INVARIANT FreeAgree
INVARIANT MeaningAgree
INVARIANT RenderBalanced
INVARIANT Unbalanced
CONSTRAINT EmitComplete
CONSTRAINT EmitTables
CHECK_DEADLOCK FALSE
