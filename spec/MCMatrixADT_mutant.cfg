\* spec mutant = the pinned implementation (numpy.greater_equal, no lower bound on colidx):
\* TLC must report AcceptIffValid violated (non-vacuity of the invariant)
SPECIFICATION Spec
CONSTANTS
  Forms = {"csrwild"}
  Shapes <- Shapes2
  MinNnz = 0
  MaxNnz = 3
  WildM = 1
  WildN = 1
  WildCooN = 1
  WildNnz = 2
  BlockHeights = {0, 1}
  BlockWidths = {0, 1}
  MaxBlockRows = 1
  MaxBlockCols = 1
  MaxBlockNnz = 1
  Dtypes = {"f", "c"}
  WildDtypes = {"f"}
  Ops = {}
  OpForms = {"csrwild"}
  MaxSteps = 0
  MaxE = 2
  StrictOrder = FALSE
  LowerBound = FALSE
  CacheCopies = TRUE
INVARIANT AcceptIffValid
CHECK_DEADLOCK FALSE
