"""C01 -- Simplification terminates and preserves the value of every expression.

Deciding method: programs are the behaviours of the TLA+ state machine
ExprBuilder (typed DAG construction; TLC exhaustive for small bounds,
-simulate beyond); their meaning is given by the TLA+ reference semantics
ArraySem, evaluated by TLC (EvalDag).  Binding:
  S->C  every generated program is built with nutils' raw constructors,
        simplified under a watchdog and evaluated; shape, dtype and values are
        compared with the model's values at three argument assignments;
  C->S  every rewrite step (obj -> retval) performed by the real fixed-point
        driver is recorded, exported back to DAG JSON and TLC decides with the
        ArraySem semantics whether the step preserved the value
        (PairVerdict); the first value-changing step is the root-cause key.
"""

import random

from .. import dag, exprs, tlc

LEVEL = 'model_checking'

STEP_BUDGET = 20000

# directed exhaustive families: tiny vocabularies in which the swap rules of the simplifier interact.
# quick: every program of every family is replayed (ops <= 2, one family with 3); thorough: one more level.
def families(quick):
    d = 2 if quick else 3
    dx = 2     # extended vocabulary: depth 2 in both tiers (the thorough tier enlarges the leaf sets and the replayed sample)
    return {
        'power': dict(Ops='{"Power"}', LeafSet='{3, 10, 32, 35}' if quick else '{3, 9, 10, 32, 35, 36}', MaxOps=d, MaxNodes=d + 3, MaxLeaves=3),
        'powabs': dict(Ops='{"Power","Absolute","Multiply","IntToFloat"}', LeafSet='{3, 9, 27}', MaxOps=d, MaxNodes=d + 3, MaxLeaves=3),
        'diag': dict(Ops='{"Diagonalize","Take","Inflate","Multiply","TakeDiag"}', LeafSet='{1, 13, 14}', MaxOps=d, MaxNodes=d + 3, MaxLeaves=3),
        'loopsum': dict(Ops='{"LoopSum","Inflate","Multiply"}' if quick else '{"LoopSum","LoopConcat","Inflate","Multiply","Take","Add"}', LeafSet='{22}' if quick else '{1, 13, 22}', MaxOps=3, MaxNodes=5 if quick else 6, MaxLeaves=2 if quick else 3),
        'choose': dict(Ops='{"TakeDiag","Choose","Transpose","InsertAxis"}', LeafSet='{2, 25, 29}' if quick else '{2, 25, 28, 29}', MaxOps=d, MaxNodes=d + 3, MaxLeaves=3),
        'ravel': dict(Ops='{"Ravel","Unravel","Transpose","Sum","Take","Inflate"}', LeafSet='{2, 13}' if quick else '{2, 13, 25, 28}', MaxOps=d, MaxNodes=d + 3, MaxLeaves=2 if quick else 3),
        'leaves': dict(Ops='{"Negative","Sum","Take","InsertAxis","Transpose","IntToFloat","BoolToInt","LogicalNot","Absolute","Inflate","Diagonalize"}', LeafSet='AllLeaves', MaxOps=1 if quick else 2, MaxNodes=3 if quick else 4, MaxLeaves=2),
        'boolinflate': dict(Ops='{"Inflate","BoolToInt","IntToFloat","Add","LogicalNot","Sum"}', LeafSet='{6, 13, 14}' if quick else '{6, 13, 14, 18}', MaxOps=d, MaxNodes=d + 3, MaxLeaves=3),
        'suminflate': dict(Ops='{"Sum","Inflate","Multiply","Add","InsertAxis"}', LeafSet='{1, 13, 14}', MaxOps=d, MaxNodes=d + 3, MaxLeaves=3),
        'core': dict(Ops='CoreOps', LeafSet='{1, 2, 13}' if quick else '{1, 2, 9, 10, 13, 14, 22}', MaxOps=2, MaxNodes=4 if quick else 5, MaxLeaves=2 if quick else 3),
        # ---- complex dtype: the _real / _imag / _conjugate swap rules, casts, complex arithmetic and structure
        'cxparts': dict(Ops='{"FloatToComplex","Real","Imag","Conjugate","Multiply","Add","Negative"}', LeafSet='{1, 41}' if quick else '{1, 7, 41, 44, 50}', MaxOps=dx, MaxNodes=dx + 3, MaxLeaves=3),
        'cxpow': dict(Ops='{"Power","Conjugate","Multiply","Reciprocal","Absolute","Real"}', LeafSet='{42, 45, 47}' if quick else '{42, 45, 46, 47, 48, 52}', MaxOps=dx, MaxNodes=dx + 3, MaxLeaves=3),
        'cxstruct': dict(Ops='{"Inflate","Take","Diagonalize","TakeDiag","Sum","Product","Conjugate","Imag","InsertAxis","Transpose"}', LeafSet='{41, 13}' if quick else '{41, 43, 13, 14}', MaxOps=dx, MaxNodes=dx + 3, MaxLeaves=3),
        'cxlin': dict(Ops='{"Determinant","Inverse","Conjugate","Multiply","Real","FloatToComplex","LoopSum","Take"}', LeafSet='{43, 49, 22}' if quick else '{2, 43, 49, 22}', MaxOps=dx, MaxNodes=dx + 3, MaxLeaves=3),
        # ---- Einsum, polynomials, search / unique, loop dependent axis lengths, argument dependent loop length
        'einsum': dict(Ops='{"Einsum","Transpose","InsertAxis"}' if quick else '{"Einsum","Transpose","InsertAxis","Multiply","Sum"}', LeafSet='{1, 2}' if quick else '{1, 2, 12, 13, 17}', MaxOps=dx, MaxNodes=dx + 3, MaxLeaves=3),
        'poly': dict(Ops='{"Polyval","PolyMul","PolyGrad","Legendre","InsertAxis"}' if quick else '{"Polyval","PolyMul","PolyGrad","Legendre","InsertAxis","Take","Multiply"}',
                     LeafSet='{1, 30, 53}' if quick else '{1, 2, 13, 26, 30, 53, 57}', MaxOps=dx, MaxNodes=dx + 3, MaxLeaves=3),
        'polycount': dict(Ops='{"PolyDegree","PolyNCoeffs","Take"}', LeafSet='{16, 56}' if quick else '{16, 22, 39, 56}', MaxOps=2 if quick else 3, MaxNodes=5, MaxLeaves=2),
        'search': dict(Ops='{"SearchSorted","ArgSort","UniqueMask","UniqueInverse","SizesToOffsets","CompressIndices","Take"}', LeafSet='{15, 24, 27}' if quick else '{4, 5, 15, 21, 24, 27, 37, 39}', MaxOps=dx, MaxNodes=dx + 3, MaxLeaves=3),
        'dyn': dict(Ops='{"MacroLenTab","RangeN","InsertAxisN","LoopConcat","LoopSum","Take","Inflate"}' if quick else '{"MacroLenTab","RangeN","InsertAxisN","LoopConcat","LoopSum","Take","Inflate","IntToFloat","Multiply"}',
                    LeafSet='{4}' if quick else '{1, 4, 8}', MaxOps=4, MaxNodes=8, MaxLeaves=3),
        'arglen': dict(Ops='{"MacroArgLoop","LoopSumN","IntToFloat","Take","Multiply"}' if quick else '{"MacroArgLoop","LoopSumN","IntToFloat","Multiply","Take","Inflate"}',
                       LeafSet='{7, 15}' if quick else '{1, 7, 15, 39}', MaxOps=5, MaxNodes=8, MaxLeaves=3),
        'monomial': dict(Ops='{"Monomial","Take","Multiply"}' if quick else '{"Monomial","Take","Multiply","Inflate","Sum"}', LeafSet='{1, 3, 13, 30}' if quick else '{1, 3, 4, 13, 15, 30, 39}', MaxOps=dx, MaxNodes=dx + 3, MaxLeaves=3),
        'inflate3': dict(Ops='{"Inflate","Transpose","Multiply","Negative"}', LeafSet='{59, 60}', MaxOps=2 if quick else 3, MaxNodes=5 if quick else 6, MaxLeaves=3),
        'uvc': dict(Ops='{"MacroUVC","Multiply","Negative"}' if quick else '{"MacroUVC","Multiply","Negative","Add","Transpose"}', LeafSet='{8}', MaxOps=7 if quick else 8, MaxNodes=13, MaxLeaves=6),
    }


# families over the extended vocabulary: generated exhaustively like the others, replayed on a sample (110 quick / 800 thorough per family)
EXTENDED = ('cxparts', 'cxpow', 'cxstruct', 'cxlin', 'einsum', 'poly', 'polycount', 'search', 'dyn', 'arglen', 'monomial', 'inflate3', 'uvc')


def _steps_hook():
    """wrap the fixed-point driver's rewrite function to record steps"""
    from nutils import evaluable as ev
    prop = ev.Evaluable.__dict__['simplified']
    orig = prop.func
    log = []

    def func(obj):
        r = orig(obj)
        log.append((obj, r))
        if len(log) > STEP_BUDGET:
            raise exprs.Timeout()
        return r
    prop.func = func
    return prop, orig, log


def sig(x):
    return type(x).__name__


def step_key(obj, ret):
    return 'rewrite:{}<-({})->{}'.format(sig(obj), ','.join(sig(d) for d in obj.dependencies), sig(ret))


def loop_key(msg, log):
    '''root-cause signature of a rewrite cycle: class at which the driver detected the loop plus the
    classes that were actually rewritten (retval is not obj) inside the cycle'''
    cls = msg.split('.')[0].split()[-1]
    start = None
    for o, r in reversed(log):
        if r is not o and type(r).__name__ == cls:
            for j, (o2, r2) in enumerate(log):
                if o2 is r:
                    start = j
                    break
            if start is not None:
                break
    steps = log[start:] if start is not None else log[-30:]
    noise = {'Transpose', 'InsertAxis', 'Constant', 'Range', 'Zeros', 'Argument', 'InRange', 'IntToFloat', 'BoolToInt'}
    classes = sorted({sig(o) for o, r in steps if r is not o} - noise)
    return 'loop:{}:{}'.format(cls, '+'.join(classes))


def replay_one(item):
    """runs in a worker process; returns dict with outcome"""
    import numpy
    import warnings
    warnings.simplefilter('ignore')
    from nutils import evaluable as ev
    nodes, expected = item[:2]
    tmo = item[2] if len(item) > 2 else 10
    out = dict(status='ok', steps=[], nsteps=0)
    arrs = dag.build(nodes)
    root = arrs[-1]
    rdt = nodes[-1]['dt']
    # model values of the root per env
    model = []
    for proj in expected['vals']:
        v, bad, _, _ = dag.arr_value(proj)
        model.append(None if bad else v)
    out['defined'] = sum(m is not None for m in model)
    # unsimplified evaluation (the "original")
    try:
        f0 = exprs.with_timeout(20, ev.compile, root, _simplify=False, _optimize=False, stats=False)
        orig_vals = []
        for e, env in enumerate(dag.ENVS):
            try:
                with numpy.errstate(all='ignore'):
                    orig_vals.append(numpy.asarray(f0(dag.env_arrays(env))))
            except Exception as ex:
                orig_vals.append(ex)
    except BaseException as ex:
        out.update(status='orig-compile-failed', exc=repr(ex))
        return out
    for e, m in enumerate(model):
        if m is not None and not isinstance(orig_vals[e], Exception) and not dag.matches(m, orig_vals[e], rdt):
            out.update(status='oracle-disagrees', env=e, got=numpy.asarray(orig_vals[e]).tolist(), want=[str(x) for x in m.ravel()])
            return out
    # simplification under watchdog, recording steps
    prop, orig, log = _steps_hook()
    try:
        try:
            s = exprs.with_timeout(tmo, lambda: root.simplified)
        finally:
            prop.func = orig
    except exprs.Timeout:
        classes = sorted({sig(o) for o, r in log[-200:]})
        out.update(status='nonterm', key='nonterm:' + '+'.join(classes), detail='simplification did not finish within 10 s / {} driver steps'.format(STEP_BUDGET))
        return out
    except RecursionError:
        classes = sorted({sig(o) for o, r in log[-200:]})
        out.update(status='nonterm', key='recursion:' + '+'.join(classes), detail='RecursionError')
        return out
    except Exception as ex:
        msg = str(ex)
        if 'caught in a loop' in msg:
            out.update(status='nonterm', key=loop_key(msg, log), detail=msg[:200])
        else:
            out.update(status='exception', key='exception:{}:{}'.format(type(ex).__name__, sig(log[-1][0]) if log else '?'), detail=repr(ex)[:300])
        return out
    out['nsteps'] = sum(1 for o, r in log if r is not o)
    # export steps for C->S validation
    steps = []
    for o, r in log:
        if r is o or not isinstance(o, ev.Array):
            continue
        try:
            prog, pos = dag.export([o, r])
            steps.append(dict(prog=prog, a=pos[0], b=pos[1], key=step_key(o, r)))
        except dag.Unsupported as ex:
            steps.append(dict(prog=None, key=step_key(o, r), why=str(ex)))
        except Exception as ex:
            steps.append(dict(prog=None, key=step_key(o, r), err=repr(ex)))
    out['steps'] = steps
    # shape / dtype
    try:
        ssh = [dag.const_int(n) for n in s.shape]
    except Exception:
        ssh = None
    if s.dtype != root.dtype or s.ndim != root.ndim or (ssh is not None and ssh != nodes[-1]['sh']):
        out.update(status='mismatch', what='shape/dtype changed: {} {} -> {} {}'.format(nodes[-1]['sh'], root.dtype, ssh, s.dtype))
        return out
    # fixed point
    try:
        s2 = exprs.with_timeout(10, lambda: s.simplified)
        if s2 is not s:
            out['not_fixed_point'] = True
    except BaseException as ex:
        out['not_fixed_point'] = repr(ex)
    # evaluation of the simplified form
    try:
        f1 = exprs.with_timeout(20, ev.compile, s, _simplify=False, _optimize=False, stats=False)
    except exprs.Timeout:
        # the simplification itself has terminated; the time compile() takes is not the subject of C01 (a starved worker on
        # an overloaded machine ends up here): counted, not judged
        out.update(status='compile-timeout')
        return out
    except BaseException as ex:
        out.update(status='exception', key='exception:compile-simplified:' + type(ex).__name__, detail=repr(ex)[:300])
        return out
    for e, env in enumerate(dag.ENVS):
        m = model[e]
        if m is None or isinstance(orig_vals[e], Exception):
            continue
        try:
            with numpy.errstate(all='ignore'):
                got = numpy.asarray(f1(dag.env_arrays(env)))
        except Exception as ex:
            out.update(status='mismatch', what='simplified form raises {} where the original evaluates'.format(type(ex).__name__), env=e)
            return out
        if got.dtype.kind != numpy.asarray(orig_vals[e]).dtype.kind or not dag.matches(m, got, rdt):
            out.update(status='mismatch', what='values differ', env=e, got=got.tolist(), want=[str(x) for x in m.ravel()])
            return out
    return out


_shrink_cache = {}


def outcome_labels(progs, tmo=4):
    jobs = [(p, [dict(env=env, node=len(p)) for env in dag.ENVS], []) for p in progs]
    results, _ = dag.evaluate(jobs, tag='c01-shrink')
    items = [(p, r, tmo) for p, r in zip(progs, results)]
    outs = exprs.pmap(replay_one, [it for it in items if it[1] is not None])
    it = iter(outs)
    return [next(it).get('status', 'harness') if r is not None else 'noeval' for p, r, _ in items]


def shrink_failure(p, status):
    c = exprs.canon(p)
    if c not in _shrink_cache:
        _shrink_cache[c] = exprs.shrink(p, outcome_labels, status)
    return _shrink_cache[c]


def run(rep):
    import time
    t0 = time.time()
    def lap(name):
        rep.notes.append('{}: {:.1f}s'.format(name, time.time() - t0))
    rng = random.Random(rep.seed)
    rngx = random.Random(rep.seed + 1717)     # own stream for the extended vocabulary: the base sample does not depend on it
    quick = rep.tier == 'quick'
    fams = families(quick)
    names = list(fams)
    per = exprs.generate_multi(rep, 'c01-families', [fams[n] for n in names], EmitMin=1, exhaustive=True, timeout=3000)
    sel = []
    for n, fp in zip(names, per):
        rep.constants['family:' + n] = len(fp)
        if n in EXTENDED:
            sel += exprs.select(fp, 110 if quick else 800, rngx)
        else:
            sel += [q for q in fp if not dag.unstable(q)] if quick else exprs.select(fp, 8000, rng)
    nexh = len(sel)
    # simulate: full vocabulary, deeper, with sharing
    sims = exprs.generate(rep, 'c01-sim', MaxNodes=12, MaxOps=7, MaxLeaves=5, EmitMin=3, simulate=200 if quick else 4000, depth=13, seed=rep.seed + 1)
    # the same over the extended vocabulary (complex dtype, ...); kept separate so that the base sample is unchanged
    simx = exprs.generate(rep, 'c01-simx', MaxNodes=11, MaxOps=6, MaxLeaves=5, EmitMin=3, Ops='FullOps', LeafSet='FullLeaves', simulate=100 if quick else 3000, depth=12, seed=rep.seed + 2)
    simx = [p for p in simx if any(mark(p) for mark in exprs.EXT_MARK.values())]
    lap('generated')
    sel += exprs.select(sims, 300 if quick else 6000, rng, need_arg=True)
    sel += exprs.select(simx, 120 if quick else 2000, rngx, need_arg=True)
    # witnesses of recorded findings are always replayed (deterministic KNOWN-FINDING lines; a fixed one must pass)
    from ..report import load_known
    for kf in load_known():
        if kf.get('property') == 'C01' and kf.get('program'):
            sel.append([dict(op=n[0], d=n[1], p=n[2], sh=n[3], dt=n[4], ix=0, cl=True) for n in kf['program']])
    rep.constants['ExprBuilder'] = dict(exhaustive_family_programs=nexh, simulate_programs=len(sims), simulate_extended_programs=len(simx), selected=len(sel))
    jobs = [(p, [dict(env=env, node=len(p)) for env in dag.ENVS], []) for p in sel]
    results, stats = dag.evaluate(jobs, tag='c01-eval')
    for st in stats:
        rep.add_tlc(st)
    lap('model values')
    items = [(p, r) for p, r in zip(sel, results) if r is not None]
    rep.skip('model could not evaluate', len(sel) - len(items))
    outs = exprs.pmap(replay_one, items)
    lap('replayed')
    # C->S: validate recorded rewrite steps with TLC
    stepjobs = []
    owners = []
    for i, o in enumerate(outs):
        if 'harness_error' in o:
            raise RuntimeError(o['harness_error'])
        for st in o.get('steps', []):
            if st['prog'] is None:
                rep.skip('rewrite step outside the model vocabulary')
                w = rep.extra.setdefault('unsupported_in_steps', {})
                w[st.get('why', st.get('err', '?'))] = w.get(st.get('why', st.get('err', '?')), 0) + 1
                continue
            evals = [dict(env=env, node=st['a'], lenv=lenv) for env in dag.ENVS for lenv in ([0, 0], [1, 2])]
            stepjobs.append((st['prog'], evals, [(st['a'], st['b'])]))
            owners.append((i, st['key']))
    sres, sstats = dag.evaluate(stepjobs, tag='c01-steps')
    for st in sstats:
        rep.add_tlc(st)
    lap('steps validated')
    badsteps = {}
    nsteps_ok = 0
    for (i, key), r in zip(owners, sres):
        if r is None:
            rep.skip('rewrite step not evaluable by the model')
            continue
        v = r['verdicts'][0]
        if v in ('differ', 'shape'):
            badsteps.setdefault(i, key)
        elif v == 'same':
            nsteps_ok += 1
        else:
            rep.skip('rewrite step undefined in the model at all environments')
    rep.extra['rewrite_steps_validated'] = nsteps_ok
    for i, ((p, _), o) in enumerate(zip(items, outs)):
        sigp = exprs.canon(p)
        rep.case(sigp, nontrivial=o.get('nsteps', 0) >= 1)
        st = o['status']
        if st == 'ok':
            if o.get('defined', 0) == 0:
                rep.skip('model value undefined at all environments')
            else:
                rep.traces += 1
            if i in badsteps:
                rep.violation(badsteps[i], 'a rewrite step changes the value (end result happened to agree at the sampled arguments)', dict(program=p, step=badsteps[i]))
            if o.get('not_fixed_point'):
                rep.violation('not-fixed-point:' + p[-1]['op'], 'simplified form is not a fixed point of simplification', dict(program=p, detail=o['not_fixed_point']))
        elif st == 'oracle-disagrees':
            # unsimplified evaluation differs from the model: not a C01 verdict (C02 judges evalf); never judged here
            rep.skip('unsimplified evaluation differs from model (judged by C02)')
            rep.extra.setdefault('oracle_disagreements', []).append(dict(program=p, got=o.get('got'), want=o.get('want')))
        elif st == 'orig-compile-failed':
            rep.skip('original program does not compile unsimplified (judged by C02)')
        elif st == 'compile-timeout':
            rep.skip('compiling the simplified form exceeded the watchdog (not judged)')
        elif st == 'exception' and o.get('defined', 0) == 0:
            # the program violates a constructor's contract at every environment (e.g. InRange of an index that is certainly
            # out of range: the model value is undefined everywhere); an assertion tripping over it is not judged
            rep.skip('simplification raised on a program whose model value is undefined at all environments')
        elif st in ('nonterm', 'exception'):
            # confirm in this (serial) process with a three times larger budget: a watchdog that fired in a starved worker
            # of an overloaded machine must not become a verdict
            if o.get('detail', '').startswith('simplification did not finish') or 'Timeout' in o.get('key', ''):
                o2 = replay_one((p, items[i][1], 30))
                if o2['status'] != st:
                    rep.skip('watchdog fired in a worker but the outcome was not reproduced serially (not judged)')
                    continue
            small = shrink_failure(p, st)
            key = '{}:{}'.format('nonterm' if st == 'nonterm' else o['key'].rsplit(':', 1)[0], exprs.skeleton(small))
            rep.violation(key, ('simplification does not terminate: ' if st == 'nonterm' else 'simplification raises: ') + o['detail'],
                          dict(program=p, minimal=[[n['op'], n['d'], n['p'], n['sh'], n['dt']] for n in small], detail_key=o['key']))
        elif st == 'mismatch':
            key = badsteps.get(i)
            small = None
            if key is None:
                small = shrink_failure(p, st)
                key = 'value:' + exprs.skeleton(small)
            rep.violation(key, 'simplified expression differs from the original: ' + o['what'],
                          dict(program=p, env=o.get('env'), got=o.get('got'), want=o.get('want'), minimal=small and [[n['op'], n['d'], n['p'], n['sh'], n['dt']] for n in small]))
    for p in sel[:3]:
        rep.sample([[n['op'], n['d'], n['p'], n['sh'], n['dt']] for n in p])
    rep.rule = ('programs = complete states of the ExprBuilder TLA+ machine (distinct canonical node lists); non-trivial = the real '
                'simplifier performed at least one rewrite step on it')
    rep.assumptions += ['ArraySem.tla is the reference semantics (transcendental functions, Eig are outside the vocabulary; complex Power only with integer-valued exponents, complex Absolute only where exact)',
                        'inputs are small integers so that float arithmetic is exact up to rtol 1e-9',
                        'model-undefined values (division by zero, roots of non-squares, magnitude cap) are skipped, never judged']
