----------------------------- MODULE BasisNodal -----------------------------
(***************************************************************************)
(* C12 -- C0 bases on unstructured simplex meshes: SimplexTopology         *)
(* basis_std / basis_bubble, TransformChainsTopology._basis_c0_structured  *)
(* (bernstein, lagrange) and basis_discont.                                *)
(*                                                                         *)
(* A mesh is a sequence of simplices, each an increasing tuple of D+1      *)
(* vertex numbers.  A function of degree p on a simplex belongs to a node  *)
(* of the lattice of order p: integer barycentric weights summing to p.    *)
(* The position of a node is the set of <<vertex, weight>> pairs with      *)
(* positive weight, so the same point seen from two simplices has the same *)
(* position.  The C0 basis identifies the nodes of neighbouring elements   *)
(* (elements sharing a facet) that have the same position; classes of      *)
(* module Basis (GlueOp) number the resulting functions.  Degree 1 'std'   *)
(* and 'bubble' are built from the vertex numbers directly: nodes with     *)
(* the same position are the same function wherever they are.              *)
(* Mesh construction is an action (AddSimplex) so that TLC enumerates      *)
(* every small mesh, including irregular ones (fans, strips, pinched and   *)
(* disconnected meshes, closed surfaces).                                  *)
(***************************************************************************)
EXTENDS Basis, TLC

CONSTANTS MaxV,          \* vertices 0..MaxV-1
          MaxSimp,       \* simplices per mesh
          DimSet,        \* dimensions D
          BuildSet,      \* <<kind, degree>> pairs offered
          AnyOrder       \* FALSE: simplices are added in increasing order (every mesh once)

VARIABLES D, simp, st, b, hist
vars == <<D, simp, st, b, hist>>

Nil == [ne |-> 0, nd |-> 0, ed |-> <<>>, su |-> <<>>, mid |-> <<>>, ifc |-> {}, un |-> {}]

NLexLess(v, w) == \E i \in 1..Len(v) : v[i] < w[i] /\ \A j \in 1..i-1 : v[j] = w[j]
Simplices(d) == {s \in [1..d+1 -> 0..MaxV-1] : \A i \in 1..d : s[i] < s[i+1]}
Verts(s) == BSet(s)
Facets(s) == {Verts(s) \ {v} : v \in Verts(s)}
FacetUse(ss, f) == Cardinality({k \in 1..Len(ss) : f \in Facets(ss[k])})

Init == D \in DimSet /\ simp = <<>> /\ st = "mesh" /\ b = Nil /\ hist = <<>>

AddSimplex ==
    /\ st = "mesh" /\ Len(simp) < MaxSimp
    /\ \E s \in Simplices(D) :
         /\ \A k \in 1..Len(simp) : simp[k] # s
         /\ IF AnyOrder \/ simp = <<>> THEN TRUE ELSE NLexLess(simp[Len(simp)], s)
         /\ \A f \in Facets(s) : FacetUse(simp, f) <= 1          \* 'single edge is shared by three or more simplices'
         /\ simp' = Append(simp, s)
    /\ UNCHANGED <<D, st, b, hist>>

(* ---- the lattice ------------------------------------------------------------------------------------ *)
NSum(w) == IF Len(w) = 2 THEN w[1]+w[2] ELSE IF Len(w) = 3 THEN w[1]+w[2]+w[3] ELSE w[1]+w[2]+w[3]+w[4]
Weights(d, p) == {w \in [1..d+1 -> 0..p] : NSum(w) = p}
WRank(W, w) == Cardinality({v \in W : NLexLess(v, w)})
Pos(s, w) == {<<s[i], w[i]>> : i \in {j \in 1..Len(s) : w[j] > 0}}
Adjacent(s, t) == Cardinality(Verts(s) \cap Verts(t)) = Len(s) - 1

Interfaces(c) == {[key |-> BSorted(Verts(simp[q[1]]) \cap Verts(simp[q[2]])), a |-> q[1]-1, b |-> q[2]-1, c |-> c] :
                    q \in {r \in (1..Len(simp)) \X (1..Len(simp)) : r[1] < r[2] /\ Adjacent(simp[r[1]], simp[r[2]])}}

(* nodes of degree p identified across facets ("facet") or wherever they coincide ("vertex") *)
Lattice(p, rule) ==
    LET ne == Len(simp)
        W == Weights(D, p)
        K == Cardinality(W)
        id(e, w) == (e-1)*K + WRank(W, w)
        same == {<<e, w, f, v>> \in (1..ne) \X W \X (1..ne) \X W : e < f /\ Pos(simp[e], w) = Pos(simp[f], v)
                                                                    /\ (rule = "vertex" \/ Adjacent(simp[e], simp[f]))}
        g == GlueOp(BBlocks(ne, K), {{id(q[1], q[2]), id(q[3], q[4])} : q \in same})
    IN [ne |-> ne, nd |-> g.nd, ed |-> g.ed, su |-> g.su, mid |-> simp, ifc |-> Interfaces(0), un |-> 0..ne-1]

(* basis_bubble: the vertex functions (minus a share of the bubble) and one private bubble per element *)
Bubble ==
    LET ne == Len(simp)
        K == D + 2
        same == {<<e, i, f, j>> \in (1..ne) \X (1..D+1) \X (1..ne) \X (1..D+1) : e < f /\ simp[e][i] = simp[f][j]}
        g == GlueOp(BBlocks(ne, K), {{(q[1]-1)*K + q[2]-1, (q[3]-1)*K + q[4]-1} : q \in same})
    IN [ne |-> ne, nd |-> g.nd, ed |-> g.ed, su |-> g.su, mid |-> simp, ifc |-> Interfaces(0), un |-> 0..ne-1]

Discont(p) ==
    LET ne == Len(simp)
        blk == BBlocks(ne, Cardinality(Weights(D, p)))
    IN [ne |-> ne, nd |-> blk.nd, ed |-> blk.ed, su |-> blk.su, mid |-> simp, ifc |-> Interfaces(-1), un |-> 0..ne-1]

Build ==
    /\ st = "mesh" /\ simp # <<>>
    /\ \E kp \in BuildSet :
         /\ b' = CASE kp[1] = "bubble" -> Bubble
                   [] kp[1] = "discont" -> Discont(kp[2])
                   [] OTHER -> Lattice(kp[2], IF kp[1] = "std" /\ kp[2] = 1 THEN "vertex" ELSE "facet")
         /\ hist' = <<[op |-> kp[1], p |-> kp[2], D |-> D, simp |-> simp]>>
    /\ st' = "built" /\ UNCHANGED <<D, simp>>

Next == AddSimplex \/ Build
Spec == Init /\ [][Next]_vars

---------------------------------------------------------------------------
TypeOK == st \in {"mesh", "built"} /\ BWellFormed(b)
InvInverse == BInverseMaps(b)
InvNoDead == BNoDeadDof(b)
(* a function lives on a facet-connected (or, for vertex numbering, vertex-sharing) set of elements *)
InvSupportShares == st = "built" => \A d \in 1..b.nd : \A e, f \in b.su[d] : Verts(simp[e+1]) \cap Verts(simp[f+1]) # {} \/ e = f
(* the number of C0 functions of degree 1 is the number of vertices when no vertex is pinched, never less *)
InvVertexCount == (st = "built" /\ hist[1].op \in {"std", "lagrange", "bernstein"} /\ hist[1].p = 1) =>
                     b.nd >= Cardinality(UNION {Verts(simp[k]) : k \in 1..Len(simp)})
=============================================================================
