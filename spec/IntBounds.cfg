SPECIFICATION Spec
CONSTANTS
  B = 2
  MaxLen = 3
  InflateNaive = FALSE
INVARIANT Sound
INVARIANT WellFormed
CHECK_DEADLOCK FALSE
