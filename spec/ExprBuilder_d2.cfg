SPECIFICATION Spec
CONSTANTS
  MaxNodes = 5
  MaxOps = 2
  MaxLeaves = 3
  Ops <- AllOps
  LeafSet <- AllLeaves
  EmitMin = 1
INVARIANT ShapeSound
INVARIANT IxSound
CONSTRAINT EmitComplete
CHECK_DEADLOCK FALSE
