----------------------------- MODULE SampleAlg -----------------------------
(***************************************************************************)
(* C09, design spec of the sample algebra of src/nutils/sample.py.         *)
(*                                                                         *)
(* A sample is named by the constructors that built it, one record per     *)
(* nutils object:                                                          *)
(*   "plain"   _DefaultIndex(space s[1], transforms, points)               *)
(*   "custom"  _CustomIndex(parent u[1], index p)                          *)
(*   "empty"   _Empty(spaces s)                                            *)
(*   "add"     _Add(u[1], u[2])                                            *)
(*   "mul"     _Mul(u[1], u[2])                                            *)
(*   "take"    _TakeElements(parent u[1], indices p)                       *)
(*   "zip"     _Zip(u[1], u[2])                                            *)
(* A point is a sequence of references <<b, e, k, m>>, one per space of    *)
(* the sample: point k of element e of base sample b (e, k 0-based);       *)
(* m = 1 iff the quadrature weight of that base point is a factor of the   *)
(* weight of the point (zipped samples take the weights of their first     *)
(* argument only).  Coordinates and weights themselves live in the         *)
(* harness: the model is purely combinatorial, the harness resolves        *)
(* references to the coordinates / weights of the real base samples.       *)
(*                                                                         *)
(* Two layers are kept apart.  Every record carries, computed by its       *)
(* constructor from the records of its operands exactly like the class     *)
(* computes it from its operands,                                          *)
(*   ne, np   nelems, npoints                   (__init__ of every class)  *)
(*   ix       getindex(i) for every element i   (what the index advertises)*)
(*   ev       get_evaluable_indices(i), flattened in row-major order       *)
(*   ep       the points of element i in the order of the points axes of   *)
(*            get_lower_args(i), weighted by get_evaluable_weights(i)      *)
(*   ew       whether this element-wise access is implemented at all       *)
(* (the code layer), and                                                   *)
(*   dn       the denotation: the elements with their points and weights,  *)
(*            defined by the meaning of the constructor                    *)
(* (what the property speaks about).  On top of the records                *)
(*   Bind     _bind: _ConcatenatePoints for _DefaultIndex, concatenation   *)
(*            for _Add, reshaped nested bind for _Mul, otherwise           *)
(*            _ReorderPoints = Inflate of the concatenated points by the   *)
(*            evaluable indices (sample.py:234-237, 959-989)               *)
(*   IntBag   _integral: _Integral.lower loops over the elements and sums  *)
(*            weights x integrand (944-956); sum for _Add, nested          *)
(*            integrals for _Mul                                           *)
(*   OpAdd, OpMul, OpTake, OpSubset, OpZip   the public operations         *)
(*            __add__, __mul__, take_elements, subset, zip with their      *)
(*            class dispatch                                               *)
(* The property clauses are invariants relating the layers:                *)
(*   Sizes           nelems / npoints are those of the denotation          *)
(*   IndexPartition  the index is a partition of 0..npoints-1, element by  *)
(*                   element as long as the element                        *)
(*   EvalOrder       evaluation (Bind) puts point k of element i at        *)
(*                   position getindex(i)[k]: exactly that point lands on  *)
(*                   every position                                        *)
(*   EvIndexAgrees   the evaluable index equals the advertised index       *)
(*   Quadrature      the integral sums, over exactly the points of the     *)
(*                   denotation, weight times value (equality of bags of   *)
(*                   weighted point evaluations)                           *)
(*   OpLaw           take_elements / subset select elements (and compose), *)
(*                   + concatenates, * is the row-major product, zip joins *)
(*                   position by position, a located sample reports its    *)
(*                   points in the order given                             *)
(* _Add implements no element-wise access (get_lower_args,                 *)
(* get_evaluable_weights and get_evaluable_indices raise                   *)
(* NotImplementedError): CanBind / CanIntegrate tell where the code has no *)
(* behaviour; the invariant Total (checked by a separate configuration)    *)
(* states that this never happens and is violated by take_elements / zip   *)
(* around a product that contains a sum.                                   *)
(* The machine builds one nesting per state; every state is emitted with   *)
(* the model's predictions for the S->C replay.                            *)
(***************************************************************************)
EXTENDS Integers, Sequences, FiniteSets, TLC, Json

CONSTANTS Bases,       \* sequence of records [sp |-> space, np |-> number of points of every element of the live sample,
                       \*   items |-> number of points of every primitive point set, ps |-> the PointsSequence container
                       \*   expression over them (see PsGet)]
          AtomDefs,    \* sequence of records [name, kind, b, p, s]: the leaves (see AtomExpr); operands of the binary
                       \* operations are leaves, so a leaf may also be the sum of two base samples
          StartAtoms,  \* names of the atoms the machine may start from
          Operands,    \* names of the atoms that may be the other operand of +, *, zip
          MaxOps,      \* number of operations applied on top of the first atom
          MaxPoints, MaxElems,   \* size bounds
          TakeAll,     \* TRUE: take_elements with every increasing index list (small samples), FALSE: a few patterns
          Mutant       \* "none", or the name of a deliberately wrong transcription (spec mutants)

\* ------------------------------------------------------------------ sequences of integers
RECURSIVE SaSum(_)
SaSum(s) == IF Len(s) = 0 THEN 0 ELSE s[1] + SaSum(Tail(s))
RECURSIVE SaFlat(_)
SaFlat(ss) == IF Len(ss) = 0 THEN <<>> ELSE ss[1] \o SaFlat(Tail(ss))
SaLens(ss) == [i \in 1..Len(ss) |-> Len(ss[i])]
SaOffset(lens, i) == SaSum(SubSeq(lens, 1, i))            \* sum of the first i entries
SaArange(a, n) == [k \in 1..n |-> a + k - 1]               \* a, a+1, ..., a+n-1
SaRange(s) == {s[k] : k \in 1..Len(s)}
SaAddTo(s, c) == [k \in 1..Len(s) |-> s[k] + c]
SaTake(tab, s) == [k \in 1..Len(s) |-> tab[s[k] + 1]]      \* numpy.take(tab, s), 0-based entries of s
RECURSIVE SaSorted(_)
\* the elements of a finite set of integers in increasing order
SaSorted(S) == IF S = {} THEN <<>>
               ELSE LET m == CHOOSE x \in S : \A y \in S : x <= y IN <<m>> \o SaSorted(S \ {m})
SaPos(s, v) == CHOOSE k \in 1..Len(s) : s[k] = v          \* 1-based position of v in s
SaIsPerm(s, n) == Len(s) = n /\ SaRange(s) = 0..(n - 1)
\* row-major outer combination of two sequences
SaOuterWith(F(_, _), A, B) == IF Len(A) = 0 \/ Len(B) = 0 THEN <<>>
                              ELSE [k \in 1..(Len(A) * Len(B)) |-> F(A[((k - 1) \div Len(B)) + 1], B[((k - 1) % Len(B)) + 1])]
\* bag of the entries of a sequence
SaBag(s) == [v \in SaRange(s) |-> Cardinality({k \in 1..Len(s) : s[k] = v})]

\* ------------------------------------------------------------------ points
SaRef(b, e, k) == <<b, e, k, 1>>
SaNoWeight(pt) == [r \in 1..Len(pt) |-> <<pt[r][1], pt[r][2], pt[r][3], 0>>]
SaCat(a, b) == a \o b
\* row-major outer product of two sequences of points
SaOuter(P1, P2) == SaOuterWith(SaCat, P1, P2)

\* ------------------------------------------------------------------ constructors (one per class)
Rec(k, s, p, u, ne, np, ix, ev, ep, ew, dn) ==
    [k |-> k, s |-> s, p |-> p, u |-> u, ne |-> ne, np |-> np, ix |-> ix, ev |-> ev, ep |-> ep, ew |-> ew, dn |-> dn]

\* _DefaultIndex: offsets (436-438), getindex (440-443), get_evaluable_indices (453-456, 1027-1030)
MkPlain(sp, q) ==
    LET lens == SaLens(q)
    IN Rec("plain", <<sp>>, <<>>, <<>>, Len(q), SaSum(lens),
           [e \in 1..Len(q) |-> SaArange(SaOffset(lens, e - 1), lens[e])],
           [e \in 1..Len(q) |-> SaAddTo(SaArange(0, lens[e]), SaOffset(lens, e - 1))],
           q, TRUE, q)

\* _CustomIndex (465-478): the points and weights are those of the parent
MkCustom(parent, index) ==
    Rec("custom", parent.s, index, <<parent>>, parent.ne, parent.np,
        [e \in 1..parent.ne |-> SaTake(index, parent.ix[e])],
        [e \in 1..parent.ne |-> SaTake(index, parent.ev[e])],
        parent.ep, parent.ew, parent.dn)

\* _Empty (525-561)
MkEmpty(spaces) == Rec("empty", spaces, <<>>, <<>>, 0, 0, <<>>, <<>>, <<>>, TRUE, <<>>)

\* _Add (564-611): no get_evaluable_indices, get_evaluable_weights, get_lower_args
MkAdd(a, b) ==
    Rec("add", a.s, <<>>, <<a, b>>, a.ne + b.ne, a.np + b.np,
        a.ix \o [e \in 1..b.ne |-> IF Mutant = "add-no-offset" THEN b.ix[e] ELSE SaAddTo(b.ix[e], a.np)],
        [e \in 1..(a.ne + b.ne) |-> <<>>], [e \in 1..(a.ne + b.ne) |-> <<>>], FALSE,
        a.dn \o b.dn)

\* _Mul (698-726): element i = divmod(i, nelems2)
MulIndex(i1, i2, np1, np2) == IF Mutant = "mul-index-strides" THEN i1 + i2 * np1 ELSE i1 * np2 + i2
MkMul(a, b) ==
    LET ixf(i1, i2) == LET F(v, w) == MulIndex(v, w, a.np, b.np) IN SaOuterWith(F, i1, i2)
        evf(i1, i2) == LET F(v, w) == v * b.np + w IN SaOuterWith(F, i1, i2)
    IN Rec("mul", a.s \o b.s, <<>>, <<a, b>>, a.ne * b.ne, a.np * b.np,
           SaOuterWith(ixf, a.ix, b.ix), SaOuterWith(evf, a.ev, b.ev), SaOuterWith(SaOuter, a.ep, b.ep),
           a.ew /\ b.ew, SaOuterWith(SaOuter, a.dn, b.dn))

\* _TakeElements (886-925): _offsets from the parent's getindex; the evaluable indices are Range(prod(shape)) + offset
\* with the sizes taken from the parent's evaluable indices
MkTake(x, ind) ==
    LET lens == [j \in 1..Len(ind) |-> Len(x.ix[ind[j] + 1])]
        sizes == [j \in 1..Len(ind) |-> Len(x.ev[ind[j] + 1])]
    IN Rec("take", x.s, ind, <<x>>, Len(ind), SaSum(lens),
           [j \in 1..Len(ind) |-> SaArange(SaOffset(lens, j - 1), lens[j])],
           [j \in 1..Len(ind) |-> SaAddTo(SaArange(0, sizes[j]), SaOffset(sizes, j - 1))],
           [j \in 1..Len(ind) |-> x.ep[ind[j] + 1]], x.ew,
           [j \in 1..Len(ind) |-> x.dn[ind[j] + 1]])

\* element (0-based) of c that advertises position pos, and the local number (0-based) of pos in it
ElemOf(c, pos) == (CHOOSE i \in 1..c.ne : pos \in SaRange(c.ix[i])) - 1
LocalOf(c, pos) == SaPos(c.ix[ElemOf(c, pos) + 1], pos) - 1
\* point of the denotation that c advertises at position pos
PosPoint(c, pos) == c.dn[ElemOf(c, pos) + 1][LocalOf(c, pos) + 1]

\* _Zip (823-883) of two samples
MkZip(a, b) ==
    LET npos == a.np
        flat(pos) == ElemOf(a, pos) * b.ne + ElemOf(b, pos)                     \* numpy.ravel_multi_index(ielems, nelems)
        uniq == SaSorted({flat(pos) : pos \in 0..(npos - 1)})                   \* numpy.unique: flat_ielems
        \* numpy.argsort(inverse), taken to be stable: the positions of zip element g in increasing order
        slice(g) == SaSorted({pos \in 0..(npos - 1) : flat(pos) = uniq[g]})
        sizes == [g \in 1..Len(uniq) |-> Len(slice(g))]                         \* _sizes
        indices == SaFlat([g \in 1..Len(uniq) |-> slice(g)])                    \* _indices
        ielems1 == [g \in 1..Len(uniq) |-> uniq[g] \div b.ne]                   \* numpy.unravel_index: _ielems
        ielems2 == [g \in 1..Len(uniq) |-> uniq[g] % b.ne]
        ilocals1 == [t \in 1..npos |-> LocalOf(a, indices[t])]                  \* _ilocals = take(ilocal, _indices)
        ilocals2 == [t \in 1..npos |-> LocalOf(b, indices[t])]
        getslice(g) == SaAddTo(SaArange(0, sizes[g]), SaOffset(sizes, g - 1))   \* _getslice
        \* get_lower_args takes ilocals[_getslice] of every sample's element; get_evaluable_weights those of the first
        eppoint(g, t) == LET P1 == a.ep[ielems1[g] + 1][ilocals1[t + 1] + 1]
                             P2 == b.ep[ielems2[g] + 1][ilocals2[t + 1] + 1]
                         IN (IF Mutant = "zip-no-weights" THEN SaNoWeight(P1) ELSE P1) \o SaNoWeight(P2)
        \* denotation: position pos holds point pos of both samples, weighted like the first; grouped by the pair of
        \* elements in lexicographic order
        dnpoint(pos) == PosPoint(a, pos) \o SaNoWeight(PosPoint(b, pos))
    IN Rec("zip", a.s \o b.s, <<>>, <<a, b>>, Len(uniq), npos,
           [g \in 1..Len(uniq) |-> slice(g)],                                   \* getindex: _indices[offsets[g]:offsets[g+1]]
           [g \in 1..Len(uniq) |-> SaTake(indices, getslice(g))],               \* get_evaluable_indices
           [g \in 1..Len(uniq) |-> IF a.ew /\ b.ew THEN [t \in 1..sizes[g] |-> eppoint(g, getslice(g)[t])] ELSE <<>>],
           a.ew /\ b.ew,
           [g \in 1..Len(uniq) |-> [t \in 1..sizes[g] |-> dnpoint(slice(g)[t])]])

\* is the path implemented?  _Add._bind / _Mul._bind recurse into the operands' _bind (607-608, 810-811), every other
\* class binds through its element-wise access; likewise _integral (604-605, 807-808, 206-215)
RECURSIVE CanBind(_)
CanBind(x) == IF x.k \in {"add", "mul"} THEN CanBind(x.u[1]) /\ CanBind(x.u[2]) ELSE x.ew
RECURSIVE CanIntegrate(_)
CanIntegrate(x) == IF x.k \in {"add", "mul"} THEN CanIntegrate(x.u[1]) /\ CanIntegrate(x.u[2]) ELSE x.ew

\* _bind: the sequence over the evaluation positions of the points that land there
RECURSIVE Bind(_)
Bind(x) ==
    IF x.k = "plain" THEN LET pts == SaFlat(x.ep) IN [k \in 1..Len(pts) |-> <<pts[k]>>]          \* 458-459, 959-975
    ELSE IF x.k = "empty" THEN <<>>                                                  \* 554-555
    ELSE IF x.k = "add" THEN Bind(x.u[1]) \o Bind(x.u[2])                            \* 607-608
    ELSE IF x.k = "mul" THEN SaOuterWith(SaOuter, Bind(x.u[1]), Bind(x.u[2]))        \* 810-811
    ELSE \* 234-237: Inflate of the concatenated element points by the concatenated evaluable indices
        LET pts == SaFlat(x.ep)
            idx == SaFlat(x.ev)
        IN [pos \in 1..x.np |-> LET H == SaSorted({k \in 1..Len(idx) : idx[k] = pos - 1}) IN [t \in 1..Len(H) |-> pts[H[t]]]]

\* _integral: the weighted point evaluations the integral sums, in the order of the code's loops
RECURSIVE IntBag(_)
IntBag(x) ==
    IF x.k = "empty" THEN <<>>                                                       \* 551-552
    ELSE IF x.k = "add" THEN IntBag(x.u[1]) \o IntBag(x.u[2])                        \* 604-605
    ELSE IF x.k = "mul" THEN SaOuter(IntBag(x.u[1]), IntBag(x.u[2]))                 \* 807-808
    ELSE SaFlat(x.ep)                                                                \* 944-956

\* ------------------------------------------------------------------ the public operations
\* __add__, 102-112
OpAdd(x, y) == IF y.np = 0 THEN x ELSE IF x.np = 0 THEN y ELSE MkAdd(x, y)
\* __mul__, 114-120
OpMul(x, y) == MkMul(x, y)
\* zip, 333-369
OpZip(x, y) == MkZip(x, y)
RECURSIVE OpTake(_, _)
\* take_elements: Sample 327-331, _Empty 548-549, _Add 598-602, _TakeElements 937-938
OpTake(x, ind) ==
    IF x.k = "empty" THEN x
    ELSE IF x.k = "add" THEN
        LET n1 == x.u[1].ne
            lo == SelectSeq(ind, LAMBDA v : v < n1)
            hi == SelectSeq(ind, LAMBDA v : v >= n1)
        IN OpAdd(OpTake(x.u[1], lo), OpTake(x.u[2], SaAddTo(hi, 0 - n1)))
    ELSE IF x.k = "take" THEN
        IF Mutant = "take-no-compose" THEN OpTake(x.u[1], ind)
        ELSE OpTake(x.u[1], SaTake(x.p, ind))
    ELSE IF Len(ind) = 0 THEN MkEmpty(x.s)
    ELSE MkTake(x, ind)
\* elements (0-based, increasing) that advertise a position of M
Selection(x, M) == SaSorted({i \in 0..(x.ne - 1) : SaRange(x.ix[i + 1]) \cap M # {}})
\* subset: _TransformChainsSample 418-421 (a new _DefaultIndex), Sample 306-325
OpSubset(x, M) ==
    IF x.k \in {"plain", "custom"} THEN MkPlain(x.s[1], SaTake(x.ep, Selection(x, M)))
    ELSE OpTake(x, Selection(x, M))

\* ------------------------------------------------------------------ leaves
\* PointsSequence containers (pointsseq.py).  The points of a base sample are named by the expression [k, p, u] that built
\* the sequence from primitive point sets ("items", numbered from 1):
\*   "items"    PointsSequence.from_iter of the items p            (_Plain / _Uniform)
\*   "take"     u[1].take(p)                                       (_Take.get: parent.get(indices[index]))
\*   "repeat"   u[1].repeat(p[1])                                  (_Repeat.get: parent.get(index % len(parent)))
\*   "chain"    u[1].chain(u[2])                                   (_Chain.get)
\*   "product"  u[1].product(u[2])                                 (_Product.get: divmod(index, len(sequence2)); TensorPoints:
\*                                                                  row-major, coordinates joined, weights multiplied)
\* PsGet(b, r, i) is the point set at index i (0-based): for each of its points the primitive points <<item, k>> it is made of
RECURSIVE PsLen(_), PsGet(_, _, _)
PsLen(r) == IF r.k = "items" THEN Len(r.p)
            ELSE IF r.k = "take" THEN Len(r.p)
            ELSE IF r.k = "repeat" THEN PsLen(r.u[1]) * r.p[1]
            ELSE IF r.k = "chain" THEN PsLen(r.u[1]) + PsLen(r.u[2])
            ELSE PsLen(r.u[1]) * PsLen(r.u[2])
PsGet(b, r, i) ==
    IF r.k = "items" THEN [k \in 1..Bases[b].items[r.p[i + 1]] |-> <<<<r.p[i + 1], k - 1>>>>]
    ELSE IF r.k = "take" THEN PsGet(b, r.u[1], r.p[i + 1])
    ELSE IF r.k = "repeat" THEN PsGet(b, r.u[1], i % PsLen(r.u[1]))
    ELSE IF r.k = "chain" THEN IF i < PsLen(r.u[1]) THEN PsGet(b, r.u[1], i) ELSE PsGet(b, r.u[2], i - PsLen(r.u[1]))
    ELSE SaOuter(PsGet(b, r.u[1], i \div PsLen(r.u[2])), PsGet(b, r.u[2], i % PsLen(r.u[2])))
PsTable(b) == [e \in 1..PsLen(Bases[b].ps) |-> PsGet(b, Bases[b].ps, e - 1)]
BasePoints(b) == [e \in 1..PsLen(Bases[b].ps) |-> [k \in 1..Len(PsGet(b, Bases[b].ps, e - 1)) |-> <<SaRef(b, e - 1, k - 1)>>]]
\* the structure exported from the live samples (len(points.get(e).coords) for every e) is the one the container model predicts
ContainerStructure == \A b \in 1..Len(Bases) : Bases[b].np = SaLens(BasePoints(b))
\* Topology._sample(ielems, coords, weights), topology.py:1688-1703: the points are grouped per element by a stable
\* argsort of ielems; the index puts them back at their original positions.  p = ielems (one per located point)
LocUniq(p) == SaSorted(SaRange(p))
LocSlice(p, j) == SaSorted({pos \in 0..(Len(p) - 1) : p[pos + 1] = LocUniq(p)[j]})       \* index[offsets[j-1]:offsets[j]]
LocSlices(p) == [j \in 1..Len(LocUniq(p)) |-> LocSlice(p, j)]
AtomExpr(a) ==
    IF a.kind = "plain" THEN MkPlain(Bases[a.b].sp, BasePoints(a.b))
    ELSE IF a.kind = "custom" THEN MkCustom(MkPlain(Bases[a.b].sp, BasePoints(a.b)), a.p)               \* Sample.new(..., index)
    ELSE IF a.kind = "located" THEN
        MkCustom(MkPlain(Bases[a.b].sp, [j \in 1..Len(LocUniq(a.p)) |-> [k \in 1..Len(LocSlice(a.p, j)) |-> <<SaRef(a.b, j - 1, k - 1)>>]]),
                 SaFlat(LocSlices(a.p)))
    ELSE IF a.kind = "sum" THEN                                                      \* base p[1] + base p[2]
        OpAdd(MkPlain(Bases[a.p[1]].sp, BasePoints(a.p[1])), MkPlain(Bases[a.p[2]].sp, BasePoints(a.p[2])))
    ELSE MkEmpty(a.s)                                                                \* Sample.empty
AtomNamed(n) == CHOOSE k \in 1..Len(AtomDefs) : AtomDefs[k].name = n
AtomOf(n) == AtomExpr(AtomDefs[AtomNamed(n)])
\* the structure exported from the live located samples is the one the transcription of _sample predicts
LocatedStructure == \A k \in 1..Len(AtomDefs) :
                       AtomDefs[k].kind = "located" => Bases[AtomDefs[k].b].np = SaLens(LocSlices(AtomDefs[k].p))
CustomIsPerm == \A k \in 1..Len(AtomDefs) : AtomDefs[k].kind = "custom" => SaIsPerm(AtomDefs[k].p, SaSum(Bases[AtomDefs[k].b].np))
ASSUME CustomIsPerm

\* ------------------------------------------------------------------ the machine: one nesting per state
VARIABLES expr,   \* the nest of constructors (classes) the operations produce
          opx,    \* the operations that built it: [o, n, a, u] (o = "atom" with name n, or an operation with arguments a on u)
          nops,
          last    \* the last operation: [o, a, xs] with xs the class nests of its operands
vars == <<expr, opx, nops, last>>
MkOp(o, n, a, u) == [o |-> o, n |-> n, a |-> a, u |-> u]
AtomOp(n) == MkOp("atom", n, <<>>, <<>>)

Init == \E n \in StartAtoms : /\ expr = AtomOf(n) /\ opx = AtomOp(n) /\ nops = 0
                              /\ last = [o |-> "atom", a |-> <<>>, xs |-> <<>>]
Fits(x) == x.ne <= MaxElems /\ x.np <= MaxPoints
Step(x, o, a, ops, xs) == /\ nops < MaxOps /\ Fits(x)
                          /\ expr' = x /\ opx' = MkOp(o, "", a, ops) /\ nops' = nops + 1
                          /\ last' = [o |-> o, a |-> a, xs |-> xs]
\* strictly increasing index lists (Topology.take produces them in this order); the empty list included
IncLists(n) == IF TakeAll /\ n <= 3 THEN {SaSorted(S) : S \in SUBSET (0..(n - 1))}
               ELSE {SaSorted(S) : S \in {{}, {0}, {n - 1}, 1..(n - 1), 0..(n - 2), {k \in 0..(n - 1) : k % 2 = 1}, {0, n - 1}, 0..(n - 1)}}
UnsortedLists(n) == IF n >= 2 THEN {<<n - 1, 0>>} ELSE {}
ATake == /\ expr.ne >= 1
         /\ \E ind \in IncLists(expr.ne) \cup (IF Mutant = "take-unsorted" THEN UnsortedLists(expr.ne) ELSE {}) :
              Step(OpTake(expr, ind), "take", ind, <<opx>>, <<expr>>)
\* masks: a few sets of positions (the empty mask only directly on an atom)
Masks(n) == {M \in {{0}, {n - 1}, {0, n - 1}, {k \in 0..(n - 1) : k % 2 = 1}} : M # {}} \cup (IF nops = 0 THEN {{}} ELSE {})
ASubset == /\ expr.np >= 1
           /\ \E M \in Masks(expr.np) : Step(OpSubset(expr, M), "subset", SaSorted(M), <<opx>>, <<expr>>)
Disjoint(x, y) == SaRange(x.s) \cap SaRange(y.s) = {}
\* the other operand of a binary operation is a leaf, on either side
Operand(n, left, isfirst) == IF left = isfirst THEN AtomOf(n) ELSE expr
OpsOf(n, left) == IF left THEN <<AtomOp(n), opx>> ELSE <<opx, AtomOp(n)>>
AAdd == /\ nops < MaxOps
        /\ \E n \in Operands : \E left \in BOOLEAN :
          LET a == Operand(n, left, TRUE)
              b == Operand(n, left, FALSE)
          IN a.s = b.s /\ Step(OpAdd(a, b), "add", <<>>, OpsOf(n, left), <<a, b>>)
AMul == /\ nops < MaxOps
        /\ \E n \in Operands : \E left \in BOOLEAN :
          LET a == Operand(n, left, TRUE)
              b == Operand(n, left, FALSE)
          IN Disjoint(a, b) /\ Step(OpMul(a, b), "mul", <<>>, OpsOf(n, left), <<a, b>>)
AZip == /\ nops < MaxOps
        /\ \E n \in Operands : \E left \in BOOLEAN :
          LET a == Operand(n, left, TRUE)
              b == Operand(n, left, FALSE)
          IN Disjoint(a, b) /\ a.np = b.np /\ a.np >= 1 /\ Step(OpZip(a, b), "zip", <<>>, OpsOf(n, left), <<a, b>>)
Next == ATake \/ ASubset \/ AAdd \/ AMul \/ AZip
Spec == Init /\ [][Next]_vars

\* ------------------------------------------------------------------ property clauses
\* T binding of the leaves: the exported structure is the one the model predicts (state-level so that TLC reports a violation)
ContainerInv == nops >= 0 /\ ContainerStructure
LocatedInv == nops >= 0 /\ LocatedStructure
Sizes == /\ expr.ne = Len(expr.dn) /\ expr.ne = Len(expr.ix)
         /\ expr.np = SaSum(SaLens(expr.dn))
IndexPartition == /\ SaIsPerm(SaFlat(expr.ix), expr.np)
                  /\ \A i \in 1..expr.ne : Len(expr.ix[i]) = Len(expr.dn[i])
\* property-level evaluation order: position -> the point the index advertises there
PBind(x) == [pos \in 1..x.np |-> PosPoint(x, pos - 1)]
\* (which point lands where; the weights are the subject of Quadrature)
EvalOrder == CanBind(expr) => LET B == Bind(expr)
                              IN [pos \in 1..Len(B) |-> [t \in 1..Len(B[pos]) |-> SaNoWeight(B[pos][t])]]
                                 = [pos \in 1..expr.np |-> <<SaNoWeight(PBind(expr)[pos])>>]
EvIndexAgrees == expr.ew => expr.ev = expr.ix
Quadrature == CanIntegrate(expr) => SaBag(IntBag(expr)) = SaBag(SaFlat(expr.dn))
\* meaning of the operations
OpLaw ==
    IF last.o = "take" THEN expr.dn = SaTake(last.xs[1].dn, last.a)
    ELSE IF last.o = "subset" THEN expr.dn = SaTake(last.xs[1].dn, Selection(last.xs[1], SaRange(last.a)))
    ELSE IF last.o = "add" THEN /\ expr.dn = last.xs[1].dn \o last.xs[2].dn
                                /\ PBind(expr) = PBind(last.xs[1]) \o PBind(last.xs[2])
    ELSE IF last.o = "mul" THEN LET D1 == last.xs[1].dn
                                    D2 == last.xs[2].dn
                                IN /\ Len(expr.dn) = Len(D1) * Len(D2)
                                   /\ \A a \in 1..Len(D1) : \A b \in 1..Len(D2) : expr.dn[(a - 1) * Len(D2) + b] = SaOuter(D1[a], D2[b])
    ELSE IF last.o = "zip" THEN \A pos \in 1..expr.np :
                                    PBind(expr)[pos] = PBind(last.xs[1])[pos] \o SaNoWeight(PBind(last.xs[2])[pos])
    ELSE \* atoms: a located sample reports the point given as number pos at position pos (references number the slices)
        \A k \in 1..Len(AtomDefs) :
            (AtomDefs[k].kind = "located" /\ expr = AtomExpr(AtomDefs[k])) =>
                \A j \in 1..Len(LocSlices(AtomDefs[k].p)) : \A t \in 1..Len(LocSlices(AtomDefs[k].p)[j]) :
                    PBind(expr)[LocSlices(AtomDefs[k].p)[j][t] + 1] = <<SaRef(AtomDefs[k].b, j - 1, t - 1)>>
\* every sample can be evaluated and integrated (violated: _Add has no element-wise access)
Total == CanBind(expr) /\ CanIntegrate(expr)

\* ------------------------------------------------------------------ emission for the S->C replay
Emit(x) == PrintT(<<"VF", ToJson(x)>>)
RECURSIVE ClassTree(_)
ClassTree(x) == [k |-> x.k, u |-> [j \in 1..Len(x.u) |-> ClassTree(x.u[j])]]
Behaviour == [ops |-> opx, nops |-> nops, cls |-> ClassTree(expr), spaces |-> expr.s,
              nelems |-> expr.ne, npoints |-> expr.np, index |-> expr.ix, elems |-> expr.dn,
              canbind |-> CanBind(expr), canint |-> CanIntegrate(expr)]
EmitAll == Emit(Behaviour)
\* the leaves' tables (the primitive points of every base point, the slices of the located samples)
BaseTable == [b \in 1..Len(Bases) |-> PsTable(b)]
AtomTable == [k \in 1..Len(AtomDefs) |-> [name |-> AtomDefs[k].name,
                                           slices |-> IF AtomDefs[k].kind = "located" THEN LocSlices(AtomDefs[k].p) ELSE <<>>]]
=============================================================================
