------------------------------ MODULE MCDimFn ------------------------------
(* model-checking constants for DimFn *)
EXTENDS DimFn
MCBaseOrd4 == <<"L", "M", "T", "Q">>           \* "Q" = theta sorts after the ASCII letters
MCInitCache == [n \in {<<>>, <<"Q">>, <<"M">>, <<"L">>, <<"T">>, <<"L", "/", "T">>} |-> NameToPowers(n)]
I(u, v, x, n) == [u |-> u, v |-> v, x |-> x, nd |-> n]
MCInitsQuick == {I(<<"Q">>, <<"M">>, <<"L">>, 2), I(<<>>, <<"M">>, <<"L">>, 2), I(<<"Q">>, <<"M">>, <<>>, 2), I(<<"Q">>, <<"M">>, <<"L">>, 3)}
MCInitsThorough == MCInitsQuick \cup {I(<<"L", "/", "T">>, <<"M">>, <<"L">>, 2), I(<<>>, <<>>, <<"L">>, 3), I(<<"L">>, <<"L">>, <<"L">>, 2),
                                      I(<<"Q">>, <<>>, <<>>, 3), I(<<"L", "/", "T">>, <<"T">>, <<"L">>, 3)}
MCInitsDeep == {I(<<"Q">>, <<"M">>, <<"L">>, 2), I(<<>>, <<"M">>, <<"L">>, 3)}
MCOtherDims == {<<>>, <<"L">>, <<"T">>}
=============================================================================
