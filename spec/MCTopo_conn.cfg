\* quick, exhaustive: conn bases, every reachable denotation within 2 operations
SPECIFICATION Spec
CONSTANTS
  Bases <- Bases_conn
  MaxOps = 2
  MaxSub = 1
  NPat = 2
  OpSet <- Ops_all
  TrimRef <- Ref_01
  Mutant = "none"
VIEW View
INVARIANT TypeOK
INVARIANT Disjoint
INVARIANT WithinHull
INVARIANT BoundaryClosed
INVARIANT InterfacesOnce
INVARIANT FacetPartition
INVARIANT CutShared
INVARIANT EmitHist
PROPERTY StepProp
CHECK_DEADLOCK FALSE
