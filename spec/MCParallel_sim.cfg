\* simulation (-simulate, seeded): random schedules with up to two faults, also
\* SIGKILL inside critical sections; every complete behaviour is emitted with the
\* predicted shared state after each step for the replay into the real code
SPECIFICATION Spec
CONSTANTS
  MaxProcs = 3
  Configs <- ConfigsQuick
  MaxFaults = 2
  LockedClaim = TRUE
  CheckExit = TRUE
  KillChildren = TRUE
  KillInCS = TRUE
  Record = TRUE
  FaultPlans <- PlansSim
INVARIANT TypeOK
INVARIANT AtMostOnce
INVARIANT ExactlyOnce
INVARIANT MutexRange
INVARIANT MutexArrays
INVARIANT NoLostUpdate
INVARIANT NoPartialResult
INVARIANT RaiseOnlyOnFault
INVARIANT NoOrphans
INVARIANT EmitBehaviours
CHECK_DEADLOCK FALSE
