"""C13 -- Argument manipulation commutes with evaluation.

Deciding method: model-based verification with an explicit TLA+ specification checked by TLC.

Design spec  spec/Subst.tla (+ MCSubst.tla, MCSubst_quick.cfg / _sim.cfg / _mutant.cfg): a state machine that builds a
small polynomial function array over named arguments (add, multiply, power, negative, sum, matmul, outer, take,
constants, field(name, basis) on mesh.line(2); shapes (), (2,), (3,), (2,2)), applies manipulation actions
Replace(map) / Lin(x:v) / Deriv(x) / Factor / Integrate and ends with Eval(A).  The state carries the DENOTATION: EvF is
defined by the equations of the property (simultaneous substitution Ev(replace(f,s),A) = Ev(f, A[x -> Ev(s(x),A)]),
dual-number tangents of ArraySem for linearize / derivative, identity for factor, midpoint quadrature for the
integral), over exact rationals.  TLC checks the model-internal lemmas ShapeSound, FvSound, ReplaceIdNoop, SubstLemma
(renamings, swaps and one-call chains read the environment THROUGH the map), ChainTwoStep, SwapTwice, LinLinear,
LinIsDerivContracted, FactorIdentity, FactorIdempotent, RejectSound; three spec mutants (sequential substitution,
unit-seeded linearize, factor dropping the constant term) must violate them.

Runs: (1) exhaustive TLC over small vocabularies (MCSubst!QuickFamilies / ThoroughFamilies, one TLC process each) plus the
compact all-actions vocabulary CovFamilies with per-action coverage (vacuity guard: every action taken; TLC's -coverage
multiplies the run time of this arithmetic-heavy spec, so it is switched on for CovFamilies only in the quick tier);
(2) the three spec mutants; (3) -simulate over the deep vocabularies SimFamilies.

Binding (S->C): every behaviour TLC emits (program + predicted outcome VALUE(array) | REJECT | ANY | UNDEF) is replayed
on real nutils.function objects (c13_replay.py): Argument / field / dotarg, numpy-API operations,
function.replace_arguments / Array.replace, linearize, derivative, factor, domain.integral / sample.integral on
mesh.line(2); evaluated with function.eval / Array.eval and, for the first assignment, inside an integrand
(function.eval(domain.integral(f basis dV)) / sample.integrate / domain.integrate).  Values must equal the model (exact
dyadic inputs, rtol 1e-9) in EVERY documented spelling of the argument specification the model lists for the node
(operator Spellings); function.arguments_for / .arguments must be the model's free arguments; REJECT must surface as an
exception (wrongly shaped / typed replacements, wrongly shaped / typed values at call time), never as a value.  A second
vacuity guard demands that every action of the machine occurs in a behaviour that was replayed and judged.
"""

import collections
import json
import os
import random

from .. import tlc, exprs
from . import c13_replay as cr

LEVEL = 'model_checking'

MANIPS = ('Replace', 'Lin', 'Deriv', 'Factor', 'Int')
ACTIONS = ['AddLeaf', 'AddOp', 'DoReplaceSingle', 'DoReplaceDouble', 'DoReplaceBad', 'DoLinearize', 'DoDerive', 'DoFactorize', 'DoIntegrate',
           'DoEvalGood', 'DoEvalBad']
INVARIANTS = ['ShapeSound', 'FvSound', 'ReplaceIdNoop', 'SubstLemma', 'ChainTwoStep', 'SwapTwice', 'LinLinear', 'LinIsDerivContracted',
              'FactorIdentity', 'FactorIdempotent', 'RejectSound']
# spec mutant -> the lemma that must expose it
MUTANTS = {'sequential': 'SubstLemma', 'lin-unit-seed': 'LinLinear', 'factor-drops-constant': 'FactorIdentity'}


def _cfg(families, mutant='none', invariants=INVARIANTS, emit=True):
    lines = ['SPECIFICATION Spec', 'CONSTANTS', '  Families <- ' + families, '  Mutant = "{}"'.format(mutant)]
    lines += ['INVARIANT ' + i for i in invariants]
    if emit:
        lines += ['CONSTRAINT EmitDone', 'CONSTRAINT EmitTables']
    lines.append('CHECK_DEADLOCK FALSE')
    return '\n'.join(lines) + '\n'


def canon(prog):
    return json.dumps([[n['op'], n['d'], n['p'], n['k']] for n in prog], separators=(',', ':'))


def collect(res, groups, tables):
    for e in res.emitted:
        if 'tables' in e:
            tables.update(e['tables'])
            continue
        g = groups.setdefault(canon(e['prog']), dict(prog=e['prog'], fam=e['fam'], outcomes={}))
        r = e['res']
        g['outcomes'][json.dumps([r['stage'], r['asg'], r['mode'], r['bad'], r['badsh']], sort_keys=True)] = r


def actions_of(g):
    """the actions of the Subst machine a group of behaviours (one program, all its outcomes) takes"""
    c = collections.Counter()
    for n in g['prog']:
        op = n['op']
        if op in ('Arg', 'Const', 'Field'):
            c['AddLeaf'] += 1      # (the leaves of replacement values come with the Replace action; counted here as well)
        elif op == 'Replace':
            c['DoReplaceSingle' if len(n['p']) == 1 else 'DoReplaceDouble'] += 1
        elif op in MANIPS:
            c[{'Lin': 'DoLinearize', 'Deriv': 'DoDerive', 'Factor': 'DoFactorize', 'Int': 'DoIntegrate'}[op]] += 1
        else:
            c['AddOp'] += 1
    for r in g['outcomes'].values():
        c['DoReplaceBad' if r['stage'] == 'construct' else 'DoEvalGood' if r['verdict'] in ('VALUE', 'UNDEF') else 'DoEvalBad'] += 1
    return c


def _module(tag, body):
    """generated module MCSubstX: VFFamilies == body"""
    p = os.path.join(tlc.workdir(tag + '-defs'), 'MCSubstX.tla')
    with open(p, 'w') as f:
        f.write('---- MODULE MCSubstX ----\nEXTENDS MCSubst\nVFFamilies == ' + body + '\n====\n')
    return p


# the machine is shared: several small JVMs (few workers, few GC threads) in parallel beat one JVM with 16 workers
JVM = dict(JAVA_TOOL_OPTIONS='-XX:ParallelGCThreads=2 -XX:CICompilerCount=2')


_TAG = ['c13-']    # scratch directory prefix (per tier: a quick and a thorough run may go side by side)


def _tlc_job(job):
    name, body, cfgkw, kw = job
    kw = dict(kw, timeout=kw.get('timeout', 900) * float(os.environ.get('VF_TIMEOUT_SCALE', '1')))
    cache = os.environ.get('VF_C13_CACHE')    # development aid only: reuse the TLC result of an identical job
    if cache:
        import hashlib, pickle
        h = hashlib.sha1(repr((body, sorted(cfgkw.items()), sorted((k, v) for k, v in kw.items() if k != 'timeout'))).encode())
        for fn in ('Subst.tla', 'MCSubst.tla', 'ArraySem.tla'):
            h.update(open(os.path.join(tlc.SPEC, fn), 'rb').read())
        path = os.path.join(cache, name + '-' + h.hexdigest()[:16] + '.pkl')
        if os.path.exists(path):
            return name, pickle.load(open(path, 'rb'))
    res = tlc.run('MCSubstX', cfg_text=_cfg('VFFamilies', **cfgkw), tag=_TAG[0] + name, deadlock=False, env=JVM,
                  extra_modules=[_module(_TAG[0] + name, body)], **kw)
    if cache:
        os.makedirs(cache, exist_ok=True)
        with open(path + '.tmp', 'wb') as f:
            pickle.dump(res, f)
        os.replace(path + '.tmp', path)
    return name, res


def _tlc_job_collected(job):
    """run the job and reduce the result at once to the groups (program -> predicted outcomes); the raw output and the
    list of emitted records (a full copy of the program per outcome) are released"""
    name, res = _tlc_job(job)
    groups, tables = {}, {}
    if not name.startswith('mutant-') and not res.violated:
        collect(res, groups, tables)
        for g in groups.values():
            g['fam'] = name
        res.emitted = []
        res.stdout = ''
    return name, (res, groups, tables)


def run(rep):
    exh, sim, tables = tlc_stage(rep)
    replay_stage(rep, exh, sim, tables)


def tlc_stage(rep):
    import concurrent.futures
    quick = rep.tier == 'quick'
    _TAG[0] = 'c13-' if quick else 'c13t-'
    tables = {}
    jobs = []
    # 1. design spec, exhaustive over small vocabularies (one TLC process per vocabulary).  TLC's -coverage multiplies the run time
    # of this arithmetic-heavy spec (x4 .. x10): per-action coverage is taken from the compact all-actions vocabulary CovFamilies
    # (quick) and from CovFamilies + QuickFamilies (thorough); the largest jobs come first
    if not quick:
        for i in range(1, 6):
            jobs.append(('exhT{}'.format(i), '<< ThoroughFamilies[{}] >>'.format(i), {}, dict(workers=4, coverage=False, timeout=2400)))
    for i in range(1, 8):
        jobs.append(('exh{}'.format(i), '<< QuickFamilies[{}] >>'.format(i), {}, dict(workers=2, coverage=not quick, timeout=900 if quick else 2400)))
    jobs.append(('cov', 'CovFamilies', {}, dict(workers=2, coverage=True, timeout=900 if quick else 2400)))
    # 2. deeper behaviours by simulation (a fixed number of behaviours: reproducible for a given seed)
    for k in range(1 if quick else 2):
        for i in range(1, 5):
            jobs.append(('sim{}{}'.format(i, 'abcd'[k]), '<< SimFamilies[{}] >>'.format(i), {},
                         dict(workers=1, simulate=dict(num=80 if quick else 600), depth=16, seed=rep.seed + 13 + i + 100 * k, timeout=600 if quick else 2400)))
    # 3. spec mutants: each must violate its lemma
    for name, inv in MUTANTS.items():
        jobs.append(('mutant-' + name, 'MutantFamilies', dict(mutant=name, invariants=[inv], emit=False), dict(workers=1, timeout=600)))
    with concurrent.futures.ThreadPoolExecutor(max_workers=14 if quick else 10) as pool:
        results = dict(pool.map(_tlc_job_collected, jobs))
    rep.lap('TLC: {} runs'.format(len(jobs)))

    exh, sim, mut = {}, {}, {}
    coverage = collections.Counter()
    for name, (res, groups, tabs) in results.items():
        if name.startswith('mutant-'):
            m = name[len('mutant-'):]
            mut[m] = res.violated
            rep.tlc_cmds.append('spec mutant {}: {} violated after {} states'.format(m, res.violated, res.distinct or res.generated))
            if res.violated != MUTANTS[m]:
                raise RuntimeError('spec mutant {} does not violate {} (got {}): the lemma is vacuous'.format(m, MUTANTS[m], res.violated))
            continue
        if res.violated:
            raise tlc.TLCError('Subst ({}): model-internal lemma {} violated (the model is wrong):\n{}'.format(name, res.violated, '\n'.join(res.error_trace[:80])))
        isexh = name.startswith('exh') or name == 'cov'
        rep.add_tlc(res, exhaustive=isexh)
        tgt = exh if isexh else sim
        tables.update(tabs)
        for k, g in groups.items():
            if k in tgt:
                tgt[k]['outcomes'].update(g['outcomes'])
            else:
                tgt[k] = g
        if isexh:
            for a, (d, t) in res.coverage.items():
                coverage[a] += t
    emitted_actions = collections.Counter()
    for g in list(exh.values()) + list(sim.values()):
        emitted_actions.update(actions_of(g))
    rep.extra['emitted_actions'] = dict(emitted_actions)   # actions taken in ALL behaviours TLC emitted (rep.actions: TLC's own coverage of the runs with -coverage)
    rep.exhaustive = False   # the simulation runs are not exhaustive; the exhN runs are (see tlc_cmds)
    rep.extra['spec_mutants'] = mut
    missing = [a for a in ACTIONS if coverage.get(a, 0) == 0]
    if missing:
        raise RuntimeError('vacuous: actions never taken: {}'.format(missing))
    if not tables:
        raise RuntimeError('the tables were not emitted')
    return exh, sim, tables


def replay_stage(rep, exh, sim, tables):
    rng = random.Random(rep.seed)
    quick = rep.tier == 'quick'
    # ---- 4. selection of the groups (program + all predicted outcomes) to replay
    budget = 3000 if quick else 12000
    egroups = list(exh.values())
    rng.shuffle(egroups)
    # round robin over (vocabulary, manipulation signature) classes: every kind of behaviour TLC produced is replayed before a
    # second representative of any class is taken
    classes = collections.defaultdict(list)
    for g in egroups:
        classes[g['fam'], tuple((n['op'], n['k'], len(n['p'])) for n in g['prog'] if n['op'] in MANIPS)].append(g)
    sel = []
    order = sorted(classes)
    rank = 0
    while len(sel) < min(budget, len(egroups)):
        for c in order:
            if rank < len(classes[c]) and len(sel) < budget:
                sel.append(classes[c][rank])
        rank += 1
    sgroups = [g for k, g in sim.items() if k not in exh]
    rng.shuffle(sgroups)
    sel += sgroups[:budget // 3]
    rep.constants.update(exhaustive_programs=len(exh), simulated_programs=len(sgroups), replayed_programs=len(sel),
                         exhaustive_outcomes=sum(len(g['outcomes']) for g in exh.values()))
    # quick: the baseline spelling plus two rotating other spellings per program; thorough: every spelling for every program
    items = [(tables, g['prog'], list(g['outcomes'].values()), [2 * i, 2 * i + 1] if quick else None) for i, g in enumerate(sel)]
    del exh, sim, egroups, sgroups, classes
    import gc
    cr.warm()
    gc.collect()
    gc.freeze()       # the workers are forked: keep the parent's heap out of their collections
    try:
        outs = exprs.pmap(cr.replay_group, items, chunksize=8)
    finally:
        gc.unfreeze()
    rep.lap('replayed')

    # ---- 5. verdicts
    spellings = collections.Counter()
    judged = values = rejects = late = 0
    replayed_actions = collections.Counter()
    for g, o in zip(sel, outs):
        if 'harness_error' in o:
            raise RuntimeError(o['harness_error'])
        prog = g['prog']
        nman = sum(1 for n in prog if n['op'] in ('Replace', 'Lin', 'Deriv', 'Factor', 'Int'))
        rep.case(canon(prog), nontrivial=nman >= 1 and o['judged'] > 0)
        rep.traces += len(g['outcomes'])
        if o['judged'] > 0:
            for a, n in actions_of(g).items():
                replayed_actions[a] += n
        judged += o['judged']
        values += o['values']
        rejects += o['rejects']
        late += o['late_rejects']
        for s in o['spellings']:
            spellings[s] += 1
        for why, n in o['skipped'].items():
            rep.skip(why, n)
        for key, what, data in o['violations']:
            rep.violation(key, what, data)
    # vacuity at the level of the binding: every action of the machine occurs in a behaviour that was replayed AND judged on nutils
    missing = [a for a in ACTIONS if replayed_actions.get(a, 0) == 0]
    if missing:
        raise RuntimeError('vacuous: no replayed behaviour takes the actions {}'.format(missing))
    rep.extra['replayed_actions'] = dict(replayed_actions)
    rep.extra.update(comparisons=judged, values_compared=values, rejections_observed=rejects, late_rejections=late,
                     spellings_exercised=dict(spellings))
    shown = [g for g in sel if any(n['op'] in MANIPS for n in g['prog']) and any(r['verdict'] == 'VALUE' for r in g['outcomes'].values())]
    for g in (shown[:2] + shown[len(shown) // 2:][:2] + sel[-1:])[:5]:
        rep.sample(dict(program=[[n['op'], n['d'], n['p'], n['k'], n['sh']] for n in g['prog']], outcomes=[[r['verdict'], r['stage'], r['asg'], r['mode']] for r in g['outcomes'].values()][:6]))
    rep.rule = ('case = one program of the Subst machine (function + manipulations) with all outcomes TLC predicts for it; '
                'non-trivial = at least one manipulation (replace / linearize / derivative / factor / integral) and at least one outcome judged against nutils')
    rep.assumptions += [
        'reference = the defining equations of the property over exact dual-number rationals (ArraySem.tla); capped model values (UNDEF) are not judged',
        'a wrong value at call time must be refused only for an argument the model proves the result depends on (verdict ANY otherwise)',
        'refusal of a wrong replacement is accepted at construction or, late, at evaluation; only a returned value is a violation',
        'at most one level of differentiation per behaviour (no linearize of a derivative); factor only for float arguments',
        'replacement keys that do not occur in the function (silently skipped by nutils) and dict keys given as Argument objects (unhashable) are not modelled',
    ]
