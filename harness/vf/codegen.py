"""Observation of generated evaluation scripts (C02 C->S, static part of C16).

`capture()` wraps nutils._util.function as seen from nutils.evaluable (the seam the
property names as observation point): every generated script is recorded; calling
the compiled function under `trace_call` records the sequence of executed source
lines with sys.settrace.  `events()` turns an execution into the event sequence of
spec/TraceCodeGen.tla: every executed statement becomes one event
  [k kind, t target variable id, r read variable ids, nl number of enclosing loops, ln line]
classified from the statement's syntax and the trailing
  # <Class> e<N>[, origin: <Class> e<M>][; alloc|zero]
comment that nutils itself emits.
"""

import contextlib
import re
import sys

VAR = re.compile(r'\b(v\d+|c[0-9a-f]{40}|i\d+(?:_\d+)*|lock\d*)\b')
COMMENT = re.compile(r'#\s*(\w+) e(\d+)(?:, origin: (\w+) e(\d+))?(?:; (alloc|zero))?\s*$')


class Script:
    def __init__(self, text):
        self.text = text
        self.lines = text.splitlines()
        self.info = {}      # lineno (1-based) -> dict
        self.varid = {}
        self.globals = []
        self._parse()

    def vid(self, name):
        if name not in self.varid:
            self.varid[name] = len(self.varid) + 1
        return self.varid[name]

    def _vars(self, s):
        return [m.group(1) for m in VAR.finditer(s)]

    def _parse(self):
        loopstack = []   # (indent, lineno) of enclosing for statements
        for ln, raw in enumerate(self.lines, 1):
            stripped = raw.strip()
            if not stripped or stripped.startswith('#') or stripped.startswith('def '):
                continue
            indent = len(raw) - len(raw.lstrip())
            while loopstack and loopstack[-1][0] >= indent:
                loopstack.pop()
            code, _, comment = raw.partition(' # ')
            code = code.strip()
            cm = COMMENT.search(raw)
            cls, eid, ocls, oeid, flag = cm.groups() if cm else (None, None, None, None, None)
            d = dict(ln=ln, nl=len(loopstack), loops=[l for _, l in loopstack], cls=cls or '', eid=int(eid) if eid else -1,
                     origin=int(oeid) if oeid else -1, text=code)
            m = None
            if code.startswith('global '):
                d.update(k='GLOBAL', t=None, r=[])
                self.globals = [self.vid(v) for v in self._vars(code)]
            elif code.startswith('if first_run') or code == 'else:':
                d.update(k='BRANCH', t=None, r=[])
            elif code == 'first_run = False':
                d.update(k='FIRSTRUNDONE', t=None, r=[])
            elif code.startswith('for '):
                m = re.match(r'for (\S+) in (.*):$', code)
                d.update(k='FOR', t=m.group(1), r=self._vars(m.group(2)))
                loopstack.append((indent, ln))
            elif code.startswith('with '):
                m = re.match(r'with (.*) as (\w+):$', code)
                if m:
                    d.update(k='WITHAS', t=m.group(2), r=self._vars(m.group(1)))
                else:
                    m = re.match(r'with (\S+):$', code)
                    d.update(k='LOCK', t=None, r=self._vars(m.group(1)) if m else self._vars(code))
            elif code.startswith('if '):
                d.update(k='READ', t=None, r=self._vars(code))
            elif code.startswith('raise ') or code.startswith('assert '):
                d.update(k='READ', t=None, r=self._vars(code))
            elif code.startswith('return'):
                d.update(k='RETURN', t=None, r=self._vars(code))
            elif code.endswith('.setflags(write=False)'):
                d.update(k='FREEZE', t=self._vars(code)[0], r=[])
            elif flag == 'alloc' or re.match(r'(v\d+) = (numpy\.empty|parallel\.shempty)\(', code):
                m = re.match(r'(\w+) = (.*)$', code)
                d.update(k='ALLOC', t=m.group(1), r=self._vars(m.group(2)), shared='parallel.sh' in code)
            elif flag == 'zero' or code.endswith('.fill(0)'):
                vs = self._vars(code)
                whole = re.match(r'(\w+)\.fill\(0\)$', code) is not None
                # zeroing a view (slice / diagonal) of a buffer is a partial write, not a re-initialisation
                d.update(k='ZERO' if whole else 'COPYTO', t=vs[0], r=vs[1:])
            elif code.startswith('numpy.add.at('):
                vs = self._vars(code)
                d.update(k='ADDAT', t=vs[0], r=vs[1:])
            elif code.startswith('numpy.add(') and 'out=' in code:
                vs = self._vars(code)
                d.update(k='IADD', t=vs[0], r=[v for v in vs[1:] if v != vs[0]])
            elif code.startswith('numpy.multiply(') and 'out=' in code:
                vs = self._vars(code)
                d.update(k='IMUL', t=vs[0], r=[v for v in vs[1:] if v != vs[0]])
            elif code.startswith('numpy.copyto('):
                vs = self._vars(code)
                d.update(k='COPYTO', t=vs[0], r=[v for v in vs[1:] if v != vs[0]])
            else:
                m = re.match(r'([\w\[\], .:]+?) = (.*)$', code)
                if m and VAR.match(m.group(1).strip().split('[')[0].split('.')[0]):
                    lhs = m.group(1).strip()
                    root = self._vars(lhs)[0]
                    if lhs == root:
                        d.update(k='ASSIGN', t=root, r=self._vars(m.group(2)))
                    else:   # sliced / attribute assignment: partial write into an existing buffer
                        d.update(k='COPYTO', t=root, r=[v for v in self._vars(lhs)[1:] + self._vars(m.group(2)) if v != root])
                elif m and m.group(1).strip() == 'stats':
                    d.update(k='OTHER', t=None, r=[])
                else:
                    mo = re.search(r'out=(\w+)', code)
                    if mo and VAR.match(mo.group(1)):
                        d.update(k='COPYTO', t=mo.group(1), r=[v for v in self._vars(code) if v != mo.group(1)])
                    else:
                        d.update(k='EXEC', t=None, r=self._vars(code))
            self.info[ln] = d


class Recorder:
    def __init__(self):
        self.scripts = []     # list of (Script, function)


@contextlib.contextmanager
def capture():
    from nutils import evaluable
    rec = Recorder()
    orig = evaluable.util.function

    def wrapped(script, globals={}):
        f = orig(script, globals)
        rec.scripts.append((Script(script), f))
        return f
    evaluable.util.function = wrapped
    try:
        yield rec
    finally:
        evaluable.util.function = orig


def trace_call(func, *args, **kw):
    """call a compiled function recording the executed line numbers of its own code object"""
    code = func.__code__
    lines = []

    def tracer(frame, event, arg):
        if frame.f_code is not code:
            return None
        if event == 'line':
            lines.append(frame.f_lineno)
        return tracer
    old = sys.gettrace()
    sys.settrace(tracer)
    try:
        ret = func(*args, **kw)
    finally:
        sys.settrace(old)
    return ret, lines


KINDS = ['GLOBAL', 'BRANCH', 'FIRSTRUNDONE', 'FOR', 'WITHAS', 'LOCK', 'READ', 'RETURN', 'FREEZE', 'ALLOC', 'ZERO', 'ADDAT', 'IADD', 'IMUL', 'COPYTO', 'ASSIGN', 'EXEC', 'OTHER']


def events(script, lines):
    """event records for TraceCodeGen.tla from an executed line sequence"""
    out = []
    for ln in lines:
        d = script.info.get(ln)
        if d is None:
            continue
        out.append(dict(k=d['k'], t=script.vid(d['t']) if d['t'] else 0, r=sorted({script.vid(v) for v in d['r']}),
                        nl=d['nl'], lp=d['loops'][-1] if d['loops'] else 0, ln=ln, sh=1 if d.get('shared') else 0,
                        cst=1 if (d['t'] or '').startswith('c') else 0))
    return out
