\* quick, exhaustive: products of two small one-dimensional splines (mixed degree, continuity, periodicity),
\* removedofs, discont, and one Mask / Prune / Part step chosen from a few patterns
SPECIFICATION Spec
CONSTANTS
  DimA <- Dims_2a_q
  DimB <- Dims_2b_q
  MaxDims = 2
  RemChoices <- Rem_2
  MaxDer = 1
  SmallNd = 0
  SmallNe = 0
  Kinds <- Kinds_all
  Mutant = "none"
INVARIANT TypeOK
INVARIANT InvInverse
INVARIANT InvNoDead
INVARIANT InvUnit
INVARIANT InvSpline
INVARIANT EmitState
PROPERTY StepProp
CHECK_DEADLOCK FALSE
