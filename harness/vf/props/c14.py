"""C14 -- Solvers return a certified solution or raise.

Deciding method: TLA+ models checked by TLC and bound to the real code.

  spec/Solver.tla     protocol of System.solve, Direct / Newton / ReuseNewton /
                      LinesearchNewton / Arnoldi and Matrix._solver / solve_leniently
                      with IEEE comparison semantics; Certified, NoSilent
  spec/StepRetry.tla  System.step: bisection retry tree; Advance, Tiling
  spec/LinSolve.tla   Matrix.solve constraint handling, solve_constraints / project
                      drop tolerance, in exact rational arithmetic; ConsExact,
                      FreeResidual, IndepOfGuess, SingularRaises, NaNExact
  spec/TraceSolver.tla  trace validation of real executions against Solver.tla

Solver and StepRetry model two variants of every call, selected by conf.rep: the
code as written (rep=FALSE) and the design the property demands (rep=TRUE).  The
invariants hold for the demanded design (exhaustive TLC); on the as-written
variant TLC exhibits the violations (Solver_mutant.cfg / StepRetry_mutant.cfg, and
the TLC-evaluated Certified flag of every emitted behaviour), which doubles as the
spec mutant that shows the invariants are not vacuous.  Bindings:
  S->C  every complete behaviour of the as-written models, with the model's
        predictions, is replayed on the real code (c14_proto, c14_step);
        harness-chosen integer inputs are solved exactly by TLC and compared with
        every backend/solver and the legacy wrappers (c14_lin)
  C->S  real random nonlinear/linear Systems solved by the real System.solve with a
        recording method wrapper, validated by TraceSolver (c14_trace)
An observation that matches an as-written behaviour which the model does not
certify is a genuine violation; its key is the guard named by the model.
"""

import concurrent.futures
import os
import random
import shutil
import time

from .. import tlc
from . import c14_proto, c14_step, c14_lin, c14_trace

LEVEL = 'model_checking'
WORKROOT = os.path.join(tlc.WORK, 'c14')

ERRORS = ('SolverError', 'MatrixError', 'ToleranceNotReached')


def _cfg(name, **subst):
    txt = open(os.path.join(tlc.SPEC, name)).read()
    for k, v in subst.items():
        lines = []
        for line in txt.splitlines():
            if line.strip().startswith(k + ' ='):
                line = '  {} = {}'.format(k, v)
            lines.append(line)
        txt = '\n'.join(lines) + '\n'
    return txt


def design_jobs(rep):
    """all design-level TLC runs: name -> (module, cfg text, kwargs)"""
    thorough = rep.tier == 'thorough'
    draw = dict(MaxDraw=6 if thorough else 4)
    if thorough:
        draw['MaxIters'] = '{1, 2, 3, 99}'
    retry = dict(MaxRetrySet='{0, 1, 2}', MaxCalls=7)
    lin = dict(Ent='{0, 1, 2}', RhsVals='{0, 1, 3}') if thorough else {}
    # ReuseNewton's reject branch and the line search failure need longer oracle sequences: two methods, fewer magnitudes
    deep = dict(MaxDraw=9 if thorough else 7)
    jobs = dict(
        lin=('LinSolve', _cfg('LinSolve.cfg', **lin), dict(coverage=True)),
        solver=('Solver', _cfg('Solver.cfg', **draw), dict(coverage=True)),
        solver_deep=('Solver', _cfg('Solver_deep.cfg', **deep), dict(coverage=True)),
        step=('StepRetry', _cfg('StepRetry.cfg', **retry), dict(coverage=True)),
        # design mutant: _solver trusts the named 'direct' solver and skips the a-posteriori residual check for it
        lin_mutant=('LinSolve', _cfg('LinSolve_mutant.cfg', Kinds='{"solve"}'), {}),
    )
    if thorough:
        # the as-written variants with the property demanded of them: TLC must produce the counterexamples itself
        jobs['solver_mutant'] = ('Solver', _cfg('Solver_mutant.cfg', **draw), {})
        jobs['step_mutant'] = ('StepRetry', _cfg('StepRetry_mutant.cfg', **retry), {})
        jobs['lin3'] = ('LinSolve', _cfg('LinSolve.cfg', N=3, Ent='{0, 1}', RhsVals='{0, 1}', Kinds='{"droptol", "project"}'), {})
    rep.constants['Solver'] = dict(dict(Methods='direct,newton,reuse,linesearch,arnoldi', Vals='0,1,2,4,inf,nan', Tols='0,1', MinIters='0,1',
                                        MaxIters='{1, 2, 99(None)}', LModes='none,abs,rel', deep_MaxDraw=deep['MaxDraw']), **draw)
    rep.constants['StepRetry'] = retry
    rep.constants['LinSolve'] = dict(N=2, Ent=lin.get('Ent', '{0, 1, 2}'), RhsVals=lin.get('RhsVals', '{0, 1}'), DropTols='{0, 1}')
    return jobs


def run_job(item):
    name, (module, cfgtext, kw) = item
    return c14_proto.tlc_run(module, tag='c14-' + name, cfg_text=cfgtext, deadlock=False, workers=3, timeout=1500, **kw)


def design_check(rep, results):
    """invariants of the demanded designs hold, the as-written models violate them (non-vacuity), every action was taken"""
    for name, res in results.items():
        rep.add_tlc(res, exhaustive=True)
        if name.endswith('_mutant'):
            if res.violated not in ('CertifiedAsWritten', 'NoSilentAsWritten', 'AdvanceAsWritten') + (('Certified',) if name == 'lin_mutant' else ()):
                raise RuntimeError('vacuity: the as-written model {} does not violate the property invariants (got {})'.format(name, res.violated))
        elif res.violated:
            raise RuntimeError('design spec {} violates {}:\n{}'.format(name, res.violated, '\n'.join(res.error_trace[-40:])))
    # spec mutant, decided by TLC: CertNow is evaluated by TLC in every terminal state of the as-written variants
    for name in ('solver', 'step'):
        aw = [b for b in results[name].emitted if not b['conf']['rep']]
        if any(not b['cert'] or b['outcome'] == 'StopIteration' for b in results[name].emitted if b['conf']['rep']):
            raise RuntimeError('the demanded design {} emitted an uncertified behaviour'.format(name))
        if not any(not b['cert'] for b in aw):
            raise RuntimeError('vacuity: no behaviour of the as-written variant of {} fails Certified/Advance'.format(name))
    if any(not b['cert'] for b in results['step'].emitted if b['conf']['rep']):
        raise RuntimeError('the demanded StepRetry design emitted an uncertified behaviour')
    for names in (('solver', 'solver_deep'), ('step',), ('lin',)):
        cov = {}
        for name in names:
            for a, n in results[name].coverage.items():
                cov[a] = cov.get(a, 0) + n[1]
        zero = [a for a, n in cov.items() if n == 0]
        if zero or not cov:
            raise RuntimeError('vacuity: actions never taken in {}: {}'.format(names, zero))
    rep.extra['as_written_model_uncertified_behaviours'] = {name: sum(1 for b in results[name].emitted if not b['cert'] and not b['conf']['rep'])
                                                            for name in ('solver', 'solver_deep', 'step')}
    rep.extra['design_level_counterexamples'] = {k: results[k].violated for k in results if k.endswith('_mutant')}


def _conforms(b, o):
    return (o['outcome'] == b['outcome'] and o.get('consumed') == len(b['draws'])
            and (o['outcome'] != 'return' or o['cert'] == b['cert'])
            and (b['conf']['m'] == 'direct' or o['outcome'] == 'ValueError' or o['niter'] == b['iiter']))


def replay_protocol(rep, behaviours):
    """S->C for Solver.tla: every as-written behaviour is replayed; the code must reproduce it, or behave as the
    demanded design does on the draws it consumed"""
    ckey = lambda b: tuple(sorted((k, v) for k, v in b['conf'].items() if k != 'rep'))
    dkey = lambda b, n=None: (ckey(b), tuple(map(tuple, b['draws'][:n])))
    demanded = {}      # the demanded design is nondeterministic: several behaviours may share the same draws
    for b in behaviours:
        if b['conf']['rep']:
            demanded.setdefault(dkey(b), []).append(b)
    nrep = 0
    repaired = 0
    sample = None
    for i, b in enumerate(b for b in behaviours if not b['conf']['rep']):
        conf = b['conf']
        o = c14_proto.replay(b, variant=i)
        nrep += 1
        rep.case(('proto', ckey(b), tuple(map(tuple, b['draws']))), nontrivial=len(b['draws']) >= 2)
        condemned = (not b['cert']) or b['outcome'] not in ERRORS + ('return', 'ValueError')
        data = dict(model=b, observed=o)
        if len(b['draws']) == 3 and sample is None:
            sample = b
        if _conforms(b, o):
            if condemned:
                key = b['why'] if b['outcome'] == 'return' else 'System.solve:raises-' + b['outcome']
                rep.violation(key, 'System.solve(method={}) {}: model (code as written) and real code agree on a behaviour the property forbids'.format(
                    conf['m'], 'returns an uncertified answer through ' + b['why'] if b['outcome'] == 'return' else 'raises ' + b['outcome']), data)
            else:
                rep.traces += 1
            continue
        ds = demanded.get(dkey(b, o.get('consumed')), []) if o['outcome'] != 'mismatch' else []
        if any(_conforms(d, o) for d in ds):
            repaired += 1       # a behaviour of the demanded design (Certified / NoSilent are its invariants)
            rep.traces += 1
        elif condemned and o['outcome'] in ERRORS + ('mismatch',):
            repaired += 1       # the code does not return where the as-written model returns uncertified: what the property demands
            rep.traces += 1
        else:
            rep.violation('proto-replay:{}:{}->{}'.format(conf['m'], b['outcome'], o['outcome'] if o['outcome'] != b['outcome'] else
                                                        ('cert' if o['outcome'] == 'return' and o.get('cert') != b['cert'] else
                                                         'iterations' if o.get('consumed') == len(b['draws']) else 'draws')),
                          'real code deviates from Solver.tla: model predicts {} after {} iterations (certified={}), code: {} after {} (certified={}, {} of {} draws) {}'.format(
                              b['outcome'], b['iiter'], b['cert'], o['outcome'], o['niter'], o.get('cert'), o.get('consumed'), len(b['draws']), o['detail']), data)
    rep.extra['protocol_behaviours_replayed'] = nrep
    rep.extra['protocol_behaviours_code_follows_demanded_design'] = repaired
    if sample:
        rep.sample(dict(kind='Solver.tla behaviour replayed on System.solve', **{k: sample[k] for k in ('conf', 'draws', 'outcome', 'iiter', 'cert')}))


def replay_steps(rep, ascoded, demanded, nvariants):
    key = lambda b: (b['conf']['maxretry'], b['conf']['timedep'], tuple(c[3] for c in b['calls']))
    dem = {key(b): b for b in demanded}
    n = 0
    for i, b in enumerate(ascoded):
        br = dem.get(key(b))
        if br is None:
            raise RuntimeError('StepRetry: the two variants disagree on the set of oracle sequences')
        for variant in range(i, i + 5 * nvariants, 5):
            o = c14_step.replay(b, variant)
            n += 1
            rep.case(('step', key(b), variant % 18), nontrivial=len(b['calls']) >= 2)
            data = dict(model_as_written=b, model_demanded=br, observed=o)
            if o['outcome'] != 'mismatch' and c14_step.conforms(br, o) and (o['outcome'] != 'return' or o['cert']):
                rep.traces += 1
            elif o['outcome'] != 'mismatch' and c14_step.conforms(b, o):
                if b['cert'] and (o['outcome'] != 'return' or o['cert']):
                    rep.traces += 1
                else:
                    rep.violation('System.step:retry-from-advanced-time',
                                  'System.step with bisection retry: the retried half steps start from the already advanced time; a step of {} from t={} returns t={} '
                                  '(model as written and real code agree; Advance/Tiling violated)'.format(o['timestep'], o['T0'], o.get('time')), data)
            else:
                rep.violation('step-replay:{}->{}'.format(b['outcome'], o['outcome']),
                              'System.step deviates from StepRetry.tla (both variants): model calls {}, code saw {} {}'.format(b['calls'], o.get('seen'), o['detail']), data)
    rep.extra['step_behaviours_replayed'] = n
    if ascoded:
        rep.sample(dict(kind='StepRetry.tla behaviour replayed on System.step', **ascoded[len(ascoded) // 2]))


def special_traces():
    """deterministic C->S cases: non-finite right hand sides through the builtin linear solvers"""
    return [(backend, linsolver, lmode, tolpos, bad) for backend in c14_proto.backends() for linsolver in ('direct', 'arnoldi')
            for lmode in ('none', 'abs') for tolpos in (False, True) for bad in ('nan', 'inf')]


def run(rep):
    tier = rep.tier
    rng = random.Random(rep.seed)
    shutil.rmtree(WORKROOT, ignore_errors=True)
    os.makedirs(WORKROOT)
    walls = rep.extra.setdefault('phase_wall_s', {})
    t0 = time.time()

    def lap(name):
        nonlocal t0
        walls[name] = round(time.time() - t0, 1)
        t0 = time.time()
    bk = c14_proto.backends()
    if 'scipy' not in bk:
        rep.skip('scipy matrix backend not importable: only the numpy backend is exercised')
    with concurrent.futures.ThreadPoolExecutor(max_workers=6) as ex:
        # ---- 1. design level: all TLC runs start now and are collected below
        jobs = design_jobs(rep)
        futs = {name: ex.submit(run_job, (name, job)) for name, job in jobs.items()}
        # ---- 2. C->S: real systems solved while TLC is busy; validated by TraceSolver in parallel batches
        ntr = 150 if tier == 'quick' else 5000
        traces = [c14_trace.special_case(*s) for s in special_traces()]
        traces += [c14_trace.special_linesearch(bk[0], api) for api in ('System.solve', 'legacy')]
        for i in range(ntr):
            traces.append(c14_trace.run_case(rng, rng.choice(bk)))
        batch = 100 if tier == 'quick' else 500
        parts = [traces[k:k + batch] for k in range(0, len(traces), batch)]
        tfuts = [ex.submit(c14_trace.validate_run, part, 'c14-trace-{}'.format(k)) for k, part in enumerate(parts)]
        lap('trace_generation')
        # ---- 3. S->C: linear solves with constraints, drop tolerance, projection
        c14_lin.run(rep, rng, 45 if tier == 'quick' else 800, tier)
        lap('linsolve')
        results = {name: f.result() for name, f in futs.items()}
        design_check(rep, results)
        lap('design_tlc_wait')
        # ---- 4. S->C: protocol behaviours on the real System.solve / methods / Matrix._solver
        replay_protocol(rep, results['solver'].emitted + results['solver_deep'].emitted)
        lap('protocol_replay')
        # ---- 5. S->C: time step bisection
        replay_steps(rep, [b for b in results['step'].emitted if not b['conf']['rep']], [b for b in results['step'].emitted if b['conf']['rep']], 2 if tier == 'quick' else 18)
        lap('step_replay')
        nok = 0
        for part, f in zip(parts, tfuts):
            nok += c14_trace.judge(rep, part, c14_trace.verdicts_of(rep, f.result(), part))
        rep.traces += nok
        lap('trace_validation_wait')
    for t in traces:
        rep.case(('trace', t['info']['api'], t['info']['method'], t['info']['backend'], t['info']['linsolver'], t['info']['conskind'],
                  tuple((e['ev'], e.get('r'), e.get('outcome')) for e in t['events'])), nontrivial=len(t['events']) >= 3)
    rep.extra['solve_traces'] = len(traces)
    rep.extra['solve_trace_outcomes'] = {}
    for t in traces:
        k = '{}:{}:{}'.format(t['info']['api'], t['info']['method'], t['events'][-1]['outcome'])
        rep.extra['solve_trace_outcomes'][k] = rep.extra['solve_trace_outcomes'].get(k, 0) + 1
    rep.sample(dict(kind='recorded System.solve execution', conf=traces[-1]['conf'], info=traces[-1]['info'],
                    events=[{k: v for k, v in e.items() if k in ('ev', 'r', 't', 'c', 'outcome', 'iiter', 'rep', 'true')} for e in traces[-1]['events']][:12]))
    rep.rule = ('cases = Solver.tla behaviours (distinct configuration + oracle draw sequence with >= 2 draws) + StepRetry.tla behaviours x call variants '
                '(>= 2 solve calls) + LinSolve inputs x backend x solver x guess variant (distinct signature) + recorded executions (distinct event sequences with >= 3 events)')
    rep.assumptions += [
        'residual norms are abstracted to the magnitudes {0,1,2,4,inf,nan} relative to tol=1; the oracle is unconstrained (any sequence of residuals), which over-approximates real systems',
        'with tol=0 / atol=rtol=0 ("machine precision") nothing is requested: only finiteness and exact constraints are demanded of a returned answer',
        'a non-finite residual norm is not "within tolerance"; an exception other than SolverError/MatrixError(+subclasses)/ValueError(argument validation) is not "a solver or matrix error"',
        'Minimize and Pseudotime are validated as instances of the LinesearchNewton / Newton protocol (C->S only); the cached-matrix path of a re-used Arnoldi object is not modelled',
        'LinSolve: exact rational arithmetic on integer inputs up to 3x3; float results are compared with the exact answer to 1e-9 relative (regular blocks, no tolerance requested) or by the requested tolerance',
        'Topology.project: lsqr projection on a 1D linear mesh; a zero load with non-zero prior constraints (short-cut in project) is not replayed',
    ]
    shutil.rmtree(WORKROOT, ignore_errors=True)
