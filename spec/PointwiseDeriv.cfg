SPECIFICATION Spec
CONSTRAINT Report
CHECK_DEADLOCK FALSE
