------------------------------ MODULE CacheFn ------------------------------
(***************************************************************************)
(* Design specification of nutils.cache.function (src/nutils/cache.py      *)
(* lines 185-234): one cache entry (one key = one file), several           *)
(* processes calling the memoised function concurrently, crashes at any    *)
(* step -- in particular between any two bytes of pickle.dump.             *)
(*                                                                         *)
(* One action per step of the wrapper:                                     *)
(*   Call, Touch (mkdir+touch), Open (open r+b), Lock (flock LOCK_EX),     *)
(*   LoadOk / LoadFail / LoadOther (pickle.load and the except tuple),     *)
(*   Seek0, ComputeStart / ComputeOk / ComputeRaise (func(args)),         *)
(*   DumpByte (pickle.dump, one byte per step), Close (leaving the with    *)
(*   block: releases the flock), Return, and Crash (process death at any   *)
(*   step; the OS releases the flock).                                     *)
(*                                                                         *)
(* File content is a sequence of byte tokens <<w, i>>: byte number i of    *)
(* the pickle produced by write attempt w.  When DetPickle is TRUE every   *)
(* attempt produces the same bytes (w = 0), which is the documented        *)
(* assumption "func computes its value strictly from its arguments".       *)
(* When FALSE the model distinguishes writers, so that a file mixing the   *)
(* bytes of two attempts (possible because the file is overwritten in      *)
(* place and never truncated) is garbage.                                  *)
(***************************************************************************)
EXTENDS Naturals, Sequences, FiniteSets, TLC

CONSTANTS Procs,      \* process ids
          PLen,       \* length of a complete pickle (abstract bytes)
          MaxCrash,   \* crash budget
          MaxCalls,   \* bound on the total number of calls
          CanRaise,   \* whether func may raise
          DetPickle,  \* every attempt pickles to identical bytes
          InitFiles   \* set of possible initial file contents (sequences of tokens)

VARIABLES exists, file, lockedBy, pc, pos, wid, nbytes, ret, crashes, calls, nwrites

vars == <<exists, file, lockedBy, pc, pos, wid, nbytes, ret, crashes, calls, nwrites>>

None == 0          \* "no process" (process ids are model values or positive integers)
NoRet == "none"
TrueValue == "F(args)"

Garbage == <<99, 99>>     \* a byte that is not part of any pickle
Tok(w, i) == <<w, i>>
Good(w) == [i \in 1..PLen |-> Tok(w, i)]

\* ------------------------------------------------------------------ pickle.load
IsPrefixOfGood(c) == /\ Len(c) < PLen
                     /\ \A i \in 1..Len(c) : c[i][2] = i /\ c[i][1] = c[1][1]
IsComplete(c) == /\ Len(c) >= PLen
                 /\ \A i \in 1..PLen : c[i][2] = i /\ c[i][1] = c[1][1]
\* verdict of pickle.load on the content: "ok", "eof" (EOFError or the
\* truncation flavour of UnpicklingError) or "garbage"
Load(c) == IF IsComplete(c) THEN "ok"
           ELSE IF IsPrefixOfGood(c) THEN "eof"
           ELSE "garbage"

\* ------------------------------------------------------------------ helpers
Overwrite(c, p, b) == IF p + 1 <= Len(c) THEN [c EXCEPT ![p + 1] = b] ELSE Append(c, b)
InLock == {"locked", "failed", "seeked", "computing", "computed", "dumping", "stored", "returning", "raising"}
InCompute == {"computing", "computed", "dumping"}

Init == /\ exists \in BOOLEAN
        /\ file \in (IF exists THEN InitFiles ELSE {<<>>})
        /\ lockedBy = None
        /\ pc = [p \in Procs |-> "idle"]
        /\ pos = [p \in Procs |-> 0]
        /\ wid = [p \in Procs |-> 0]
        /\ nbytes = [p \in Procs |-> 0]
        /\ ret = [p \in Procs |-> NoRet]
        /\ crashes = 0
        /\ calls = 0
        /\ nwrites = 0

Call(p) == /\ pc[p] = "idle" /\ calls < MaxCalls
           /\ calls' = calls + 1
           /\ pc' = [pc EXCEPT ![p] = "start"]
           /\ ret' = [ret EXCEPT ![p] = NoRet]
           /\ UNCHANGED <<exists, file, lockedBy, pos, wid, nbytes, crashes, nwrites>>

Touch(p) == /\ pc[p] = "start"
            /\ exists' = TRUE
            /\ pc' = [pc EXCEPT ![p] = "touched"]
            /\ UNCHANGED <<file, lockedBy, pos, wid, nbytes, ret, crashes, calls, nwrites>>

Open(p) == /\ pc[p] = "touched"
           /\ pos' = [pos EXCEPT ![p] = 0]
           /\ pc' = [pc EXCEPT ![p] = "opened"]
           /\ UNCHANGED <<exists, file, lockedBy, wid, nbytes, ret, crashes, calls, nwrites>>

Lock(p) == /\ pc[p] = "opened" /\ lockedBy = None
           /\ lockedBy' = p
           /\ pc' = [pc EXCEPT ![p] = "locked"]
           /\ UNCHANGED <<exists, file, pos, wid, nbytes, ret, crashes, calls, nwrites>>

LoadOk(p) == /\ pc[p] = "locked" /\ Load(file) = "ok"
             /\ ret' = [ret EXCEPT ![p] = TrueValue]      \* value and log of the stored pickle
             /\ pc' = [pc EXCEPT ![p] = "returning"]
             /\ UNCHANGED <<exists, file, lockedBy, pos, wid, nbytes, crashes, calls, nwrites>>

\* EOFError / UnpicklingError / IndexError: cache will be rewritten.  The file
\* position after a failed load is arbitrary ("pickle might have read garbage").
LoadFail(p) == /\ pc[p] = "locked" /\ Load(file) \in {"eof", "garbage"}
               /\ \E q \in 0..Len(file) : pos' = [pos EXCEPT ![p] = q]
               /\ pc' = [pc EXCEPT ![p] = "failed"]
               /\ UNCHANGED <<exists, file, lockedBy, wid, nbytes, ret, crashes, calls, nwrites>>

Seek0(p) == /\ pc[p] = "failed"
            /\ pos' = [pos EXCEPT ![p] = 0]
            /\ pc' = [pc EXCEPT ![p] = "seeked"]
            /\ UNCHANGED <<exists, file, lockedBy, wid, nbytes, ret, crashes, calls, nwrites>>

ComputeStart(p) == /\ pc[p] = "seeked"
                   /\ pc' = [pc EXCEPT ![p] = "computing"]
                   /\ UNCHANGED <<exists, file, lockedBy, pos, wid, nbytes, ret, crashes, calls, nwrites>>

ComputeOk(p) == /\ pc[p] = "computing"
                /\ nwrites' = nwrites + 1
                /\ wid' = [wid EXCEPT ![p] = IF DetPickle THEN 0 ELSE nwrites + 1]
                /\ nbytes' = [nbytes EXCEPT ![p] = 0]
                /\ ret' = [ret EXCEPT ![p] = TrueValue]
                /\ pc' = [pc EXCEPT ![p] = "computed"]
                /\ UNCHANGED <<exists, file, lockedBy, pos, crashes, calls>>

ComputeRaise(p) == /\ pc[p] = "computing" /\ CanRaise
                   /\ pc' = [pc EXCEPT ![p] = "raising"]
                   /\ UNCHANGED <<exists, file, lockedBy, pos, wid, nbytes, ret, crashes, calls, nwrites>>

DumpByte(p) == /\ pc[p] \in {"computed", "dumping"} /\ nbytes[p] < PLen
               /\ file' = Overwrite(file, pos[p], Tok(wid[p], nbytes[p] + 1))
               /\ pos' = [pos EXCEPT ![p] = pos[p] + 1]
               /\ nbytes' = [nbytes EXCEPT ![p] = nbytes[p] + 1]
               /\ pc' = [pc EXCEPT ![p] = IF nbytes[p] + 1 = PLen THEN "stored" ELSE "dumping"]
               /\ UNCHANGED <<exists, lockedBy, wid, ret, crashes, calls, nwrites>>

Close(p) == /\ pc[p] \in {"returning", "stored", "raising"}
            /\ lockedBy' = IF lockedBy = p THEN None ELSE lockedBy
            /\ pc' = [pc EXCEPT ![p] = IF pc[p] = "raising" THEN "raised" ELSE "done"]
            /\ UNCHANGED <<exists, file, pos, wid, nbytes, ret, crashes, calls, nwrites>>

Return(p) == /\ pc[p] \in {"done", "raised"}
             /\ pc' = [pc EXCEPT ![p] = "idle"]
             /\ UNCHANGED <<exists, file, lockedBy, pos, wid, nbytes, ret, crashes, calls, nwrites>>

Crash(p) == /\ pc[p] \notin {"idle", "done", "raised"} /\ crashes < MaxCrash
            /\ crashes' = crashes + 1
            /\ lockedBy' = IF lockedBy = p THEN None ELSE lockedBy
            /\ pc' = [pc EXCEPT ![p] = "idle"]
            /\ ret' = [ret EXCEPT ![p] = NoRet]
            /\ UNCHANGED <<exists, file, pos, wid, nbytes, calls, nwrites>>

Step(p) == \/ Call(p) \/ Touch(p) \/ Open(p) \/ Lock(p) \/ LoadOk(p) \/ LoadFail(p)
           \/ Seek0(p) \/ ComputeStart(p) \/ ComputeOk(p) \/ ComputeRaise(p)
           \/ DumpByte(p) \/ Close(p) \/ Return(p)

Next == \E p \in Procs : Step(p) \/ Crash(p)

Fair == /\ \A p \in Procs : WF_vars(Touch(p) \/ Open(p) \/ Lock(p) \/ LoadOk(p) \/ LoadFail(p) \/ Seek0(p)
                                  \/ ComputeStart(p) \/ ComputeOk(p) \/ ComputeRaise(p) \/ DumpByte(p) \/ Close(p))
        /\ \A q \in Procs : SF_vars(Lock(q))

Spec == Init /\ [][Next]_vars /\ Fair

\* ------------------------------------------------------------------ properties
TypeOK == /\ lockedBy \in Procs \cup {None}
          /\ \A p \in Procs : pos[p] \in 0..(Len(file) + PLen)

\* at most one process executes the wrapped function / writes the entry
MutexCompute == Cardinality({p \in Procs : pc[p] \in InCompute}) <= 1

\* every step between flock and close is executed by the lock holder
LockHeld == \A p \in Procs : pc[p] \in InLock => lockedBy = p

\* a call that returns, returns F(args) (value and log of the original call)
Transparent == \A p \in Procs : pc[p] = "done" => ret[p] = TrueValue

\* what pickle.load accepts is the pickle of one complete attempt (never a chimera)
LoadableIsGenuine == Load(file) = "ok" => \E w \in 0..nwrites : SubSeq(file, 1, PLen) = Good(w)

\* with deterministic pickles the file is, in every reachable state, a prefix of
\* the good pickle or the good pickle followed by what was there before
NoGarbageIfDet == (DetPickle /\ \A c \in InitFiles : Load(c) # "garbage") => Load(file) # "garbage"

\* an exception of func is never stored: the only writes are of computed values
\* (structurally true in the model: DumpByte is only enabled after ComputeOk)

\* liveness: every started call terminates (returns, raises, or the process crashes)
Terminates == \A p \in Procs : (pc[p] = "start") ~> (pc[p] \in {"done", "raised", "idle"})

\* a call that raises does so only because func raised
RaiseOnlyFromFunc == \A p \in Procs : pc[p] = "raised" => CanRaise
=============================================================================
