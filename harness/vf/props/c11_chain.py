"""C11 part 1: transform items, swap rules and chain rewriting.

 (T)    tables(): every child/edge item of every reference of dimension <= 3 and every adjacent
        pair of the alphabet is exported from the live code (exact matrices, results of
        swapup/swapdown) and spec/TransformTables.tla decides.
 (S->C) replay(): complete behaviours of spec/ChainRewrite.tla (input chain, algorithm, predicted
        result items and predicted affine map) are replayed on transform.canonical / uppermost /
        promote; the map of the real result (exact, from the real items' matrices) must equal the
        model's prediction.
"""

import json
import os

from .. import tlc
from . import c11_items as ci

REFS = [[], [1], [2], [3], [1, 1], [2, 1], [1, 2], [1, 1, 1]]
WORKROOT = os.path.join(tlc.WORK, 'c11')


def typename(it):
    return dict(X='Index', I='Identity', SC='SimplexChild', SE='SimplexEdge', TC='TensorChild', T1='TensorEdge1', T2='TensorEdge2', SU='ScaledUpdim')[it['t']]


def export_tables():
    from nutils import transform
    items = []
    pairs = []

    def add_items(d, kind):
        abstract = ci.children(d) if kind == 'child' else ci.edges(d)
        real = ci.ref(d).child_transforms if kind == 'child' else (ci.ref(d).edge_transforms if d else ())
        for pos, r in enumerate(real):
            try:
                it = ci.to_abs(r)
                same = ci.to_real(it) is r
            except ci.Unrepresentable:
                it, same = (abstract[pos] if pos < len(abstract) else ci.I(0)), False
            items.append(dict(it=it, ref=list(d), kind=kind, pos=pos, count=len(real), map=ci.item_map(r), same=bool(same),
                              todims=int(r.todims), fromdims=int(r.fromdims)))

    def add_pair(op, a, b):
        ra, rb = ci.to_real(a), ci.to_real(b)
        res = ra.swapup(rb) if op == 'up' else rb.swapdown(ra)
        ent = dict(op=op, a=a, b=b, out=[], maps=[ci.item_map(ra), ci.item_map(rb)], outmaps=[], unrep=False)
        if res is not None:
            try:
                if len(res) != 2:
                    raise ci.Unrepresentable('not a pair')
                ent['out'] = ci.chain_to_abs(res)
                ent['outmaps'] = [ci.item_map(x) for x in res]
            except ci.Unrepresentable:
                ent['unrep'] = True
        pairs.append(ent)
        return ent

    for d in REFS:
        add_items(d, 'child')
        add_items(d, 'edge')
    scaled = []
    for d in REFS:
        n = sum(d)
        for e in ci.edges(d):
            fr = ci.edge_from_ref(d, ci.edge_factor(e))
            for c in ci.children(fr):
                add_pair('up', e, c)
            others = [ci.I(n - 1), ci.X(n - 1, 0)] + ci.edges(fr)[:1]
            for o in others:
                add_pair('up', e, o)
        for c in ci.children(d):
            for e in ci.edges(d):
                ent = add_pair('down', c, e)
                if ent['out'] and ent['out'][0]['t'] != 'SE' and len(scaled) < 400:
                    scaled.append((d, ent['out']))
        for e in ci.edges(d):
            for o in (ci.I(n), ci.X(n, 0)):
                add_pair('down', o, e)
    # second generation: the ScaledUpdim / Identity carrying results are swapped again (both directions)
    seen = set()
    for d, (edge, child) in scaled:
        if ci.key(edge) in seen:
            continue
        seen.add(ci.key(edge))
        add_pair('up', edge, child)
        if edge['t'] == 'SU':
            n = ci.fromdims(edge)
            add_pair('up', edge, ci.X(n, 0))
            for c in ci.children(d)[:3]:
                add_pair('down', c, edge)
        else:
            for c in ci.children(d)[:4]:
                add_pair('down', c, edge)
    swap = [[list(map(int, p)) for p in row] for row in transform.SimplexEdge.swap]
    return dict(swap=swap, items=items, pairs=pairs)


def export_to_file():
    os.makedirs(WORKROOT, exist_ok=True)
    table = export_tables()
    path = os.path.join(WORKROOT, 'table.json')
    with open(path, 'w') as f:
        json.dump(table, f)
    return table, path


def run_tables(path):
    return tlc.run('TransformTables', 'TransformTables.cfg', tag='c11-tables', env=dict(VF_TABLE=path), workers=4, deadlock=False, timeout=600)


def judge_tables(rep, table, res):
    rep.add_tlc(res)
    n = 1 + len(table['items']) + len(table['pairs'])
    if res.violated or res.distinct != n + 1:
        raise RuntimeError('TransformTables: TLC visited {} states for {} entries (violated={})'.format(res.distinct, n, res.violated))
    rep.extra['table_entries'] = dict(items=len(table['items']), pairs=len(table['pairs']),
                                      swaps=sum(1 for p in table['pairs'] if p['out']))
    for em in res.emitted:
        if em['sec'] == 'tail':
            continue
        if em['sec'] == 'swap':
            rep.violation('table:SimplexEdge.swap', 'SimplexEdge.swap differs from the model table (which TLC proves map preserving)', dict(code=table['swap']))
        elif em['sec'] == 'item':
            ent = table['items'][em['id'] - 1]
            rep.violation('table:{}:{}'.format(typename(ent['it']), em['v']), 'item {} of reference {}: {}'.format(ent['it'], ent['ref'], em['v']), ent)
        else:
            ent = table['pairs'][em['id'] - 1]
            self_ = ent['a'] if ent['op'] == 'up' else ent['b']
            rep.violation('swap{}:{}:{}'.format(ent['op'], typename(self_), em['v']),
                          '{}.swap{}: {}'.format(typename(self_), ent['op'], em['v']), dict(a=ent['a'], b=ent['b'], out=ent['out'], outmaps=ent['outmaps']))
    for ent in table['pairs']:
        rep.case(('pair', ent['op'], ci.key(ent['a']), ci.key(ent['b'])), nontrivial=bool(ent['out']))
    rep.traces += len(table['pairs'])


# ---------------------------------------------------------------------------
# S->C replay of ChainRewrite behaviours

def replay_one(beh):
    """returns None if the real code conforms, else (key, what, data)"""
    from nutils import transform
    chain = ci.chain_to_real(beh['chain'])
    alg = beh['alg']
    fn = dict(canonical=transform.canonical, uppermost=transform.uppermost)
    try:
        if alg == 'promote':
            out = transform.promote(chain, beh['nd'])
        else:
            out = fn[alg](chain)
    except Exception as e:
        return ('{}:raises-{}'.format(alg, type(e).__name__), '{} raised {!r}'.format(alg, e), beh), False
    out = tuple(out)
    n0 = chain[-1].fromdims
    try:
        got = ci.chain_map(out, n0)
    except ci.Unrepresentable as e:
        return ('{}:ill-formed-result'.format(alg), '{} returned a chain without a well-defined map: {}'.format(alg, e), beh), False
    if got != beh['map']:
        return ('{}:changes-map'.format(alg), '{} changed the affine map of the chain'.format(alg),
                dict(beh, real_out=[repr(x) for x in out], real_map=got)), False
    try:
        same_items = ci.chain_to_abs(out) == beh['out']
    except ci.Unrepresentable:
        same_items = False
    return None, same_items
