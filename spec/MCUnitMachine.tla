---------------------------- MODULE MCUnitMachine ----------------------------
(* model-checking constants for UnitMachine: the transcription of the unit definitions of
   src/nutils/SI.py (Defs, level I input), the physical table of the SI brochure (AUnits, level A)
   and the token alphabets.  Generated once; "U" = mu, "O" = Omega, "Q" = theta. *)
EXTENDS UnitMachine, SITables
MCNumbersQuick == {<<>>, <<"2">>, <<"2", ".", "5">>, <<"-", "3">>, <<".", "5">>}
MCNumbersThorough == MCNumbersQuick \cup {<<"+", "0", ".", "2", "5">>, <<"1", ".", "5", ".", "2">>, <<"1", "2", "0", "0">>}
MCWords1 == {<<"m">>, <<"k", "m">>, <<"m", "m">>, <<"c", "m">>, <<"U", "m">>, <<"h", "m">>, <<"d", "m">>, <<"M", "m">>, <<"s">>, <<"m", "s">>, <<"m", "i", "n">>, <<"h">>, <<"d", "a", "y">>, <<"g">>, <<"k", "g">>, <<"m", "g">>, <<"N">>, <<"k", "N">>, <<"P", "a">>, <<"h", "P", "a">>, <<"M", "P", "a">>, <<"L">>, <<"m", "L">>, <<"H", "z">>, <<"k", "H", "z">>, <<"K">>, <<"m", "K">>, <<"i", "n">>, <<"O">>, <<"k", "O">>, <<"W">>, <<"h", "a">>, <<"t">>, <<"J">>, <<"e", "V">>, <<"a", "u">>, <<"D", "a">>, <<"m", "o", "l">>, <<"c", "d">>, <<"T">>, <<"m", "T">>, <<"G", "y">>, <<"f", "t">>, <<"d", "a", "u">>, <<"P", "H", "z">>, <<"k", "i", "n">>, <<"x", "x">>, <<"m", "m", "m">>, <<"M">>, <<"k">>, <<"d", "a">>, <<"u">>}
MCBadWords == {<<"k", "i", "n">>, <<"x", "x">>, <<"m", "m", "m">>, <<"M">>, <<"k">>, <<"d", "a">>, <<"u">>}
MCWords2 == {<<"m">>, <<"s">>, <<"k", "g">>, <<"c", "m">>, <<"h">>, <<"N">>, <<"i", "n">>, <<"U", "s">>, <<"x", "x">>}
MCWords1Quick == {<<"m">>, <<"k", "m">>, <<"c", "m">>, <<"U", "m">>, <<"h", "m">>, <<"M", "m">>, <<"s">>, <<"m", "s">>, <<"m", "i", "n">>, <<"h">>, <<"g">>, <<"k", "g">>, <<"N">>, <<"k", "N">>, <<"h", "P", "a">>, <<"L">>, <<"H", "z">>, <<"K">>, <<"i", "n">>, <<"k", "O">>, <<"h", "a">>, <<"e", "V">>, <<"f", "t">>, <<"k", "i", "n">>, <<"x", "x">>, <<"d", "a">>}
MCWords2Quick == {<<"m">>, <<"s">>, <<"k", "g">>, <<"h">>, <<"i", "n">>}
MCPowers1Quick == {One, RInt(2), Half, Rat(3, 2)}
MCPowers2Quick == {One, RInt(2)}
MCNumbersQ == {<<>>, <<"2", ".", "5">>, <<"-", "3">>}
MCWords3 == {<<"m">>, <<"s">>, <<"k", "g">>, <<"h">>, <<"i", "n">>, <<"c", "m">>}
MCPowers3 == {One, RInt(2), Half}
MCPowers1 == {One, RInt(2), RInt(3), Half, Rat(3, 2), RInt(0), Rat(2, 3)}
MCPowers2 == {One, RInt(2), Half}
MCPrecs == {-1, 0, 1, 3}
MCPrecsQuick == {-1, 0, 2}
MCPrecs2 == {1}
MCPrecs2Thorough == {-1, 2}
MCOtherUnits == {<<"m">>, <<"k", "m">>, <<"s">>, <<"m", "/", "s">>, <<"k", "m", "/", "h">>, <<"N">>, <<"k", "g", "*", "m", "/", "s", "2">>, <<"m", "2">>, <<"i", "n">>, <<"x", "x">>}
MCExtraNames == {<<"i", "n">>, <<"m">>, <<"k", "m">>, <<"a">>, <<"u">>, <<"a", "t">>, <<"o", "l">>, <<"y">>, <<"q">>, <<"b", "a", "r">>, <<"a", "y">>, <<"P", "a">>, <<"d">>, <<"i", "n", "c", "h">>}
=============================================================================
