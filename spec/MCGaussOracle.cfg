\* quick: line, triangle, tetrahedron, square, prism; moments of plain references up to the documented maxima (line: 8),
\* children / trimmed configurations up to degree 4 (3 in 3D)
SPECIFICATION Spec
CONSTANTS
  RefTypes <- MCRefsQ
  TrimRefs <- MCTrim2
  DegRef = 8
  DegRegion = 4
  DegRegion3 = 3
  InvDeg = 2
  TrimLevels <- MCLevels1
  MaxRefine <- MCRefine01
  GoMutant = "none"
INVARIANT ChildrenTile
INVARIANT TrimSplits
INVARIANT RegionInside
INVARIANT RefVolume
INVARIANT EmitAll
INVARIANT Decomposition
CHECK_DEADLOCK FALSE
