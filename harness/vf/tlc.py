"""TLC runner and output parser.

All TLC invocations of the framework go through :func:`run`.  The function
returns a :class:`Result` with the final statistics, the values printed by the
specification through the ``VF`` emission idiom, per-action coverage counts and
the invariant/property TLC reported as violated (if any).

Emission idiom used by every spec that produces behaviours for the harness::

    Emit(x) == PrintT(<<"VF", ToJson(x)>>)

which TLC prints as ``<<"VF", "{\"a\":1}">>`` on one line.
"""

import json
import os
import re
import shutil
import subprocess
import time

VERIF = os.path.dirname(os.path.dirname(os.path.dirname(os.path.abspath(__file__))))
SPEC = os.path.join(VERIF, 'spec')
WORK = os.path.join(VERIF, '.work')
JAR = '/opt/veriftools/tla/tla2tools.jar:/opt/veriftools/tla/CommunityModules-deps.jar'


class TLCError(RuntimeError):
    pass


class Result:
    def __init__(self):
        self.rc = None
        self.stdout = ''
        self.generated = 0
        self.distinct = 0
        self.depth = 0
        self.emitted = []      # parsed JSON values emitted via the VF idiom
        self.coverage = {}     # action name -> (distinct, total)
        self.violated = None   # name of violated invariant/property or 'deadlock' etc
        self.error_trace = []  # raw text lines of TLC's counterexample
        self.wall = 0.0
        self.cmd = ''
        self.postcondition_failed = False

    @property
    def ok(self):
        return self.rc == 0 and self.violated is None


_VF = re.compile(r'^<<"VF", (".*")>>$')
_STATS = re.compile(r'^(\d+) states generated, (\d+) distinct states found')
_SIMSTATS = re.compile(r'The number of states generated: (\d+)')
_DEPTH = re.compile(r'The depth of the complete state graph search is (\d+)')
_INV = re.compile(r'^Error: Invariant (\S+) is violated')
_PROP = re.compile(r'^Error: (?:Action|Temporal) property (\S+) is violated|^Error: Temporal properties were violated')
_COV = re.compile(r'^<(\w+) line \d+, col \d+ to line \d+, col \d+ of module (\w+)>: (\d+):(\d+)')


def _unquote_tla_string(s):
    # TLC prints strings with \" and \\ escapes, which is JSON-compatible
    return json.loads(s)


def parse(stdout, res):
    intrace = False
    for line in stdout.splitlines():
        m = _VF.match(line)
        if m:
            try:
                res.emitted.append(json.loads(_unquote_tla_string(m.group(1))))
            except Exception as e:  # pragma: no cover
                raise TLCError('cannot parse emitted line: {!r}: {}'.format(line[:200], e))
            continue
        m = _STATS.match(line)
        if m:
            res.generated, res.distinct = int(m.group(1)), int(m.group(2))
            continue
        m = _SIMSTATS.search(line)
        if m:
            res.generated = max(res.generated, int(m.group(1)))
            continue
        m = _DEPTH.search(line)
        if m:
            res.depth = int(m.group(1))
            continue
        m = _INV.match(line)
        if m:
            res.violated = m.group(1)
            intrace = True
            continue
        m = _PROP.match(line)
        if m:
            res.violated = m.group(1) or 'temporal'
            intrace = True
            continue
        if line.startswith('Error: Deadlock reached'):
            res.violated = 'deadlock'
            intrace = True
            continue
        if line.startswith('Error: Postcondition') or 'Error: The postcondition' in line or 'Error: Evaluating assumption' in line or 'Assumption line' in line and 'is false' in line:
            res.postcondition_failed = True
        m = _COV.match(line)
        if m:
            name = m.group(1)
            d, t = int(m.group(3)), int(m.group(4))
            od, ot = res.coverage.get(name, (0, 0))
            res.coverage[name] = (od + d, ot + t)
            continue
        if intrace:
            res.error_trace.append(line)
    return res


def workdir(tag):
    d = os.path.join(WORK, tag)
    shutil.rmtree(d, ignore_errors=True)
    os.makedirs(d, exist_ok=True)
    return d


def run(module, cfg=None, *, tag=None, workers=None, simulate=None, depth=None, seed=None,
        env=None, coverage=False, timeout=900, deadlock=True, dfs=False, cfg_text=None,
        extra_modules=(), expect_violation=False, heap='4g', extra=()):
    """Run TLC on spec/<module>.tla with spec/<cfg> (or generated cfg_text).

    simulate: dict(num=N) -> ``-simulate num=N``; depth -> ``-depth``.
    The spec directory is copied into a scratch directory so that concurrent
    checks do not share TLC's ``states`` dir or generated files.
    """
    tag = tag or module
    wd = workdir(tag)
    # copy all specs (they are small) so EXTENDS/INSTANCE resolve
    for fn in os.listdir(SPEC):
        if fn.endswith('.tla') or fn.endswith('.cfg'):
            shutil.copy(os.path.join(SPEC, fn), wd)
    for path in extra_modules:
        shutil.copy(path, wd)
    if cfg_text is not None:
        cfg = module + '_gen.cfg'
        with open(os.path.join(wd, cfg), 'w') as f:
            f.write(cfg_text)
    elif cfg is None:
        cfg = module + '.cfg'
    if workers is None:
        workers = os.cpu_count() or 4
    jopts = ['-XX:+UseParallelGC', '-Xmx' + heap, '-Xss16m']
    if dfs:
        jopts.append('-Dtlc2.tool.queue.IStateQueue=StateDeque')
    cmd = ['java'] + jopts + ['-cp', JAR, 'tlc2.TLC', '-workers', str(workers), '-metadir', os.path.join(wd, 'meta'),
           '-noGenerateSpecTE', '-config', cfg]
    if not deadlock:
        cmd.append('-deadlock')   # -deadlock DISABLES deadlock checking
    if coverage:
        cmd += ['-coverage', '1']
    if simulate is not None:
        s = ','.join('{}={}'.format(k, v) for k, v in simulate.items())
        cmd += ['-simulate', s] if s else ['-simulate']
    if depth is not None:
        cmd += ['-depth', str(depth)]
    if seed is not None:
        cmd += ['-seed', str(seed)]
    cmd += list(extra)
    cmd.append(module + '.tla')
    e = dict(os.environ)
    if env:
        e.update({k: str(v) for k, v in env.items()})
    res = Result()
    res.cmd = ' '.join(cmd)
    t0 = time.time()
    try:
        p = subprocess.run(cmd, cwd=wd, env=e, stdout=subprocess.PIPE, stderr=subprocess.STDOUT, timeout=timeout, text=True, errors='replace')
    except subprocess.TimeoutExpired as ex:
        out = ex.stdout or ''
        if isinstance(out, bytes):
            out = out.decode(errors='replace')
        res.stdout = out
        res.rc = 124
        res.wall = time.time() - t0
        parse(out, res)
        if simulate is not None:
            return res  # simulation is open ended; a timeout is the normal way to stop it
        raise TLCError('TLC timed out after {}s: {}'.format(timeout, res.cmd))
    res.wall = time.time() - t0
    res.rc = p.returncode
    res.stdout = p.stdout
    parse(p.stdout, res)
    with open(os.path.join(wd, 'tlc.out'), 'w') as f:
        f.write(p.stdout)
    if res.rc != 0 and res.violated is None and not res.postcondition_failed:
        # parse / semantic / evaluation error: machinery failure
        tail = '\n'.join(p.stdout.splitlines()[-40:])
        raise TLCError('TLC failed (rc={}) for {}:\n{}'.format(res.rc, res.cmd, tail))
    if res.violated is not None and not expect_violation:
        pass  # caller decides; design-level violations are machinery or findings
    return res


def cover_summary(res):
    return {k: v[1] for k, v in sorted(res.coverage.items())}


def tla_str(s):
    return json.dumps(s)


def to_tla(v):
    """Render a python value as a TLA+ expression (ints, bools, str, list->sequence, dict->record/function, set, tuple->sequence)."""
    if isinstance(v, bool):
        return 'TRUE' if v else 'FALSE'
    if isinstance(v, int):
        return str(v) if v >= 0 else '({})'.format(v)
    if isinstance(v, str):
        return json.dumps(v)
    if isinstance(v, (list, tuple)):
        return '<<' + ', '.join(to_tla(x) for x in v) + '>>'
    if isinstance(v, (set, frozenset)):
        return '{' + ', '.join(to_tla(x) for x in sorted(v, key=repr)) + '}'
    if isinstance(v, dict):
        if not v:
            return '<<>>'
        if all(isinstance(k, str) and re.match(r'^[A-Za-z_]\w*$', k) for k in v):
            return '[' + ', '.join('{} |-> {}'.format(k, to_tla(x)) for k, x in v.items()) + ']'
        return '(' + ' @@ '.join('({} :> {})'.format(to_tla(k), to_tla(x)) for k, x in v.items()) + ')'
    raise TypeError(type(v))
