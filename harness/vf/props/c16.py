"""C16 -- Parallel evaluation equals serial evaluation.

Deciding method: the TLA+ model spec/Parallel.tla (fork, shared range, per-array
locks, shared / private memory, exceptions and SIGKILL of workers) checked by
TLC, bound to the code three ways:

 T     the loop bodies of the scripts that the real evaluable.compile generates
       under maxprocs>1 are exported (c16_script) as configurations of the model
       and TLC decides on them whether every schedule yields the serial result
       (lock discipline, shared allocation, lock order);
 S->C  TLC generated schedules with faults, with the shared state the model
       predicts after every step, are replayed step by step into the real
       parallel.ctxrange / fork / range / _wait / shzeros (c16_step);
 C->S  real multi-process runs of integrate / eval / locate recorded through the
       env-guarded hook in parallel.py (hooks/parallel_hook.patch) and through a
       logging shim around the locks of the generated script are validated by
       spec/TraceParallel.tla (c16_dyn).  Skipped when the tree under test does
       not contain the hook.
"""

import concurrent.futures
import json
import os
import random
import subprocess
import time

from .. import tlc
from . import c16_script

LEVEL = 'model_checking'
WORK = os.path.join(tlc.WORK, 'c16')
TAG = ['c16']       # scratch prefix, made tier specific in run() so that tiers can run side by side
PY = '/venv/bin/python'

INVARIANTS = ['TypeOK', 'AtMostOnce', 'ExactlyOnce', 'MutexRange', 'MutexArrays', 'NoLostUpdate', 'NoPartialResult',
              'RaiseOnlyOnFault', 'NoOrphans']

CFG = '''SPECIFICATION {spec}
CONSTANTS
  MaxProcs = {MaxProcs}
  Configs <- {Configs}
  MaxFaults = {MaxFaults}
  LockedClaim = {LockedClaim}
  CheckExit = {CheckExit}
  KillChildren = {KillChildren}
  KillInCS = {KillInCS}
  Record = {Record}
  FaultPlans <- {FaultPlans}
{invariants}
{extra}
CHECK_DEADLOCK {deadlock}
'''


def cfg_text(**kw):
    d = dict(spec='SpecT', MaxProcs=3, Configs='ConfigsQuick', MaxFaults=1, LockedClaim='TRUE', CheckExit='TRUE',
             KillChildren='TRUE', KillInCS='FALSE', Record='FALSE', FaultPlans='PlansAny', extra='', deadlock='TRUE',
             invariants='\n'.join('INVARIANT ' + i for i in INVARIANTS))
    d.update(kw)
    return CFG.format(**d)


def _env():
    repo = os.environ.get('VF_REPO', '/repo')
    e = dict(os.environ)
    e['PYTHONPATH'] = os.path.join(tlc.VERIF, 'harness') + ':' + os.path.join(repo, 'src') + (':' + os.path.join(tlc.VERIF, '.deps') if os.path.isdir(os.path.join(tlc.VERIF, '.deps')) else '')
    e['PYTHONDONTWRITEBYTECODE'] = '1'
    return e


# ---------------------------------------------------------------------------
# 1. design level

def design_runs(tier):
    """(tag, kwargs for tlc.run, expected violation or None, exhaustive)"""
    runs = []
    if tier == 'quick':
        runs.append(('design', dict(cfg='MCParallel_quick.cfg', coverage=True, workers=8), None))
    else:
        runs.append(('design', dict(cfg='MCParallel_thorough.cfg', coverage=True, workers=12, timeout=840, heap='8g'), None))
    if tier != 'quick':
        # the call terminates (weak fairness of the non-fault steps, no SIGKILL inside a critical section)
        runs.append(('live', dict(cfg='MCParallel_live.cfg', workers=4, deadlock=False), None))
        # observation, not judged: SIGKILL of a worker that holds a lock hangs the call
        runs.append(('kill-in-cs', dict(cfg_text=cfg_text(Configs='ConfigsSmall', KillInCS='TRUE'), workers=4), 'deadlock'))
        # spec mutants: the invariants are not vacuous
        runs.append(('mutant-claim-nolock', dict(cfg_text=cfg_text(Configs='ConfigsSmall', LockedClaim='FALSE', MaxFaults=0), workers=2), 'any'))
        runs.append(('mutant-ignore-exit', dict(cfg_text=cfg_text(Configs='ConfigsSmall', CheckExit='FALSE'), workers=2), 'any'))
        runs.append(('mutant-no-kill', dict(cfg_text=cfg_text(Configs='ConfigsSmall', KillChildren='FALSE'), workers=2), 'any'))
        runs.append(('mutant-body-nolock', dict(cfg_text=cfg_text(Configs='ConfigsNoLock', MaxFaults=0), workers=2), 'any'))
        runs.append(('mutant-private', dict(cfg_text=cfg_text(Configs='ConfigsPrivate', MaxFaults=0), workers=2), 'any'))
        runs.append(('mutant-abba', dict(cfg_text=cfg_text(Configs='ConfigsABBA', MaxFaults=0), workers=2), 'deadlock'))
    return runs


def run_design(tag, kw, expect):
    kw = dict(kw)
    kw.setdefault('deadlock', True)
    res = tlc.run('MCParallel', tag=TAG[0] + '-' + tag, **kw)
    return tag, res, expect


# ---------------------------------------------------------------------------
# 2. T: scripts -> configurations -> TLC

def ev_programs(rng, n):
    """expressions with outer loops built with the evaluable API: (name, tuple of roots, compile kwargs)"""
    from nutils import evaluable as ev
    c = ev.constant
    out = []
    for k in range(n):
        L = rng.choice([2, 3, 4])
        M = rng.choice([2, 3])
        N = rng.choice([2, 3])
        i = ev.loop_index('i', L)
        j = ev.loop_index('j', M)
        x = ev.Argument('x', (c(L),), float)
        y = ev.Argument('y', (c(N),), float)
        xi = ev.Take(x, i)
        fi = ev.IntToFloat(i)
        col = lambda s, n=1: ev.insertaxis(s, 0, c(n))
        dof = col(ev.Mod(i, c(N)))
        outer = ev.Inflate(y * y, ev.Constant(ev.types.arraydata(list(range(N - 1, -1, -1)))), c(N)) if hasattr(ev, 'types') else y * y
        pieces = dict(
            sum_scalar=lambda: ev.loop_sum(xi * fi, i),
            sum_inflate=lambda: ev.loop_sum(ev.Inflate(col(xi), dof, c(N)), i),
            sum_two_terms=lambda: ev.loop_sum(ev.Inflate(col(xi), dof, c(N)) + ev.Inflate(col(fi), col(ev.Mod(i + 1, c(N))), c(N)), i),
            concat=lambda: ev.loop_concatenate(col(xi * fi), i),
            concat2=lambda: ev.loop_concatenate(col(xi, 2) * ev.IntToFloat(ev.Range(c(2))), i),
            nested=lambda: ev.loop_sum(ev.loop_sum(col(xi, N) * ev.IntToFloat(j) * y, j), i),
            nested_concat=lambda: ev.loop_concatenate(col(ev.loop_sum(xi * ev.IntToFloat(j), j)), i),
            sum_diag=lambda: ev.loop_sum(ev.Diagonalize(col(xi, N) * y), i),
            sum_transpose=lambda: ev.loop_sum(ev.transpose(ev.insertaxis(col(xi, N) * y, 0, c(2)), (1, 0)), i),
            reads_outer=lambda: ev.loop_sum(ev.Take(outer, ev.Mod(i, c(N))) * xi, i),
            reads_outer_vec=lambda: ev.loop_sum(outer * xi, i),
            seq=lambda: ev.loop_sum(ev.Take(ev.loop_concatenate(col(xi * xi), i), ev.Mod(j, c(L))) * ev.IntToFloat(j), j),
            sum_plus_const=lambda: ev.loop_sum(col(xi, N) * y, i) + y,
            prod_of_sums=lambda: ev.loop_sum(xi, i) * ev.loop_sum(xi * fi, i),
        )
        names = rng.sample(sorted(pieces), rng.choice([1, 1, 2, 3]))
        roots = []
        for nm in names:
            try:
                roots.append(pieces[nm]())
            except Exception:
                pass
        if roots:
            kw = dict(_simplify=rng.choice([True, True, False]), _optimize=rng.choice([True, False]), cache_const_intermediates=rng.choice([True, False]))
            out.append(('+'.join(names), tuple(roots), kw, dict(x=[1. + q for q in range(L)], y=[2. + q for q in range(N)])))
    return out


def collect_scripts(rng, tier, rep):
    """compile the program corpus under maxprocs(3) without forking: scripts are captured at nutils._util.function
    and the compiled function is run single-process (the script itself is the parallel one)"""
    import numpy
    import treelog
    from nutils import evaluable as ev, parallel, mesh, function
    import warnings
    warnings.simplefilter('ignore')     # ExpensiveEvaluationWarning etc. of the sample programs
    scripts = []      # (origin, script)
    nfail = 0
    t0 = time.time()
    progs = ev_programs(rng, 40 if tier == 'quick' else 400)
    for name, roots, kw, args in progs:
        with c16_script.Capture(serial=True) as cap, parallel.maxprocs(3), treelog.set(treelog.NullLog()):
            try:
                f = ev.compile(roots, **kw)
                f({k: numpy.array(v) for k, v in args.items()})
                f({k: numpy.array(v) for k, v in args.items()})     # rerun branch
            except Exception as e:
                nfail += 1
                rep.skip('program rejected by compile/evaluate: ' + type(e).__name__)
        scripts += [('ev:' + name, s) for s, g in cap.scripts]
    # the function level API: integrate / integral / eval / locate on small meshes
    for nel, deg in ((3, 2),) if tier == 'quick' else ((2, 1), (3, 1), (4, 2), (5, 3)):
        with c16_script.Capture(serial=True) as cap, parallel.maxprocs(3), treelog.set(treelog.NullLog()):
            domain, geom = mesh.rectilinear([numpy.linspace(0, 1, nel + 1), numpy.linspace(0, 1, 3)])
            basis = domain.basis('std', degree=deg)
            J = function.J(geom)
            domain.integrate([basis * geom[0] * J, basis[:, None] * basis[None, :] * J, geom[1] * J], degree=2 * deg)
            domain.boundary.integrate(basis * function.J(geom), degree=2)
            u = function.Argument('u', basis.shape)
            f = domain.integral((basis @ u) ** 2 * J, degree=2 * deg)
            f.derivative('u').derivative('u').eval(arguments=dict(u=numpy.zeros(len(basis))))
            smp = domain.sample('gauss', 2)
            smp.eval([geom, function.grad(basis, geom)[0], domain.f_index])
            domain.project(geom[0] * geom[1], onto=basis, geometry=geom, degree=2 * deg)
            domain.locate(geom * [2., 1.], numpy.array([[.3, .3], [1.7, .9]]), eps=1e-10)
        scripts += [('fn:nel{}deg{}'.format(nel, deg), s) for s, g in cap.scripts]
    # the hand written parallel loop of nutils: Topology._locate
    import inspect
    from nutils import topology
    scripts.append(('topology.Topology._locate', inspect.getsource(topology.Topology._locate)))
    rep.extra['scripts_compile_s'] = round(time.time() - t0, 1)
    return scripts


def exprbuilder_scripts(rep, rng):
    """thorough: programs with loops from the ExprBuilder TLA+ machine (as in C02)"""
    import treelog
    from nutils import evaluable as ev, parallel
    from .. import exprs, dag
    loops = exprs.generate(rep, 'c16-loops', MaxNodes=10, MaxOps=5, MaxLeaves=4, EmitMin=3, Ops=exprs.LOOP_OPS,
                           LeafSet='{1, 2, 8, 13, 14, 20, 22, 23}', simulate=400, depth=11, seed=rep.seed + 12)
    loops = [p for p in loops if any(n['op'] in ('LoopSum', 'LoopConcat') for n in p)]
    scripts = []
    for prog in loops:
        try:
            root = dag.build(prog)[-1]
        except Exception:
            continue
        for kw in (dict(_simplify=True, _optimize=True), dict(_simplify=False, _optimize=False)):
            with c16_script.Capture() as cap, parallel.maxprocs(3), treelog.set(treelog.NullLog()):
                try:
                    exprs.with_timeout(20, ev.compile, root, **kw)
                except BaseException:
                    continue
            scripts += [('eb:' + exprs.skeleton(prog), s) for s, g in cap.scripts]
    rep.extra['exprbuilder_loop_programs'] = len(loops)
    return scripts


def describe(rec):
    """root-cause words for a violating loop body"""
    why = []
    for st in rec['body']:
        if st['op'] == 'rmw' and rec['shared'][st['arr'] - 1] and not st['locks']:
            why.append('unlocked-write')
        if st['op'] in ('rmw', 'slot') and not rec['shared'][st['arr'] - 1]:
            why.append('private-result')
    return '+'.join(sorted(set(why))) or 'locks'


def check_table(rep, scripts, tag='table'):
    """export every outermost parallel loop, let TLC decide; returns {signature: record}"""
    recs = {}
    nloops = 0
    classes = {}
    for origin, script in scripts:
        try:
            found = c16_script.analyse(script)
        except SyntaxError:
            raise
        for rec in found:
            nloops += 1
            sig = c16_script.signature(rec)
            if sig not in recs:
                recs[sig] = dict(rec, origin=origin, script=script)
            classes.setdefault(sig, set()).update(c16_script.classes(script))
    rep.extra['parallel_loops_exported'] = nloops
    rep.extra['distinct_loop_bodies'] = len(recs)
    for sig, rec in recs.items():
        rep.case(('loop-body', sig), nontrivial=len(rec['body']) >= 1)
    items = [(sig, rec) for sig, rec in recs.items() if rec['body']]
    for attempt in range(4):
        if not items:
            break
        cfgs = [c16_script.config(rec, k + 1) for k, (sig, rec) in enumerate(items)]
        wd = os.path.join(tlc.WORK, TAG[0], 'table')
        os.makedirs(wd, exist_ok=True)
        path = os.path.join(wd, 'table{}.json'.format(attempt))
        with open(path, 'w') as f:
            json.dump(cfgs, f)
        res = tlc.run('MCParallelIO', 'MCParallel_table.cfg', tag=TAG[0] + '-' + tag, env=dict(VF_TABLE=path), deadlock=True, workers=8)
        rep.add_tlc(res)
        if not res.violated:
            rep.traces += len(items)
            break
        # which configuration? the error trace prints cfg = [ id |-> k, ...
        cid = None
        for line in res.error_trace:
            if 'id |->' in line:
                cid = int(line.split('id |->')[1].split(',')[0])
                break
        if cid is None:
            raise RuntimeError('cannot attribute TLC violation {} to a configuration'.format(res.violated))
        sig, rec = items[cid - 1]
        rep.violation('script:{}:{}'.format(res.violated, describe(rec)),
                      'the model of a generated parallel loop violates {}: some schedule of the workers does not give the serial result'.format(res.violated),
                      dict(origin=rec['origin'], branch=rec['branch'], loop=rec['loop'], arrays=rec['arrays'], shared=rec['shared'], locks=rec['locknames'],
                           statements=rec['detail'], body=rec['body'], script=rec['script'], tlc_trace=res.error_trace[-40:]))
        items = [it for it in items if it[0] != sig]
    for sig, rec in list(recs.items())[:2]:
        rep.sample(dict(kind='exported loop body', origin=rec['origin'], arrays=rec['arrays'], shared=rec['shared'], locks=rec['locknames'], body=rec['body']))
    return recs


# ---------------------------------------------------------------------------
# 3. S->C: simulated behaviours replayed into the real primitives

def simulate(rep, tier, seed):
    """TLC -simulate over Parallel with history recording (spec/MCParallel_sim.cfg); returns the emitted behaviours"""
    res = tlc.run('MCParallelIO', 'MCParallel_sim.cfg', tag=TAG[0] + '-sim', workers=1, simulate=dict(num=24 if tier == 'quick' else 200), depth=600,
                  seed=seed, deadlock=False, timeout=800)
    if res.violated:
        raise RuntimeError('design spec Parallel violates {} in simulation'.format(res.violated))
    return res.emitted, [res]


def replay(rep, behs, nserv=3):
    """run the slim replay servers (c16_step) over the behaviours"""
    jobs = [(b['cfg'], dict(hist=b['hist'], outcome=b['outcome'], result=b['result'], index=b['index'])) for b in behs]
    wd = os.path.join(tlc.WORK, TAG[0], 'replay')
    os.makedirs(wd, exist_ok=True)
    procs = []
    for k in range(nserv):
        chunk = jobs[k::nserv]
        if not chunk:
            continue
        inp, outp = os.path.join(wd, 'jobs{}.json'.format(k)), os.path.join(wd, 'result{}.json'.format(k))
        with open(inp, 'w') as f:
            json.dump(chunk, f)
        if os.path.exists(outp):
            os.unlink(outp)
        p = subprocess.Popen([PY, '-B', '-m', 'vf.props.c16_step', inp, outp], stdin=subprocess.DEVNULL, stdout=subprocess.DEVNULL, stderr=subprocess.PIPE, env=_env(), text=True)
        procs.append((p, outp, list(range(k, len(jobs), nserv))))
    out = [None] * len(jobs)
    for p, outp, idx in procs:
        _, err = p.communicate()
        if p.returncode != 0 or not os.path.exists(outp):
            raise RuntimeError('replay server failed (rc={}): {}'.format(p.returncode, err[-2000:]))
        with open(outp) as f:
            for i, o in zip(idx, json.load(f)):
                out[i] = o
    return out


# ---------------------------------------------------------------------------
# 4. C->S: real runs -> episodes -> TraceParallel

def scenarios(rng, tier):
    out = []
    n = 7 if tier == 'quick' else 50
    kinds = ['integrate', 'locate', 'eval', 'evalint', 'integral', 'locate', 'integrate', 'locate']
    for k in range(n):
        kind = kinds[k % len(kinds)] if k < len(kinds) else rng.choice(kinds)
        np_ = rng.choice([2, 2, 3]) if tier == 'quick' else rng.choice([2, 3, 3, 5])
        nel = rng.choice([2, 3])        # x 2 elements in the second direction
        sc = dict(id=k + 1, kind=kind, np=np_, nelems=nel, seed=rng.randrange(1000), timeout=10,
                  sleep=[rng.choice([0, 0.01, 0.03, 0.06]) for _ in range(5)])
        if kind == 'locate':
            sc['npoints'] = rng.choice([4, 5, 7])
            r = rng.random()
            if r < 0.25:
                sc['missing'] = rng.randrange(10)
                sc['skip_missing'] = rng.random() < 0.5
        r = rng.random()
        if k >= 2 and r < 0.55:
            sc['fault'] = dict(kind=rng.choice(['raise', 'kill', 'raise']), elem=rng.randrange(2 * nel), who=rng.choice(['child', 'child', 'parent', 'any']))
        out.append(sc)
    return out


def run_dyn(jobs, tag):
    wd = os.path.join(tlc.WORK, TAG[0], 'dyn')
    os.makedirs(wd, exist_ok=True)
    evpath = os.path.join(wd, tag + '.events')
    if os.path.exists(evpath):
        os.unlink(evpath)
    env = _env()
    env['NUTILS_VERIF_TRACE'] = evpath
    respath = os.path.join(wd, tag + '.result.json')
    if os.path.exists(respath):
        os.unlink(respath)
    p = subprocess.run([PY, '-B', '-m', 'vf.props.c16_dyn', respath], input=json.dumps(jobs), env=env, stdout=subprocess.DEVNULL, stderr=subprocess.PIPE, text=True, timeout=1500)
    if p.returncode != 0 or not os.path.exists(respath):
        raise RuntimeError('dynamic run server failed (rc={}): {}'.format(p.returncode, p.stderr[-3000:]))
    with open(respath) as f:
        out = json.load(f)
    events = [json.loads(line) for line in open(evpath)] if os.path.exists(evpath) else []
    return out, events


def pad_nops(body):
    """between the statements that touch arrays the script executes others (which may raise): nop placeholders"""
    out = [dict(op='nop', arr=0, locks=[])]
    for st in body:
        out.append(dict(st))
        out.append(dict(op='nop', arr=0, locks=[]))
    return out


def locate_rec():
    """the loop of Topology._locate of the tree under test, exported like a generated script"""
    import inspect
    from nutils import topology
    recs = c16_script.analyse(inspect.getsource(topology.Topology._locate))
    return recs[0] if recs else None


def build_episodes(sc, res, events, scripts, cache, counters):
    """cut the events of one scenario into episodes (one parallel.ctxrange each) in the form TraceParallel reads"""
    parent = events[0]['pid']
    # children of every fork, procid by position
    eps = []
    cur = None
    call = None
    nctx = 0
    inbody = {}
    nested = {}
    # first pass: fork events in order of the parent's ctxrange events
    k = -1
    parent_inbody = False
    forks = {}
    for e in events:
        if e['pid'] != parent:
            continue
        if e['ev'] == 'ctxrange' and not parent_inbody:
            k += 1
        elif e['ev'] == 'claim':
            parent_inbody = True
        elif e['ev'] == 'exhausted':
            parent_inbody = False
        elif e['ev'] == 'fork' and k >= 0:
            forks[k] = e
    k = -1
    for e in events:
        ev, pid = e['ev'], e['pid']
        if pid == parent:
            if ev == 'call':
                call = dict(sid=e['sid'], branch=e['branch'])
                nctx = 0
                continue
            if ev == 'callend':
                call = None
                continue
            if ev == 'ctxrange' and not inbody.get(pid):
                k += 1
                cur = dict(k=k, niter=int(e['nitems']), maxprocs=e['maxprocs'], np=1, children=[], events=[], call=dict(call) if call else None, loopno=nctx)
                nctx += 1
                if k in forks:
                    cur['np'] = forks[k]['nprocs']
                    cur['children'] = forks[k]['children']
                eps.append(cur)
                continue
            p, ep = 0, cur
        elif k in forks and pid in forks[k]['children']:
            # episodes are sequential: the children of an episode log between the parent's ctxrange and its last wait
            p, ep = forks[k]['children'].index(pid) + 1, cur
        else:
            continue
        if ep is None:
            continue
        if ep.get('closed') and p != 0:
            # between the parent's decision to kill its children (logged) and the delivery of SIGKILL a child may
            # still log a step; the model kills at the log point
            continue
        # nested ctxrange inside a loop body (maxprocs is 1 there): not an episode of its own
        if ev == 'ctxrange':
            nested[pid] = nested.get(pid, 0) + 1
            continue
        if nested.get(pid):
            if ev == 'exhausted':
                nested[pid] -= 1
            continue
        if ev == 'claim':
            inbody[pid] = True
            ep['events'].append(dict(p=p, ev='claim', v=int(e['iiter']), ok=True))
        elif ev == 'exhausted':
            inbody[pid] = False
            ep['events'].append(dict(p=p, ev='exhausted', v=0, ok=True))
        elif ev in ('acq', 'rel'):
            if inbody.get(pid) and not (ev == 'rel' and e.get('exc')):
                ep['events'].append(dict(p=p, ev=ev, v=int(e['lock']), ok=True, raw=True))
        elif ev == 'child_start':
            ep['events'].append(dict(p=p, ev='child_start', v=0, ok=True))
        elif ev == 'child_exit':
            inbody[pid] = False
            ep['events'].append(dict(p=p, ev='child_exit', v=int(e['code']), ok=True))
        elif ev == 'wait':
            c = ep['children'].index(e['child']) + 1 if e['child'] in ep['children'] else 0
            ep['events'].append(dict(p=0, ev='wait', v=c, ok=bool(e['ok'])))
        elif ev == 'fork_raise':
            ep['events'].append(dict(p=0, ev='fork_raise', v=int(e['nfails']), ok=True))
            ep['failed'] = True
        elif ev == 'kill_children':
            inbody[pid] = False
            ep['events'].append(dict(p=0, ev='kill_children', v=0, ok=True))
            ep['failed'] = True
            ep['closed'] = True
        elif ev == 'hang':
            ep['events'].append(dict(p=0, ev='hang', v=0, ok=True))
            ep['failed'] = True
    out = []
    for n, ep in enumerate(eps):
        last = n == len(eps) - 1
        # the loop body that ran
        rec = None
        if sc['kind'] == 'locate' and ep['call'] is None:
            if 'locate' not in cache:
                cache['locate'] = locate_rec()
            rec = cache['locate']
        elif ep['call'] is not None:
            key = (ep['call']['sid'], ep['call']['branch'])
            if key not in cache:
                script = scripts.get(str(ep['call']['sid']))
                cache[key] = [r for r in c16_script.analyse(script) if r['branch'] in (ep['call']['branch'], 'only')] if script else []
            if ep['loopno'] < len(cache[key]):
                rec = cache[key][ep['loopno']]
        if rec is not None and rec.get('irregular'):
            # statements under a lock inside a nested loop / conditional run a varying number of times per
            # iteration: the lock events of this episode are not matched (the fork / range protocol is)
            rec = dict(rec, nlocks=0, locknames=[], body=[st for st in rec['body'] if not st['locks']])
            counters['irregular'] = counters.get('irregular', 0) + 1
        if rec is None:
            counters['unmapped'] = counters.get('unmapped', 0) + 1
            rec = dict(shared=[True], nlocks=0, locknames=[], alllocks=[], body=[])
        # lock creation index -> lock number of the loop
        evs = []
        for x in ep['events']:
            if x.pop('raw', False):
                name = rec['alllocks'][x['v']] if x['v'] < len(rec['alllocks']) else None
                if name not in rec['locknames']:
                    continue
                x['v'] = rec['locknames'].index(name) + 1
            evs.append(x)
        exited = {x['p'] for x in evs if x['ev'] == 'child_exit'}
        killed = sorted(set(range(1, ep['np'])) - exited)
        failed = ep.get('failed', False)
        if not failed:
            ok = bool(res.get('ok', True)) if res['outcome'] == 'returned' else True
            evs.append(dict(p=0, ev='return', v=0, ok=ok))
        elif last and res['outcome'] == 'raised':
            evs.append(dict(p=0, ev='raise', v=0, ok=True))
        elif not any(x['ev'] == 'hang' for x in evs):
            evs.append(dict(p=0, ev='raise', v=0, ok=True))
        shared = list(rec['shared']) or [True]
        out.append(dict(id=sc['id'] * 100 + n, np=ep['np'], niter=ep['niter'], shared=shared, nlocks=rec['nlocks'], body=pad_nops([dict(op=st['op'], arr=st['arr'], locks=list(st['locks'])) for st in (c16_script.statements(rec) if rec['body'] and 'stmt' in rec['body'][0] else rec['body'])]),
                        killed=killed, events=evs, scenario=sc['id'], failed=failed))
    return out


def validate_traces(rep, traces, tag='trace'):
    wd = os.path.join(tlc.WORK, TAG[0], 'traces')
    os.makedirs(wd, exist_ok=True)
    path = os.path.join(wd, tag + '.json')
    slim = [dict(id=t['id'], np=t['np'], niter=t['niter'], shared=t['shared'], nlocks=t['nlocks'], body=t['body'], killed=t['killed'], events=t['events']) for t in traces]
    with open(path, 'w') as f:
        json.dump(slim, f)
    res = tlc.run('TraceParallel', 'TraceParallel.cfg', tag=TAG[0] + '-' + tag, workers=1, env=dict(VF_TRACE=path), deadlock=False, timeout=1200)
    rep.add_tlc(res)
    rejected = {}
    if res.violated:
        tid = None
        for line in res.error_trace:
            if line.startswith('/\\ tid = '):
                tid = int(line.split('=')[1])
        rejected[tid] = 'invariant ' + res.violated
    for e in res.emitted:
        t = traces[e['tid'] - 1]
        nxt = t['events'][e['matched']] if e['matched'] < len(t['events']) else dict(ev='end')
        rejected.setdefault(e['tid'], 'rejected at {}{}'.format(nxt['ev'], ':not-ok' if nxt['ev'] == 'return' and not nxt.get('ok', True) else ''))
    return rejected, res


def dynamic(rep, jobs, out, events):
    if not out['hook']:
        rep.skip('hook absent in the tree under test (hooks/parallel_hook.patch not applied): dynamic trace validation skipped')
        rep.extra['hook_present'] = False
        return []
    rep.extra['hook_present'] = True
    for r in out['results']:
        if 'harness_error' in r:
            raise RuntimeError(r['harness_error'])
    # split events per scenario
    per = {}
    cur = None
    for e in events:
        if e['ev'] == 'scenario':
            cur = e['sid']
            per[cur] = [e]
        elif e['ev'] == 'scenario_end':
            cur = None
        elif cur is not None:
            per[cur].append(e)
    traces = []
    cache = {}
    counters = {}
    byid = {sc['id']: sc for sc in jobs}
    for r in out['results']:
        sc = byid[r['id']]
        eps = build_episodes(sc, r, per.get(sc['id'], [dict(pid=0)]), out['scripts'], cache, counters)
        traces += eps
        failed = any(t['failed'] for t in eps)
        # scenario level: a call that raised although no worker failed must raise in the single-process run too
        if r['outcome'] == 'raised' and not failed and r.get('exc') != r.get('ref_exc'):
            rep.violation('raised-without-worker-failure:' + str(r.get('exc')), 'the parallel call raised {} ({}) although no worker failed; the single-process run {}'.format(
                r.get('exc'), r.get('msg'), 'raised ' + str(r['ref_exc']) if r['ref_exc'] else 'returned'), dict(scenario=sc, result=r))
        if r['outcome'] == 'returned' and r.get('ref_exc'):
            rep.violation('returned-but-serial-raised:' + str(r['ref_exc']), 'the parallel call returned although the single-process run raised ' + str(r['ref_exc']), dict(scenario=sc, result=r))
        if r.get('left_running'):
            rep.violation('orphans', 'worker processes still running after the call ended', dict(scenario=sc, result=r))
        if not eps and r['outcome'] != 'returned':
            rep.violation('no-episode:' + r['outcome'], 'call ended with {} without any parallel loop'.format(r['outcome']), dict(scenario=sc, result=r))
        rep.case(('scenario', sc['kind'], sc['np'], json.dumps(sc.get('fault'), sort_keys=True), r['outcome'], tuple((x['p'], x['ev'], x['v']) for t in eps for x in t['events'])),
                 nontrivial=sum(len(t['events']) for t in eps) > 8)
    if traces:
        rejected, res = validate_traces(rep, traces)
        for tid, why in rejected.items():
            t = traces[tid - 1] if tid else None
            rep.violation('trace:' + why, 'a recorded multi-process execution is not a behaviour of Parallel.tla: ' + why,
                          dict(scenario=byid.get(t['scenario']) if t else None, trace=t))
        rep.traces += len(traces) - len(rejected)
    rep.extra['dynamic_scenarios'] = len(jobs)
    rep.extra['dynamic_episodes'] = len(traces)
    rep.extra['dynamic_outcomes'] = {k: sum(1 for r in out['results'] if r['outcome'] == k) for k in ('returned', 'raised', 'hang')}
    rep.extra['dynamic_episode_notes'] = counters
    rep.extra['dynamic_worker_failures'] = sum(1 for t in traces if t['failed'])
    if traces:
        t = max(traces, key=lambda t: (t['failed'], len(t['events'])))
        rep.sample(dict(kind='recorded episode', np=t['np'], niter=t['niter'], killed=t['killed'], events=[(x['p'], x['ev'], x['v']) for x in t['events']][:60]))
    return traces


# ---------------------------------------------------------------------------

def run(rep):
    tier = rep.tier
    rng = random.Random(rep.seed)
    TAG[0] = 'c16' + ('' if tier == 'quick' else '-' + tier)
    os.makedirs(os.path.join(tlc.WORK, TAG[0]), exist_ok=True)
    pool = concurrent.futures.ThreadPoolExecutor(6)
    # ---- 1. design level (background)
    futs = [pool.submit(run_design, *r) for r in design_runs(tier)]
    # ---- 3a. simulation (background)
    fsim = pool.submit(simulate, rep, tier, rep.seed)
    # ---- 4. dynamic runs (background; the server is a separate process)
    jobs = scenarios(random.Random(rep.seed + 1), tier)
    fdyn = pool.submit(run_dyn, jobs, 'run')
    # ---- 2. T
    scripts = collect_scripts(rng, tier, rep)
    rep.lap('scripts compiled')
    if tier != 'quick':
        scripts += exprbuilder_scripts(rep, rng)
    check_table(rep, scripts)
    rep.lap('table checked')
    # ---- 3b. replay
    behs, simres = fsim.result()
    for res in simres:
        rep.add_tlc(res, exhaustive=False)
    rep.lap('simulated')
    outs = replay(rep, behs)
    nstuck = 0
    for b, o in zip(behs, outs):
        sig = (b['cfg']['id'], tuple((h['p'], h['a']) for h in b['hist']))
        rep.case(sig, nontrivial=len(b['hist']) >= 8)
        if o['status'] == 'ok':
            rep.traces += 1
            nstuck += b['outcome'] == 'stuck'
        else:
            rep.violation('replay:' + o['key'], 'the real parallel.ctxrange/fork/range deviates from the behaviour TLC generated: ' + o['what'],
                          dict(cfg=b['cfg'], outcome=b['outcome'], schedule=[(h['p'], h['a'], h['v']) for h in b['hist']], real_trace=o.get('trace')))
    rep.extra['replayed_behaviours'] = len(behs)
    rep.extra['replayed_outcomes'] = {k: sum(1 for b in behs if b['outcome'] == k) for k in ('returned', 'raised', 'stuck')}
    rep.extra['replayed_faults'] = {k: sum(1 for b in behs for h in b['hist'] if h['a'] == k) for k in ('Exc', 'Kill', 'ForkFail')}
    rep.extra['observation_kill_in_critical_section'] = ('{} replayed behaviours end stuck: a worker SIGKILLed while holding range._lock or a lock<n> leaves the real lock '
                                                         'taken (probed), the siblings and the parent hang; observed, not judged (the property only forbids returning a partial result)').format(nstuck)
    if behs:
        b = max(behs, key=lambda b: len(b['hist']))
        rep.sample(dict(kind='replayed behaviour', cfg=b['cfg'], outcome=b['outcome'], schedule=[(h['p'], h['a'], h['v']) for h in b['hist']][:50]))
    rep.lap('replayed')
    # ---- 4. dynamic
    out, events = fdyn.result()
    dynamic(rep, jobs, out, events)
    rep.lap('dynamic')
    # ---- 1. collect design results
    for f in futs:
        tag, res, expect = f.result()
        if expect is None:
            rep.add_tlc(res, exhaustive=True)
            if res.violated:
                rep.violation('design:' + res.violated, 'the design model Parallel.tla violates ' + res.violated + ' (model error or protocol defect)', dict(trace=res.error_trace[-60:]))
        else:
            rep.tlc_cmds.append(res.cmd.split('tlc2.TLC ')[-1])
            ok = res.violated is not None if expect == 'any' else res.violated == expect
            if not ok:
                raise RuntimeError('spec run {} expected violation {} but got {}'.format(tag, expect, res.violated))
            rep.extra.setdefault('expected_violations', {})[tag] = res.violated
    required = ['Fork', 'ForkFail', 'ClaimAcq', 'ClaimRead', 'ClaimWrite', 'ClaimRel', 'ClaimExh', 'AcqA', 'UpdRead', 'UpdWrite', 'RdEnd', 'Slot', 'Nop',
                'RelA', 'Exc', 'Kill', 'ChildExit', 'Wait', 'Finish']
    zero = [a for a in required if rep.actions.get(a, 0) == 0]
    if zero:
        raise RuntimeError('vacuity: actions never taken: {}'.format(zero))
    pool.shutdown()
    rep.constants['Parallel'] = dict(quick='3 processes x 3 iterations, bodies Sum1/Sum2/Acc2/TwoLocks/Locate, 1 fault', thorough='up to 4 x 4, 2 faults')
    rep.rule = ('cases = distinct exported loop bodies (T) + distinct replayed schedules (S->C, non-trivial: >= 8 steps) + distinct recorded '
                'multi-process executions (C->S, non-trivial: > 8 events)')
    rep.assumptions += ['a statement of the generated script is atomic with respect to the lock that encloses it; in-place accumulation is a non-atomic read-modify-write of the array',
                        'SIGKILL is the only asynchronous death; a killed process keeps the POSIX semaphores it holds (observed on the real locks)',
                        'the O_APPEND event file order is a linearisation (events inside critical sections are written while the lock is held)',
                        'static export recognises mutation through out=, numpy.copyto, ufunc.at, .fill, item assignment; views are followed through subscripts, transpose, einsum']
