----------------------------- MODULE ExprV1Lang -----------------------------
(***************************************************************************)
(* C19 -- the part of the expression language that only                    *)
(* nutils.expression_v1 has, with its DOCUMENTED reading (the module       *)
(* docstring of expression_v1):                                            *)
(*                                                                         *)
(*   arguments ?u_ij whose axis lengths are not given but DEDUCED from     *)
(*   the expression, the dirac and indexed numbers (same), gradients       *)
(*   a_i,j / (...)_,j and surface gradients a_i;j to the default geometry  *)
(*   (the gradient index follows the summation rules and may be a          *)
(*   numeral), the normal n_i, substitution  item(u_i = value),            *)
(*   function calls with several arguments (summation convention applied   *)
(*   to the result) among which d(f, x_i) and d(f, ?u_i).                  *)
(*                                                                         *)
(* Length deduction, declaratively.  Every axis carries a LENGTH TERM: an  *)
(* integer (known) or the name of an unknown (>= 100).  Every rule of the  *)
(* language that says "these two axes have the same length" contributes a  *)
(* LINK between two terms (Ann1).  The lengths that follow from the        *)
(* expression are given by the smallest equivalence relation that          *)
(* contains the links (ClassOf): an unknown is KNOWN when its class        *)
(* contains an integer, the expression is refused when a class contains    *)
(* two different integers (conflict) or when an unknown stays undetermined *)
(* and the namespace has no fallback length.  Sol(..) characterises the    *)
(* same three verdicts by the solutions of the link equations.             *)
(*                                                                         *)
(* Meaning.  Data are polynomials of the coordinates of a two-dimensional  *)
(* geometry x, given by their derivatives up to order two (a "jet") in     *)
(* the point where everything is evaluated, on the two sides of an         *)
(* interface with normal (1, 0).  Val1(n, env, ds, sub) is the value of    *)
(* the derivative of n along the list of directions ds (a coordinate of x  *)
(* or a component of an argument), by the sum, product, quotient and chain *)
(* rules: exact rationals, two-sided (ExprLang).                           *)
(***************************************************************************)
EXTENDS ExprLang

\* ------------------------------------------------------------------ the version 1 namespace
GDim == 2                                  \* the default geometry x has two coordinates
\* the normal in the evaluation point: component k (0-based) seen from this / the opposite side
NrmTab == << <<1, -1>>, <<0, 0>> >>
\* variables: shape, cst (a constant array, not bound to the mesh), and per side and component the jet
\*   <<f, f_0, f_1, f_00, f_01, f_11>>  (integers) in the evaluation point
JVarTab == [ a |-> [sh |-> <<>>,     cst |-> FALSE, j |-> << << <<1, 2, 3, 4, 1, 0>> >>, << <<5, -1, 0, 0, 0, 2>> >> >>],
             q |-> [sh |-> <<2>>,    cst |-> FALSE, j |-> << << <<2, 1, -1, 0, 1, 0>>, <<-1, 3, 1, 2, 0, -2>> >>,
                                                            << <<1, 0, 2, 2, 0, 0>>, <<3, 1, 1, 0, -1, 0>> >> >>],
             x |-> [sh |-> <<2>>,    cst |-> FALSE, j |-> << << <<1, 1, 0, 0, 0, 0>>, <<1, 0, 1, 0, 0, 0>> >>,
                                                            << <<1, 1, 0, 0, 0, 0>>, <<1, 0, 1, 0, 0, 0>> >> >>],
             k |-> [sh |-> <<>>,     cst |-> TRUE,  j |-> << << <<3, 0, 0, 0, 0, 0>> >>, << <<3, 0, 0, 0, 0, 0>> >> >>],
             r |-> [sh |-> <<2>>,    cst |-> TRUE,  j |-> << << <<2, 0, 0, 0, 0, 0>>, <<-1, 0, 0, 0, 0, 0>> >>,
                                                            << <<2, 0, 0, 0, 0, 0>>, <<-1, 0, 0, 0, 0, 0>> >> >>],
             s |-> [sh |-> <<3>>,    cst |-> TRUE,  j |-> << << <<1, 0, 0, 0, 0, 0>>, <<-1, 0, 0, 0, 0, 0>>, <<2, 0, 0, 0, 0, 0>> >>,
                                                            << <<1, 0, 0, 0, 0, 0>>, <<-1, 0, 0, 0, 0, 0>>, <<2, 0, 0, 0, 0, 0>> >> >>],
             M |-> [sh |-> <<2, 2>>, cst |-> TRUE,  j |-> << << <<1, 0, 0, 0, 0, 0>>, <<2, 0, 0, 0, 0, 0>>, <<3, 0, 0, 0, 0, 0>>, <<-1, 0, 0, 0, 0, 0>> >>,
                                                            << <<1, 0, 0, 0, 0, 0>>, <<2, 0, 0, 0, 0, 0>>, <<3, 0, 0, 0, 0, 0>>, <<-1, 0, 0, 0, 0, 0>> >> >>] ]
\* arguments: a number each; w has a shape the namespace already knows (ns.arg_shapes), the others not;
\* the value of component idx of an argument, whatever its deduced shape: base + sum step[p] * idx[p]
ArgNo == [u |-> 1, v |-> 2, p |-> 3, w |-> 4]
ArgDecl == [w |-> <<2>>]
ArgBase == [u |-> 1, v |-> -2, p |-> 3, w |-> 2]
ArgStep == [u |-> <<1, 3>>, v |-> <<2, 1>>, p |-> <<-1, 2>>, w |-> <<1, -1>>]
RECURSIVE ArgSum(_, _, _)
ArgSum(nm, pos, n) == IF n = 0 THEN ArgBase[nm] ELSE ArgSum(nm, pos, n - 1) + ArgStep[nm][n] * pos[n]
ArgAt(nm, pos) == ArgSum(nm, pos, Len(pos))
\* functions of version 1: "pw" one argument, applied pointwise; "mul" the product of its arguments;
\* "d" the derivative of the first argument to the second (the geometry x_i or an argument ?u_ij)
Func1Tab == [ sqr |-> "sqr", abs |-> "abs", opposite |-> "opp", mul |-> "mul", d |-> "d" ]
LeafNo == ("1" :> 1) @@ ("2" :> 2) @@ ("3" :> 3) @@ ("4" :> 4) @@ ("5" :> 5) @@ ("6" :> 6)

\* ------------------------------------------------------------------ length terms
IsLen(t) == t >= 100                                   \* an unknown length (a _Length of the implementation)
ArgTerm(nm, p) == IF nm \in DOMAIN ArgDecl THEN ArgDecl[nm][p] ELSE 100 + 10 * ArgNo[nm] + p
LeafTerm(id, p) == 200 + 10 * LeafNo[id] + p
SeqToSet(sq) == {sq[p] : p \in 1..Len(sq)}
\* the smallest set that contains S and is closed under the links
RECURSIVE Reach(_, _)
Reach(S, LK) == LET N == S \cup {l[2] : l \in {m \in LK : m[1] \in S}} \cup {l[1] : l \in {m \in LK : m[2] \in S}}
                IN IF N = S THEN S ELSE Reach(N, LK)
ClassOf(t, LK) == TLCEval(Reach({t}, LK))
KnownIn(C) == {t \in C : ~IsLen(t)}
\* the link equations: the assignments of lengths 1..4 to the unknowns (the namespace has 2 and 3) that satisfy every link
TermVal(t, U) == IF IsLen(t) THEN U[t] ELSE t
Sol(un, LK) == {U \in [un -> 1..4] : \A l \in LK : TermVal(l[1], U) = TermVal(l[2], U)}

\* ------------------------------------------------------------------ syntax trees (additional nodes)
\*   "arg"    nm = name, ix = index letters                                   ?u_ij
\*   "normal" ix = one index token                                            n_i
\*   "grad"   nm = "," or ";", ix = index tokens, kids = <<differentiated>>     a_i,j   (a + b)_,j   a_;0
\*   "call"   nm in DOMAIN Func1Tab, kids = the arguments                       mul(a_i, b_i)   d(a, x_i)
\*   "subst"  kids = <<item, bind, ...>>;  "bind": nm = argument, ix = its index letters, kids = <<value>>,
\*            sg = <<"?">> for the forbidden question mark on the left hand side      ?u_i(u_i = r_i)
\* eye / cix as in ExprLang (sg = <<leaf id>>)
ArgNd(nm, ix) == Nd("arg", nm, ix, <<>>, <<>>)
GradNd(kind, ix, e) == Nd("grad", kind, ix, <<e>>, <<>>)
BindNd(nm, ix, e, flag) == Nd("bind", nm, ix, <<e>>, flag)
IsConstItem(e) == e.op \in {"num", "cix"}
HasIxLeaf(e) == e.op \in {"var", "arg", "normal", "eye", "cix"} /\ e.ix # <<>>

RECURSIVE Render1(_, _)
Render1(e, st) ==
  LET pad == IF st = 0 THEN <<>> ELSE <<" ">>
      ixs == IF e.ix = <<>> THEN <<>> ELSE <<"_">> \o e.ix
      K(p) == Render1(e.kids[p], st)
  IN CASE e.op = "num" -> <<e.nm>>
       [] e.op \in {"var", "eye", "cix"} -> <<e.nm>> \o ixs
       [] e.op = "arg" -> <<"?", e.nm>> \o ixs
       [] e.op = "normal" -> <<"n">> \o ixs
       [] e.op = "grad" -> K(1) \o (IF HasIxLeaf(e.kids[1]) THEN <<>> ELSE <<"_">>) \o <<e.nm>> \o e.ix
       [] e.op = "call" -> <<e.nm, "(">> \o pad \o JoinSeqs([p \in 1..Len(e.kids) |-> K(p)], <<",", " ">>) \o pad \o <<")">>
       [] e.op = "bind" -> e.sg \o <<e.nm>> \o ixs \o (IF st = 0 THEN <<" ", "=", " ">> ELSE <<"=">>) \o K(1)
       [] e.op = "subst" -> K(1) \o <<"(">> \o pad \o JoinSeqs([p \in 1..(Len(e.kids) - 1) |-> K(p + 1)], <<",", " ">>) \o pad \o <<")">>
       [] e.op = "scope" -> <<"(">> \o pad \o K(1) \o pad \o <<")">>
       [] e.op = "jump" -> <<"[">> \o pad \o K(1) \o pad \o <<"]">>
       [] e.op = "mean" -> <<"{">> \o pad \o K(1) \o pad \o <<"}">>
       [] e.op = "pow" -> K(1) \o <<"^">> \o (IF e.nm = "int" THEN <<e.kids[2].nm>> ELSE <<"(">> \o pad \o K(2) \o pad \o <<")">>)
       [] e.op = "term" -> JoinSeqs([p \in 1..Len(e.kids) |-> K(p)], IF st = 0 THEN <<" ">> ELSE <<"  ">>)
       [] e.op = "frac" -> K(1) \o <<" ", "/", " ">> \o K(2)
       [] e.op = "sum" -> (IF e.sg[1] = "-" THEN <<"-">> ELSE <<>>) \o K(1)
                          \o JoinSeqs([p \in 1..(Len(e.kids) - 1) |->
                                 <<" ", SignTok(e.sg[p + 1]), " ">> \o (IF e.sg[p + 1] \in {"+-", "--"} THEN <<"-">> ELSE <<>>) \o K(p + 1)], <<>>)
RenderTop1(e, st) == IF st = 0 THEN Render1(e, 0) ELSE <<" ">> \o Render1(e, st) \o <<" ">>

\* ------------------------------------------------------------------ the documented rules, with length terms and links
\* annotated node:  why, cnt  as in ExprLang;  lt  letter -> length term of its axis (0: unused);  lk  the links of the
\* subtree;  ar  the (argument, number of axes) pairs used;  un  the unknown terms of the subtree;  dt  as in ExprLang
ZeroLt == [l \in AllLetters |-> 0]
An1(e, kids, why, cnt, lt, lk, dt, ar, un) ==
  [op |-> e.op, nm |-> e.nm, ix |-> e.ix, sg |-> e.sg, kids |-> kids, why |-> why, cnt |-> TLCEval(cnt), lt |-> TLCEval(lt),
   lk |-> TLCEval(lk), dt |-> dt, ar |-> TLCEval(ar), un |-> TLCEval(un), ln |-> ZeroLt]
Lk(a, b) == IF a = b THEN {} ELSE {<<a, b>>}
\* rules for a list of tokens labelling axes with length terms sh
IxWhy1(ix, sh) ==
  IF \E p \in 1..Len(ix) : ~IsDigit(ix[p]) /\ ix[p] \notin AllLetters THEN "index-symbol"
  ELSE IF \E p \in 1..Len(ix) : IsDigit(ix[p]) /\ IsLen(sh[p]) THEN "numeral-on-inferred-axis"
  ELSE IF \E p \in 1..Len(ix) : IsDigit(ix[p]) /\ DigitVal[ix[p]] >= sh[p] THEN "numeral-range"
  ELSE IF \E l \in AllLetters : IxCnt(ix)[l] >= 3 THEN "index-thrice"
  ELSE IF \E p, q \in 1..Len(ix) : p < q /\ ix[p] = ix[q] /\ ix[p] \in AllLetters /\ ~IsLen(sh[p]) /\ ~IsLen(sh[q]) /\ sh[p] # sh[q] THEN "trace-length"
  ELSE ""
IxLinks(ix, sh) == UNION {Lk(sh[pq[1]], sh[pq[2]]) : pq \in {z \in (1..Len(ix)) \X (1..Len(ix)) : z[1] < z[2] /\ ix[z[1]] = ix[z[2]] /\ ix[z[1]] \in AllLetters}}
IxLt(ix, sh) == [l \in AllLetters |-> IF \E p \in 1..Len(ix) : ix[p] = l THEN sh[CHOOSE p \in 1..Len(ix) : ix[p] = l /\ \A q \in 1..(p - 1) : ix[q] # l] ELSE 0]
KidLt(ks, l) == IF \E p \in 1..Len(ks) : ks[p].cnt[l] >= 1 THEN ks[CHOOSE p \in 1..Len(ks) : ks[p].cnt[l] >= 1 /\ \A q \in 1..(p - 1) : ks[q].cnt[l] = 0].lt[l] ELSE 0
\* two factors / arguments that both have the free letter l: the same length
PairLinks(ks) == UNION {Lk(ks[z[1]].lt[z[3]], ks[z[2]].lt[z[3]]) :
                          z \in {y \in (1..Len(ks)) \X (1..Len(ks)) \X AllLetters : y[1] < y[2] /\ ks[y[1]].cnt[y[3]] = 1 /\ ks[y[2]].cnt[y[3]] = 1}}
PairClash(ks) == \E l \in AllLetters : \E p, q \in 1..Len(ks) : /\ p < q /\ ks[p].cnt[l] = 1 /\ ks[q].cnt[l] = 1
                                                             /\ ~IsLen(ks[p].lt[l]) /\ ~IsLen(ks[q].lt[l]) /\ ks[p].lt[l] # ks[q].lt[l]
\* the same argument with two different numbers of axes
RankClash(ar) == \E y, z \in ar : y[1] = z[1] /\ y[2] # z[2]

RECURSIVE Ann1(_)
Ann1(e) ==
  LET ks == TLCEval([p \in 1..Len(e.kids) |-> Ann1(e.kids[p])])
      kw == FirstWhy(ks, 1)
      n == Len(ks)
      sumcnt == TLCEval([l \in AllLetters |-> SeqSum([p \in 1..n |-> ks[p].cnt[l]], n)])
      kidlt == TLCEval([l \in AllLetters |-> KidLt(ks, l)])
      klk == UNION {ks[p].lk : p \in 1..n}
      kar == UNION {ks[p].ar : p \in 1..n}
      kun == UNION {ks[p].un : p \in 1..n}
      alli == IF \A p \in 1..n : ks[p].dt = "i" THEN "i" ELSE "f"
      Fail(w) == An1(e, ks, w, ZeroCnt, ZeroLt, {}, "f", {}, {})
      Leaf(sh, dt, ar) == IF Len(e.ix) # Len(sh) THEN Fail("index-count")
                          ELSE IF IxWhy1(e.ix, sh) # "" THEN Fail(IxWhy1(e.ix, sh))
                          ELSE An1(e, ks, "", IxCnt(e.ix), IxLt(e.ix, sh), IxLinks(e.ix, sh), dt, ar, {t \in SeqToSet(sh) : IsLen(t)})
  IN
  IF kw # "" THEN Fail(kw)
  ELSE CASE e.op = "num" -> An1(e, ks, "", ZeroCnt, ZeroLt, {}, IF e.nm \in FloatLits THEN "f" ELSE "i", {}, {})
    [] e.op = "var" -> IF e.nm \notin DOMAIN JVarTab THEN Fail("unknown-name") ELSE Leaf(JVarTab[e.nm].sh, "f", {})
    [] e.op = "arg" ->
         IF e.nm \in DOMAIN ArgDecl /\ Len(ArgDecl[e.nm]) # Len(e.ix) THEN Fail("arg-rank")
         ELSE Leaf([p \in 1..Len(e.ix) |-> ArgTerm(e.nm, p)], "f", {<<e.nm, Len(e.ix)>>})
    [] e.op = "eye" -> Leaf(<<LeafTerm(e.sg[1], 1), LeafTerm(e.sg[1], 1)>>, "f", {})
    [] e.op = "cix" -> IF \E p \in 1..Len(e.ix) : IsDigit(e.ix[p]) THEN Fail("numeral-on-constant")
                       ELSE Leaf(<<LeafTerm(e.sg[1], 1)>>, IF e.nm \in FloatLits THEN "f" ELSE "i", {})
    [] e.op = "normal" -> Leaf(<<GDim>>, "f", {})
    [] e.op \in {"scope", "jump", "mean"} ->
         An1(e, ks, "", ks[1].cnt, ks[1].lt, klk, IF e.op = "mean" THEN "f" ELSE ks[1].dt, kar, kun)
    [] e.op = "grad" ->
         \* the free letters of the differentiated expression followed by the gradient indices, every new axis of length GDim
         IF IsConstItem(e.kids[1]) THEN Fail("derivative-of-constant")
         ELSE LET af == FreeSeq(ks[1].cnt)
                  cix == af \o e.ix
                  csh == [p \in 1..Len(af) |-> ks[1].lt[af[p]]] \o [p \in 1..Len(e.ix) |-> GDim]
                  cnt == [l \in AllLetters |-> ks[1].cnt[l] + IxCnt(e.ix)[l]]
              IN IF IxWhy1(cix, csh) # "" THEN Fail(IxWhy1(cix, csh))
                 ELSE IF Thrice(cnt) THEN Fail("index-thrice")
                 ELSE An1(e, ks, "", cnt, [l \in AllLetters |-> IF ks[1].cnt[l] >= 1 THEN ks[1].lt[l] ELSE IxLt(cix, csh)[l]],
                          klk \cup IxLinks(cix, csh), "f", kar, kun)
    [] e.op = "call" ->
         IF e.nm \notin DOMAIN Func1Tab THEN Fail("unknown-function")
         ELSE LET kind == Func1Tab[e.nm] IN
              IF kind \in {"sqr", "abs", "opp"} /\ n # 1 THEN Fail("argument-count")
              ELSE IF kind = "d" /\ (n # 2 \/ ~(e.kids[2].op = "arg" \/ (e.kids[2].op = "var" /\ e.kids[2].nm = "x" /\ Len(e.kids[2].ix) = 1))) THEN Fail("argument-count")
              ELSE IF Thrice(sumcnt) THEN Fail("index-thrice")
              ELSE IF PairClash(ks) THEN Fail("trace-length")
              ELSE An1(e, ks, "", sumcnt, kidlt, klk \cup PairLinks(ks), IF kind \in {"sqr", "abs", "opp", "mul"} THEN alli ELSE "f", kar, kun)
    [] e.op = "bind" ->
         \* a closed scope: the letters of the left hand side are those of the value, they are not indices of the enclosing term
         LET sh == [p \in 1..Len(e.ix) |-> ArgTerm(e.nm, p)] IN
         IF e.sg # <<>> THEN Fail("subst-lhs-questionmark")
         ELSE IF \E p \in 1..Len(e.ix) : IsDigit(e.ix[p]) THEN Fail("subst-lhs-numeric")
         ELSE IF \E p, q \in 1..Len(e.ix) : p < q /\ e.ix[p] = e.ix[q] THEN Fail("subst-lhs-repeated")
         ELSE IF e.nm \in DOMAIN ArgDecl /\ Len(ArgDecl[e.nm]) # Len(e.ix) THEN Fail("arg-rank")
         ELSE IF FreeSet(ks[1].cnt) # SeqToSet(e.ix) THEN Fail("subst-indices")
         ELSE IF \E p \in 1..Len(e.ix) : ~IsLen(sh[p]) /\ ~IsLen(ks[1].lt[e.ix[p]]) /\ sh[p] # ks[1].lt[e.ix[p]] THEN Fail("subst-length")
         ELSE An1(e, ks, "", ZeroCnt, ZeroLt, klk \cup UNION {Lk(sh[p], ks[1].lt[e.ix[p]]) : p \in 1..Len(e.ix)}, "f",
                  kar \cup {<<e.nm, Len(e.ix)>>}, kun \cup {t \in SeqToSet(sh) : IsLen(t)})
    [] e.op = "subst" ->
         IF n < 2 THEN Fail("subst-zero")
         ELSE IF \E p, q \in 2..n : p < q /\ e.kids[p].nm = e.kids[q].nm THEN Fail("subst-duplicate")
         ELSE An1(e, ks, "", ks[1].cnt, ks[1].lt, klk, "f", kar, kun)
    [] e.op = "pow" ->
         IF e.kids[1].op = "pow" THEN Fail("repeated-power")
         ELSE IF FreeSet(ks[2].cnt) # {} THEN Fail("exponent-dim")
         ELSE IF Thrice(sumcnt) THEN Fail("index-thrice")
         ELSE An1(e, ks, "", sumcnt, kidlt, klk, IF ks[1].dt = "i" /\ ks[2].dt = "i" THEN "i" ELSE "f", kar, kun)
    [] e.op = "term" ->
         IF \E p \in 2..n : IsNumItem(e.kids[p]) THEN Fail("number-position")
         ELSE IF Thrice(sumcnt) THEN Fail("index-thrice")
         ELSE IF PairClash(ks) THEN Fail("sum-length")
         ELSE An1(e, ks, "", sumcnt, kidlt, klk \cup PairLinks(ks), alli, kar, kun)
    [] e.op = "frac" ->
         IF e.kids[1].op = "frac" \/ e.kids[2].op = "frac" THEN Fail("repeated-fraction")
         ELSE IF FreeSet(ks[2].cnt) # {} THEN Fail("denominator-dim")
         ELSE IF Thrice(sumcnt) THEN Fail("index-thrice")
         ELSE An1(e, ks, "", sumcnt, kidlt, klk, "f", kar, kun)
    [] e.op = "sum" ->
         IF \E p \in 1..n : e.sg[p] \in {"+-", "--"} THEN Fail("misplaced-minus")
         ELSE IF \E p \in 2..n : FreeSet(ks[p].cnt) # FreeSet(ks[1].cnt) THEN Fail("term-indices")
         ELSE IF \E p \in 2..n : \E l \in FreeSet(ks[1].cnt) : ~IsLen(ks[p].lt[l]) /\ ~IsLen(ks[1].lt[l]) /\ ks[p].lt[l] # ks[1].lt[l] THEN Fail("term-length")
         ELSE An1(e, ks, "", [l \in AllLetters |-> SeqMax([p \in 1..n |-> ks[p].cnt[l]], n)], kidlt,
                  klk \cup UNION {Lk(ks[1].lt[z[2]], ks[z[1]].lt[z[2]]) : z \in {y \in (2..n) \X AllLetters : ks[1].cnt[y[2]] = 1}}, alli, kar, kun)

\* ------------------------------------------------------------------ the verdict and the deduced lengths
\* fb: the fallback length of the namespace (0: none)
Conflict(an) == \E t \in an.un \cup UNION {{l[1], l[2]} : l \in an.lk} : Cardinality(KnownIn(ClassOf(t, an.lk))) >= 2
Undet(an) == {t \in an.un : KnownIn(ClassOf(t, an.lk)) = {}}
TopWhy(an, fb) == IF an.why # "" THEN an.why
                  ELSE IF RankClash(an.ar) THEN "arg-rank"
                  ELSE IF Conflict(an) THEN "length-conflict"
                  ELSE IF fb = 0 /\ Undet(an) # {} THEN "undetermined-length"
                  ELSE ""
\* the deduced length of every unknown of a tree that follows the rules
ResFun(an, fb) == [t \in an.un |-> LET kn == KnownIn(ClassOf(t, an.lk)) IN IF kn = {} THEN fb ELSE CHOOSE x \in kn : TRUE]
ResT(t, RF) == IF IsLen(t) THEN RF[t] ELSE t
RECURSIVE Resolve(_, _)
Resolve(n, RF) == [op |-> n.op, nm |-> n.nm, ix |-> n.ix, sg |-> n.sg, why |-> n.why, cnt |-> n.cnt, lt |-> n.lt, lk |-> {}, dt |-> n.dt, ar |-> n.ar, un |-> {},
                   kids |-> TLCEval([p \in 1..Len(n.kids) |-> Resolve(n.kids[p], RF)]),
                   ln |-> TLCEval([l \in AllLetters |-> ResT(n.lt[l], RF)])]
\* the shapes of the arguments of the tree: sequence of <<name, shape>> in the order of ArgNo
ArgOrder == <<"u", "v", "p", "w">>
ArgShapes(an, RF) == LET used == SelectSeq(ArgOrder, LAMBDA nm : \E y \in an.ar : y[1] = nm)
                     IN [q \in 1..Len(used) |-> <<used[q], LET rk == (CHOOSE y \in an.ar : y[1] = used[q])[2] IN [p \in 1..rk |-> ResT(ArgTerm(used[q], p), RF)]>>]
\* the same verdicts by the solutions of the link equations (only evaluated for few unknowns)
InferenceSoundFor(an) ==
  LET S == Sol(an.un, an.lk) IN
  /\ Conflict(an) <=> (S = {})
  /\ ~Conflict(an) => \A t \in an.un : LET kn == KnownIn(ClassOf(t, an.lk)) IN
                          IF kn = {} THEN Cardinality({U[t] : U \in S}) >= 2
                          ELSE \A U \in S : U[t] \in kn

IntNegPow1(n) == IntNegPow(n)

\* ------------------------------------------------------------------ the meaning
\* a direction: <<0, k>> the coordinate k of the geometry; <<10 + ArgNo[u], idx...>> the component idx of argument u
JetIdx(ks) == IF Len(ks) = 0 THEN 1 ELSE IF Len(ks) = 1 THEN 2 + ks[1] ELSE 4 + ks[1] + ks[2]
VarAt1(nm, pos, ds) ==
  IF \E p \in 1..Len(ds) : ds[p][1] # 0 THEN T2Zero            \* a variable does not depend on an argument
  ELSE IF Len(ds) > 2 THEN T2Zero                              \* the data are quadratic
  ELSE LET t == JVarTab[nm]
           c == Flat(pos, t.sh) + 1
           m == JetIdx([p \in 1..Len(ds) |-> ds[p][2]])
       IN <<RInt(t.j[1][c][m]), RInt(t.j[2][c][m])>>
NrmAt(k) == <<RInt(NrmTab[k + 1][1]), RInt(NrmTab[k + 1][2])>>
RECURSIVE PickPos(_, _, _)
PickPos(ds, S, p) == IF p > Len(ds) THEN <<>> ELSE (IF p \in S THEN <<ds[p]>> ELSE <<>>) \o PickPos(ds, S, p + 1)
RECURSIVE SumSetT2(_, _)
SumSetT2(F(_), S) == IF S = {} THEN T2Zero ELSE LET z == CHOOSE y \in S : TRUE IN T2Add(F(z), SumSetT2(F, S \ {z}))
\* the derivative along ds of the product G(1, .) ... G(k, .)   (G(p, d): the derivative of factor p along d)
RECURSIVE ProdD(_, _, _)
ProdD(G(_, _), k, ds) ==
  IF k = 0 THEN (IF ds = <<>> THEN T2One ELSE T2Zero)
  ELSE IF ds = <<>> THEN T2Mul(ProdD(G, k - 1, <<>>), G(k, <<>>))
  ELSE LET all == 1..Len(ds) IN
       SumSetT2(LAMBDA S : T2Mul(ProdD(G, k - 1, PickPos(ds, all \ S, 1)), G(k, PickPos(ds, S, 1))), SUBSET all)
T2B == T2(Bad)
T2Int(i) == T2(RInt(i))
\* derivatives of 1 / g up to order two
RecipD(Gd(_), ds) ==
  LET g == Gd(<<>>) IN
  IF Len(ds) = 0 THEN T2Div(T2One, g)
  ELSE IF Len(ds) = 1 THEN T2Neg(T2Div(Gd(ds), T2Mul(g, g)))
  ELSE IF Len(ds) = 2 THEN T2Add(T2Neg(T2Div(Gd(ds), T2Mul(g, g))),
                                 T2Div(T2Mul(T2Int(2), T2Mul(Gd(<<ds[1]>>), Gd(<<ds[2]>>))), T2Mul(g, T2Mul(g, g))))
  ELSE T2B
\* derivatives of f ^ c up to order two, the exponent must not vary
PowD(Fd(_), Cd(_), ds) ==
  LET f == Fd(<<>>)
      c == Cd(<<>>)
      c1 == T2Sub(c, T2One)
  IN IF Len(ds) = 0 THEN T2Pow(f, c)
     ELSE IF Len(ds) = 1 THEN IF Cd(ds) # T2Zero THEN T2B ELSE T2Mul(c, T2Mul(T2Pow(f, c1), Fd(ds)))
     ELSE IF Len(ds) = 2 THEN
          IF Cd(ds) # T2Zero \/ Cd(<<ds[1]>>) # T2Zero \/ Cd(<<ds[2]>>) # T2Zero THEN T2B
          ELSE T2Add(T2Mul(T2Mul(c, c1), T2Mul(T2Pow(f, T2Sub(c1, T2One)), T2Mul(Fd(<<ds[1]>>), Fd(<<ds[2]>>)))),
                     T2Mul(c, T2Mul(T2Pow(f, c1), Fd(ds))))
     ELSE T2B
AbsD(Fd(_), ds) ==
  LET f == Fd(<<>>) IN
  IF ds = <<>> THEN <<RAbs(f[1]), RAbs(f[2])>>
  ELSE IF T2Bad(f) \/ f[1][1] = 0 \/ f[2][1] = 0 THEN T2B
  ELSE LET g == Fd(ds) IN <<RMul(RInt(RSgn(f[1])), g[1]), RMul(RInt(RSgn(f[2])), g[2])>>
SubFor(sub, nm) == sub[CHOOSE p \in 1..Len(sub) : sub[p].nm = nm]
HasSub(sub, nm) == \E p \in 1..Len(sub) : sub[p].nm = nm
PosOfTok(ix, l) == CHOOSE p \in 1..Len(ix) : ix[p] = l
NewSums(n) == {l \in AllLetters : n.cnt[l] = 2 /\ \A p \in 1..Len(n.kids) : n.kids[p].cnt[l] < 2}

RECURSIVE Val1(_, _, _, _)
\* the gradient indices from position p on; ";" is the gradient minus its normal component:  D f - n (n . D f)
RECURSIVE GradVal(_, _, _, _, _)
GradVal(n, env, ds, sub, p) ==
  IF p > Len(n.ix) THEN Val1(n.kids[1], env, ds, sub)
  ELSE LET k == TokPos(n.ix[p], env)
           full == GradVal(n, env, Append(ds, <<0, k>>), sub, p + 1)
       IN IF n.nm = "," THEN full
          ELSE T2Sub(full, T2Mul(NrmAt(k), SumTo(LAMBDA m : T2Mul(NrmAt(m - 1), GradVal(n, env, Append(ds, <<0, m - 1>>), sub, p + 1)), GDim)))
Val1(n, env, ds, sub) ==
  CASE n.op \in {"num", "cix"} -> IF ds = <<>> THEN T2(Norm(NumTab[n.nm][1], NumTab[n.nm][2])) ELSE T2Zero
    [] n.op = "var" ->
         SumOver(LAMBDA en : VarAt1(n.nm, [p \in 1..Len(n.ix) |-> TokPos(n.ix[p], en)], ds), {l \in AllLetters : n.cnt[l] = 2}, n.ln, env)
    [] n.op = "normal" -> IF ds = <<>> THEN NrmAt(TokPos(n.ix[1], env)) ELSE T2Zero       \* a straight interface
    [] n.op = "eye" ->
         IF ds # <<>> THEN T2Zero
         ELSE SumOver(LAMBDA en : IF en[n.ix[1]] = en[n.ix[2]] THEN T2One ELSE T2Zero, {l \in AllLetters : n.cnt[l] = 2}, n.ln, env)
    [] n.op = "arg" ->
         SumOver(LAMBDA en :
                   LET pos == [p \in 1..Len(n.ix) |-> TokPos(n.ix[p], en)] IN
                   IF HasSub(sub, n.nm) THEN
                        \* the substituted value, its axes labelled by the letters of the left hand side
                        LET b == SubFor(sub, n.nm) IN
                        IF \E p \in 1..Len(ds) : ds[p][1] # 0 THEN T2B
                        ELSE Val1(b.kids[1], [l \in AllLetters |-> IF \E p \in 1..Len(b.ix) : b.ix[p] = l THEN pos[PosOfTok(b.ix, l)] ELSE 0], ds, <<>>)
                   ELSE IF ds = <<>> THEN T2Int(ArgAt(n.nm, pos))
                   ELSE IF Len(ds) = 1 /\ ds[1][1] = 10 + ArgNo[n.nm] THEN (IF Tail(ds[1]) = pos THEN T2One ELSE T2Zero)
                   ELSE T2Zero,
                 {l \in AllLetters : n.cnt[l] = 2}, n.ln, env)
    [] n.op = "scope" -> Val1(n.kids[1], env, ds, sub)
    [] n.op = "jump" -> T2Jump(Val1(n.kids[1], env, ds, sub))
    [] n.op = "mean" -> T2Mean(Val1(n.kids[1], env, ds, sub))
    [] n.op = "grad" -> SumOver(LAMBDA en : GradVal(n, en, ds, sub, 1), NewSums(n), n.ln, env)
    [] n.op = "call" ->
         LET kind == Func1Tab[n.nm] IN
         (CASE kind = "sqr" -> ProdD(LAMBDA p, d : Val1(n.kids[1], env, d, sub), 2, ds)
           [] kind = "abs" -> AbsD(LAMBDA d : Val1(n.kids[1], env, d, sub), ds)
           [] kind = "opp" -> T2Opp(Val1(n.kids[1], env, ds, sub))
           [] kind = "mul" -> SumOver(LAMBDA en : ProdD(LAMBDA p, d : Val1(n.kids[p], en, d, sub), Len(n.kids), ds), NewSums(n), n.ln, env)
           [] kind = "d" ->
                LET tg == n.kids[2] IN
                SumOver(LAMBDA en : LET pos == [p \in 1..Len(tg.ix) |-> en[tg.ix[p]]]
                                        dir == IF tg.op = "var" THEN <<0>> \o pos ELSE <<10 + ArgNo[tg.nm]>> \o pos
                                    IN IF tg.op = "arg" /\ HasSub(sub, tg.nm) THEN T2B ELSE Val1(n.kids[1], en, Append(ds, dir), sub),
                        NewSums(n), n.ln, env))
    [] n.op = "subst" ->
         IF sub # <<>> THEN T2B            \* nested substitutions: not given a meaning here
         ELSE Val1(n.kids[1], env, ds, [p \in 1..(Len(n.kids) - 1) |-> n.kids[p + 1]])
    [] n.op = "pow" -> PowD(LAMBDA d : Val1(n.kids[1], env, d, sub), LAMBDA d : Val1(n.kids[2], env, d, sub), ds)
    [] n.op = "frac" ->
         IF ds = <<>> THEN T2Div(Val1(n.kids[1], env, <<>>, sub), Val1(n.kids[2], env, <<>>, sub))
         ELSE ProdD(LAMBDA p, d : IF p = 1 THEN Val1(n.kids[1], env, d, sub) ELSE RecipD(LAMBDA dd : Val1(n.kids[2], env, dd, sub), d), 2, ds)
    [] n.op = "term" ->
         SumOver(LAMBDA en : ProdD(LAMBDA p, d : Val1(n.kids[p], en, d, sub), Len(n.kids), ds), NewSums(n), n.ln, env)
    [] n.op = "sum" ->
         SumTo(LAMBDA p : IF n.sg[p] = "-" THEN T2Neg(Val1(n.kids[p], env, ds, sub)) ELSE Val1(n.kids[p], env, ds, sub), Len(n.kids))

ArrOf1(n, order) == XMk([p \in 1..Len(order) |-> n.ln[order[p]]], LAMBDA idx : Val1(n, EnvOf(order, idx), <<>>, <<>>))
=============================================================================
