\* simulation: <= 5 merge sets of <= 4 indices out of <= 6
SPECIFICATION Spec
CONSTANTS
  MaxN = 6
  MaxSets = 5
  MaxLen = 4
  Mutant = "none"
INVARIANT TypeOK
INVARIANT Downwards
INVARIANT RootsAreReps
INVARIANT Result
INVARIANT Docstring
INVARIANT EmitDone
CHECK_DEADLOCK FALSE
