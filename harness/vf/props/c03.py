"""C03 -- Compiled functions are pure functions of their arguments across calls.

spec/CompiledFn.tla models the persistent state of a compiled function
(first_run, cached frozen globals, aliasing of returned arrays) and the user's
moves (call with environment e, call with a wrong-shaped argument, overwrite a
previously returned writable result).  TLC checks Pure / CachedFrozen /
CacheIntact over all histories of length <= MaxLen and emits every maximal
history; each history is replayed (S->C) on programs from the ExprBuilder TLA+
machine that mix constant and argument-dependent subterms: every call's result
must equal the ArraySem model value for that call's arguments and the result
of a freshly compiled function; argument arrays must be bit-identical after
the call; overwriting a returned array is attempted for real (a ValueError for
read-only buffers is the allowed refusal).  Argument arrays are reused objects
mutated in place between calls, so caching by identity would be caught too.
"""

import random

from .. import dag, exprs, tlc

LEVEL = 'model_checking'


def _lost_arguments(nodes, arrs):
    """first closed node (post order) whose announced .arguments lack an Argument leaf it is built from; '' if none"""
    from nutils import evaluable as ev
    deps = []
    for n, a in zip(nodes, arrs):
        d = {dag.ARGNAMES[n['p'][0]]} if n['op'] == 'Arg' else set().union(*[deps[i - 1] for i in n['d']]) if n['d'] else set()
        deps.append(d)
        # (a free loop index legitimately does not announce the arguments of its length: only closed nodes are judged)
        if not any(isinstance(x, ev._LoopIndex) for x in a.arguments) and d - {x.name for x in a.arguments if isinstance(x, ev.Argument)}:
            return n['op']
    return ''


def replay_one(item):
    import numpy
    import warnings
    warnings.simplefilter('ignore')
    from nutils import evaluable as ev
    nodes, outs_pos, expected, hist, cfg = item
    out = dict(status='ok', calls=0, writes=0, refused=0)
    arrs = dag.build(nodes)
    roots = tuple(arrs[p - 1] for p in outs_pos)
    model = {}
    k = 0
    for pos in outs_pos:
        for e in range(len(dag.ENVS)):
            v, bad, _, _ = dag.arr_value(expected['vals'][k])
            model[pos, e] = None if bad else v
            k += 1
    try:
        f = exprs.with_timeout(30, ev.compile, roots, stats=False, **cfg)
    except Exception as ex:
        out.update(status='skip', why='compile failed ({}; judged by C02)'.format(type(ex).__name__))
        return out
    # persistent argument objects, mutated in place between calls
    live = dag.env_arrays(dag.ENVS[0])
    returned = []
    for step in hist:
        op, a = step['op'], step['arg']
        if op == 'call':
            e = a - 1
            newvals = dag.env_arrays(dag.ENVS[e])
            for name in live:
                live[name][...] = newvals[name]
            before = {name: arr.tobytes() for name, arr in live.items()}
            try:
                with numpy.errstate(all='ignore'):
                    res = exprs.with_timeout(30, f, live)
            except Exception as ex:
                if all(model[p, e] is not None for p in outs_pos):
                    out.update(status='violation', key='call-raises:' + type(ex).__name__, what='call {} raised {!r} although the model value is defined'.format(out['calls'] + 1, ex)[:300])
                    return out
                returned.append(None)
                continue
            out['calls'] += 1
            if any(arr.tobytes() != before[name] for name, arr in live.items()):
                out.update(status='violation', key='argument-modified', what='an argument array was modified by the call')
                return out
            try:
                with numpy.errstate(all='ignore'):
                    fresh = ev.compile(roots, stats=False, **cfg)(dag.env_arrays(dag.ENVS[e]))
            except Exception:
                fresh = None
            for j, pos in enumerate(outs_pos):
                got = numpy.asarray(res[j])
                m = model[pos, e]
                n = nodes[pos - 1]
                if fresh is not None and not (numpy.asarray(fresh[j]).shape == got.shape and numpy.array_equal(numpy.asarray(fresh[j]), got, equal_nan=True)):
                    if m is not None:
                        out.update(status='violation', key='differs-from-fresh', what='call {} (env {}) differs from a freshly compiled function'.format(out['calls'], e), got=got.tolist(), want=numpy.asarray(fresh[j]).tolist())
                        # root cause: a node that does not announce an argument it depends on is (wrongly) a cacheable constant
                        lost = _lost_arguments(nodes, arrs)
                        if lost:
                            out['key'] = 'stale-cache:arguments-missing:' + lost
                        return out
                if m is not None and not dag.matches(m, got, n['dt']):
                    out.update(status='violation', key='differs-from-model', what='call {} (env {}) differs from the model value'.format(out['calls'], e), got=got.tolist(), want=[str(x) for x in m.ravel()])
                    return out
            returned.append(res)
        elif op == 'wrongshape':
            bad = dict(live)
            used = [n for n in nodes if n['op'] == 'Arg']
            if not used:
                continue
            name = dag.ARGNAMES[used[0]['p'][0]]
            bad[name] = numpy.zeros(tuple(s + 1 for s in live[name].shape) or (2,), dtype=live[name].dtype)
            try:
                f(bad)   # normally raises ValueError; an argument that was simplified away may be accepted (not a purity matter)
            except Exception:
                out['raised'] = out.get('raised', 0) + 1
        elif op == 'write':
            if a - 1 < len(returned) and returned[a - 1] is not None:
                for arr in returned[a - 1]:
                    arr = numpy.asarray(arr) if not isinstance(arr, numpy.ndarray) else arr
                    if not isinstance(arr, numpy.ndarray) or arr.ndim == 0 and not isinstance(arr, numpy.ndarray):
                        continue
                    try:
                        arr[...] = 97 if arr.dtype.kind != 'b' else ~arr
                        out['writes'] += 1
                    except ValueError:
                        out['refused'] += 1
    return out


def run(rep):
    rng = random.Random(rep.seed)
    quick = rep.tier == 'quick'
    res = tlc.run('CompiledFn', 'CompiledFn.cfg' if quick else None, tag='c03-design', workers=1, coverage=True, deadlock=False,
                  cfg_text=None if quick else open(tlc.SPEC + '/CompiledFn.cfg').read().replace('MaxLen = 4', 'MaxLen = 5'))
    rep.add_tlc(res, exhaustive=True)
    if res.violated:
        raise RuntimeError('CompiledFn design spec violates ' + res.violated)
    zero = [a for a, (d, n) in res.coverage.items() if n == 0 and a not in ('Init',)]
    if zero:
        raise RuntimeError('vacuity: actions never taken: {}'.format(zero))
    mut = tlc.run('CompiledFn', 'CompiledFn_mutant.cfg', tag='c03-mutant', workers=1, deadlock=False, expect_violation=True)
    if not mut.violated:
        raise RuntimeError('spec mutant FreezeCached=FALSE does not violate the invariants (vacuous)')
    hists = res.emitted
    rep.constants['CompiledFn'] = dict(NEnv=3, MaxLen=4 if quick else 5, histories=len(hists))
    k = 240 if quick else 3000
    fam = dict(Ops='{"Multiply","Add","InsertAxis","Take","Inflate","Sum","Transpose","LoopSum","IntToFloat","Diagonalize","Negative","Power"}',
               LeafSet='{1, 2, 3, 7, 8, 11, 12, 13, 20, 22, 24}', MaxOps=5, MaxNodes=10, MaxLeaves=5)
    sel = exprs.corpus(rep, rng, 'c03', k, quick=quick, need_arg=False, extra=[('mixed', fam, 300 if quick else 3000)])
    # loops whose number of iterations is an integer argument: half of the selected programs depend on their arguments ONLY
    # through the loop length (a length forgotten in Loop.arguments would make such a loop a cached constant)
    arglen = exprs.extended(rep, rng, 'c03-ext', ['arglen'], k // 4, quick=quick, simulate=250 if quick else 4000)['arglen']
    only = [p for p in arglen if {n['p'][0] for n in p if n['op'] == 'Arg'} == {14}]
    sel += only[:k // 8] + [p for p in arglen if p not in only][:k // 8]
    rep.constants['arglen'] = dict(selected_only_length_dependent=len(only[:k // 8]), selected=len(arglen))
    rep.lap('generated')
    from .c02 import pick_outputs
    metas = [pick_outputs(p, rng) for p in sel]
    jobs = [(p, [dict(env=env, node=pos) for pos in outs for env in dag.ENVS], []) for p, outs in zip(sel, metas)]
    results, stats = dag.evaluate(jobs, tag='c03-eval')
    for st in stats:
        rep.add_tlc(st)
    rep.lap('model values')
    cfgs = [dict(cache_const_intermediates=True), dict(cache_const_intermediates=True, _simplify=False), dict(cache_const_intermediates=True, _optimize=False), dict(cache_const_intermediates=False)]
    items = []
    for p, outs, r in zip(sel, metas, results):
        if r is None:
            continue
        for h in rng.sample(hists, 3 if quick else 8):
            items.append((p, outs, r, h, rng.choice(cfgs)))
    outs = exprs.pmap(replay_one, items)
    rep.lap('replayed')
    for it, o in zip(items, outs):
        if 'harness_error' in o:
            raise RuntimeError(o['harness_error'])
        p, h = it[0], it[3]
        rep.case((exprs.canon(p), tuple((s['op'], s['arg']) for s in h)), nontrivial=o.get('calls', 0) >= 2)
        if o['status'] == 'violation':
            rep.violation('{}:{}'.format(o['key'], exprs.skeleton(p)[-60:]) if o['key'].startswith('differs') else o['key'], o['what'],
                          dict(program=p, outputs=it[1], history=h, cfg=it[4], got=o.get('got'), want=o.get('want')))
        elif o['status'] == 'skip':
            rep.skip(o['why'])
        else:
            rep.traces += 1
    rep.extra['user_writes_applied'] = sum(o.get('writes', 0) for o in outs)
    rep.extra['user_writes_refused_readonly'] = sum(o.get('refused', 0) for o in outs)
    rep.extra['calls'] = sum(o.get('calls', 0) for o in outs)
    rep.sample(dict(program=[[n['op'], n['d'], n['p'], n['sh'], n['dt']] for n in items[0][0]], history=items[0][3]))
    rep.rule = 'cases = (program, call/write history from CompiledFn.tla) pairs; non-trivial = at least two successful calls in the history'
    rep.assumptions += ['model values from ArraySem.tla; histories exhaustive up to MaxLen from CompiledFn.tla, sampled per program']
