#!/bin/sh
# usage: tools/verify_seed.sh <dir with patch.diff demo.py> [pytest args...]
# confirms a seeded change independently: patch applies on /repo HEAD in a scratch worktree, demo passes on /repo and
# fails with the patch, and the given tests (default: none) pass with the patch. Removes the worktree afterwards.
d="$(readlink -f "$1")"; shift
wt="/tmp/vf_verify_$$"
git -C /repo worktree add --detach "$wt" >/dev/null 2>&1 || { echo "cannot create worktree"; exit 2; }
trap 'git -C /repo worktree remove --force "$wt" >/dev/null 2>&1; rm -rf "$wt"' EXIT
git -C "$wt" apply "$d/patch.diff" || { echo "PATCH-DOES-NOT-APPLY"; exit 2; }
( cd /tmp && PYTHONPATH=/repo/src timeout 900 /venv/bin/python "$d/demo.py" >/dev/null 2>&1 ); echo "demo on unchanged tree: rc=$? (want 0)"
( cd /tmp && PYTHONPATH="$wt/src" timeout 900 /venv/bin/python "$d/demo.py" >/dev/null 2>&1 ); echo "demo with patch: rc=$? (want != 0)"
if [ $# -gt 0 ]; then
  ( cd "$wt" && OMP_NUM_THREADS=1 /venv/bin/python -m pytest -q -p no:cacheprovider -W ignore "$@" 2>&1 | tail -3 )
fi
