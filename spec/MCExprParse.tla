---------------------------- MODULE MCExprParse ----------------------------
(* model-checking constants for ExprParse (C19) *)
EXTENDS ExprParse
NoStrings == {}
AllWraps == {"scope", "jump", "mean"}
AllMuts == {"unknown", "index-count", "index-symbol", "number-position", "repeated-power", "repeated-fraction", "misplaced-minus"}
SyntaxMuts == {"number-position", "repeated-power", "repeated-fraction", "misplaced-minus"}
AllCors == {"del-bracket", "swap-close", "del-op-space", "pow-space-before", "pow-space-after", "call-space", "index-space", "trailing-op"}
\* exhaustive, quick
VarsA == {"c", "a", "B"}
NumsA == {"2"}
FuncsA == {"sqr", "g"}
ToksA == {"i", "j", "0"}
GToksA == {"i", "j"}
ExpsA == {"2", "-1"}
\* mutants and corruptions over a small vocabulary
VarsB == {"c", "a"}
ToksB == {"i"}
GToksB == {"i"}
FuncsB == {"sqr", "g"}
ExpsB == {"2"}
WrapsB == {"scope", "jump"}
\* numerals, traces and permutations on arrays of rank 2 and 3
VarsC == {"A", "B", "T", "u"}
ToksC == {"i", "j", "k", "0", "2"}
VarsD == {"T", "A"}
ToksD == {"i", "j", "k"}
FuncsD == {"G"}
\* everything (simulation)
AllVars == {"c", "e", "a", "b", "u", "A", "B", "T"}
AllNums == {"2", "3", "10", "0.5", ".5", "1.5", "0"}
AllFuncs == {"sqr", "abs", "opposite", "g", "h", "G"}
AllToks == {"i", "j", "k", "0", "1", "2"}
AllGToks == {"i", "j", "k", "0", "1"}
AllExps == {"2", "3", "-1", "-2", "0"}
OneStyle == {1}
ToksIJ == {"i", "j"}
VarsT == {"T"}
=============================================================================
