------------------------------- MODULE Subst -------------------------------
(***************************************************************************)
(* C13 -- Argument manipulation commutes with evaluation.                  *)
(*                                                                         *)
(* A state machine over the function layer of nutils (function.py): build  *)
(* a small polynomial function array over NAMED arguments with the         *)
(* numpy-API operations, apply manipulation actions                        *)
(*     Replace(map)   function.replace_arguments                           *)
(*     Lin(x:v, ..)   function.linearize                                   *)
(*     Deriv(x)       function.derivative                                  *)
(*     Factor         function.factor                                      *)
(*     Integrate      domain.integral(f [basis] dV, degree=1) on the tiny  *)
(*                    mesh.line(2), for space-bound integrands built with  *)
(*                    function.field(name, basis)                          *)
(* and finally Eval(A) with an argument assignment A, possibly of the      *)
(* wrong shape / dtype.  The model carries the DENOTATION of every node:   *)
(* EvF(prog, k, env) is defined by the equations the property states,      *)
(*   Ev(replace(f, s), A)   = Ev(f, A[x |-> Ev(s(x), A) for x in dom s])   *)
(*                            (simultaneous: every s(x) is evaluated in A) *)
(*   Ev(linearize(f, x:v)) = tangent of f in direction A[v] on x          *)
(*   Ev(derivative(f, x))   = tangents of f for the unit seeds on x        *)
(*   Ev(factor(f), A)       = Ev(f, A)                                     *)
(* over the exact dual-number rationals of ArraySem.  The outcome of a     *)
(* behaviour is VALUE(array) | REJECT (an exception is demanded) | ANY     *)
(* (not judged) | UNDEF (model value capped, not judged).                  *)
(*                                                                         *)
(* A program is a sequence of nodes in post order (operands precede users) *)
(*   [op, d (operand positions), p (integer parameters), k (kind label),   *)
(*    sh (nutils shape), dt ("f"|"i"), sp (bound to the mesh: the model    *)
(*    value has a leading axis over the NP sample points), fv (free        *)
(*    arguments), dg (degree bound), nd (nesting depth of differentiation)]*)
(* Normal form as in ExprBuilder: every new non-leaf node has the last     *)
(* node among its operands.                                                *)
(***************************************************************************)
EXTENDS ArraySem, Json

CONSTANTS Families,   \* sequence of vocabularies, one is chosen initially (see MCSubst)
          Mutant      \* "none" | deliberately wrong transcriptions of the defining equations

VARIABLES prog, fam, nman, res

vars == <<prog, fam, nman, res>>
F == Families[fam]

\* ------------------------------------------------------------------ pools
\* named arguments; names chosen such that one name is a substring of another (u / du, s / ds)
ArgPool == <<
  [name |-> "u",  sh |-> <<2>>,    dt |-> "f"],   \* 1
  [name |-> "v",  sh |-> <<2>>,    dt |-> "f"],   \* 2
  [name |-> "du", sh |-> <<2>>,    dt |-> "f"],   \* 3
  [name |-> "s",  sh |-> <<>>,     dt |-> "f"],   \* 4
  [name |-> "t",  sh |-> <<>>,     dt |-> "f"],   \* 5
  [name |-> "ds", sh |-> <<>>,     dt |-> "f"],   \* 6
  [name |-> "m",  sh |-> <<2, 2>>, dt |-> "f"],   \* 7
  [name |-> "k",  sh |-> <<2, 2>>, dt |-> "f"],   \* 8
  [name |-> "X",  sh |-> <<3>>,    dt |-> "f"],   \* 9   also coefficient vector of a field on the mesh
  [name |-> "Y",  sh |-> <<3>>,    dt |-> "f"],   \* 10
  [name |-> "n",  sh |-> <<>>,     dt |-> "i"],   \* 11
  [name |-> "j",  sh |-> <<>>,     dt |-> "i"],   \* 12
  [name |-> "w",  sh |-> <<2, 2, 2>>, dt |-> "f"], \* 13  rank 3 (multi-index ravelling in factor / Monomial)
  [name |-> "dw", sh |-> <<2, 2, 2>>, dt |-> "f"] >> \* 14
NArgs == Len(ArgPool)
ArgIds == 1..NArgs
Peers(a) == {b \in ArgIds : b # a /\ ArgPool[b].sh = ArgPool[a].sh /\ ArgPool[b].dt = ArgPool[a].dt}

\* constants: p = <<n1, d1, n2, d2, ...>> (ArraySem!AConst)
ConstPool == <<
  [sh |-> <<>>,     dt |-> "f", p |-> <<2, 1>>],                          \* 1   2.
  [sh |-> <<>>,     dt |-> "f", p |-> <<1, 2>>],                          \* 2   .5
  [sh |-> <<>>,     dt |-> "f", p |-> <<-1, 1>>],                         \* 3   -1.
  [sh |-> <<2>>,    dt |-> "f", p |-> <<1, 1, 2, 1>>],                    \* 4   [1., 2.]
  [sh |-> <<2>>,    dt |-> "f", p |-> <<-1, 1, 1, 2>>],                   \* 5   [-1., .5]
  [sh |-> <<2, 2>>, dt |-> "f", p |-> <<1, 1, 2, 1, 3, 1, 5, 1>>],        \* 6   [[1., 2.], [3., 5.]]
  [sh |-> <<3>>,    dt |-> "f", p |-> <<1, 1, 0, 1, 2, 1>>],              \* 7   [1., 0., 2.]
  [sh |-> <<>>,     dt |-> "i", p |-> <<2, 1>>],                          \* 8   2
  [sh |-> <<2>>,    dt |-> "i", p |-> <<1, 1, 2, 1>>],                    \* 9   [1, 2]
  [sh |-> <<>>,     dt |-> "f", p |-> <<3, 1>>],                          \* 10  3.
  [sh |-> <<2, 2>>, dt |-> "i", p |-> <<0, 1, 1, 1, 1, 1, 0, 1>>],        \* 11  [[0, 1], [1, 0]]
  [sh |-> <<3>>,    dt |-> "i", p |-> <<1, 1, 1, 1, 2, 1>>] >>            \* 12  [1, 1, 2]
ConstIds == 1..Len(ConstPool)

\* the tiny mesh: mesh.line(2), std degree-1 basis (NB functions), Gauss degree 1 = midpoints (NP points), weights 1
NP == 2
NB == 3
Half == DOf(Norm(1, 2))
PhiAt(e, b) == IF b = e \/ b = e + 1 THEN Half ELSE DZero      \* basis function b at the midpoint of element e (0-based)
BasisIntegral == [sh |-> <<NB>>, v |-> <<Half, DOne, Half>>]   \* integral of the basis: mode "integral" of Eval

\* eager tuple <<G(i), .., G(n)>>: TLC evaluates [i \in S |-> ..] lazily and re-evaluates the body on every application;
\* Force makes every array an explicit tuple so that each node of a program is evaluated once
RECURSIVE SeqTab(_, _, _, _)
SeqTab(G(_), i, n, acc) == IF i > n THEN acc ELSE SeqTab(G, i + 1, n, Append(acc, G(i)))
Force(a) == [sh |-> a.sh, v |-> SeqTab(LAMBDA i : a.v[i], 1, Prod(a.sh), <<>>)]

\* argument values: three assignments (g = 1, 2, 3) and an alternative (g = 4) for dependence tests; exact dyadics
ValOf(g, a, kk) == LET num == ((3 * a + 5 * g + 3 * kk) % 7) - 2      \* (varies with the position kk: no symmetric arrays)
                       den == IF ArgPool[a].dt = "f" /\ (a + g + kk) % 2 = 0 THEN 2 ELSE 1
                   IN DOf(Norm(num, den))
ArgValRaw(g, a) == [sh |-> ArgPool[a].sh, v |-> SeqTab(LAMBDA kk : ValOf(g, a, kk), 1, Prod(ArgPool[a].sh), <<>>)]
EnvRaw(g) == SeqTab(LAMBDA a : ArgValRaw(g, a), 1, Len(ArgPool), <<>>)
\* a constant-level tuple: TLC evaluates it once when it processes the definitions (the assignments are looked up, not recomputed)
EnvTab == <<EnvRaw(1), EnvRaw(2), EnvRaw(3), EnvRaw(4)>>
Env(g) == EnvTab[g]
ArgVal(g, a) == EnvTab[g][a]
GoodAsg == {1, 2, 3}

\* wrong shapes offered at call time for an argument of shape sh (broadcastable ones first)
BadShapes(sh) == IF sh = <<>> THEN << <<1>>, <<2>> >>
                 ELSE IF sh = <<2>> THEN << <<>>, <<1>>, <<1, 2>>, <<3>>, <<2, 1>> >>
                 ELSE IF sh = <<3>> THEN << <<>>, <<1>>, <<2>> >>
                 ELSE << <<2>>, <<>>, <<1, 2>>, <<2, 1>>, <<4>> >>

\* ------------------------------------------------------------------ nodes
Node(op, d, p, k, sh, dt, sp, fv, dg, nd) ==
    [op |-> op, d |-> d, p |-> p, k |-> k, sh |-> sh, dt |-> dt, sp |-> sp, fv |-> fv, dg |-> dg, nd |-> nd]
ArgLeaf(a) == Node("Arg", <<>>, <<a>>, "", ArgPool[a].sh, ArgPool[a].dt, FALSE, {a}, 1, 0)
ConstLeaf(c) == Node("Const", <<>>, <<c>>, "", ConstPool[c].sh, ConstPool[c].dt, FALSE, {}, 0, 0)
FieldLeaf(a) == Node("Field", <<>>, <<a>>, "", <<>>, "f", TRUE, {a}, 1, 0)

L == Len(prog)
Nd(i) == prog[i]
IsLeaf(n) == Len(n.d) = 0
IsManip(n) == n.op \in {"Replace", "Lin", "Deriv", "Factor", "Int"}
IsBase(n) == ~IsLeaf(n) /\ ~IsManip(n)
NBase == Cardinality({i \in 1..L : IsBase(Nd(i))})
UsedIn(P, i) == \E q \in (i + 1)..Len(P) : \E jj \in 1..Len(P[q].d) : P[q].d[jj] = i
Unused == {i \in 1..L : ~UsedIn(prog, i)}
NFree == Cardinality({i \in 1..L : IsLeaf(Nd(i))}) \* leaves (including those of replacement values)
Rank(i) == Len(Nd(i).sh)
MaxI(a, b) == IF a > b THEN a ELSE b
PromDt(a, b) == IF a = "f" \/ b = "f" THEN "f" ELSE "i"
Idle == res.verdict = "NONE"

\* ------------------------------------------------------------------ denotation
Tail2(s) == SubSeq(s, 2, Len(s))
Pts(b) == MkArr(<<NP>> \o b.sh, LAMBDA idx : At(b, Tail2(idx)))     \* broadcast over the sample points
ZeroT(a) == [sh |-> a.sh, v |-> [i \in 1..Len(a.v) |-> IF DIsBad(a.v[i]) THEN DBad ELSE <<a.v[i][1], RZero>>]]
WithT(a, dir) == [sh |-> a.sh, v |-> [i \in 1..Len(a.v) |-> IF DIsBad(a.v[i]) \/ DIsBad(dir.v[i]) THEN DBad ELSE <<a.v[i][1], dir.v[i][1]>>]]
UnitT(a, pos) == [sh |-> a.sh, v |-> [i \in 1..Len(a.v) |-> IF DIsBad(a.v[i]) THEN DBad ELSE <<a.v[i][1], IF i = pos THEN ROne ELSE RZero>>]]
TangentOf(x) == IF DIsBad(x) \/ IsBad(x[2]) THEN DBad ELSE <<x[2], RZero>>

\* binary operation with NumPy broadcasting of scalars and of point-independent operands over the sample points
BinB(a, na, b, nb, Op(_, _)) ==
    IF na.sh = nb.sh THEN
         (IF na.sp = nb.sp THEN Map2(a, b, Op) ELSE IF na.sp THEN Map2(a, Pts(b), Op) ELSE Map2(Pts(a), b, Op))
    ELSE IF na.sh = <<>> THEN
         (IF ~na.sp THEN Map1(b, LAMBDA y : Op(a.v[1], y))
          ELSE IF nb.sp THEN MkArr(b.sh, LAMBDA idx : Op(At(a, <<idx[1]>>), At(b, idx)))
          ELSE MkArr(<<NP>> \o b.sh, LAMBDA idx : Op(At(a, <<idx[1]>>), At(b, Tail2(idx)))))
    ELSE (IF ~nb.sp THEN Map1(a, LAMBDA x : Op(x, b.v[1]))
          ELSE IF na.sp THEN MkArr(a.sh, LAMBDA idx : Op(At(a, idx), At(b, <<idx[1]>>)))
          ELSE MkArr(<<NP>> \o a.sh, LAMBDA idx : Op(At(a, Tail2(idx)), At(b, <<idx[1]>>))))

\* numpy.matmul for ranks 1 and 2
ADot(a, b) == LET nc == SLast(a.sh) na == Len(a.sh) - 1 IN
    MkArr(SFront(a.sh) \o Tail2(b.sh),
          LAMBDA idx : FoldSeq(DAdd, DZero, [c \in 1..nc |-> DMul(At(a, Append(Pre(idx, na), c - 1)), At(b, <<c - 1>> \o Post(idx, na)))], 1))
AOuter(a, b) == MkArr(a.sh \o b.sh, LAMBDA idx : DMul(At(a, Pre(idx, Len(a.sh))), At(b, Post(idx, Len(a.sh)))))
ATakeFirst(a, i, sp) == IF sp THEN MkArr(<<NP>> \o SubSeq(a.sh, 3, Len(a.sh)), LAMBDA idx : At(a, <<idx[1], i>> \o Tail2(idx)))
                        ELSE MkArr(Tail2(a.sh), LAMBDA idx : At(a, <<i>> \o idx))
AField(x) == MkArr(<<NP>>, LAMBDA idx : DMul(Half, DAdd(At(x, <<idx[1]>>), At(x, <<idx[1] + 1>>))))
\* quadrature: sum over the NP midpoints (weight 1), optionally against the NB basis functions (new last axis)
AIntegral(f, withbasis) ==
    IF withbasis THEN MkArr(Append(Tail2(f.sh), NB),
                            LAMBDA idx : FoldSeq(DAdd, DZero, [e \in 1..NP |-> DMul(PhiAt(e - 1, SLast(idx)), At(f, <<e - 1>> \o SFront(idx)))], 1))
    ELSE MkArr(Tail2(f.sh), LAMBDA idx : FoldSeq(DAdd, DZero, [e \in 1..NP |-> At(f, <<e - 1>> \o idx)], 1))

\* eager tuple of the argument arrays after applying U to every argument id (forces evaluation, unlike [a \in S |-> ..])
RECURSIVE EnvMapFrom(_, _, _)
EnvMapFrom(U(_), a, acc) == IF a > NArgs THEN acc ELSE EnvMapFrom(U, a + 1, Append(acc, U(a)))
EnvMap(U(_)) == EnvMapFrom(U, 1, <<>>)

PosOf(seq, x) == CHOOSE i \in 1..Len(seq) : seq[i] = x
InSeq(seq, x) == \E i \in 1..Len(seq) : seq[i] = x
\* pairs <<x1, v1, x2, v2, ..>> of a Lin node
LinXs(p) == {p[2 * i - 1] : i \in 1..(Len(p) \div 2)}
LinDir(p, x) == p[2 * (CHOOSE i \in 1..(Len(p) \div 2) : p[2 * i - 1] = x)]

RECURSIVE EvF(_, _, _)
\* the documented, simultaneous substitution: every replacement value is evaluated in the OUTER environment
ReplaceSim(N, n, env) ==
    EvF(N, n.d[1], EnvMap(LAMBDA a : IF InSeq(n.p, a) THEN EvF(N, n.d[PosOf(n.p, a) + 1], env) ELSE env[a]))
\* spec mutant: pairs applied one after the other, each as a replacement of its own (later pairs act on earlier values)
RECURSIVE ReplaceSeq(_, _, _, _)
ReplaceSeq(N, n, i, env) ==
    IF i = 0 THEN EvF(N, n.d[1], env)
    ELSE ReplaceSeq(N, n, i - 1, EnvMap(LAMBDA a : IF a = n.p[i] THEN EvF(N, n.d[i + 1], env) ELSE env[a]))
LinVal(N, n, env) ==
    LET seeded == EnvMap(LAMBDA a : IF a \in LinXs(n.p)
                                    THEN (IF Mutant = "lin-unit-seed" THEN UnitT(env[a], 1) ELSE WithT(env[a], env[LinDir(n.p, a)]))
                                    ELSE ZeroT(env[a]))
    IN Map1(EvF(N, n.d[1], seeded), TangentOf)
DerivOf(N, f, x, env) ==
    LET nx == Prod(ArgPool[x].sh)
        cols == SeqTab(LAMBDA pos : EvF(N, f, EnvMap(LAMBDA a : IF a = x THEN UnitT(env[a], pos) ELSE ZeroT(env[a]))), 1, nx, <<>>)
        fsh == cols[1].sh
    IN MkArr(fsh \o ArgPool[x].sh, LAMBDA idx : TangentOf(At(cols[Flat(Post(idx, Len(fsh)), ArgPool[x].sh) + 1], Pre(idx, Len(fsh)))))
EvF(N, i, env) ==
  LET n == N[i]
      op == n.op
      A(q) == EvF(N, n.d[q], env)
      M(q) == N[n.d[q]]
  IN Force(
     CASE op = "Arg" -> env[n.p[1]]
       [] op = "Const" -> AConst(n.sh, ConstPool[n.p[1]].p)
       [] op = "Field" -> AField(env[n.p[1]])
       [] op = "Add" -> BinB(A(1), M(1), A(2), M(2), DAdd)
       [] op = "Mul" -> BinB(A(1), M(1), A(2), M(2), DMul)
       [] op = "Neg" -> Map1(A(1), DNeg)
       [] op = "Pow" -> Map1(A(1), LAMBDA x : DPow(x, DInt(n.p[1])))
       [] op = "Sum" -> AReduceLast(A(1), DAdd, DZero)
       [] op = "Dot" -> ADot(A(1), A(2))
       [] op = "Outer" -> AOuter(A(1), A(2))
       [] op = "Take" -> ATakeFirst(A(1), n.p[1], M(1).sp)
       [] op = "Int" -> AIntegral(A(1), n.p[1] = 1)
       [] op = "Replace" -> IF Mutant = "sequential" THEN ReplaceSeq(N, n, Len(n.p), env) ELSE ReplaceSim(N, n, env)
       [] op = "Lin" -> LinVal(N, n, env)
       [] op = "Deriv" -> DerivOf(N, n.d[1], n.p[1], env)
       [] op = "Factor" -> IF Mutant = "factor-drops-constant" THEN Map2(A(1), EvF(N, n.d[1], EnvMap(LAMBDA a : Map1(env[a], LAMBDA x : DZero))), DSub) ELSE A(1)
       [] OTHER -> Assert(FALSE, <<"Subst: unknown op", op>>))

Primal(a) == [sh |-> a.sh, v |-> [i \in 1..Len(a.v) |-> a.v[i][1]]]
AnyBad(a) == \E i \in 1..Len(a.v) : DIsBad(a.v[i])
ModelShape(n) == IF n.sp THEN <<NP>> \o n.sh ELSE n.sh

\* ------------------------------------------------------------------ typing and construction
Push(n) == prog' = Append(prog, n)
Pairs == {ij \in (1..L) \X (1..L) : ij[1] = L \/ ij[2] = L}
DegOK(d) == d <= F.maxdeg

AddLeaf == /\ Idle /\ (NBase < F.maxops \/ L = 0) /\ Cardinality(Unused) <= 1 /\ NFree < F.maxleaves
           /\ \/ \E a \in F.args : Push(ArgLeaf(a))
              \/ \E c \in F.consts : Push(ConstLeaf(c))
              \/ \E a \in F.fields : Push(FieldLeaf(a))
           /\ UNCHANGED <<fam, nman, res>>

BinaryOp(op) ==
    /\ op \in F.ops
    /\ \E ij \in Pairs :
         LET a == Nd(ij[1]) b == Nd(ij[2]) IN
         /\ a.sh = b.sh \/ a.sh = <<>> \/ b.sh = <<>>
         /\ ij[2] = L                      \* Add and Mul are commutative: one operand order
         /\ DegOK(IF op = "Add" THEN MaxI(a.dg, b.dg) ELSE a.dg + b.dg)
         /\ Push(Node(op, <<ij[1], ij[2]>>, <<>>, "", IF a.sh = <<>> THEN b.sh ELSE a.sh, PromDt(a.dt, b.dt), a.sp \/ b.sp,
                      a.fv \cup b.fv, IF op = "Add" THEN MaxI(a.dg, b.dg) ELSE a.dg + b.dg, MaxI(a.nd, b.nd)))
UnaryNeg == /\ "Neg" \in F.ops /\ L >= 1
            /\ Push(Node("Neg", <<L>>, <<>>, "", Nd(L).sh, Nd(L).dt, Nd(L).sp, Nd(L).fv, Nd(L).dg, Nd(L).nd))
UnaryPow == /\ "Pow" \in F.ops /\ L >= 1
            /\ \E e \in {2, 3} : /\ DegOK(e * Nd(L).dg) /\ Nd(L).dg >= 1
                                 /\ Push(Node("Pow", <<L>>, <<e>>, "", Nd(L).sh, Nd(L).dt, Nd(L).sp, Nd(L).fv, e * Nd(L).dg, Nd(L).nd))
UnarySum == /\ "Sum" \in F.ops /\ L >= 1 /\ Rank(L) >= 1
            /\ Push(Node("Sum", <<L>>, <<>>, "", SFront(Nd(L).sh), Nd(L).dt, Nd(L).sp, Nd(L).fv, Nd(L).dg, Nd(L).nd))
UnaryTake == /\ "Take" \in F.ops /\ L >= 1 /\ Rank(L) >= 1
             /\ \E i \in 0..(Nd(L).sh[1] - 1) :
                  Push(Node("Take", <<L>>, <<i>>, "", Tail2(Nd(L).sh), Nd(L).dt, Nd(L).sp, Nd(L).fv, Nd(L).dg, Nd(L).nd))
DotOp == /\ "Dot" \in F.ops
         /\ \E ij \in Pairs :
              LET a == Nd(ij[1]) b == Nd(ij[2]) IN
              /\ ~a.sp /\ ~b.sp /\ Len(a.sh) \in {1, 2} /\ Len(b.sh) \in {1, 2} /\ SLast(a.sh) = b.sh[1]
              /\ DegOK(a.dg + b.dg)
              /\ Push(Node("Dot", <<ij[1], ij[2]>>, <<>>, "", SFront(a.sh) \o Tail2(b.sh), PromDt(a.dt, b.dt), FALSE,
                           a.fv \cup b.fv, a.dg + b.dg, MaxI(a.nd, b.nd)))
OuterOp == /\ "Outer" \in F.ops
           /\ \E ij \in Pairs :
                LET a == Nd(ij[1]) b == Nd(ij[2]) IN
                /\ ~a.sp /\ ~b.sp /\ Len(a.sh) = 1 /\ Len(b.sh) = 1 /\ a.sh = <<2>> /\ b.sh = <<2>>
                /\ DegOK(a.dg + b.dg)
                /\ Push(Node("Outer", <<ij[1], ij[2]>>, <<>>, "", a.sh \o b.sh, PromDt(a.dt, b.dt), FALSE,
                             a.fv \cup b.fv, a.dg + b.dg, MaxI(a.nd, b.nd)))
AddOp == /\ Idle /\ L >= 1 /\ NBase < F.maxops
         /\ \/ BinaryOp("Add") \/ BinaryOp("Mul") \/ UnaryNeg \/ UnaryPow \/ UnarySum \/ UnaryTake \/ DotOp \/ OuterOp
         /\ UNCHANGED <<fam, nman, res>>

\* ---- replacement values: small expressions in other arguments, given as node lists relative to position `base`
\* (positions base+1 ..); the last node of the list is the value.  `x` is the argument replaced.
Seq1(a) == <<a>>
ScaleBy(c, a, base) == <<ConstLeaf(c), ArgLeaf(a),
                         Node("Mul", <<base + 1, base + 2>>, <<>>, "", ArgPool[a].sh, ArgPool[a].dt, FALSE, {a}, 1, 0)>>
ValueNodes(kind, x, y, z, base) ==
    CASE kind = "id" -> <<ArgLeaf(x)>>
      [] kind = "arg" -> <<ArgLeaf(y)>>
      [] kind = "const" -> <<ConstLeaf(y)>>                      \* y: constant id of the right shape and dtype
      [] kind = "scale" -> ScaleBy(IF ArgPool[x].dt = "f" THEN 2 ELSE 8, y, base)      \* c * y
      [] kind = "self" -> ScaleBy(IF ArgPool[x].dt = "f" THEN 1 ELSE 8, x, base)       \* c * x: no recursion
      [] kind = "sum2" -> <<ArgLeaf(y), ArgLeaf(z),
                            Node("Add", <<base + 1, base + 2>>, <<>>, "", ArgPool[x].sh, ArgPool[x].dt, FALSE, {y, z}, 1, 0)>>
      [] kind = "sq" -> <<ArgLeaf(y), Node("Pow", <<base + 1>>, <<2>>, "", ArgPool[x].sh, ArgPool[x].dt, FALSE, {y}, 2, 0)>>
      [] kind = "mix" -> <<ArgLeaf(y), ArgLeaf(x),                                     \* y * x
                           Node("Mul", <<base + 1, base + 2>>, <<>>, "", ArgPool[x].sh, ArgPool[x].dt, FALSE, {x, y}, 2, 0)>>
      [] kind = "contract" ->                                                          \* a value of x's shape from arguments of OTHER shapes
           IF ArgPool[x].sh = <<>> THEN <<ArgLeaf(1), ArgLeaf(2), Node("Dot", <<base + 1, base + 2>>, <<>>, "", <<>>, "f", FALSE, {1, 2}, 2, 0)>>
           ELSE IF ArgPool[x].sh = <<2>> THEN <<ArgLeaf(7), ArgLeaf(y), Node("Dot", <<base + 1, base + 2>>, <<>>, "", <<2>>, "f", FALSE, {7, y}, 2, 0)>>
           ELSE IF ArgPool[x].sh = <<2, 2>> THEN <<ArgLeaf(1), ArgLeaf(2), Node("Outer", <<base + 1, base + 2>>, <<>>, "", <<2, 2>>, "f", FALSE, {1, 2}, 2, 0)>>
           ELSE <<ArgLeaf(4), ArgLeaf(y), Node("Mul", <<base + 1, base + 2>>, <<>>, "", <<3>>, "f", FALSE, {4, y}, 2, 0)>>
SingleKinds == {"id", "arg", "const", "scale", "self", "sum2", "sq", "mix", "contract"}
\* choices (y, z) a value kind needs for target x
ValueChoices(kind, x) ==
    CASE kind \in {"id", "self"} -> {<<0, 0>>}
      [] kind = "const" -> {<<c, 0>> : c \in {c \in ConstIds : ConstPool[c].sh = ArgPool[x].sh /\ ConstPool[c].dt = ArgPool[x].dt}}
      [] kind \in {"arg", "scale", "sq", "mix"} -> {<<y, 0>> : y \in Peers(x) \cap F.peers}
      [] kind = "sum2" -> {yz \in (Peers(x) \cap F.peers) \X (Peers(x) \cap F.peers) : yz[1] < yz[2]}
      [] kind = "contract" -> IF ArgPool[x].dt # "f" THEN {}
                              ELSE IF ArgPool[x].sh \in {<<2>>, <<3>>} THEN {<<y, 0>> : y \in Peers(x) \cap F.peers}
                              ELSE IF Len(ArgPool[x].sh) = 3 THEN {} ELSE {<<0, 0>>}
ValueDeg(nodes) == nodes[Len(nodes)].dg
ValueFv(nodes) == nodes[Len(nodes)].fv

\* Replace with the map {x_i |-> value_i}: appends the value expressions, then the Replace node
ReplaceNode(f, xs, vals, kind) ==
    LET fn == Nd(f)
        base(i) == L + (IF i = 1 THEN 0 ELSE Len(vals[1]))
        roots == [i \in 1..Len(xs) |-> base(i) + Len(vals[i])]
        hit == {i \in 1..Len(xs) : xs[i] \in fn.fv}
        newfv == (fn.fv \ {xs[i] : i \in hit}) \cup UNION {ValueFv(vals[i]) : i \in hit}
        maxdg == IF \E i \in hit : ValueDeg(vals[i]) > 1 THEN 2 ELSE 1
    IN Node("Replace", <<f>> \o roots, xs, kind, fn.sh, fn.dt, fn.sp, newfv, fn.dg * maxdg, fn.nd)
Concat2(vals) == IF Len(vals) = 1 THEN vals[1] ELSE vals[1] \o vals[2]

ReplaceSingle ==
    \E kind \in SingleKinds \cap F.rkinds : \E x \in Nd(L).fv : \E yz \in ValueChoices(kind, x) :
       LET vals == <<ValueNodes(kind, x, yz[1], yz[2], L)>>
           node == ReplaceNode(L, <<x>>, vals, kind)
       IN /\ DegOK(node.dg) /\ prog' = prog \o vals[1] \o <<node>>
\* two simultaneous pairs: swap x<->y, chain x->y, y->z (one call), cross x -> 2*y, y -> x*x
ReplaceDouble ==
    \E kind \in {"swap", "chain", "cross"} \cap F.rkinds : \E x \in Nd(L).fv : \E y \in Peers(x) \cap F.peers :
       \E z \in IF kind = "chain" THEN (Peers(x) \cap F.peers) \ {y} ELSE {0} :
       LET v1 == IF kind = "cross" THEN ValueNodes("scale", x, y, 0, L) ELSE ValueNodes("arg", x, y, 0, L)
           b2 == L + Len(v1)
           v2 == IF kind = "swap" THEN ValueNodes("arg", y, x, 0, b2)
                 ELSE IF kind = "chain" THEN ValueNodes("arg", y, z, 0, b2)
                 ELSE ValueNodes("sq", y, x, 0, b2)
           node == ReplaceNode(L, <<x, y>>, <<v1, v2>>, kind)
       IN /\ (kind = "cross" => ArgPool[x].dt = "f")
          /\ DegOK(node.dg) /\ prog' = prog \o v1 \o v2 \o <<node>>

\* replacement values that must be refused when the replacement is constructed
\* the K smallest ids of a set (K = F.nbad bounds the refused values tried per category)
SmallestK(S, k) == {q \in S : Cardinality({r \in S : r < q}) < k}
BadValues(x) ==
    LET fv == Nd(L).fv
        K == IF F.nbad = 0 THEN 1 ELSE F.nbad IN
    {[x |-> x, kind |-> "const-shape", id |-> c] : c \in SmallestK({c \in ConstIds : ConstPool[c].sh # ArgPool[x].sh /\ ConstPool[c].dt = ArgPool[x].dt}, K)}
    \cup {[x |-> x, kind |-> "const-dtype", id |-> c] : c \in SmallestK({c \in ConstIds : ConstPool[c].sh = ArgPool[x].sh /\ ConstPool[c].dt # ArgPool[x].dt}, K)}
    \cup {[x |-> x, kind |-> "argobj-shape", id |-> b] : b \in SmallestK({b \in ArgIds : ArgPool[b].sh # ArgPool[x].sh /\ ArgPool[b].dt = ArgPool[x].dt}, K)}
    \cup {[x |-> x, kind |-> "argobj-dtype", id |-> b] : b \in SmallestK({b \in ArgIds : ArgPool[b].sh = ArgPool[x].sh /\ ArgPool[b].dt # ArgPool[x].dt}, K)}
    \* by NAME an argument takes the shape of the one it replaces: refusal is demanded only when the function
    \* already has an argument of that name with another shape or dtype
    \cup {[x |-> x, kind |-> "name-clash", id |-> b] : b \in {b \in fv \ {x} : ArgPool[b].sh # ArgPool[x].sh \/ ArgPool[b].dt # ArgPool[x].dt}}
NoRes == [verdict |-> "NONE", stage |-> "", asg |-> 0, mode |-> "", bad |-> [x |-> 0, kind |-> "", id |-> 0],
          badsh |-> <<>>, val |-> [sh |-> <<>>, v |-> <<>>]]
ReplaceBad == /\ "bad" \in F.rkinds /\ L >= 1
              /\ \E x \in Nd(L).fv : \E b \in BadValues(x) :
                   res' = [NoRes EXCEPT !.verdict = "REJECT", !.stage = "construct", !.bad = b]
              /\ UNCHANGED <<prog, fam, nman>>

LinNode(f, p) == LET fn == Nd(f) IN
    Node("Lin", <<f>>, p, "", fn.sh, fn.dt, fn.sp, fn.fv \cup {p[i] : i \in 1..Len(p)}, fn.dg, fn.nd + 1)
Linearize ==
    /\ "Lin" \in F.manips /\ Nd(L).nd = 0 /\ Nd(L).dt = "f"
    /\ \/ \E x \in {a \in Nd(L).fv : ArgPool[a].dt = "f"} : \E v \in Peers(x) \cap F.peers : Push(LinNode(L, <<x, v>>))
       \/ \E x \in {a \in Nd(L).fv : ArgPool[a].dt = "f"} : \E y \in {a \in Nd(L).fv : ArgPool[a].dt = "f" /\ a > x} :
            \E v \in Peers(x) \cap F.peers : \E w \in Peers(y) \cap F.peers :
               /\ "Lin2" \in F.manips /\ v # y /\ w # x
               /\ Push(LinNode(L, <<x, v, y, w>>))
Derive ==
    /\ "Deriv" \in F.manips /\ Nd(L).nd = 0 /\ Nd(L).dt = "f"
    /\ \E x \in {a \in Nd(L).fv \cup (F.peers \cap {2}) : ArgPool[a].dt = "f"} :
         /\ Prod(Nd(L).sh) * Prod(ArgPool[x].sh) <= 16 /\ Len(Nd(L).sh) + Len(ArgPool[x].sh) <= 3
         /\ Push(Node("Deriv", <<L>>, <<x>>, "", Nd(L).sh \o ArgPool[x].sh, "f", Nd(L).sp, Nd(L).fv \cup {x}, Nd(L).dg, Nd(L).nd + 1))
\* factor needs a polynomial in float arguments that is not bound to the mesh
Factorize ==
    /\ "Factor" \in F.manips /\ ~Nd(L).sp /\ Nd(L).dt = "f" /\ \A a \in Nd(L).fv : ArgPool[a].dt = "f"
    /\ Push(Node("Factor", <<L>>, <<>>, "", Nd(L).sh, Nd(L).dt, FALSE, Nd(L).fv, Nd(L).dg, Nd(L).nd))
Integrate ==
    /\ "Int" \in F.manips /\ Nd(L).sp /\ Len(Nd(L).sh) <= 1
    /\ \E wb \in {0, 1} : Push(Node("Int", <<L>>, <<wb>>, "", IF wb = 1 THEN Append(Nd(L).sh, NB) ELSE Nd(L).sh, Nd(L).dt, FALSE,
                                    Nd(L).fv, Nd(L).dg, Nd(L).nd))
\* one manipulation of the function built so far (the last node)
Manip(Act) == /\ Idle /\ L >= 1 /\ nman < F.maxman /\ Act
              /\ nman' = nman + 1 /\ UNCHANGED <<fam, res>>
DoReplaceSingle == "Replace" \in F.manips /\ Manip(ReplaceSingle)
DoReplaceDouble == "Replace" \in F.manips /\ Manip(ReplaceDouble)
\* (a conjunction, not a bare Manip(..): TLC names coverage entries after the outermost definition that is not a mere application)
DoLinearize == "Lin" \in F.manips /\ Manip(Linearize)
DoDerive == "Deriv" \in F.manips /\ Manip(Derive)
DoFactorize == "Factor" \in F.manips /\ Manip(Factorize)
DoIntegrate == "Int" \in F.manips /\ Manip(Integrate)
DoReplaceBad == Idle /\ "Replace" \in F.manips /\ nman < F.maxman /\ ReplaceBad

\* ------------------------------------------------------------------ evaluation
Complete == L >= 1 /\ Unused = {L} /\ ~Nd(L).sp
Value(g) == EvF(prog, L, Env(g))
\* argument a certainly influences the value: then a wrongly shaped value for it cannot be ignored
Depends(a) == \E g \in GoodAsg : LET v0 == Value(g)
                                     v1 == EvF(prog, L, [Env(g) EXCEPT ![a] = ArgVal(4, a)])
                                 IN ~AnyBad(v0) /\ ~AnyBad(v1) /\ Primal(v0) # Primal(v1)
GoodOutcome(g, mode) ==
    LET v == IF mode = "integral" THEN AOuter(Value(g), BasisIntegral) ELSE Value(g) IN
    [NoRes EXCEPT !.verdict = IF AnyBad(v) THEN "UNDEF" ELSE "VALUE", !.stage = "call", !.asg = g, !.mode = mode,
                  !.val = IF AnyBad(v) THEN NoRes.val ELSE Proj(v)]
BadOutcome(a, dep, kind, bsh) ==
    [NoRes EXCEPT !.verdict = IF dep THEN "REJECT" ELSE "ANY", !.stage = "call", !.asg = 1, !.mode = "direct",
                  !.bad = [x |-> a, kind |-> kind, id |-> 0], !.badsh = bsh]
EvalGood == \E g \in GoodAsg \cap F.asgs : \E mode \in (IF g = 1 THEN {"direct", "integral"} ELSE {"direct"}) :
               /\ (mode = "integral" => Len(Nd(L).sh) <= 2)
               /\ res' = GoodOutcome(g, mode)
EvalBad == /\ F.nbad > 0
           /\ \E a \in Nd(L).fv :
                LET dep == Depends(a) IN
                \/ \E q \in 1..Len(BadShapes(ArgPool[a].sh)) : q <= F.nbad /\ res' = BadOutcome(a, dep, "shape", BadShapes(ArgPool[a].sh)[q])
                \/ res' = BadOutcome(a, dep, IF ArgPool[a].dt = "i" THEN "frac-for-int" ELSE "complex-for-float", ArgPool[a].sh)
CanEval == Idle /\ Complete /\ nman >= F.minman
DoEvalGood == CanEval /\ EvalGood /\ UNCHANGED <<prog, fam, nman>>
DoEvalBad == CanEval /\ EvalBad /\ UNCHANGED <<prog, fam, nman>>

Init == prog = <<>> /\ fam \in 1..Len(Families) /\ nman = 0 /\ res = NoRes
Next == \/ AddLeaf \/ AddOp
        \/ DoReplaceSingle \/ DoReplaceDouble \/ DoReplaceBad \/ DoLinearize \/ DoDerive \/ DoFactorize \/ DoIntegrate
        \/ DoEvalGood \/ DoEvalBad
Spec == Init /\ [][Next]_vars

\* ------------------------------------------------------------------ internal invariants (model-level lemmas)
TestAsg == {1, 2}
Same(a, b) == a.sh = b.sh /\ (AnyBad(a) \/ AnyBad(b) \/ Primal(a) = Primal(b))
LastIs(op) == Idle /\ L >= 1 /\ Nd(L).op = op
ScaleArr(c, a) == Map1(a, LAMBDA x : DMul(DInt(c), x))

ShapeSound == (Idle /\ L >= 1) => Value(1).sh = ModelShape(Nd(L))
\* fv is an upper bound of the arguments the value depends on (it decides which wrong values must be refused)
FvSound == (Idle /\ L >= 1) => \A a \in (F.args \cup F.peers \cup F.fields) \ Nd(L).fv : Same(Value(1), EvF(prog, L, [Env(1) EXCEPT ![a] = ArgVal(4, a)]))
\* replacing every argument by itself is a no-op
ReplaceIdNoop == (LastIs("Replace") /\ Nd(L).k = "id") => \A g \in TestAsg : Same(Value(g), EvF(prog, Nd(L).d[1], Env(g)))
\* substitution lemma for renamings (arg, swap, chain): the value is that of f in the environment read THROUGH the map
Renaming == LastIs("Replace") /\ Nd(L).k \in {"arg", "swap", "chain"}
Through(n, env) == [a \in ArgIds |-> IF InSeq(n.p, a) THEN env[prog[n.d[PosOf(n.p, a) + 1]].p[1]] ELSE env[a]]
SubstLemma == Renaming => \A g \in TestAsg : Same(Value(g), EvF(prog, Nd(L).d[1], Through(Nd(L), Env(g))))
\* x->y then y->z in two calls sends BOTH x and y to z; in one call x goes to y (chain relation)
TwoStep == LastIs("Replace") /\ Nd(L).k = "arg" /\ Nd(Nd(L).d[1]).op = "Replace" /\ Nd(Nd(L).d[1]).k = "arg"
           /\ Nd(L).p[1] = prog[Nd(Nd(L).d[1]).d[2]].p[1]
ChainTwoStep == TwoStep => LET inner == Nd(Nd(L).d[1])
                               x == inner.p[1]
                               y == Nd(L).p[1]
                               z == prog[Nd(L).d[2]].p[1]
                           IN \A g \in TestAsg : Same(Value(g), EvF(prog, inner.d[1], [Env(g) EXCEPT ![x] = Env(g)[z], ![y] = Env(g)[z]]))
\* swapping twice is the identity
SwapTwice == (LastIs("Replace") /\ Nd(L).k = "swap" /\ Nd(Nd(L).d[1]).op = "Replace" /\ Nd(Nd(L).d[1]).k = "swap" /\ Nd(Nd(L).d[1]).p = Nd(L).p)
             => \A g \in TestAsg : Same(Value(g), EvF(prog, Nd(Nd(L).d[1]).d[1], Env(g)))
\* linearize is linear in the direction arguments (when the function itself does not depend on them)
LinFresh == LastIs("Lin") /\ \A i \in 1..(Len(Nd(L).p) \div 2) : Nd(L).p[2 * i] \notin Nd(Nd(L).d[1]).fv /\ Nd(L).p[2 * i] \notin LinXs(Nd(L).p)
LinDirs == {Nd(L).p[2 * i] : i \in 1..(Len(Nd(L).p) \div 2)}
LinLinear == LinFresh => \A g \in TestAsg :
    LET e == Env(g)
        e2 == [a \in ArgIds |-> IF a \in LinDirs THEN ScaleArr(3, e[a]) ELSE e[a]]
        eb == [a \in ArgIds |-> IF a \in LinDirs THEN ArgVal(4, a) ELSE e[a]]
        es == [a \in ArgIds |-> IF a \in LinDirs THEN Map2(e[a], ArgVal(4, a), DAdd) ELSE e[a]]
    IN /\ Same(EvF(prog, L, e2), ScaleArr(3, EvF(prog, L, e)))
       /\ Same(EvF(prog, L, es), Map2(EvF(prog, L, e), EvF(prog, L, eb), DAdd))
\* linearize(f, x:v) is derivative(f, x) contracted with v
LinIsDerivContracted == (LastIs("Lin") /\ Len(Nd(L).p) = 2) => \A g \in TestAsg :
    LET x == Nd(L).p[1]
        dv == DerivOf(prog, Nd(L).d[1], x, Env(g))
        dir == Env(g)[Nd(L).p[2]]
        fsh == ModelShape(Nd(Nd(L).d[1]))
        contracted == MkArr(fsh, LAMBDA idx : FoldSeq(DAdd, DZero, [q \in 1..Len(dir.v) |-> DMul(At(dv, idx \o Unflat(q - 1, dir.sh)), dir.v[q])], 1))
    IN Same(Value(g), contracted)
FactorIdentity == LastIs("Factor") => \A g \in TestAsg : Same(Value(g), EvF(prog, Nd(L).d[1], Env(g)))
FactorIdempotent == (LastIs("Factor") /\ Nd(Nd(L).d[1]).op = "Factor") => \A g \in TestAsg : Same(Value(g), EvF(prog, Nd(Nd(L).d[1]).d[1], Env(g)))
\* a call is refused only because of an argument the function has, and only for a value that is really wrong
RejectSound == (res.verdict = "REJECT" /\ res.stage = "call") =>
                   res.bad.x \in Nd(L).fv /\ (res.bad.kind = "shape" => res.badsh # ArgPool[res.bad.x].sh)

\* ------------------------------------------------------------------ emission
Emit(x) == PrintT(<<"VF", ToJson(x)>>)
RECURSIVE SetSeq(_)
SetSeq(S) == IF S = {} THEN <<>> ELSE LET m == CHOOSE q \in S : \A r \in S : q <= r IN <<m>> \o SetSeq(S \ {m})
\* documented spellings of one abstract map (function._argument_to_array): all must denote the same map.
\* Values that are plain arguments can be given by name; arrays only as objects.
Spellings(n) == IF n.op \notin {"Replace", "Lin"} THEN <<>>
                ELSE IF n.op = "Lin" \/ \A i \in 2..Len(n.d) : prog[n.d[i]].op = "Arg"
                THEN <<"dict-str", "string", "tuple-of-strings", "list-of-pairs", "dict-argument-values", "argument-object-pairs", "mixed-pairs-and-strings", "list-of-strings">>
                ELSE <<"dict-array-values", "list-of-name-array-pairs", "argument-object-array-pairs">>
JNode(n) == [op |-> n.op, d |-> n.d, p |-> n.p, k |-> n.k, sh |-> n.sh, dt |-> n.dt, sp |-> n.sp, fv |-> SetSeq(n.fv), dg |-> n.dg,
             spell |-> Spellings(n)]
EmitDone == ~Idle => Emit([fam |-> fam, nman |-> nman, prog |-> [i \in 1..L |-> JNode(prog[i])], res |-> res])
\* the tables the harness needs to rebuild arguments, constants, values and the mesh quantities (printed once per run)
Tables == [args |-> ArgPool, consts |-> ConstPool,
           envs |-> [g \in 1..4 |-> [a \in ArgIds |-> Proj(ArgVal(g, a))]],
           basisintegral |-> Proj(BasisIntegral), np |-> NP, nb |-> NB]
EmitTables == (prog = <<>> /\ fam = 1) => Emit([tables |-> Tables])
=============================================================================
