------------------------------- MODULE Basis -------------------------------
(***************************************************************************)
(* C12 -- what a nutils basis is, structurally.                            *)
(*                                                                         *)
(* A basis structure is a record                                           *)
(*   ne  : number of elements, elements are 0..ne-1                        *)
(*   nd  : number of basis functions (dofs), dofs are 0..nd-1              *)
(*   ed  : sequence of length ne, ed[e+1] = the dof list of element e (one  *)
(*         entry per row of the coefficient table of e)                    *)
(*   su  : sequence of length nd, su[d+1] = set of elements supporting d   *)
(*   mid : sequence of length ne, mid[e+1] = integer tuple identifying     *)
(*         element e geometrically (doubled midpoint coordinates on a      *)
(*         grid, the vertex tuple of a simplex)                            *)
(*   ifc : set of records [key, a, b, c]: an interface identified by the   *)
(*         integer tuple key (doubled midpoint / facet vertices) between   *)
(*         elements a and b across which all derivatives up to order c of  *)
(*         every basis function are continuous (c = -1: nothing promised)  *)
(*   un  : the set of elements on which the basis functions sum to one     *)
(* This module holds the operators: the relation InverseMaps of the        *)
(* property text, and one operator per basis-deriving construction of      *)
(* nutils.function (MaskedBasis, PrunedBasis, _DiscontinuousPartitionBasis,*)
(* the ravelled tensor product of StructuredBasis, util.merge_index_map).  *)
(***************************************************************************)
EXTENDS Naturals, Integers, Sequences, FiniteSets, TLC

CONSTANT Mutant      \* "none", or the name of a deliberately wrong variant of one operator (shows the invariants bite)

BSet(s) == {s[i] : i \in 1..Len(s)}
BMin(S) == CHOOSE x \in S : \A y \in S : x <= y
BMax(S) == CHOOSE x \in S : \A y \in S : x >= y
BRank(S, x) == Cardinality({y \in S : y < x})
BSorted(S) == TLCEval([i \in 1..Cardinality(S) |-> CHOOSE x \in S : BRank(S, x) = i-1])   \* TLCEval: tabulate once

BElems(b) == 0..b.ne-1
BDofs(b) == 0..b.nd-1

(* get_support computed from get_dofs, Basis._computed_support *)
BSupp(ne, nd, ed) == TLCEval([d \in 1..nd |-> {e \in 0..ne-1 : (d-1) \in BSet(ed[e+1])}])

BWellFormed(b) ==
    /\ b.ne \in Nat /\ b.nd \in Nat
    /\ Len(b.ed) = b.ne /\ Len(b.su) = b.nd /\ Len(b.mid) = b.ne
    /\ \A e \in 1..b.ne : BSet(b.ed[e]) \subseteq BDofs(b)
    /\ \A d \in 1..b.nd : b.su[d] \subseteq BElems(b)
    /\ \A i \in b.ifc : i.a \in BElems(b) /\ i.b \in BElems(b) /\ i.c >= -1
    /\ \A i, j \in b.ifc : i.key = j.key => i = j
    /\ b.un \subseteq BElems(b)

(* the dof-to-elements and element-to-dofs maps are mutual inverses *)
BInverseMaps(b) == \A e \in BElems(b), d \in BDofs(b) : (d \in BSet(b.ed[e+1])) <=> (e \in b.su[d+1])

(* every function of a basis built on a topology is non-zero somewhere *)
BNoDeadDof(b) == \A d \in 1..b.nd : b.su[d] # {}

(* the same thing as a basis over elements only (no geometry) *)
BBlocks(ne, k) ==   \* ne elements with k private functions each (DiscontBasis with uniform references)
    [ne |-> ne, nd |-> ne*k,
     ed |-> TLCEval([e \in 1..ne |-> [i \in 1..k |-> (e-1)*k + i-1]]),
     su |-> TLCEval([d \in 1..ne*k |-> {(d-1) \div k}])]

---------------------------------------------------------------------------
(* MaskedBasis(parent, K): the order preserving subset K of the functions *)
MaskOp(b, K) ==
    LET ks == BSorted(K) IN
    [ne |-> b.ne, nd |-> Cardinality(K),
     ed |-> TLCEval([e \in 1..b.ne |-> LET kept == SelectSeq(b.ed[e], LAMBDA d : d \in K)
                                       IN [i \in 1..Len(kept) |-> BRank(K, kept[i])]]),
     su |-> TLCEval([k \in 1..Cardinality(K) |-> IF Mutant = "mask-supp" THEN b.su[k] ELSE b.su[ks[k]+1]]),
     mid |-> b.mid, ifc |-> b.ifc,
     un |-> {e \in b.un : BSet(b.ed[e+1]) \subseteq K}]

(* PrunedBasis(parent, E): the elements E (a SubsetTopology), the functions that live on them *)
PruneOp(b, E) ==
    LET es == BSorted(E)
        D == UNION {BSet(b.ed[e+1]) : e \in E}
        ds == BSorted(D) IN
    [ne |-> Cardinality(E), nd |-> Cardinality(D),
     ed |-> TLCEval([k \in 1..Cardinality(E) |-> [i \in 1..Len(b.ed[es[k]+1]) |-> BRank(D, b.ed[es[k]+1][i])]]),
     su |-> TLCEval([j \in 1..Cardinality(D) |-> {BRank(E, e) : e \in b.su[ds[j]+1] \cap E}]),
     mid |-> TLCEval([k \in 1..Cardinality(E) |-> b.mid[es[k]+1]]),
     ifc |-> {[key |-> i.key, a |-> BRank(E, i.a), b |-> BRank(E, i.b), c |-> i.c] : i \in {j \in b.ifc : j.a \in E /\ j.b \in E}},
     un |-> {BRank(E, e) : e \in b.un \cap E}]

(* Basis.discontinuous_at_partition_interfaces(P): P[e+1] = part of element e; every function is clipped to
   every part, the clipped functions are numbered by (part, parent dof) *)
BPairLess(x, y) == x[1] < y[1] \/ (x[1] = y[1] /\ x[2] < y[2])
PartOp(b, P) ==
    LET pairs == UNION {{<<P[e+1], b.ed[e+1][i]>> : i \in 1..Len(b.ed[e+1])} : e \in BElems(b)}
        rank(x) == Cardinality({y \in pairs : BPairLess(y, x)})
        ed == TLCEval([e \in 1..b.ne |-> [i \in 1..Len(b.ed[e]) |-> rank(<<P[e], b.ed[e][i]>>)]])
        nd == Cardinality(pairs) IN
    [ne |-> b.ne, nd |-> nd, ed |-> ed, su |-> BSupp(b.ne, nd, ed), mid |-> b.mid,
     ifc |-> {[key |-> i.key, a |-> i.a, b |-> i.b, c |-> IF P[i.a+1] = P[i.b+1] THEN i.c ELSE -1] : i \in b.ifc},
     un |-> b.un]

(* ravel(basis1[:,newaxis] * basis2): StructuredBasis in two or more dimensions, Topology.basis on products *)
TensorOp(b1, b2) ==
    [ne |-> b1.ne * b2.ne, nd |-> b1.nd * b2.nd,
     ed |-> TLCEval([k \in 1..b1.ne*b2.ne |->
               LET s1 == b1.ed[((k-1) \div b2.ne) + 1]
                   s2 == b2.ed[((k-1) % b2.ne) + 1]
                   L2 == Len(s2)
               IN [i \in 1..Len(s1)*L2 |-> s1[((i-1) \div L2) + 1] * b2.nd + s2[((i-1) % L2) + 1]]]),
     su |-> TLCEval([k \in 1..b1.nd*b2.nd |-> {e1*b2.ne + e2 : e1 \in b1.su[((k-1) \div b2.nd) + 1], e2 \in b2.su[((k-1) % b2.nd) + 1]}]),
     mid |-> TLCEval([k \in 1..b1.ne*b2.ne |-> b1.mid[((k-1) \div b2.ne) + 1] \o b2.mid[((k-1) % b2.ne) + 1]]),
     ifc |-> {[key |-> i.key \o b2.mid[e2+1], a |-> i.a*b2.ne + e2, b |-> i.b*b2.ne + e2, c |-> i.c] : i \in b1.ifc, e2 \in BElems(b2)}
             \cup {[key |-> b1.mid[e1+1] \o i.key, a |-> e1*b2.ne + i.a, b |-> e1*b2.ne + i.b, c |-> i.c] : e1 \in BElems(b1), i \in b2.ifc},
     un |-> {e1*b2.ne + e2 : e1 \in b1.un, e2 \in b2.un}]

---------------------------------------------------------------------------
(* util.merge_index_map as equivalence class numbering.  sets is a set of sets of indices in 0..nin-1. *)
RECURSIVE BClose(_, _)
BClose(sets, C) == LET N == C \cup UNION {s \in sets : s \cap C # {}} IN IF N = C THEN C ELSE BClose(sets, N)
BClassOf(sets, i) == BClose(sets, {i})
BMergeRep(nin, sets) == TLCEval([i \in 1..nin |-> BMin(BClassOf(sets, i-1))])     \* condense=False: the smallest member
BMergeMap(nin, sets) ==                                                  \* condense=True: classes numbered by smallest member
    LET rep == BMergeRep(nin, sets)
        reps == {rep[i] : i \in 1..nin} IN
    TLCEval([i \in 1..nin |-> BRank(reps, rep[i])])
BMergeCount(nin, sets) == Cardinality({BMin(BClassOf(sets, i)) : i \in 0..nin-1})

(* identify dofs of a basis: the C0 gluing of _basis_c0_structured and MultipatchTopology.basis_spline *)
GlueOp(b, sets) ==
    LET m == BMergeMap(b.nd, sets)
        nd == BMergeCount(b.nd, sets)
        ed == TLCEval([e \in 1..b.ne |-> [i \in 1..Len(b.ed[e]) |-> m[b.ed[e][i]+1]]]) IN
    [ne |-> b.ne, nd |-> nd, ed |-> ed, su |-> BSupp(b.ne, nd, ed)]

=============================================================================
